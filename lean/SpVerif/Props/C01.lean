/-
  C01 — Empty command line reproduces the dataclass defaults at every destination.
  Theorems about `Model/Defaults` by mutual structural induction over the class tree
  (any depth, any width, leaves and dataclass-typed members interleaved).
-/
import SpVerif.Model.Defaults
namespace SpVerif.C01
open SpVerif

/-- a leaf value survives the trip "wrapper default → argparse default (string defaults go through
    `type=`) → postprocess" unchanged -/
def LeafStable (fenv : FEnv) (f : FieldSpec) (v : Val) : Prop :=
  leafEmpty fenv f (some v) false = .ok v

/-- an Optional member left at None parses back to None (its leaves' own defaults are stable) -/
def QuietNone (fenv : FEnv) (t : CTree) : Prop :=
  parseEmptyChild fenv t none .presentNone true true = .ok .nul

/-! "the instance `i` fits the class tree `t`, its leaf values are stable, and every Optional member
    holding None is quiet" — by mutual recursion on the tree; `whole` is the instance the attribute
    look-ups go to (field names are looked up by name, as `getattr` does) -/
mutual
def FitsStable (fenv : FEnv) : CTree → IVal → Prop
  | .mk cls fs, .inst cls' ifs => cls = cls' ∧ FitsStableF fenv fs ifs (.inst cls' ifs)
  | .mk _ _, .nul => False
def FitsStableF (fenv : FEnv) : CFields → IFields → IVal → Prop
  | .nil, .nil, _ => True
  | .leaf f rest, .leaf n v irest, whole =>
    n = f.name ∧ whole.getLeaf f.name = some v ∧ LeafStable fenv f v ∧ FitsStableF fenv rest irest whole
  | .child name optional _ t rest, .sub n v irest, whole =>
    n = name ∧ whole.getSub name = some v ∧
    (match v with
     | .nul => optional = true ∧ QuietNone fenv t
     | .inst c fs => FitsStable fenv t (.inst c fs)) ∧
    FitsStableF fenv rest irest whole
  | _, _, _ => False
end

theorem leafEmpty_opt_irrelevant (fenv : FEnv) (f : FieldSpec) (v : Val) (opt : Bool)
    (h : leafEmpty fenv f (some v) false = .ok v) : leafEmpty fenv f (some v) opt = .ok v := by
  unfold leafEmpty at h ⊢
  simp only at h ⊢
  split
  · rename_i hao; rw [hao] at h; exact h
  · rename_i ao hao
    rw [hao] at h
    simp only at h
    by_cases hr : ao.required = true
    · simp only [hr, Bool.not_false, Bool.and_self, ↓reduceIte] at h; cases h
    · have hr' : ao.required = false := by simpa using hr
      simp only [hr', Bool.false_and, Bool.false_eq_true, ↓reduceIte] at h ⊢
      exact h

/-- the leaves' wrapper defaults recorded for the Optional rule, when they come from an instance -/
def instLeafDefaults : CFields → IVal → List (Str × Val)
  | .nil, _ => []
  | .leaf f rest, whole =>
    (f.name, (match whole.getLeaf f.name with | some v => v | none => .sc .none)) :: instLeafDefaults rest whole
  | .child _ _ _ _ rest, whole => instLeafDefaults rest whole

mutual
/-- **C01 (caller instance / default-factory instance).** If the wrapper's defaults hold an
    instance `i` that fits the tree, parsing the empty command line rebuilds exactly `i` — for every
    nesting depth, for Optional members holding None or an instance, whatever the constructor-chain
    default `pc` is as long as it does not contradict `i`. -/
theorem parseEmpty_instance (fenv : FEnv) (t : CTree) (i : IVal) (pc : Option IVal) (opt : Bool)
    (hpc : pc = none ∨ pc = some i) (h : FitsStable fenv t i) :
    parseEmpty fenv t pc (.present i) opt = .ok i := by
  match t, i, h with
  | .mk cls fs, .inst cls' ifs, h =>
    obtain ⟨hcls, hf⟩ := h
    subst hcls
    simp only [parseEmpty]
    rw [parseEmptyFields_instance fenv fs ifs (.inst cls ifs) pc opt hpc hf]
theorem parseEmptyFields_instance (fenv : FEnv) (fs : CFields) (ifs : IFields) (whole : IVal)
    (pc : Option IVal) (opt : Bool) (hpc : pc = none ∨ pc = some whole)
    (h : FitsStableF fenv fs ifs whole) :
    parseEmptyFields fenv fs pc (.present whole) opt = .ok (ifs, instLeafDefaults fs whole) := by
  match fs, ifs, h with
  | .nil, .nil, _ => simp [parseEmptyFields, instLeafDefaults]
  | .leaf f rest, .leaf n v irest, h =>
    obtain ⟨hn, hget, hst, hrest⟩ := h
    subst hn
    simp only [parseEmptyFields, hget]
    rw [leafEmpty_opt_irrelevant fenv f v opt hst]
    simp only
    rw [parseEmptyFields_instance fenv rest irest whole pc opt hpc hrest]
    simp [instLeafDefaults, hget]
  | .child name optional dflt t rest, .sub n v irest, h =>
    obtain ⟨hn, hget, hv, hrest⟩ := h
    subst hn
    simp only [parseEmptyFields]
    match v, hv, hget with
    | .nul, hv, hget =>
      obtain ⟨hopt, hq⟩ := hv
      unfold QuietNone at hq
      -- the member holds None: both chains say "None", the subtree is quiet
      rcases hpc with rfl | rfl
      · simp only [hget, hopt, Bool.or_true, hq]
        rw [parseEmptyFields_instance fenv rest irest whole none opt (Or.inl rfl) hrest]
        simp [instLeafDefaults]
      · simp only [hget, hopt, Bool.or_true, hq]
        rw [parseEmptyFields_instance fenv rest irest whole (some whole) opt (Or.inr rfl) hrest]
        simp [instLeafDefaults]
    | .inst c cfs, hv, hget =>
      have hchild : ∀ pcC : Option IVal, (pcC = none ∨ pcC = some (.inst c cfs)) →
          parseEmptyChild fenv t pcC (.present (.inst c cfs)) (opt || optional) optional = .ok (.inst c cfs) :=
        fun pcC hp => parseEmptyChild_instance fenv t (.inst c cfs) pcC (opt || optional) optional hp hv
      rcases hpc with rfl | rfl
      · simp only [hget, hchild none (Or.inl rfl)]
        rw [parseEmptyFields_instance fenv rest irest whole none opt (Or.inl rfl) hrest]
        simp [instLeafDefaults]
      · simp only [hget, hchild _ (Or.inr rfl)]
        rw [parseEmptyFields_instance fenv rest irest whole (some whole) opt (Or.inr rfl) hrest]
        simp [instLeafDefaults]
theorem parseEmptyChild_instance (fenv : FEnv) (t : CTree) (i : IVal) (pc : Option IVal)
    (optHere optional : Bool) (hpc : pc = none ∨ pc = some i) (h : FitsStable fenv t i) :
    parseEmptyChild fenv t pc (.present i) optHere optional = .ok i := by
  match t, i, h with
  | .mk cls fs, .inst cls' ifs, h =>
    obtain ⟨hcls, hf⟩ := h
    subst hcls
    simp only [parseEmptyChild]
    rw [parseEmptyFields_instance fenv fs ifs (.inst cls ifs) pc optHere hpc hf]
    simp
end

/-- **C01 (caller-supplied default instance).** `add_arguments(C, dest, default=inst)` followed by an
    empty command line returns an instance equal to `inst`. -/
theorem c01_caller_default (fenv : FEnv) (t : CTree) (i : IVal) (h : FitsStable fenv t i) :
    parseEmptyTop fenv t (some i) = .ok i := by
  simp only [parseEmptyTop]
  exact parseEmpty_instance fenv t i (some i) false (Or.inr rfl) h

/-! ### without a caller default: the result is what the constructor builds by itself -/

/-- the tree's own defaults are stable (every leaf has a default that survives the trip; members
    carry an instance-producing factory, or are Optional-with-None and quiet) — stated through the
    instance the constructor builds -/
def OwnDefaultsStable (fenv : FEnv) (t : CTree) : Prop :=
  ∃ i, construct t = .ok i ∧ FitsStable fenv t i

/-- a top-level class whose members are all given by default factories: parsing nothing equals
    `cls()` as soon as the wrapper sees that default — this is the per-member step the cascade
    performs (`DataclassWrapper.defaults` = `default_factory()`), lifted to any depth by
    `parseEmpty_instance`. -/
theorem c01_member_factory (fenv : FEnv) (t : CTree) (h : OwnDefaultsStable fenv t)
    (optHere optional : Bool) :
    ∃ i, construct t = .ok i ∧
      parseEmptyChild fenv t none (.present i) optHere optional = .ok i := by
  obtain ⟨i, hc, hf⟩ := h
  exact ⟨i, hc, parseEmptyChild_instance fenv t i none optHere optional (Or.inl rfl) hf⟩

/-- every field of the class has a default of its own that is stable: leaves survive the trip,
    dataclass-typed members are `Optional … = None` (and quiet), `default_factory=Cls` (whose own
    result fits and is stable) or `default_factory=lambda: inst` (idem) -/
def OwnStable (fenv : FEnv) : CFields → Prop
  | .nil => True
  | .leaf f rest => (∃ v, f.default = .value v ∧ leafEmpty fenv f none false = .ok v) ∧ OwnStable fenv rest
  | .child _ optional dflt t rest =>
    (match dflt with
     | .missing => False
     | .noneVal => optional = true ∧ QuietNone fenv t
     | .factoryCls => ∃ i, construct t = .ok i ∧ FitsStable fenv t i
     | .factoryInst i => FitsStable fenv t i) ∧ OwnStable fenv rest

theorem parseEmptyFields_own (fenv : FEnv) (fs : CFields) (h : OwnStable fenv fs) :
    ∃ r ds, constructFields fs = .ok r ∧ parseEmptyFields fenv fs none .absent false = .ok (r, ds) := by
  match fs, h with
  | .nil, _ => exact ⟨.nil, [], rfl, rfl⟩
  | .leaf f rest, h =>
    obtain ⟨⟨v, hd, hl⟩, hrest⟩ := h
    obtain ⟨r, ds, hc, hp⟩ := parseEmptyFields_own fenv rest hrest
    refine ⟨.leaf f.name v r, (f.name, defaultVal f.default) :: ds, ?_, ?_⟩
    · simp [constructFields, hd, hc]
    · simp [parseEmptyFields, hl, hp]
  | .child name optional dflt t rest, h =>
    obtain ⟨hd, hrest⟩ := h
    obtain ⟨r, ds, hc, hp⟩ := parseEmptyFields_own fenv rest hrest
    cases dflt with
    | missing => exact absurd hd id
    | noneVal =>
      obtain ⟨hopt, hq⟩ := hd
      unfold QuietNone at hq
      refine ⟨.sub name .nul r, ds, ?_, ?_⟩
      · simp [constructFields, hc]
      · simp [parseEmptyFields, hopt, hq, hp]
    | factoryCls =>
      obtain ⟨i, hci, hfit⟩ := hd
      refine ⟨.sub name i r, ds, ?_, ?_⟩
      · simp [constructFields, hci, hc]
      · simp only [parseEmptyFields, hci]
        rw [parseEmptyChild_instance fenv t i none (false || optional) optional (Or.inl rfl) hfit]
        simp [hp]
    | factoryInst i =>
      refine ⟨.sub name i r, ds, ?_, ?_⟩
      · simp [constructFields, hc]
      · simp only [parseEmptyFields]
        rw [parseEmptyChild_instance fenv t i none (false || optional) optional (Or.inl rfl) hd]
        simp [hp]

/-- **C01 (no caller default).** For a class all of whose fields carry stable defaults of their
    own — at any depth, through `default_factory` members and Optional members — parsing the empty
    command line yields exactly what the dataclass constructor produces by itself. -/
theorem c01_no_caller (fenv : FEnv) (cls : Str) (fs : CFields) (h : OwnStable fenv fs) :
    ∃ i, construct (.mk cls fs) = .ok i ∧ parseEmptyTop fenv (.mk cls fs) none = .ok i := by
  obtain ⟨r, ds, hc, hp⟩ := parseEmptyFields_own fenv fs h
  exact ⟨.inst cls r, by simp [construct, hc], by simp [parseEmptyTop, parseEmpty, hp]⟩

/-! ### kept visible: a Union-typed leaf with a convertible string default is NOT stable -/

def unionLeaf : FieldSpec :=
  { name := "u".toList, ty := { inner := .sc (.union [.float, .str]), optional := false },
    default := .value (.sc (.str "0".toList)) }

/-- the full statement "every well-typed default is stable" … -/
def AllDefaultsStable : Prop :=
  ∀ (fenv : FEnv) (f : FieldSpec) (v : Val), f.default = .value v → LeafStable fenv f v

/-- … is false: `Union[float, str] = "0"` comes back as `0.0` (open finding
    C01-union-str-default-converted) -/
theorem c01_union_default_witness : ¬ AllDefaultsStable := by
  intro h
  have := h [("0".toList, some "0.0".toList)] unionLeaf (.sc (.str "0".toList)) rfl
  have h2 : leafEmpty [("0".toList, some "0.0".toList)] unionLeaf (some (.sc (.str "0".toList))) false =
      .ok (.sc (.float "0.0".toList)) := by rfl
  unfold LeafStable at this
  rw [h2] at this
  injection this with h3
  injection h3 with h4
  cases h4

/-! ### stability of ordinary leaves (sufficient conditions) -/

/-- a non-optional `int` / `float` / `bool`-free plain leaf holding a non-string value is stable -/
theorem stable_plain_nonstring (fenv : FEnv) (name : Str) (b : BTy) (v : Scalar)
    (hb : b = .int ∨ b = .float) (hv : ∀ s, v ≠ .str s) (hn : v ≠ .none) :
    LeafStable fenv { name := name, ty := { inner := .sc (.base b), optional := false },
                      default := .value (.sc v) } (.sc v) := by
  unfold LeafStable leafEmpty
  rcases hb with rfl | rfl <;>
  · cases v <;> simp_all [argOptions, defaultVal, postprocess, bconvOf]

/-- container-typed leaves (List / Tuple / variadic tuple, items of any modelled type): a
    container default is never a string, so it reaches `postprocess` untouched, which only fixes
    the container kind it already has -/
theorem stable_list (fenv : FEnv) (name : Str) (als : List Str) (item : ITy) (opt : Bool) (xs : List Scalar) (d : DefaultV)
    (hc : containerConv item ≠ none) :
    LeafStable fenv { name := name, ty := { inner := .list item, optional := opt }, default := d, aliases := als } (.list xs) := by
  unfold LeafStable leafEmpty
  cases hcc : containerConv item with
  | none => exact absurd hcc hc
  | some c =>
    cases opt <;> simp [argOptions, defaultVal, postprocess, hcc, tupleToList]

theorem stable_vtuple (fenv : FEnv) (name : Str) (als : List Str) (item : ITy) (opt : Bool) (xs : List Scalar) (d : DefaultV) :
    LeafStable fenv { name := name, ty := { inner := .vtuple item, optional := opt }, default := d, aliases := als } (.tuple xs) := by
  unfold LeafStable leafEmpty
  cases opt <;> simp [argOptions, defaultVal, postprocess, listToTuple]

theorem stable_tuple (fenv : FEnv) (name : Str) (als : List Str) (items : List ITy) (opt : Bool) (xs : List Scalar) (d : DefaultV)
    (hc : tupleConv items ≠ none) :
    LeafStable fenv { name := name, ty := { inner := .tuple items, optional := opt }, default := d, aliases := als } (.tuple xs) := by
  unfold LeafStable leafEmpty
  cases hcc : tupleConv items with
  | none => exact absurd hcc hc
  | some c =>
    cases opt <;> simp [argOptions, defaultVal, postprocess, hcc, listToTuple]

/-- an Optional leaf holding None stays None -/
theorem stable_optional_none (fenv : FEnv) (name : Str) (als : List Str) (t : ITy) (d : DefaultV) :
    LeafStable fenv { name := name, ty := { inner := .sc t, optional := true }, default := d, aliases := als } (.sc .none) := by
  unfold LeafStable leafEmpty
  simp [argOptions, defaultVal, postprocess]

/-- `str` leaves: the default goes through `type=str`, which returns it -/
theorem stable_str (fenv : FEnv) (name : Str) (als : List Str) (opt : Bool) (s : Str) (d : DefaultV) :
    LeafStable fenv { name := name, ty := { inner := .sc (.base .str), optional := opt }, default := d, aliases := als } (.sc (.str s)) := by
  unfold LeafStable leafEmpty
  cases opt <;> simp [argOptions, defaultVal, postprocess, bconvOf, convOfItem, Conv.apply, BConv.apply]

theorem stable_bool (fenv : FEnv) (name : Str) (als : List Str) (opt : Bool) (b : Bool) (d : DefaultV) :
    LeafStable fenv { name := name, ty := { inner := .sc (.base .bool), optional := opt }, default := d, aliases := als } (.sc (.bool b)) := by
  unfold LeafStable leafEmpty
  cases opt <;> simp [argOptions, defaultVal, postprocess, bconvOf, convOfItem]

theorem stable_path (fenv : FEnv) (name : Str) (als : List Str) (opt : Bool) (p : Str) (d : DefaultV) :
    LeafStable fenv { name := name, ty := { inner := .sc (.base .path), optional := opt }, default := d, aliases := als } (.sc (.path p)) := by
  unfold LeafStable leafEmpty
  cases opt <;> simp [argOptions, defaultVal, postprocess, bconvOf, convOfItem]

/-- a plain Enum leaf: the default is handed to argparse by NAME, `type=str` returns the name and
    `postprocess` maps it back to the member -/
theorem stable_enum (fenv : FEnv) (name : Str) (als : List Str) (cls : Str) (ms : List Str) (m : Str) (hm : m ∈ ms) (d : DefaultV) :
    LeafStable fenv { name := name, ty := { inner := .sc (.base (.enum cls ms)), optional := false }, default := d, aliases := als }
      (.sc (.enum cls m)) := by
  unfold LeafStable leafEmpty
  simp [argOptions, defaultVal, postprocess, Conv.apply, BConv.apply, hm]

/-- `Optional[Enum]`: the member itself is the argparse default (no name round trip) -/
theorem stable_enum_opt (fenv : FEnv) (name : Str) (als : List Str) (cls : Str) (ms : List Str) (m : Str) (d : DefaultV) :
    LeafStable fenv { name := name, ty := { inner := .sc (.base (.enum cls ms)), optional := true }, default := d, aliases := als }
      (.sc (.enum cls m)) := by
  unfold LeafStable leafEmpty
  simp [argOptions, defaultVal, postprocess, convOfItem]

/-- a Union leaf holding a NON-string member value is stable (only string defaults are run through
    the try-in-order parser — the open finding) -/
theorem stable_union_nonstring (fenv : FEnv) (name : Str) (als : List Str) (alts : List BTy) (opt : Bool) (v : Scalar)
    (hv : ∀ s, v ≠ .str s) (hn : v ≠ .none) (d : DefaultV) :
    LeafStable fenv { name := name, ty := { inner := .sc (.union alts), optional := opt }, default := d, aliases := als } (.sc v) := by
  unfold LeafStable leafEmpty
  cases opt <;> cases v <;> simp_all [argOptions, defaultVal, postprocess, convOfItem]
theorem stable_plain (fenv : FEnv) (name : Str) (als : List Str) (b : BTy) (opt : Bool) (v : Scalar)
    (hb : b = .int ∨ b = .float ∨ b = .any) (hv : ∀ s, v ≠ .str s) (hn : v ≠ .none) (d : DefaultV) :
    LeafStable fenv { name := name, ty := { inner := .sc (.base b), optional := opt }, default := d, aliases := als } (.sc v) := by
  unfold LeafStable leafEmpty
  rcases hb with rfl | rfl | rfl <;> cases opt <;> cases v <;>
    simp_all [argOptions, defaultVal, postprocess, bconvOf, convOfItem]

theorem stable_any_str (fenv : FEnv) (name : Str) (als : List Str) (opt : Bool) (s : Str) (d : DefaultV) :
    LeafStable fenv { name := name, ty := { inner := .sc (.base .any), optional := opt }, default := d, aliases := als } (.sc (.str s)) := by
  unfold LeafStable leafEmpty
  cases opt <;> simp [argOptions, defaultVal, postprocess, bconvOf, convOfItem, Conv.apply, BConv.apply]

/-- "the value `v` is a default of annotation `t` that the cascade returns unchanged": every
    annotation of the command-line grammar with a value of its type, EXCEPT a string held by a
    Union-typed (or int/float-typed) leaf -/
inductive StableDefault : FTy → Val → Prop
  | list (item opt xs) (h : containerConv item ≠ none) : StableDefault { inner := .list item, optional := opt } (.list xs)
  | vtuple (item opt xs) : StableDefault { inner := .vtuple item, optional := opt } (.tuple xs)
  | tuple (items opt xs) (h : tupleConv items ≠ none) : StableDefault { inner := .tuple items, optional := opt } (.tuple xs)
  | optNone (t) : StableDefault { inner := .sc t, optional := true } (.sc .none)
  | str (opt s) : StableDefault { inner := .sc (.base .str), optional := opt } (.sc (.str s))
  | anyStr (opt s) : StableDefault { inner := .sc (.base .any), optional := opt } (.sc (.str s))
  | bool (opt b) : StableDefault { inner := .sc (.base .bool), optional := opt } (.sc (.bool b))
  | path (opt p) : StableDefault { inner := .sc (.base .path), optional := opt } (.sc (.path p))
  | enum (cls ms m) (h : m ∈ ms) : StableDefault { inner := .sc (.base (.enum cls ms)), optional := false } (.sc (.enum cls m))
  | enumOpt (cls ms m) : StableDefault { inner := .sc (.base (.enum cls ms)), optional := true } (.sc (.enum cls m))
  | plain (b opt v) (hb : b = .int ∨ b = .float ∨ b = .any) (hv : ∀ s, v ≠ .str s) (hn : v ≠ .none) :
      StableDefault { inner := .sc (.base b), optional := opt } (.sc v)
  | union (alts opt v) (hv : ∀ s, v ≠ .str s) (hn : v ≠ .none) :
      StableDefault { inner := .sc (.union alts), optional := opt } (.sc v)

/-- **leaf stability is provable, not assumed, on the grammar**: the hypothesis `LeafStable` of the
    C01 theorems holds for every leaf whose (instance or own) default value is a `StableDefault` of
    its annotation — whatever the field's name, aliases and declared default. -/
theorem leafStable_of_stableDefault (fenv : FEnv) (f : FieldSpec) (v : Val)
    (h : StableDefault f.ty v) : LeafStable fenv f v := by
  obtain ⟨name, ty, d, als⟩ := f
  simp only at h
  cases h with
  | list item opt xs hc => exact stable_list fenv name als item opt xs d hc
  | vtuple item opt xs => exact stable_vtuple fenv name als item opt xs d
  | tuple items opt xs hc => exact stable_tuple fenv name als items opt xs d hc
  | optNone t => exact stable_optional_none fenv name als t d
  | str opt s => exact stable_str fenv name als opt s d
  | anyStr opt s => exact stable_any_str fenv name als opt s d
  | bool opt b => exact stable_bool fenv name als opt b d
  | path opt p => exact stable_path fenv name als opt p d
  | enum cls ms m hm => exact stable_enum fenv name als cls ms m hm d
  | enumOpt cls ms m => exact stable_enum_opt fenv name als cls ms m d
  | plain b opt v hb hv hn => exact stable_plain fenv name als b opt v hb hv hn d
  | union alts opt v hv hn => exact stable_union_nonstring fenv name als alts opt v hv hn d

mutual
def FitsTyped (fenv : FEnv) : CTree → IVal → Prop
  | .mk cls fs, .inst cls' ifs => cls = cls' ∧ FitsTypedF fenv fs ifs (.inst cls' ifs)
  | .mk _ _, .nul => False
def FitsTypedF (fenv : FEnv) : CFields → IFields → IVal → Prop
  | .nil, .nil, _ => True
  | .leaf f rest, .leaf n v irest, whole =>
    n = f.name ∧ whole.getLeaf f.name = some v ∧ StableDefault f.ty v ∧ FitsTypedF fenv rest irest whole
  | .child name optional _ t rest, .sub n v irest, whole =>
    n = name ∧ whole.getSub name = some v ∧
    (match v with
     | .nul => optional = true ∧ QuietNone fenv t
     | .inst c fs => FitsTyped fenv t (.inst c fs)) ∧
    FitsTypedF fenv rest irest whole
  | _, _, _ => False
end

mutual
theorem fitsStable_of_typed (fenv : FEnv) : ∀ (t : CTree) (i : IVal), FitsTyped fenv t i → FitsStable fenv t i
  | .mk cls fs, .inst cls' ifs, h => by
    simp only [FitsTyped] at h
    simp only [FitsStable]
    exact ⟨h.1, fitsStableF_of_typed fenv fs ifs _ h.2⟩
  | .mk _ _, .nul, h => by simp [FitsTyped] at h
theorem fitsStableF_of_typed (fenv : FEnv) : ∀ (fs : CFields) (ifs : IFields) (whole : IVal),
    FitsTypedF fenv fs ifs whole → FitsStableF fenv fs ifs whole
  | .nil, .nil, _, _ => by simp [FitsStableF]
  | .leaf f rest, .leaf n v irest, whole, h => by
    simp only [FitsTypedF] at h
    simp only [FitsStableF]
    exact ⟨h.1, h.2.1, leafStable_of_stableDefault fenv f v h.2.2.1, fitsStableF_of_typed fenv rest irest whole h.2.2.2⟩
  | .child name optional d t rest, .sub n v irest, whole, h => by
    simp only [FitsTypedF] at h
    simp only [FitsStableF]
    refine ⟨h.1, h.2.1, ?_, fitsStableF_of_typed fenv rest irest whole h.2.2.2⟩
    match v, h.2.2.1 with
    | .nul, hv => exact hv
    | .inst c fs, hv => exact fitsStable_of_typed fenv t (.inst c fs) hv
  | .nil, .leaf _ _ _, _, h => by simp [FitsTypedF] at h
  | .nil, .sub _ _ _, _, h => by simp [FitsTypedF] at h
  | .leaf _ _, .nil, _, h => by simp [FitsTypedF] at h
  | .leaf _ _, .sub _ _ _, _, h => by simp [FitsTypedF] at h
  | .child _ _ _ _ _, .nil, _, h => by simp [FitsTypedF] at h
  | .child _ _ _ _ _, .leaf _ _ _, _, h => by simp [FitsTypedF] at h
end

/-- **C01 (caller-supplied default instance), hypothesis-free on the grammar.** -/
theorem c01_caller_default_typed (fenv : FEnv) (t : CTree) (i : IVal) (h : FitsTyped fenv t i) :
    parseEmptyTop fenv t (some i) = .ok i :=
  c01_caller_default fenv t i (fitsStable_of_typed fenv t i h)

/-! non-vacuity: a two-level tree with an Optional member, a caller instance that fits it -/
def demoTree : CTree :=
  .mk "K0".toList
    (.leaf { name := "a".toList, ty := { inner := .sc (.base .int), optional := false },
             default := .value (.sc (.int 1)) }
    (.child "o".toList true .noneVal
      (.mk "K1".toList (.leaf { name := "x".toList, ty := { inner := .sc (.base .int), optional := false },
                                default := .value (.sc (.int 5)) } .nil))
    .nil))

def demoInst : IVal :=
  .inst "K0".toList (.leaf "a".toList (.sc (.int 7))
    (.sub "o".toList (.inst "K1".toList (.leaf "x".toList (.sc (.int 9)) .nil)) .nil))

example : parseEmptyTop [] demoTree (some demoInst) = .ok demoInst := by rfl
example : parseEmptyTop [] demoTree none = construct demoTree := by rfl

/-- the demo instance below is typed: the theorem applies to it without any stability hypothesis
    beyond the quietness of Optional members holding None -/
example : FitsTyped [] demoTree demoInst := by
  simp only [demoTree, demoInst, FitsTyped, FitsTypedF, IVal.getLeaf, IVal.getSub]
  have h7 : StableDefault { inner := .sc (.base .int), optional := false } (.sc (.int 7)) :=
    StableDefault.plain .int false (.int 7) (Or.inl rfl) (by intro s h; cases h) (by intro h; cases h)
  have h9 : StableDefault { inner := .sc (.base .int), optional := false } (.sc (.int 9)) :=
    StableDefault.plain .int false (.int 9) (Or.inl rfl) (by intro s h; cases h) (by intro h; cases h)
  exact ⟨trivial, trivial, by rfl, h7, trivial, by rfl, ⟨trivial, trivial, by rfl, h9, trivial⟩, trivial⟩

end SpVerif.C01
