/-
  C01 — Empty command line reproduces the dataclass defaults at every destination.
  Theorems about `Model/Defaults` by mutual structural induction over the class tree
  (any depth, any width, leaves and dataclass-typed members interleaved).

  Layers (each is proved from the one before):
    semantic    `c01_caller_default`, `c01_no_caller`, `c01_member_factory` under `LeafStable` / `QuietNone`
    typed       `StableDefault` (inductive, every annotation of the grammar) ⇒ `LeafStable`; `c01_caller_default_typed`
    syntactic   `WellTyped` + `modelledTy` − {`unionStr`, `literalShadowed`} ⇒ `StableDefault` (`c01_typed_defaults_partial`);
                `QuietSyn` ⇒ `QuietNone` (an Optional member left None stays None — proved);
                `OwnTyped` ⇒ `OwnStable` (`c01_no_caller_typed`); `FitsWT` ⇒ `FitsTyped` (`c01_caller_default_wellTyped`)
  Full statements kept visible and refuted: `AllDefaultsStable`, `AllTypedDefaultsStable`
  (`c01_union_default_witness`, `c01_union_default_typed_witness`, `c01_literal_collision_witness`).
-/
import SpVerif.Model.Defaults
namespace SpVerif.C01
open SpVerif

/-- a leaf value survives the trip "wrapper default → argparse default (string defaults go through
    `type=`) → postprocess" unchanged -/
def LeafStable (fenv : FEnv) (f : FieldSpec) (v : Val) : Prop :=
  leafEmpty fenv f (some v) false = .ok v

/-- an Optional member left at None parses back to None (its leaves' own defaults are stable) -/
def QuietNone (fenv : FEnv) (t : CTree) : Prop :=
  parseEmptyChild fenv t none .presentNone true true = .ok .nul

/-! "the instance `i` fits the class tree `t`, its leaf values are stable, and every Optional member
    holding None is quiet" — by mutual recursion on the tree; `whole` is the instance the attribute
    look-ups go to (field names are looked up by name, as `getattr` does) -/
mutual
def FitsStable (fenv : FEnv) : CTree → IVal → Prop
  | .mk cls fs, .inst cls' ifs => cls = cls' ∧ FitsStableF fenv fs ifs (.inst cls' ifs)
  | .mk _ _, .nul => False
def FitsStableF (fenv : FEnv) : CFields → IFields → IVal → Prop
  | .nil, .nil, _ => True
  | .leaf f rest, .leaf n v irest, whole =>
    n = f.name ∧ whole.getLeaf f.name = some v ∧ LeafStable fenv f v ∧ FitsStableF fenv rest irest whole
  | .child name optional _ t rest, .sub n v irest, whole =>
    n = name ∧ whole.getSub name = some v ∧
    (match v with
     | .nul => optional = true ∧ QuietNone fenv t
     | .inst c fs => FitsStable fenv t (.inst c fs)) ∧
    FitsStableF fenv rest irest whole
  | _, _, _ => False
end

theorem leafEmpty_opt_irrelevant (fenv : FEnv) (f : FieldSpec) (v : Val) (opt : Bool)
    (h : leafEmpty fenv f (some v) false = .ok v) : leafEmpty fenv f (some v) opt = .ok v := by
  unfold leafEmpty at h ⊢
  simp only at h ⊢
  split
  · rename_i hao; rw [hao] at h; exact h
  · rename_i ao hao
    rw [hao] at h
    simp only at h
    by_cases hr : ao.required = true
    · simp only [hr, Bool.not_false, Bool.and_self, ↓reduceIte] at h; cases h
    · have hr' : ao.required = false := by simpa using hr
      simp only [hr', Bool.false_and, Bool.false_eq_true, ↓reduceIte] at h ⊢
      exact h

/-- the leaves' wrapper defaults recorded for the Optional rule, when they come from an instance -/
def instLeafDefaults : CFields → IVal → List (Str × Val)
  | .nil, _ => []
  | .leaf f rest, whole =>
    (f.name, (match whole.getLeaf f.name with | some v => v | none => .sc .none)) :: instLeafDefaults rest whole
  | .child _ _ _ _ rest, whole => instLeafDefaults rest whole

mutual
/-- **C01 (caller instance / default-factory instance).** If the wrapper's defaults hold an
    instance `i` that fits the tree, parsing the empty command line rebuilds exactly `i` — for every
    nesting depth, for Optional members holding None or an instance, whatever the constructor-chain
    default `pc` is as long as it does not contradict `i`. -/
theorem parseEmpty_instance (fenv : FEnv) (t : CTree) (i : IVal) (pc : Option IVal) (opt : Bool)
    (hpc : pc = none ∨ pc = some i) (h : FitsStable fenv t i) :
    parseEmpty fenv t pc (.present i) opt = .ok i := by
  match t, i, h with
  | .mk cls fs, .inst cls' ifs, h =>
    obtain ⟨hcls, hf⟩ := h
    subst hcls
    simp only [parseEmpty]
    rw [parseEmptyFields_instance fenv fs ifs (.inst cls ifs) pc opt hpc hf]
theorem parseEmptyFields_instance (fenv : FEnv) (fs : CFields) (ifs : IFields) (whole : IVal)
    (pc : Option IVal) (opt : Bool) (hpc : pc = none ∨ pc = some whole)
    (h : FitsStableF fenv fs ifs whole) :
    parseEmptyFields fenv fs pc (.present whole) opt = .ok (ifs, instLeafDefaults fs whole) := by
  match fs, ifs, h with
  | .nil, .nil, _ => simp [parseEmptyFields, instLeafDefaults]
  | .leaf f rest, .leaf n v irest, h =>
    obtain ⟨hn, hget, hst, hrest⟩ := h
    subst hn
    simp only [parseEmptyFields, hget]
    rw [leafEmpty_opt_irrelevant fenv f v opt hst]
    simp only
    rw [parseEmptyFields_instance fenv rest irest whole pc opt hpc hrest]
    simp [instLeafDefaults, hget]
  | .child name optional dflt t rest, .sub n v irest, h =>
    obtain ⟨hn, hget, hv, hrest⟩ := h
    subst hn
    simp only [parseEmptyFields, childDV]
    match v, hv, hget with
    | .nul, hv, hget =>
      obtain ⟨hopt, hq⟩ := hv
      unfold QuietNone at hq
      -- the member holds None: both chains say "None", the subtree is quiet
      rcases hpc with rfl | rfl
      · simp only [hget, hopt, Bool.or_true, hq]
        rw [parseEmptyFields_instance fenv rest irest whole none opt (Or.inl rfl) hrest]
        simp [instLeafDefaults]
      · simp only [hget, hopt, Bool.or_true, hq]
        rw [parseEmptyFields_instance fenv rest irest whole (some whole) opt (Or.inr rfl) hrest]
        simp [instLeafDefaults]
    | .inst c cfs, hv, hget =>
      have hchild : ∀ pcC : Option IVal, (pcC = none ∨ pcC = some (.inst c cfs)) →
          parseEmptyChild fenv t pcC (.present (.inst c cfs)) (opt || optional) optional = .ok (.inst c cfs) :=
        fun pcC hp => parseEmptyChild_instance fenv t (.inst c cfs) pcC (opt || optional) optional hp hv
      rcases hpc with rfl | rfl
      · simp only [hget, hchild none (Or.inl rfl)]
        rw [parseEmptyFields_instance fenv rest irest whole none opt (Or.inl rfl) hrest]
        simp [instLeafDefaults]
      · simp only [hget, hchild _ (Or.inr rfl)]
        rw [parseEmptyFields_instance fenv rest irest whole (some whole) opt (Or.inr rfl) hrest]
        simp [instLeafDefaults]
theorem parseEmptyChild_instance (fenv : FEnv) (t : CTree) (i : IVal) (pc : Option IVal)
    (optHere optional : Bool) (hpc : pc = none ∨ pc = some i) (h : FitsStable fenv t i) :
    parseEmptyChild fenv t pc (.present i) optHere optional = .ok i := by
  match t, i, h with
  | .mk cls fs, .inst cls' ifs, h =>
    obtain ⟨hcls, hf⟩ := h
    subst hcls
    simp only [parseEmptyChild]
    rw [parseEmptyFields_instance fenv fs ifs (.inst cls ifs) pc optHere hpc hf]
    simp
end

/-- **C01 (caller-supplied default instance).** `add_arguments(C, dest, default=inst)` followed by an
    empty command line returns an instance equal to `inst`. -/
theorem c01_caller_default (fenv : FEnv) (t : CTree) (i : IVal) (h : FitsStable fenv t i) :
    parseEmptyTop fenv t (some i) = .ok i := by
  simp only [parseEmptyTop]
  exact parseEmpty_instance fenv t i (some i) false (Or.inr rfl) h

/-! ### without a caller default: the result is what the constructor builds by itself -/

/-- the tree's own defaults are stable (every leaf has a default that survives the trip; members
    carry an instance-producing factory, or are Optional-with-None and quiet) — stated through the
    instance the constructor builds -/
def OwnDefaultsStable (fenv : FEnv) (t : CTree) : Prop :=
  ∃ i, construct t = .ok i ∧ FitsStable fenv t i

/-- a top-level class whose members are all given by default factories: parsing nothing equals
    `cls()` as soon as the wrapper sees that default — this is the per-member step the cascade
    performs (`DataclassWrapper.defaults` = `default_factory()`), lifted to any depth by
    `parseEmpty_instance`. -/
theorem c01_member_factory (fenv : FEnv) (t : CTree) (h : OwnDefaultsStable fenv t)
    (optHere optional : Bool) :
    ∃ i, construct t = .ok i ∧
      parseEmptyChild fenv t none (.present i) optHere optional = .ok i := by
  obtain ⟨i, hc, hf⟩ := h
  exact ⟨i, hc, parseEmptyChild_instance fenv t i none optHere optional (Or.inl rfl) hf⟩

/-- every field of the class has a default of its own that is stable: leaves survive the trip,
    dataclass-typed members are `Optional … = None` (and quiet), `default_factory=Cls` (whose own
    result fits and is stable) or `default_factory=lambda: inst` (idem) -/
def OwnStable (fenv : FEnv) : CFields → Prop
  | .nil => True
  | .leaf f rest => (∃ v, f.default = .value v ∧ leafEmpty fenv f none false = .ok v) ∧ OwnStable fenv rest
  | .child _ optional dflt t rest =>
    (match dflt with
     | .missing => False
     | .noneVal => optional = true ∧ QuietNone fenv t
     | .factoryCls => ∃ i, construct t = .ok i ∧ FitsStable fenv t i
     | .factoryInst i => FitsStable fenv t i) ∧ OwnStable fenv rest

theorem parseEmptyFields_own (fenv : FEnv) (fs : CFields) (h : OwnStable fenv fs) :
    ∃ r ds, constructFields fs = .ok r ∧ parseEmptyFields fenv fs none .absent false = .ok (r, ds) := by
  match fs, h with
  | .nil, _ => exact ⟨.nil, [], rfl, rfl⟩
  | .leaf f rest, h =>
    obtain ⟨⟨v, hd, hl⟩, hrest⟩ := h
    obtain ⟨r, ds, hc, hp⟩ := parseEmptyFields_own fenv rest hrest
    refine ⟨.leaf f.name v r, (f.name, defaultVal f.default) :: ds, ?_, ?_⟩
    · simp [constructFields, hd, hc]
    · simp [parseEmptyFields, hl, hp]
  | .child name optional dflt t rest, h =>
    obtain ⟨hd, hrest⟩ := h
    obtain ⟨r, ds, hc, hp⟩ := parseEmptyFields_own fenv rest hrest
    cases dflt with
    | missing => exact absurd hd id
    | noneVal =>
      obtain ⟨hopt, hq⟩ := hd
      unfold QuietNone at hq
      refine ⟨.sub name .nul r, ds, ?_, ?_⟩
      · simp [constructFields, hc]
      · simp [parseEmptyFields, childDV, hopt, hq, hp]
    | factoryCls =>
      obtain ⟨i, hci, hfit⟩ := hd
      refine ⟨.sub name i r, ds, ?_, ?_⟩
      · simp [constructFields, hci, hc]
      · simp only [parseEmptyFields, childDV, hci]
        rw [parseEmptyChild_instance fenv t i none (false || optional) optional (Or.inl rfl) hfit]
        simp [hp]
    | factoryInst i =>
      refine ⟨.sub name i r, ds, ?_, ?_⟩
      · simp [constructFields, hc]
      · simp only [parseEmptyFields, childDV]
        rw [parseEmptyChild_instance fenv t i none (false || optional) optional (Or.inl rfl) hd]
        simp [hp]

/-- **C01 (no caller default).** For a class all of whose fields carry stable defaults of their
    own — at any depth, through `default_factory` members and Optional members — parsing the empty
    command line yields exactly what the dataclass constructor produces by itself. -/
theorem c01_no_caller (fenv : FEnv) (cls : Str) (fs : CFields) (h : OwnStable fenv fs) :
    ∃ i, construct (.mk cls fs) = .ok i ∧ parseEmptyTop fenv (.mk cls fs) none = .ok i := by
  obtain ⟨r, ds, hc, hp⟩ := parseEmptyFields_own fenv fs h
  exact ⟨.inst cls r, by simp [construct, hc], by simp [parseEmptyTop, parseEmpty, hp]⟩

/-! ### kept visible: a Union-typed leaf with a convertible string default is NOT stable -/

def unionLeaf : FieldSpec :=
  { name := "u".toList, ty := { inner := .sc (.union [.float, .str]), optional := false },
    default := .value (.sc (.str "0".toList)) }

/-- the full statement "every well-typed default is stable" … -/
def AllDefaultsStable : Prop :=
  ∀ (fenv : FEnv) (f : FieldSpec) (v : Val), f.default = .value v → LeafStable fenv f v

/-- … is false: `Union[float, str] = "0"` comes back as `0.0` (open finding
    C01-union-str-default-converted) -/
theorem c01_union_default_witness : ¬ AllDefaultsStable := by
  intro h
  have := h [("0".toList, some "0.0".toList)] unionLeaf (.sc (.str "0".toList)) rfl
  have h2 : leafEmpty [("0".toList, some "0.0".toList)] unionLeaf (some (.sc (.str "0".toList))) false =
      .ok (.sc (.float "0.0".toList)) := by rfl
  unfold LeafStable at this
  rw [h2] at this
  injection this with h3
  injection h3 with h4
  cases h4

/-! ### stability of ordinary leaves (sufficient conditions) -/

theorem containerConv_ne_none (item : ITy) : containerConv item ≠ none := by
  cases item with
  | base b => cases b <;> simp [containerConv]
  | union a => simp [containerConv]

/-- container-typed leaves (List / Tuple / variadic tuple, items of any modelled type): a
    container default is never a string, so it reaches `postprocess` untouched, which only fixes
    the container kind it already has -/
theorem stable_list (fenv : FEnv) (name : Str) (als : List Str) (item : ITy) (opt : Bool) (xs : List Scalar) (d : DefaultV)
    (hc : containerConv item ≠ none) :
    LeafStable fenv { name := name, ty := { inner := .list item, optional := opt }, default := d, aliases := als } (.list xs) := by
  unfold LeafStable leafEmpty
  cases hcc : containerConv item with
  | none => exact absurd hcc hc
  | some c =>
    cases opt <;> simp [argOptions, defaultVal, postprocess, hcc, tupleToList]

theorem stable_vtuple (fenv : FEnv) (name : Str) (als : List Str) (item : ITy) (opt : Bool) (xs : List Scalar) (d : DefaultV) :
    LeafStable fenv { name := name, ty := { inner := .vtuple item, optional := opt }, default := d, aliases := als } (.tuple xs) := by
  unfold LeafStable leafEmpty
  cases opt <;> simp [argOptions, defaultVal, postprocess, listToTuple]

theorem stable_tuple (fenv : FEnv) (name : Str) (als : List Str) (items : List ITy) (opt : Bool) (xs : List Scalar) (d : DefaultV)
    (hc : tupleConv items ≠ none) :
    LeafStable fenv { name := name, ty := { inner := .tuple items, optional := opt }, default := d, aliases := als } (.tuple xs) := by
  unfold LeafStable leafEmpty
  cases hcc : tupleConv items with
  | none => exact absurd hcc hc
  | some c =>
    cases opt <;> simp [argOptions, defaultVal, postprocess, hcc, listToTuple]

/-- an Optional leaf holding None stays None -/
theorem stable_optional_none (fenv : FEnv) (name : Str) (als : List Str) (t : ITy) (d : DefaultV) :
    LeafStable fenv { name := name, ty := { inner := .sc t, optional := true }, default := d, aliases := als } (.sc .none) := by
  unfold LeafStable leafEmpty
  simp [argOptions, defaultVal, postprocess]

/-- `str` leaves: the default goes through `type=str`, which returns it -/
theorem stable_str (fenv : FEnv) (name : Str) (als : List Str) (opt : Bool) (s : Str) (d : DefaultV) :
    LeafStable fenv { name := name, ty := { inner := .sc (.base .str), optional := opt }, default := d, aliases := als } (.sc (.str s)) := by
  unfold LeafStable leafEmpty
  cases opt <;> simp [argOptions, defaultVal, postprocess, bconvOf, convOfItem, Conv.apply, BConv.apply]

theorem stable_bool (fenv : FEnv) (name : Str) (als : List Str) (opt : Bool) (b : Bool) (d : DefaultV) :
    LeafStable fenv { name := name, ty := { inner := .sc (.base .bool), optional := opt }, default := d, aliases := als } (.sc (.bool b)) := by
  unfold LeafStable leafEmpty
  cases opt <;> simp [argOptions, defaultVal, postprocess, bconvOf, convOfItem]

theorem stable_path (fenv : FEnv) (name : Str) (als : List Str) (opt : Bool) (p : Str) (d : DefaultV) :
    LeafStable fenv { name := name, ty := { inner := .sc (.base .path), optional := opt }, default := d, aliases := als } (.sc (.path p)) := by
  unfold LeafStable leafEmpty
  cases opt <;> simp [argOptions, defaultVal, postprocess, bconvOf, convOfItem]

/-- a plain Enum leaf: the default is handed to argparse by NAME, `type=str` returns the name and
    `postprocess` maps it back to the member -/
theorem stable_enum (fenv : FEnv) (name : Str) (als : List Str) (cls : Str) (ms : List Str) (m : Str) (hm : m ∈ ms) (d : DefaultV) :
    LeafStable fenv { name := name, ty := { inner := .sc (.base (.enum cls ms)), optional := false }, default := d, aliases := als }
      (.sc (.enum cls m)) := by
  unfold LeafStable leafEmpty
  simp [argOptions, defaultVal, postprocess, Conv.apply, BConv.apply, hm]

/-- `Optional[Enum]`: the member itself is the argparse default (no name round trip) -/
theorem stable_enum_opt (fenv : FEnv) (name : Str) (als : List Str) (cls : Str) (ms : List Str) (m : Str) (d : DefaultV) :
    LeafStable fenv { name := name, ty := { inner := .sc (.base (.enum cls ms)), optional := true }, default := d, aliases := als }
      (.sc (.enum cls m)) := by
  unfold LeafStable leafEmpty
  simp [argOptions, defaultVal, postprocess, convOfItem]

/-- a Union leaf holding a NON-string member value is stable (only string defaults are run through
    the try-in-order parser — the open finding) -/
theorem stable_union_nonstring (fenv : FEnv) (name : Str) (als : List Str) (alts : List BTy) (opt : Bool) (v : Scalar)
    (hv : ∀ s, v ≠ .str s) (hn : v ≠ .none) (d : DefaultV) :
    LeafStable fenv { name := name, ty := { inner := .sc (.union alts), optional := opt }, default := d, aliases := als } (.sc v) := by
  unfold LeafStable leafEmpty
  cases opt <;> cases v <;> simp_all [argOptions, defaultVal, postprocess, convOfItem]
theorem stable_plain (fenv : FEnv) (name : Str) (als : List Str) (b : BTy) (opt : Bool) (v : Scalar)
    (hb : b = .int ∨ b = .float ∨ b = .any) (hv : ∀ s, v ≠ .str s) (hn : v ≠ .none) (d : DefaultV) :
    LeafStable fenv { name := name, ty := { inner := .sc (.base b), optional := opt }, default := d, aliases := als } (.sc v) := by
  unfold LeafStable leafEmpty
  rcases hb with rfl | rfl | rfl <;> cases opt <;> cases v <;>
    simp_all [argOptions, defaultVal, postprocess, bconvOf, convOfItem]

theorem stable_any_str (fenv : FEnv) (name : Str) (als : List Str) (opt : Bool) (s : Str) (d : DefaultV) :
    LeafStable fenv { name := name, ty := { inner := .sc (.base .any), optional := opt }, default := d, aliases := als } (.sc (.str s)) := by
  unfold LeafStable leafEmpty
  cases opt <;> simp [argOptions, defaultVal, postprocess, bconvOf, convOfItem, Conv.apply, BConv.apply]


theorem find_reverse_unique (vals : List Scalar) (v : Scalar) (p : Scalar → Bool) (hv : v ∈ vals) (hp : p v = true)
    (hu : ∀ w ∈ vals, p w = true → w = v) : vals.reverse.find? p = some v := by
  cases hf : vals.reverse.find? p with
  | none =>
    have := List.find?_eq_none.mp hf v (List.mem_reverse.mpr hv)
    exact absurd hp this
  | some w =>
    have hw := List.find?_some hf
    have hm := List.mem_reverse.mp (List.mem_of_find?_eq_some hf)
    rw [hu w hm hw]

/-- a Literal leaf: a non-string value is never looked up; a string value is looked up by name in
    `choice_dict = {str(v): v}` (last value of each name) and must find itself -/
theorem stable_literal (fenv : FEnv) (name : Str) (als : List Str) (vals : List Scalar) (v : Scalar) (d : DefaultV)
    (hn : vals.mapM literalName ≠ none)
    (hf : ∀ s, v = .str s → vals.reverse.find? (fun w => literalName w = some s) = some v) :
    LeafStable fenv { name := name, ty := { inner := .literal vals, optional := false }, default := d, aliases := als } (.sc v) := by
  unfold LeafStable leafEmpty
  cases hm : vals.mapM literalName with
  | none => exact absurd hm hn
  | some names =>
    cases v with
    | str s =>
      have hf' := hf s rfl
      simp [argOptions, defaultVal, postprocess, hm, Conv.apply, BConv.apply, hf']
    | _ => simp [argOptions, defaultVal, postprocess, hm]

/-- the syntactic sufficient condition: the value is one of the Literal's values and no OTHER value has the same name -/
theorem literal_finds_itself (vals : List Scalar) (v : Scalar) (hv : v ∈ vals)
    (hu : ∀ w ∈ vals, literalName w = literalName v → w = v) :
    ∀ s, v = .str s → vals.reverse.find? (fun w => literalName w = some s) = some v := by
  intro s hs
  subst hs
  exact find_reverse_unique vals (.str s) _ hv (by simp [literalName])
    (fun w hw h => hu w hw (by simpa [literalName] using h))

/-- the annotation is inside the modelled fragment (`argOptions` answers) -/
def modelledTy (ty : FTy) : Bool :=
  match ty.optional, ty.inner with
  | true, .literal _ => false
  | false, .literal vals => (vals.mapM literalName).isSome
  | _, .tuple items => (tupleConv items).isSome
  | _, _ => true

theorem stable_optional_none_any (fenv : FEnv) (name : Str) (als : List Str) (n : NTy) (d : DefaultV)
    (hm : modelledTy { inner := n, optional := true } = true) :
    LeafStable fenv { name := name, ty := { inner := n, optional := true }, default := d, aliases := als } (.sc .none) := by
  unfold LeafStable leafEmpty
  cases n with
  | sc t => simp [argOptions, defaultVal, postprocess]
  | literal vals => simp [modelledTy] at hm
  | list item =>
    cases hc : containerConv item with
    | none => cases item with
      | base b => cases b <;> simp [containerConv] at hc
      | union a => simp [containerConv] at hc
    | some c => simp [argOptions, defaultVal, postprocess, hc]
  | tuple items =>
    cases hc : tupleConv items with
    | none => simp [modelledTy, hc] at hm
    | some c => simp [argOptions, defaultVal, postprocess, hc, listToTuple]
  | vtuple item => simp [argOptions, defaultVal, postprocess, listToTuple]

/-- "the value `v` is a default of annotation `t` that the cascade returns unchanged": every
    annotation of the command-line grammar with a value of its type, EXCEPT a string held by a
    Union-typed (or int/float-typed) leaf and a Literal value shadowed by another value of the same name -/
inductive StableDefault : FTy → Val → Prop
  | list (item opt xs) : StableDefault { inner := .list item, optional := opt } (.list xs)
  | vtuple (item opt xs) : StableDefault { inner := .vtuple item, optional := opt } (.tuple xs)
  | tuple (items opt xs) (h : tupleConv items ≠ none) : StableDefault { inner := .tuple items, optional := opt } (.tuple xs)
  | optNone (n) (h : modelledTy { inner := n, optional := true } = true) : StableDefault { inner := n, optional := true } (.sc .none)
  | str (opt s) : StableDefault { inner := .sc (.base .str), optional := opt } (.sc (.str s))
  | anyStr (opt s) : StableDefault { inner := .sc (.base .any), optional := opt } (.sc (.str s))
  | bool (opt b) : StableDefault { inner := .sc (.base .bool), optional := opt } (.sc (.bool b))
  | path (opt p) : StableDefault { inner := .sc (.base .path), optional := opt } (.sc (.path p))
  | enum (cls ms m) (h : m ∈ ms) : StableDefault { inner := .sc (.base (.enum cls ms)), optional := false } (.sc (.enum cls m))
  | enumOpt (cls ms m) : StableDefault { inner := .sc (.base (.enum cls ms)), optional := true } (.sc (.enum cls m))
  | plain (b opt v) (hb : b = .int ∨ b = .float ∨ b = .any) (hv : ∀ s, v ≠ .str s) (hn : v ≠ .none) :
      StableDefault { inner := .sc (.base b), optional := opt } (.sc v)
  | union (alts opt v) (hv : ∀ s, v ≠ .str s) (hn : v ≠ .none) :
      StableDefault { inner := .sc (.union alts), optional := opt } (.sc v)
  | literal (vals v) (hn : vals.mapM literalName ≠ none)
      (hf : ∀ s, v = .str s → vals.reverse.find? (fun w => literalName w = some s) = some v) :
      StableDefault { inner := .literal vals, optional := false } (.sc v)

/-- **leaf stability is provable, not assumed, on the grammar**: the hypothesis `LeafStable` of the
    C01 theorems holds for every leaf whose (instance or own) default value is a `StableDefault` of
    its annotation — whatever the field's name, aliases and declared default. -/
theorem leafStable_of_stableDefault (fenv : FEnv) (f : FieldSpec) (v : Val)
    (h : StableDefault f.ty v) : LeafStable fenv f v := by
  obtain ⟨name, ty, d, als⟩ := f
  simp only at h
  cases h with
  | list item opt xs => exact stable_list fenv name als item opt xs d (containerConv_ne_none item)
  | vtuple item opt xs => exact stable_vtuple fenv name als item opt xs d
  | tuple items opt xs hc => exact stable_tuple fenv name als items opt xs d hc
  | optNone n hm => exact stable_optional_none_any fenv name als n d hm
  | str opt s => exact stable_str fenv name als opt s d
  | anyStr opt s => exact stable_any_str fenv name als opt s d
  | bool opt b => exact stable_bool fenv name als opt b d
  | path opt p => exact stable_path fenv name als opt p d
  | enum cls ms m hm => exact stable_enum fenv name als cls ms m hm d
  | enumOpt cls ms m => exact stable_enum_opt fenv name als cls ms m d
  | plain b opt v hb hv hn => exact stable_plain fenv name als b opt v hb hv hn d
  | union alts opt v hv hn => exact stable_union_nonstring fenv name als alts opt v hv hn d
  | literal vals v hn hf => exact stable_literal fenv name als vals v d hn hf

/-! ### completeness of `StableDefault` on the grammar: every WELL-TYPED default of a modelled annotation is stable,
    except the two named (decidable) exclusions -/

def wtB : BTy → Scalar → Bool
  | .int, .int _ => true
  | .float, .float _ => true
  | .float, .int _ => true
  | .str, .str _ => true
  | .bool, .bool _ => true
  | .path, .path _ => true
  | .any, .none => false
  | .any, _ => true
  | .enum c ms, .enum c' m => c == c' && ms.contains m
  | _, _ => false

def wtI : ITy → Scalar → Bool
  | .base b, s => wtB b s
  | .union alts, s => alts.any (fun b => wtB b s)

def wtItems : List ITy → List Scalar → Bool
  | [], [] => true
  | t :: ts, x :: xs => wtI t x && wtItems ts xs
  | _, _ => false

def wtN : NTy → Val → Bool
  | .sc t, .sc s => wtI t s
  | .literal vals, .sc s => vals.contains s
  | .list item, .list xs => xs.all (wtI item)
  | .tuple items, .tuple xs => wtItems items xs
  | .vtuple item, .tuple xs => xs.all (wtI item)
  | _, _ => false

def WellTyped (ty : FTy) (v : Val) : Bool :=
  (ty.optional && v == .sc .none) || wtN ty.inner v

/-- named exclusion (open finding C01-union-str-default-converted): a string held by a Union-typed leaf -/
def unionStr (ty : FTy) (v : Val) : Bool :=
  match ty.inner, v with
  | .sc (.union _), .sc (.str _) => true
  | _, _ => false

/-- named exclusion (open finding C01-literal-name-collision): a STRING value of a Literal whose name belongs, in the
    name → value table (last value of each name), to another value — `"0"` in `Literal["0", 0]` -/
def literalShadowed (ty : FTy) (v : Val) : Bool :=
  match ty.inner, v with
  | .literal vals, .sc (.str s) => vals.reverse.find? (fun w => literalName w = some s) != some (.str s)
  | _, _ => false

theorem wtB_ne_none (b : BTy) (s : Scalar) (h : wtB b s = true) : s ≠ .none := by
  intro hs; subst hs; cases b <;> simp [wtB] at h

theorem stableDefault_of_wtB (b : BTy) (opt : Bool) (s : Scalar) (h : wtB b s = true) :
    StableDefault { inner := .sc (.base b), optional := opt } (.sc s) := by
  cases b with
  | int => cases s <;> simp [wtB] at h
           exact .plain .int opt _ (Or.inl rfl) (by intro s h; cases h) (by intro h; cases h)
  | float => cases s <;> simp [wtB] at h
             · exact .plain .float opt _ (Or.inr (Or.inl rfl)) (by intro s h; cases h) (by intro h; cases h)
             · exact .plain .float opt _ (Or.inr (Or.inl rfl)) (by intro s h; cases h) (by intro h; cases h)
  | str => cases s <;> simp [wtB] at h
           exact .str opt _
  | bool => cases s <;> simp [wtB] at h
            exact .bool opt _
  | path => cases s <;> simp [wtB] at h
            exact .path opt _
  | any =>
    cases s with
    | str x => exact .anyStr opt x
    | none => simp [wtB] at h
    | _ => exact .plain .any opt _ (Or.inr (Or.inr rfl)) (by intro s h; cases h) (by intro h; cases h)
  | enum c ms =>
    cases s <;> simp [wtB] at h
    obtain ⟨hc, hm⟩ := h
    subst hc
    cases opt
    · exact .enum c ms _ hm
    · exact .enumOpt c ms _

theorem stableDefault_of_wellTyped (ty : FTy) (v : Val) (hw : WellTyped ty v = true) (hm : modelledTy ty = true)
    (hu : unionStr ty v = false) (hl : literalShadowed ty v = false) : StableDefault ty v := by
  obtain ⟨inner, opt⟩ := ty
  simp only [WellTyped, Bool.or_eq_true, Bool.and_eq_true, beq_iff_eq] at hw
  rcases hw with ⟨ho, hv⟩ | hw
  · subst ho; subst hv
    exact .optNone inner hm
  · cases inner with
    | sc t =>
      cases v with
      | sc s =>
        cases t with
        | base b => exact stableDefault_of_wtB b opt s (by simpa [wtN, wtI] using hw)
        | union alts =>
          simp only [wtN, wtI, List.any_eq_true] at hw
          obtain ⟨b, _, hb⟩ := hw
          refine .union alts opt s ?_ (wtB_ne_none b s hb)
          intro x hx; subst hx; simp [unionStr] at hu
      | list l => simp [wtN] at hw
      | tuple l => simp [wtN] at hw
    | literal vals =>
      cases v with
      | sc s =>
        cases opt
        · simp only [wtN, List.contains_iff_mem] at hw
          refine .literal vals s ?_ ?_
          · simp only [modelledTy] at hm
            intro h; rw [h] at hm; cases hm
          · intro x hx
            subst hx
            simpa [literalShadowed] using hl
        · simp [modelledTy] at hm
      | list l => simp [wtN] at hw
      | tuple l => simp [wtN] at hw
    | list item => cases v <;> simp [wtN] at hw; exact .list item opt _
    | tuple items =>
      cases v <;> simp [wtN] at hw
      refine .tuple items opt _ ?_
      intro h; cases opt <;> simp [modelledTy, h] at hm
    | vtuple item => cases v <;> simp [wtN] at hw; exact .vtuple item opt _
def leafOK (ty : FTy) (v : Val) : Bool :=
  WellTyped ty v && modelledTy ty && !unionStr ty v && !literalShadowed ty v

theorem stableDefault_of_leafOK (ty : FTy) (v : Val) (h : leafOK ty v = true) : StableDefault ty v := by
  simp only [leafOK, Bool.and_eq_true, Bool.not_eq_true'] at h
  exact stableDefault_of_wellTyped ty v h.1.1.1 h.1.1.2 h.1.2 h.2


/-- the full statement "every well-typed default of a modelled annotation survives the trip" … -/
def AllTypedDefaultsStable : Prop :=
  ∀ (fenv : FEnv) (f : FieldSpec) (v : Val), f.default = .value v → WellTyped f.ty v = true → modelledTy f.ty = true →
    LeafStable fenv f v

/-- … is false for the Union finding (`Union[float, str] = "0"` is well-typed) … -/
theorem c01_union_default_typed_witness : ¬ AllTypedDefaultsStable := by
  intro h
  have := h [("0".toList, some "0.0".toList)] unionLeaf (.sc (.str "0".toList)) rfl (by decide) (by decide)
  have h2 : leafEmpty [("0".toList, some "0.0".toList)] unionLeaf (some (.sc (.str "0".toList))) false =
      .ok (.sc (.float "0.0".toList)) := by rfl
  unfold LeafStable at this
  rw [h2] at this
  injection this with h3
  injection h3 with h4
  cases h4

/-- `x: Literal["0", 0] = "0"` -/
def literalLeaf : FieldSpec :=
  { name := "x".toList, ty := { inner := .literal [.str "0".toList, .int 0], optional := false },
    default := .value (.sc (.str "0".toList)) }

/-- what the model computes for it: the int `0` (open finding C01-literal-name-collision) -/
theorem literalLeaf_comes_back_int (fenv : FEnv) :
    leafEmpty fenv literalLeaf none false = .ok (.sc (.int 0)) := by rfl

/-- … and for the Literal finding: `Literal["0", 0] = "0"` comes back as the int `0`, because the name → value table
    `{str(v): v}` (field_wrapper.py:891) keeps the LAST value of each name -/
theorem c01_literal_collision_witness : ¬ AllTypedDefaultsStable := by
  intro h
  have := h [] literalLeaf (.sc (.str "0".toList)) rfl (by decide) (by decide)
  have h2 : leafEmpty [] literalLeaf (some (.sc (.str "0".toList))) false = .ok (.sc (.int 0)) := by rfl
  unfold LeafStable at this
  rw [h2] at this
  injection this with h3
  injection h3 with h4
  cases h4

/-- the same leaf refutes the untyped statement as well -/
theorem c01_literal_collision_witness' : ¬ AllDefaultsStable := by
  intro h
  have := h [] literalLeaf (.sc (.str "0".toList)) rfl
  have h2 : leafEmpty [] literalLeaf (some (.sc (.str "0".toList))) false = .ok (.sc (.int 0)) := by rfl
  unfold LeafStable at this
  rw [h2] at this
  injection this with h3
  injection h3 with h4
  cases h4


/-- **every well-typed default is stable, outside the two open findings** (`_partial` of `AllTypedDefaultsStable`
    under the named decidable exclusions `unionStr` and `literalShadowed`) -/
theorem c01_typed_defaults_partial (fenv : FEnv) (f : FieldSpec) (v : Val)
    (hw : WellTyped f.ty v = true) (hm : modelledTy f.ty = true)
    (hu : unionStr f.ty v = false) (hl : literalShadowed f.ty v = false) : LeafStable fenv f v :=
  leafStable_of_stableDefault fenv f v (stableDefault_of_wellTyped f.ty v hw hm hu hl)

/-- the exclusions are exactly the findings' shapes: the shadowed `"0"` is excluded, the int `0` of the same Literal and
    `"0"` when it comes LAST are not; a non-string value of a Union is not -/
example : literalShadowed literalLeaf.ty (.sc (.str "0".toList)) = true := by decide
example : leafOK literalLeaf.ty (.sc (.int 0)) = true := by decide
example : leafOK { inner := .literal [.int 0, .str "0".toList], optional := false } (.sc (.str "0".toList)) = true := by decide
example : leafOK { inner := .literal [.int 1, .str "zero".toList], optional := false } (.sc (.str "zero".toList)) = true := by decide
example : leafOK unionLeaf.ty (.sc (.float "1.5".toList)) = true := by decide
example : leafOK unionLeaf.ty (.sc (.str "0".toList)) = false := by decide
example : leafOK { inner := .list (.base .int), optional := true } (.sc .none) = true := by decide
example : leafOK { inner := .tuple [.base .int, .base .str], optional := false } (.tuple [.int 1, .str "a".toList]) = true := by decide

/-- the partial theorem applied: `w: Optional[List[float]] = None` and `t: Tuple[int, str] = (1, "a")`, whatever the
    float table, field name and aliases -/
example (fenv : FEnv) (d : DefaultV) : LeafStable fenv
    { name := "w".toList, ty := { inner := .list (.base .float), optional := true }, default := d } (.sc .none) :=
  c01_typed_defaults_partial fenv _ _ rfl rfl rfl rfl
example (fenv : FEnv) (d : DefaultV) : LeafStable fenv
    { name := "t".toList, ty := { inner := .tuple [.base .int, .base .str], optional := false }, default := d }
    (.tuple [.int 1, .str "a".toList]) :=
  c01_typed_defaults_partial fenv _ _ rfl rfl rfl rfl
/-- `stable_optional_none_any`: an Optional heterogeneous tuple holding None -/
example (fenv : FEnv) : LeafStable fenv
    { name := "t".toList, ty := { inner := .tuple [.base .int, .base .str], optional := true }, default := .missing } (.sc .none) :=
  stable_optional_none_any fenv _ [] _ _ (by decide)

mutual
def FitsTyped (fenv : FEnv) : CTree → IVal → Prop
  | .mk cls fs, .inst cls' ifs => cls = cls' ∧ FitsTypedF fenv fs ifs (.inst cls' ifs)
  | .mk _ _, .nul => False
def FitsTypedF (fenv : FEnv) : CFields → IFields → IVal → Prop
  | .nil, .nil, _ => True
  | .leaf f rest, .leaf n v irest, whole =>
    n = f.name ∧ whole.getLeaf f.name = some v ∧ StableDefault f.ty v ∧ FitsTypedF fenv rest irest whole
  | .child name optional _ t rest, .sub n v irest, whole =>
    n = name ∧ whole.getSub name = some v ∧
    (match v with
     | .nul => optional = true ∧ QuietNone fenv t
     | .inst c fs => FitsTyped fenv t (.inst c fs)) ∧
    FitsTypedF fenv rest irest whole
  | _, _, _ => False
end

mutual
theorem fitsStable_of_typed (fenv : FEnv) : ∀ (t : CTree) (i : IVal), FitsTyped fenv t i → FitsStable fenv t i
  | .mk cls fs, .inst cls' ifs, h => by
    simp only [FitsTyped] at h
    simp only [FitsStable]
    exact ⟨h.1, fitsStableF_of_typed fenv fs ifs _ h.2⟩
  | .mk _ _, .nul, h => by simp [FitsTyped] at h
theorem fitsStableF_of_typed (fenv : FEnv) : ∀ (fs : CFields) (ifs : IFields) (whole : IVal),
    FitsTypedF fenv fs ifs whole → FitsStableF fenv fs ifs whole
  | .nil, .nil, _, _ => by simp [FitsStableF]
  | .leaf f rest, .leaf n v irest, whole, h => by
    simp only [FitsTypedF] at h
    simp only [FitsStableF]
    exact ⟨h.1, h.2.1, leafStable_of_stableDefault fenv f v h.2.2.1, fitsStableF_of_typed fenv rest irest whole h.2.2.2⟩
  | .child name optional d t rest, .sub n v irest, whole, h => by
    simp only [FitsTypedF] at h
    simp only [FitsStableF]
    refine ⟨h.1, h.2.1, ?_, fitsStableF_of_typed fenv rest irest whole h.2.2.2⟩
    match v, h.2.2.1 with
    | .nul, hv => exact hv
    | .inst c fs, hv => exact fitsStable_of_typed fenv t (.inst c fs) hv
  | .nil, .leaf _ _ _, _, h => by simp [FitsTypedF] at h
  | .nil, .sub _ _ _, _, h => by simp [FitsTypedF] at h
  | .leaf _ _, .nil, _, h => by simp [FitsTypedF] at h
  | .leaf _ _, .sub _ _ _, _, h => by simp [FitsTypedF] at h
  | .child _ _ _ _ _, .nil, _, h => by simp [FitsTypedF] at h
  | .child _ _ _ _ _, .leaf _ _ _, _, h => by simp [FitsTypedF] at h
end

/-- **C01 (caller-supplied default instance), hypothesis-free on the grammar.** -/
theorem c01_caller_default_typed (fenv : FEnv) (t : CTree) (i : IVal) (h : FitsTyped fenv t i) :
    parseEmptyTop fenv t (some i) = .ok i :=
  c01_caller_default fenv t i (fitsStable_of_typed fenv t i h)

/-! ### an Optional member left at None stays None: proved, not assumed -/

def CFields.leafNames : CFields → List Str
  | .nil => []
  | .leaf f rest => f.name :: CFields.leafNames rest
  | .child _ _ _ _ rest => CFields.leafNames rest

def CFields.subNames : CFields → List Str
  | .nil => []
  | .leaf _ rest => CFields.subNames rest
  | .child n _ _ _ rest => n :: CFields.subNames rest

def IFields.leaves : IFields → List (Str × Val)
  | .nil => []
  | .leaf n v rest => (n, v) :: IFields.leaves rest
  | .sub _ _ rest => IFields.leaves rest

/-- the leaf defaults a wrapper without default instance records: the fields' own defaults -/
def ownLeafDefaults : CFields → List (Str × Val)
  | .nil => []
  | .leaf f rest => (f.name, defaultVal f.default) :: ownLeafDefaults rest
  | .child _ _ _ _ rest => ownLeafDefaults rest

theorem ownLeafDefaults_names (fs : CFields) : (ownLeafDefaults fs).map Prod.fst = CFields.leafNames fs := by
  match fs with
  | .nil => rfl
  | .leaf f rest => simp [ownLeafDefaults, CFields.leafNames, ownLeafDefaults_names rest]
  | .child _ _ _ _ rest => simp [ownLeafDefaults, CFields.leafNames, ownLeafDefaults_names rest]

/-! "quiet" subtree, by recursion on the class tree: every leaf comes back as its own declared default (None when it has
    none) when nothing is typed and no default instance exists; members are quiet recursively -/
mutual
def QuietT (fenv : FEnv) : CTree → Prop
  | .mk _ fs => QuietF fenv fs
def QuietF (fenv : FEnv) : CFields → Prop
  | .nil => True
  | .leaf f rest => leafEmpty fenv f none true = .ok (defaultVal f.default) ∧ QuietF fenv rest
  | .child _ _ _ t rest => QuietT fenv t ∧ QuietF fenv rest
end

theorem lookup_self_of_nodup (l : List (Str × Val)) (hnd : (l.map Prod.fst).Nodup) :
    ∀ p ∈ l, l.lookup p.1 = some p.2 := by
  induction l with
  | nil => intro p hp; cases hp
  | cons a l ih =>
    intro p hp
    simp only [List.map_cons, List.nodup_cons] at hnd
    rcases List.mem_cons.mp hp with rfl | hp'
    · simp [List.lookup]
    · have hne : p.1 ≠ a.1 := by
        intro h
        exact hnd.1 (h ▸ List.mem_map_of_mem (f := Prod.fst) hp')
      obtain ⟨a1, a2⟩ := a
      simp only [List.lookup]
      have : (p.1 == a1) = false := by simpa using hne
      rw [this]
      exact ih hnd.2 p hp'

theorem allLeavesEq_iff (r : IFields) (ds : List (Str × Val)) :
    r.allLeavesEq ds = true ↔ ∀ p ∈ IFields.leaves r, ds.lookup p.1 = some p.2 := by
  match r with
  | .nil => simp [IFields.allLeavesEq, IFields.leaves]
  | .leaf n v rest =>
    simp only [IFields.allLeavesEq, IFields.leaves, Bool.and_eq_true, beq_iff_eq, List.mem_cons, forall_eq_or_imp,
      allLeavesEq_iff rest ds]
  | .sub _ _ rest => simp only [IFields.allLeavesEq, IFields.leaves, allLeavesEq_iff rest ds]

/-- the members' half of the Optional rule follows from the whole subtree being at its default -/
theorem membersAtDefault_of_atDefaultF : ∀ (fs : CFields) (dv : DV) (r : IFields),
    atDefaultF fs dv r = true → membersAtDefault fs dv r = true
  | .nil, _, .nil, _ => by simp [membersAtDefault]
  | .leaf f rest, dv, .leaf n v irest, h => by
    simp only [atDefaultF, Bool.and_eq_true] at h
    simp only [membersAtDefault]
    exact membersAtDefault_of_atDefaultF rest dv irest h.2
  | .child name o dflt t rest, dv, .sub n v irest, h => by
    simp only [atDefaultF, Bool.and_eq_true] at h
    simp only [membersAtDefault, Bool.and_eq_true]
    exact ⟨h.1, membersAtDefault_of_atDefaultF rest dv irest h.2⟩
  | .nil, _, .leaf _ _ _, h => by simp [atDefaultF] at h
  | .nil, _, .sub _ _ _, h => by simp [atDefaultF] at h
  | .leaf _ _, _, .nil, h => by simp [atDefaultF] at h
  | .leaf _ _, _, .sub _ _ _, h => by simp [atDefaultF] at h
  | .child _ _ _ _ _, _, .nil, h => by simp [atDefaultF] at h
  | .child _ _ _ _ _, _, .leaf _ _ _, h => by simp [atDefaultF] at h

mutual
/-- a quiet subtree below a None'd Optional member parses, and what is built is at its default in the sense of
    `_is_at_default` (so it cannot wake the enclosing Optional member, fixes 3f531df / f635f07) -/
theorem quietT_ok (fenv : FEnv) : ∀ (t : CTree) (optional : Bool), QuietT fenv t →
    ∃ v, parseEmptyChild fenv t none .presentNone true optional = .ok v ∧ atDefaultT t .presentNone v = true
  | .mk cls fs, optional, h => by
    simp only [QuietT] at h
    obtain ⟨r, _, hat, hp⟩ := quietF_parse fenv fs h
    simp only [parseEmptyChild, hp]
    split
    · exact ⟨_, rfl, by simp [atDefaultT]⟩
    · exact ⟨_, rfl, by simp [atDefaultT, hat]⟩
theorem quietF_parse (fenv : FEnv) : ∀ (fs : CFields), QuietF fenv fs →
    ∃ r, IFields.leaves r = ownLeafDefaults fs ∧ atDefaultF fs .presentNone r = true ∧
      parseEmptyFields fenv fs none .presentNone true = .ok (r, ownLeafDefaults fs)
  | .nil, _ => ⟨.nil, rfl, by simp [atDefaultF], rfl⟩
  | .leaf f rest, h => by
    simp only [QuietF] at h
    obtain ⟨r, hl, hat, hp⟩ := quietF_parse fenv rest h.2
    refine ⟨.leaf f.name (defaultVal f.default) r, by simp [IFields.leaves, ownLeafDefaults, hl],
      by simp [atDefaultF, leafWD, hat], ?_⟩
    simp [parseEmptyFields, h.1, hp, ownLeafDefaults]
  | .child name optional dflt t rest, h => by
    simp only [QuietF] at h
    obtain ⟨r, hl, hat, hp⟩ := quietF_parse fenv rest h.2
    obtain ⟨v, hv, hvat⟩ := quietT_ok fenv t optional h.1
    refine ⟨.sub name v r, by simp [IFields.leaves, ownLeafDefaults, hl],
      by simp [atDefaultF, childDV, hvat, hat], ?_⟩
    simp [parseEmptyFields, childDV, hv, hp, ownLeafDefaults]
end

/-- **an Optional member left at None stays None** — no longer assumed: it holds for every subtree (any depth) whose
    leaves come back as their own defaults and whose own leaf names are distinct (as dataclass fields are); the
    nested members are built at their defaults, which the rule now inspects too (`membersAtDefault`) -/
theorem quietNone_of_quietF (fenv : FEnv) (cls : Str) (fs : CFields) (h : QuietF fenv fs)
    (hnd : (CFields.leafNames fs).Nodup) : QuietNone fenv (.mk cls fs) := by
  obtain ⟨r, hl, hat, hp⟩ := quietF_parse fenv fs h
  have hall : r.allLeavesEq (ownLeafDefaults fs) = true := by
    rw [allLeavesEq_iff, hl]
    exact lookup_self_of_nodup _ (by rw [ownLeafDefaults_names]; exact hnd)
  simp [QuietNone, parseEmptyChild, hp, hall, membersAtDefault_of_atDefaultF fs .presentNone r hat]

/-- `class K2: x: Literal["0", 0] = "0"`, `class K1: c: K2 = field(default_factory=K2)` — and `m: Optional[K1] = None` -/
def wakeTree : CTree :=
  .mk "K1".toList (.child "c".toList false .factoryCls (.mk "K2".toList (.leaf literalLeaf .nil)) .nil)

/-- the hypothesis of `quietNone_of_quietF` cannot be dropped, and since fixes 3f531df / f635f07 it matters at EVERY
    depth: a leaf of a NESTED member that comes back changed (here the open finding C01-literal-name-collision) makes
    the enclosing `Optional[K1] = None` member come back built, although K1 has no leaf of its own -/
theorem c01_nested_changed_leaf_wakes_optional : ¬ QuietNone [] wakeTree := by
  have h : parseEmptyChild [] wakeTree none .presentNone true true =
      .ok (.inst "K1".toList (.sub "c".toList (.inst "K2".toList (.leaf "x".toList (.sc (.int 0)) .nil)) .nil)) := by rfl
  intro hq
  unfold QuietNone at hq
  rw [h] at hq
  injection hq with hq
  cases hq

/-! ### leaves of a quiet subtree, syntactically -/

theorem leafEmpty_own (fenv : FEnv) (f : FieldSpec) (v : Val) (o : Bool) (hd : f.default = .value v) :
    leafEmpty fenv f none o = leafEmpty fenv f (some v) o := by
  unfold leafEmpty
  simp only [hd]

theorem leafEmpty_missing (fenv : FEnv) (f : FieldSpec) (hd : f.default = .missing) (hm : modelledTy f.ty = true) :
    leafEmpty fenv f none true = .ok (.sc .none) := by
  obtain ⟨name, ⟨inner, opt⟩, d, als⟩ := f
  simp only at hd hm
  subst hd
  unfold leafEmpty
  cases inner with
  | sc t =>
    cases t with
    | base b => cases opt <;> cases b <;> simp [argOptions, defaultVal, postprocess]
    | union a => cases opt <;> simp [argOptions, defaultVal, postprocess]
  | literal vals =>
    cases opt
    · cases hn : vals.mapM literalName with
      | none => simp [modelledTy, hn] at hm
      | some names => simp [argOptions, defaultVal, postprocess, hn]
    · simp [modelledTy] at hm
  | list item =>
    cases hc : containerConv item with
    | none => exact absurd hc (containerConv_ne_none item)
    | some c => cases opt <;> simp [argOptions, defaultVal, postprocess, hc, tupleToList]
  | tuple items =>
    cases hc : tupleConv items with
    | none => cases opt <;> simp [modelledTy, hc] at hm
    | some c => cases opt <;> simp [argOptions, defaultVal, postprocess, hc, listToTuple]
  | vtuple item => cases opt <;> simp [argOptions, defaultVal, postprocess, listToTuple]

/-! non-vacuity: a two-level tree with an Optional member, a caller instance that fits it -/
def demoTree : CTree :=
  .mk "K0".toList
    (.leaf { name := "a".toList, ty := { inner := .sc (.base .int), optional := false },
             default := .value (.sc (.int 1)) }
    (.child "o".toList true .noneVal
      (.mk "K1".toList (.leaf { name := "x".toList, ty := { inner := .sc (.base .int), optional := false },
                                default := .value (.sc (.int 5)) } .nil))
    .nil))

def demoInst : IVal :=
  .inst "K0".toList (.leaf "a".toList (.sc (.int 7))
    (.sub "o".toList (.inst "K1".toList (.leaf "x".toList (.sc (.int 9)) .nil)) .nil))

example : parseEmptyTop [] demoTree (some demoInst) = .ok demoInst := by rfl
example : parseEmptyTop [] demoTree none = construct demoTree := by rfl

/-- the demo instance below is typed: the theorem applies to it without any stability hypothesis
    beyond the quietness of Optional members holding None -/
example : FitsTyped [] demoTree demoInst := by
  simp only [demoTree, demoInst, FitsTyped, FitsTypedF, IVal.getLeaf, IVal.getSub]
  have h7 : StableDefault { inner := .sc (.base .int), optional := false } (.sc (.int 7)) :=
    StableDefault.plain .int false (.int 7) (Or.inl rfl) (by intro s h; cases h) (by intro h; cases h)
  have h9 : StableDefault { inner := .sc (.base .int), optional := false } (.sc (.int 9)) :=
    StableDefault.plain .int false (.int 9) (Or.inl rfl) (by intro s h; cases h) (by intro h; cases h)
  exact ⟨trivial, trivial, by rfl, h7, trivial, by rfl, ⟨trivial, trivial, by rfl, h9, trivial⟩, trivial⟩

/-! ### syntactic hypotheses: typed leaves, quiet None members, typed own defaults -/

/-- a leaf's OWN default is a typed one (or it has none: then argparse's default is None) -/
def LeafDefaultTyped (f : FieldSpec) : Prop :=
  (∃ v, f.default = .value v ∧ leafOK f.ty v = true) ∨ (f.default = .missing ∧ modelledTy f.ty = true)

theorem leaf_quiet_of_typed (fenv : FEnv) (f : FieldSpec) (h : LeafDefaultTyped f) :
    leafEmpty fenv f none true = .ok (defaultVal f.default) := by
  rcases h with ⟨v, hd, hok⟩ | ⟨hd, hm⟩
  · rw [leafEmpty_own fenv f v true hd, hd]
    exact leafEmpty_opt_irrelevant fenv f v true
      (leafStable_of_stableDefault fenv f v (stableDefault_of_leafOK f.ty v hok))
  · rw [leafEmpty_missing fenv f hd hm, hd]; rfl

mutual
def QuietTypedT : CTree → Prop
  | .mk _ fs => QuietTypedF fs
def QuietTypedF : CFields → Prop
  | .nil => True
  | .leaf f rest => LeafDefaultTyped f ∧ QuietTypedF rest
  | .child _ _ _ t rest => QuietTypedT t ∧ QuietTypedF rest
end

mutual
theorem quietT_of_typed (fenv : FEnv) : ∀ (t : CTree), QuietTypedT t → QuietT fenv t
  | .mk _ fs, h => by
    simp only [QuietTypedT] at h
    simp only [QuietT]
    exact quietF_of_typed fenv fs h
theorem quietF_of_typed (fenv : FEnv) : ∀ (fs : CFields), QuietTypedF fs → QuietF fenv fs
  | .nil, _ => by simp [QuietF]
  | .leaf f rest, h => by
    simp only [QuietTypedF] at h
    simp only [QuietF]
    exact ⟨leaf_quiet_of_typed fenv f h.1, quietF_of_typed fenv rest h.2⟩
  | .child _ _ _ t rest, h => by
    simp only [QuietTypedF] at h
    simp only [QuietF]
    exact ⟨quietT_of_typed fenv t h.1, quietF_of_typed fenv rest h.2⟩
end

/-- syntactic quietness of a member's class: typed own defaults at every depth, distinct leaf names at its top level -/
def QuietSyn : CTree → Prop
  | .mk _ fs => QuietTypedF fs ∧ (CFields.leafNames fs).Nodup

theorem quietNone_of_syn (fenv : FEnv) (t : CTree) (h : QuietSyn t) : QuietNone fenv t := by
  match t, h with
  | .mk cls fs, h => exact quietNone_of_quietF fenv cls fs (quietF_of_typed fenv fs h.1) h.2

/-! ### instances, syntactically: every leaf value typed (outside the two exclusions), members holding None quiet -/
mutual
def FitsWT : CTree → IVal → Prop
  | .mk cls fs, .inst cls' ifs => cls = cls' ∧ FitsWTF fs ifs (.inst cls' ifs)
  | .mk _ _, .nul => False
def FitsWTF : CFields → IFields → IVal → Prop
  | .nil, .nil, _ => True
  | .leaf f rest, .leaf n v irest, whole =>
    n = f.name ∧ whole.getLeaf f.name = some v ∧ leafOK f.ty v = true ∧ FitsWTF rest irest whole
  | .child name optional _ t rest, .sub n v irest, whole =>
    n = name ∧ whole.getSub name = some v ∧
    (match v with
     | .nul => optional = true ∧ QuietSyn t
     | .inst c fs => FitsWT t (.inst c fs)) ∧
    FitsWTF rest irest whole
  | _, _, _ => False
end

mutual
theorem fitsTyped_of_wt (fenv : FEnv) : ∀ (t : CTree) (i : IVal), FitsWT t i → FitsTyped fenv t i
  | .mk cls fs, .inst cls' ifs, h => by
    simp only [FitsWT] at h
    simp only [FitsTyped]
    exact ⟨h.1, fitsTypedF_of_wt fenv fs ifs _ h.2⟩
  | .mk _ _, .nul, h => by simp [FitsWT] at h
theorem fitsTypedF_of_wt (fenv : FEnv) : ∀ (fs : CFields) (ifs : IFields) (whole : IVal),
    FitsWTF fs ifs whole → FitsTypedF fenv fs ifs whole
  | .nil, .nil, _, _ => by simp [FitsTypedF]
  | .leaf f rest, .leaf n v irest, whole, h => by
    simp only [FitsWTF] at h
    simp only [FitsTypedF]
    exact ⟨h.1, h.2.1, stableDefault_of_leafOK f.ty v h.2.2.1, fitsTypedF_of_wt fenv rest irest whole h.2.2.2⟩
  | .child name optional d t rest, .sub n v irest, whole, h => by
    simp only [FitsWTF] at h
    simp only [FitsTypedF]
    refine ⟨h.1, h.2.1, ?_, fitsTypedF_of_wt fenv rest irest whole h.2.2.2⟩
    match v, h.2.2.1 with
    | .nul, hv => exact ⟨hv.1, quietNone_of_syn fenv t hv.2⟩
    | .inst c fs, hv => exact fitsTyped_of_wt fenv t (.inst c fs) hv
  | .nil, .leaf _ _ _, _, h => by simp [FitsWTF] at h
  | .nil, .sub _ _ _, _, h => by simp [FitsWTF] at h
  | .leaf _ _, .nil, _, h => by simp [FitsWTF] at h
  | .leaf _ _, .sub _ _ _, _, h => by simp [FitsWTF] at h
  | .child _ _ _ _ _, .nil, _, h => by simp [FitsWTF] at h
  | .child _ _ _ _ _, .leaf _ _ _, _, h => by simp [FitsWTF] at h
end

/-- **C01 (caller-supplied default instance), fully syntactic hypothesis.** -/
theorem c01_caller_default_wellTyped (fenv : FEnv) (t : CTree) (i : IVal) (h : FitsWT t i) :
    parseEmptyTop fenv t (some i) = .ok i :=
  c01_caller_default_typed fenv t i (fitsTyped_of_wt fenv t i h)


/-! ### no caller default, syntactically -/

def IFields.leafNames : IFields → List Str
  | .nil => []
  | .leaf n _ rest => n :: IFields.leafNames rest
  | .sub _ _ rest => IFields.leafNames rest

def IFields.subNames : IFields → List Str
  | .nil => []
  | .leaf _ _ rest => IFields.subNames rest
  | .sub n _ rest => n :: IFields.subNames rest

theorem getLeaf_mem (ifs : IFields) (k : Str) (v : Val) (h : ifs.getLeaf k = some v) : k ∈ IFields.leafNames ifs := by
  match ifs with
  | .nil => simp [IFields.getLeaf] at h
  | .leaf n x rest =>
    simp only [IFields.getLeaf] at h
    by_cases hn : n = k
    · simp [IFields.leafNames, hn]
    · simp only [hn, ↓reduceIte] at h
      simp [IFields.leafNames, getLeaf_mem rest k v h]
  | .sub _ _ rest =>
    simp only [IFields.getLeaf] at h
    simp [IFields.leafNames, getLeaf_mem rest k v h]

theorem getSub_mem (ifs : IFields) (k : Str) (v : IVal) (h : ifs.getSub k = some v) : k ∈ IFields.subNames ifs := by
  match ifs with
  | .nil => simp [IFields.getSub] at h
  | .leaf _ _ rest =>
    simp only [IFields.getSub] at h
    simp [IFields.subNames, getSub_mem rest k v h]
  | .sub n x rest =>
    simp only [IFields.getSub] at h
    by_cases hn : n = k
    · simp [IFields.subNames, hn]
    · simp only [hn, ↓reduceIte] at h
      simp [IFields.subNames, getSub_mem rest k v h]

/-- `FitsStableF` without the attribute look-ups (they follow from distinct field names) -/
def FitsLocF (fenv : FEnv) : CFields → IFields → Prop
  | .nil, .nil => True
  | .leaf f rest, .leaf n v irest => n = f.name ∧ LeafStable fenv f v ∧ FitsLocF fenv rest irest
  | .child name optional _ t rest, .sub n v irest =>
    n = name ∧
    (match v with
     | .nul => optional = true ∧ QuietNone fenv t
     | .inst c fs => FitsStable fenv t (.inst c fs)) ∧
    FitsLocF fenv rest irest
  | _, _ => False

/-- `whole` answers every look-up the way the tail `ifs` does -/
def Agrees (ifs : IFields) (whole : IVal) : Prop :=
  (∀ k v, ifs.getLeaf k = some v → whole.getLeaf k = some v) ∧
  (∀ k v, ifs.getSub k = some v → whole.getSub k = some v)

theorem fitsStableF_of_loc (fenv : FEnv) : ∀ (fs : CFields) (ifs : IFields) (whole : IVal),
    FitsLocF fenv fs ifs → (IFields.leafNames ifs).Nodup → (IFields.subNames ifs).Nodup → Agrees ifs whole →
    FitsStableF fenv fs ifs whole
  | .nil, .nil, _, _, _, _, _ => by simp [FitsStableF]
  | .leaf f rest, .leaf n v irest, whole, h, hl, hs, ha => by
    simp only [FitsLocF] at h
    obtain ⟨hn, hst, hrest⟩ := h
    subst hn
    simp only [IFields.leafNames, List.nodup_cons] at hl
    simp only [IFields.subNames] at hs
    simp only [FitsStableF]
    refine ⟨trivial, ha.1 _ v (by simp [IFields.getLeaf]), hst, ?_⟩
    refine fitsStableF_of_loc fenv rest irest whole hrest hl.2 hs ⟨?_, ?_⟩
    · intro k x hk
      apply ha.1
      have hne : f.name ≠ k := by
        intro he; exact hl.1 (he ▸ getLeaf_mem irest k x hk)
      simp [IFields.getLeaf, hne, hk]
    · intro k x hk
      apply ha.2
      simpa [IFields.getSub] using hk
  | .child name optional d t rest, .sub n v irest, whole, h, hl, hs, ha => by
    simp only [FitsLocF] at h
    obtain ⟨hn, hv, hrest⟩ := h
    subst hn
    simp only [IFields.subNames, List.nodup_cons] at hs
    simp only [IFields.leafNames] at hl
    simp only [FitsStableF]
    refine ⟨trivial, ha.2 _ v (by simp [IFields.getSub]), hv, ?_⟩
    refine fitsStableF_of_loc fenv rest irest whole hrest hl hs.2 ⟨?_, ?_⟩
    · intro k x hk
      apply ha.1
      simpa [IFields.getLeaf] using hk
    · intro k x hk
      apply ha.2
      have hne : n ≠ k := by
        intro he; exact hs.1 (he ▸ getSub_mem irest k x hk)
      simp [IFields.getSub, hne, hk]
  | .nil, .leaf _ _ _, _, h, _, _, _ => by simp [FitsLocF] at h
  | .nil, .sub _ _ _, _, h, _, _, _ => by simp [FitsLocF] at h
  | .leaf _ _, .nil, _, h, _, _, _ => by simp [FitsLocF] at h
  | .leaf _ _, .sub _ _ _, _, h, _, _, _ => by simp [FitsLocF] at h
  | .child _ _ _ _ _, .nil, _, h, _, _, _ => by simp [FitsLocF] at h
  | .child _ _ _ _ _, .leaf _ _ _, _, h, _, _, _ => by simp [FitsLocF] at h

/-! "every field of the class has a typed default of its own, at every depth": leaves carry a typed default value
    (outside the two exclusions); members are `Optional … = None` with a syntactically quiet class,
    `default_factory=Cls` with `Cls` again of this kind, or `default_factory=lambda: inst` with a typed instance;
    field names are distinct (as dataclass fields are). No model evaluation inside. -/
mutual
def OwnTyped : CTree → Prop
  | .mk _ fs => OwnTypedF fs ∧ (CFields.leafNames fs).Nodup ∧ (CFields.subNames fs).Nodup
def OwnTypedF : CFields → Prop
  | .nil => True
  | .leaf f rest => (∃ v, f.default = .value v ∧ leafOK f.ty v = true) ∧ OwnTypedF rest
  | .child _ optional dflt t rest =>
    (match dflt with
     | .missing => False
     | .noneVal => optional = true ∧ QuietSyn t
     | .factoryCls => OwnTyped t
     | .factoryInst i => FitsWT t i) ∧ OwnTypedF rest
end

mutual
/-- the constructor's own result fits the class and is stable -/
theorem construct_fits (fenv : FEnv) : ∀ (t : CTree), OwnTyped t →
    ∃ i, construct t = .ok i ∧ FitsStable fenv t i
  | .mk cls fs, h => by
    simp only [OwnTyped] at h
    obtain ⟨r, hc, hloc, hln, hsn⟩ := constructFields_loc fenv fs h.1
    refine ⟨.inst cls r, by simp [construct, hc], ?_⟩
    simp only [FitsStable, true_and]
    exact fitsStableF_of_loc fenv fs r (.inst cls r) hloc (hln ▸ h.2.1) (hsn ▸ h.2.2)
      ⟨fun _ _ hk => hk, fun _ _ hk => hk⟩
theorem constructFields_loc (fenv : FEnv) : ∀ (fs : CFields), OwnTypedF fs →
    ∃ r, constructFields fs = .ok r ∧ FitsLocF fenv fs r ∧
      IFields.leafNames r = CFields.leafNames fs ∧ IFields.subNames r = CFields.subNames fs
  | .nil, _ => ⟨.nil, rfl, by simp [FitsLocF], rfl, rfl⟩
  | .leaf f rest, h => by
    simp only [OwnTypedF] at h
    obtain ⟨⟨v, hd, hok⟩, hrest⟩ := h
    obtain ⟨r, hc, hloc, hln, hsn⟩ := constructFields_loc fenv rest hrest
    refine ⟨.leaf f.name v r, by simp [constructFields, hd, hc], ?_, by simp [IFields.leafNames, CFields.leafNames, hln],
      by simp [IFields.subNames, CFields.subNames, hsn]⟩
    simp only [FitsLocF, true_and]
    exact ⟨leafStable_of_stableDefault fenv f v (stableDefault_of_leafOK f.ty v hok), hloc⟩
  | .child name optional dflt t rest, h => by
    simp only [OwnTypedF] at h
    obtain ⟨hd, hrest⟩ := h
    obtain ⟨r, hc, hloc, hln, hsn⟩ := constructFields_loc fenv rest hrest
    have hnames : ∀ v, IFields.leafNames (.sub name v r) = CFields.leafNames (.child name optional dflt t rest) ∧
        IFields.subNames (.sub name v r) = CFields.subNames (.child name optional dflt t rest) := by
      intro v; simp [IFields.leafNames, CFields.leafNames, IFields.subNames, CFields.subNames, hln, hsn]
    cases dflt with
    | missing => exact absurd hd id
    | noneVal =>
      refine ⟨.sub name .nul r, by simp [constructFields, hc], ?_, (hnames _).1, (hnames _).2⟩
      simp only [FitsLocF, true_and]
      exact ⟨⟨hd.1, quietNone_of_syn fenv t hd.2⟩, hloc⟩
    | factoryCls =>
      obtain ⟨i, hci, hfit⟩ := construct_fits fenv t hd
      refine ⟨.sub name i r, by simp [constructFields, hci, hc], ?_, (hnames _).1, (hnames _).2⟩
      simp only [FitsLocF, true_and]
      refine ⟨?_, hloc⟩
      match t, i, hfit with
      | .mk _ _, .inst c cfs, hfit => exact hfit
    | factoryInst i =>
      have hfit := fitsStable_of_typed fenv t i (fitsTyped_of_wt fenv t i hd)
      refine ⟨.sub name i r, by simp [constructFields, hc], ?_, (hnames _).1, (hnames _).2⟩
      simp only [FitsLocF, true_and]
      refine ⟨?_, hloc⟩
      match t, i, hfit with
      | .mk _ _, .inst c cfs, hfit => exact hfit
end

theorem ownStable_of_typed (fenv : FEnv) : ∀ (fs : CFields), OwnTypedF fs → OwnStable fenv fs
  | .nil, _ => by simp [OwnStable]
  | .leaf f rest, h => by
    simp only [OwnTypedF] at h
    obtain ⟨⟨v, hd, hok⟩, hrest⟩ := h
    simp only [OwnStable]
    refine ⟨⟨v, hd, ?_⟩, ownStable_of_typed fenv rest hrest⟩
    rw [leafEmpty_own fenv f v false hd]
    exact leafStable_of_stableDefault fenv f v (stableDefault_of_leafOK f.ty v hok)
  | .child name optional dflt t rest, h => by
    simp only [OwnTypedF] at h
    obtain ⟨hd, hrest⟩ := h
    simp only [OwnStable]
    refine ⟨?_, ownStable_of_typed fenv rest hrest⟩
    cases dflt with
    | missing => exact absurd hd id
    | noneVal => exact ⟨hd.1, quietNone_of_syn fenv t hd.2⟩
    | factoryCls => exact construct_fits fenv t hd
    | factoryInst i => exact fitsStable_of_typed fenv t i (fitsTyped_of_wt fenv t i hd)

/-- **C01 (no caller default), fully syntactic hypothesis.** A class whose fields all carry typed defaults of their own
    (any depth; `default_factory=Cls` members, `default_factory=lambda: inst` members, `Optional … = None` members):
    the empty command line yields exactly what the dataclass constructor produces by itself. -/
theorem c01_no_caller_typed (fenv : FEnv) (cls : Str) (fs : CFields) (h : OwnTyped (.mk cls fs)) :
    ∃ i, construct (.mk cls fs) = .ok i ∧ parseEmptyTop fenv (.mk cls fs) none = .ok i := by
  simp only [OwnTyped] at h
  exact c01_no_caller fenv cls fs (ownStable_of_typed fenv fs h.1)

/-! ### non-vacuity of the syntactic hypotheses -/

def leafInt (n : String) (k : Int) : FieldSpec :=
  { name := n.toList, ty := { inner := .sc (.base .int), optional := false }, default := .value (.sc (.int k)) }

/-- `class K1: x: int = 5; t: Tuple[int, str]` (a REQUIRED tuple field) -/
def k1 : CTree :=
  .mk "K1".toList (.leaf (leafInt "x" 5)
    (.leaf { name := "t".toList, ty := { inner := .tuple [.base .int, .base .str], optional := false }, default := .missing } .nil))

def k2 : CTree := .mk "K2".toList (.leaf (leafInt "y" 2) .nil)

/-- `class K0: a: int = 1; m: Literal[0, "0"] = "0"; o: Optional[K1] = None; c: K2 = field(default_factory=K2);
    d: Optional[K2] = field(default_factory=lambda: K2(y=9))` -/
def ownTree : CTree :=
  .mk "K0".toList
    (.leaf (leafInt "a" 1)
    (.leaf { name := "m".toList, ty := { inner := .literal [.int 0, .str "0".toList], optional := false },
             default := .value (.sc (.str "0".toList)) }
    (.child "o".toList true .noneVal k1
    (.child "c".toList false .factoryCls k2
    (.child "d".toList true (.factoryInst (.inst "K2".toList (.leaf "y".toList (.sc (.int 9)) .nil))) k2 .nil)))))

/-- an Optional member whose class has a required field is quiet (the repaired tuple(None) case included) -/
example : QuietSyn k1 := by
  refine ⟨⟨Or.inl ⟨_, rfl, by decide⟩, Or.inr ⟨rfl, by decide⟩, trivial⟩, by decide⟩

example (fenv : FEnv) : QuietNone fenv k1 :=
  quietNone_of_syn fenv k1 ⟨⟨Or.inl ⟨_, rfl, by decide⟩, Or.inr ⟨rfl, by decide⟩, trivial⟩, by decide⟩

theorem ownTree_typed : OwnTyped ownTree := by
  refine ⟨⟨⟨_, rfl, by decide⟩, ⟨_, rfl, by decide⟩, ⟨rfl, ?_⟩, ?_, ?_, trivial⟩, by decide, by decide⟩
  · exact ⟨⟨Or.inl ⟨_, rfl, by decide⟩, Or.inr ⟨rfl, by decide⟩, trivial⟩, by decide⟩
  · exact ⟨⟨⟨_, rfl, by decide⟩, trivial⟩, by decide, by decide⟩
  · exact ⟨rfl, rfl, rfl, by decide, trivial⟩

/-- `c01_no_caller_typed` applies to a class with a `default_factory=Cls` member, a `default_factory=lambda: inst`
    member and an `Optional … = None` member -/
example (fenv : FEnv) : ∃ i, construct ownTree = .ok i ∧ parseEmptyTop fenv ownTree none = .ok i :=
  c01_no_caller_typed fenv _ _ ownTree_typed

/-- a caller instance with `o = None` (the Optional member LEFT at None) and `d` holding an instance -/
def ownInst : IVal :=
  .inst "K0".toList
    (.leaf "a".toList (.sc (.int 7))
    (.leaf "m".toList (.sc (.int 0))
    (.sub "o".toList .nul
    (.sub "c".toList (.inst "K2".toList (.leaf "y".toList (.sc (.int 3)) .nil))
    (.sub "d".toList .nul .nil)))))

theorem ownInst_fits : FitsWT ownTree ownInst := by
  refine ⟨rfl, rfl, rfl, by decide, rfl, rfl, by decide, rfl, rfl, ⟨rfl, ?_⟩, rfl, rfl, ?_, rfl, rfl, ⟨rfl, ?_⟩, trivial⟩
  · exact ⟨⟨Or.inl ⟨_, rfl, by decide⟩, Or.inr ⟨rfl, by decide⟩, trivial⟩, by decide⟩
  · exact ⟨rfl, rfl, rfl, by decide, trivial⟩
  · exact ⟨⟨Or.inl ⟨_, rfl, by decide⟩, trivial⟩, by decide⟩

example (fenv : FEnv) : parseEmptyTop fenv ownTree (some ownInst) = .ok ownInst :=
  c01_caller_default_wellTyped fenv _ _ ownInst_fits

/-- `stable_literal` / `literal_finds_itself`: `"b"` in `Literal["a", "b", 1]` -/
example (fenv : FEnv) : LeafStable fenv
    { name := "l".toList, ty := { inner := .literal [.str "a".toList, .str "b".toList, .int 1], optional := false },
      default := .missing } (.sc (.str "b".toList)) :=
  stable_literal fenv _ [] _ _ _ (by decide)
    (literal_finds_itself _ _ (by decide) (by
      intro w hw h
      simp only [List.mem_cons, List.not_mem_nil, or_false] at hw
      rcases hw with rfl | rfl | rfl
      · simp [literalName] at h
      · rfl
      · revert h; decide))
end SpVerif.C01
