import SpVerif.Model.Defaults
namespace SpVerif.C01
open SpVerif

theorem placeholder : (IFields.nil).getLeaf [] = none := rfl

end SpVerif.C01
