/-
  C20 — callable front-ends pass exactly the parsed values to the wrapped callable.
  Theorems about `SpVerif.Model.Callables` (mirrors decorators.py, helpers/partial.py,
  only_keep_action_args in wrappers/field_wrapper.py).
-/
import SpVerif.Model.Callables
namespace SpVerif.C20
open SpVerif SpVerif.Callables

variable {V : Type}

/-! ### legal signatures -/

/-- Python's rule "non-default argument follows default argument" -/
def defaultsSuffix : List (Param V) → Bool
  | [] => true
  | p :: ps => (if p.hasDefault then ps.all (·.hasDefault) else true) && defaultsSuffix ps

/-- positional-only parameters come first (they are written before the `/`) -/
def posOnlyPrefix : List (Param V) → Bool
  | [] => true
  | p :: ps => if p.isPosOnly then posOnlyPrefix ps else ps.all (fun q => !q.isPosOnly)

/-- what CPython accepts as a `def` header (restricted to the three modelled kinds) -/
structure ValidSig (sig : List (Param V)) : Prop where
  names : sig.Pairwise (fun a b => a.name ≠ b.name)
  kinds : posOnlyPrefix sig = true
  defaults : defaultsSuffix (sig.filter (fun p => !(p.kind == .kwOnly))) = true

/-! ### the stable sort is a stable partition -/

theorem insertByKey_false {α} (key : α → Bool) (x : α) (hx : key x = false) (l : List α) :
    insertByKey key x l = x :: l := by
  cases l <;> simp [insertByKey, hx]

theorem insertByKey_true {α} (key : α → Bool) (x : α) (hx : key x = true) (A B : List α)
    (hA : ∀ a ∈ A, key a = false) (hB : ∀ b ∈ B, key b = true) :
    insertByKey key x (A ++ B) = A ++ x :: B := by
  induction A with
  | nil =>
    cases B with
    | nil => rfl
    | cons b bs => simp [insertByKey, hx, hB b (by simp)]
  | cons a as ih =>
    have ha := hA a (by simp)
    have := ih (fun a' h => hA a' (by simp [h]))
    simp [insertByKey, hx, ha, this]

/-- `sorted(l, key=k)` with a Boolean key = the `False` elements in order, then the `True` ones. -/
theorem stableSort_eq_partition {α} (key : α → Bool) (l : List α) :
    stableSort key l = l.filter (fun a => !key a) ++ l.filter key := by
  induction l with
  | nil => rfl
  | cons x xs ih =>
    simp only [stableSort, ih]
    cases hx : key x with
    | false => rw [insertByKey_false _ _ hx]; simp [List.filter, hx]
    | true =>
      rw [insertByKey_true key x hx _ _
        (by intro a ha; simpa using (List.mem_filter.mp ha).2)
        (by intro b hb; exact (List.mem_filter.mp hb).2)]
      simp [List.filter, hx]

/-- the signature in dataclass-field order -/
def sortedSig (sig : List (Param V)) : List (Param V) :=
  sig.filter (fun p => !p.hasDefault) ++ sig.filter (·.hasDefault)

theorem mainField_isSet (p : Param V) : (mainField p).default.isSet = p.hasDefault := by
  unfold mainField Param.hasDefault mainDefault
  cases p.dflt with
  | none => rfl
  | some d => cases d <;> rfl

/-- a value default (anything that is not a plain function: numbers, dataclass instances,
    `functools.partial` objects, config instances) is the field's default itself — never a factory,
    never called; only a plain function becomes the default factory -/
theorem c20_value_default_kept (p : Param V) (v : V) (n : Bool) (h : p.dflt = some (.value v n)) :
    (mainField p).default = .value v n := by
  simp [mainField, mainDefault, h]

theorem c20_function_default_is_factory (p : Param V) (fn r : V) (h : p.dflt = some (.func fn r)) :
    (mainField p).default = .factory r := by
  simp [mainField, mainDefault, h]

theorem mainFields_eq (sig : List (Param V)) : mainFields sig = (sortedSig sig).map mainField := by
  unfold mainFields sortedSig
  rw [stableSort_eq_partition, List.filter_map, List.filter_map, List.map_append]
  congr 2 <;> (apply List.filter_congr; intro p _; simp [Function.comp, mainField_isSet])

theorem mem_sortedSig {sig : List (Param V)} {p : Param V} : p ∈ sortedSig sig ↔ p ∈ sig := by
  unfold sortedSig
  simp only [List.mem_append, List.mem_filter]
  constructor
  · rintro (h | h) <;> exact h.1
  · intro h; cases hd : p.hasDefault <;> simp [h]

theorem partition_of_defaultsSuffix (l : List (Param V)) (h : defaultsSuffix l = true) :
    l.filter (fun p => !p.hasDefault) ++ l.filter (·.hasDefault) = l := by
  induction l with
  | nil => rfl
  | cons p ps ih =>
    simp only [defaultsSuffix, Bool.and_eq_true] at h
    cases hd : p.hasDefault with
    | false => simp [List.filter, hd, ih h.2]
    | true =>
      have hall : ps.all (·.hasDefault) = true := by simpa [hd] using h.1
      have h1 : ps.filter (fun p => !p.hasDefault) = [] := by
        rw [List.filter_eq_nil_iff]; intro a ha
        have := (List.all_eq_true.mp hall) a ha; simp [this]
      have h2 : ps.filter (·.hasDefault) = ps := by
        rw [List.filter_eq_self]; intro a ha; exact (List.all_eq_true.mp hall) a ha
      simp [List.filter, hd, h1, h2]

theorem defaultsSuffix_filter (q : Param V → Bool) (l : List (Param V))
    (h : defaultsSuffix l = true) : defaultsSuffix (l.filter q) = true := by
  induction l with
  | nil => rfl
  | cons p ps ih =>
    simp only [defaultsSuffix, Bool.and_eq_true] at h
    cases hq : q p with
    | false => simpa [List.filter, hq] using ih h.2
    | true =>
      simp only [List.filter, hq, defaultsSuffix, Bool.and_eq_true]
      refine ⟨?_, ih h.2⟩
      cases hd : p.hasDefault with
      | false => simp
      | true =>
        have hall : ps.all (·.hasDefault) = true := by simpa [hd] using h.1
        simp only [if_true, List.all_eq_true]
        intro a ha
        exact (List.all_eq_true.mp hall) a (List.mem_filter.mp ha).1

/-- **Stable-sort lemma.** For a legal signature the positional-only parameters keep their
    relative order when the fields are sorted "without default first". -/
theorem c20_posonly_order (sig : List (Param V)) (hv : ValidSig sig) :
    (sortedSig sig).filter (·.isPosOnly) = sig.filter (·.isPosOnly) := by
  have hpo : sig.filter (·.isPosOnly) =
      (sig.filter (fun p => !(p.kind == .kwOnly))).filter (·.isPosOnly) := by
    rw [List.filter_filter]; apply List.filter_congr; intro p _
    unfold Param.isPosOnly; cases p.kind <;> rfl
  have hds : defaultsSuffix (sig.filter (·.isPosOnly)) = true := by
    rw [hpo]; exact defaultsSuffix_filter _ _ hv.defaults
  have := partition_of_defaultsSuffix _ hds
  unfold sortedSig
  rw [List.filter_append, List.filter_filter, List.filter_filter]
  rw [List.filter_filter, List.filter_filter] at this
  calc _ = List.filter (fun a => (!a.hasDefault) && a.isPosOnly) sig ++
            List.filter (fun a => a.hasDefault && a.isPosOnly) sig := by
          congr 1 <;> (apply List.filter_congr; intro p _; exact Bool.and_comm _ _)
    _ = _ := this

/-! ### CPython binding of the call made by `main` -/

theorem lookup_map_none (L : List (Param V)) (f : Param V → V) (n : Str)
    (h : ∀ q ∈ L, q.name ≠ n) : (L.map (fun q => (q.name, f q))).lookup n = none := by
  induction L with
  | nil => rfl
  | cons x xs ih =>
    have hx : (n == x.name) = false := by
      simp only [beq_eq_false_iff_ne, ne_eq]; exact fun e => h x (by simp) e.symm
    simp only [List.map_cons, List.lookup_cons, hx]
    exact ih (fun q hq => h q (by simp [hq]))

theorem lookup_map_some (L : List (Param V)) (vals : Str → V) (q : Param V) (hq : q ∈ L) :
    (L.map (fun p => (p.name, vals p.name))).lookup q.name = some (vals q.name) := by
  induction L with
  | nil => cases hq
  | cons x xs ih =>
    simp only [List.map_cons, List.lookup_cons]
    by_cases hx : q.name = x.name
    · simp [hx]
    · have : (q.name == x.name) = false := by simpa using hx
      simp only [this]
      rcases List.mem_cons.mp hq with h | h
      · subst h; exact absurd rfl hx
      · exact ih h

theorem posOnlyPrefix_of_all (ps : List (Param V)) (h : ps.all (fun q => !q.isPosOnly) = true) :
    posOnlyPrefix ps = true := by
  induction ps with
  | nil => rfl
  | cons p ps ih =>
    simp only [List.all_cons, Bool.and_eq_true] at h
    have hp : p.isPosOnly = false := by simpa using h.1
    simp [posOnlyPrefix, hp, h.2]

/-- the walk of `bindGo` when positional-only parameters are passed positionally and everything
    else by keyword -/
theorem bindGo_routed (vals : Str → V) (kw : List (Str × V)) (sig : List (Param V))
    (hpre : posOnlyPrefix sig = true)
    (h1 : ∀ p ∈ sig, p.isPosOnly = true → kw.lookup p.name = none)
    (h2 : ∀ p ∈ sig, p.isPosOnly = false → kw.lookup p.name = some (vals p.name) ∨
      (kw.lookup p.name = none ∧ p.defaultValue = some (vals p.name))) :
    bindGo sig ((sig.filter (·.isPosOnly)).map (fun p => vals p.name)) kw
      = some (sig.map (fun p => (p.name, vals p.name))) := by
  induction sig with
  | nil => rfl
  | cons p ps ih =>
    have h1' : ∀ q ∈ ps, q.isPosOnly = true → kw.lookup q.name = none :=
      fun q hq => h1 q (by simp [hq])
    have h2' : ∀ q ∈ ps, q.isPosOnly = false → kw.lookup q.name = some (vals q.name) ∨
        (kw.lookup q.name = none ∧ q.defaultValue = some (vals q.name)) :=
      fun q hq => h2 q (by simp [hq])
    cases hp : p.isPosOnly with
    | true =>
      have hk : p.kind = .posOnly := by
        unfold Param.isPosOnly at hp; cases hkk : p.kind <;> simp_all
      have hpre' : posOnlyPrefix ps = true := by simpa [posOnlyPrefix, hp] using hpre
      have hl := h1 p (by simp) hp
      simp only [List.filter, hp, List.map_cons, bindGo, hk, hl, Option.isSome_none]
      simp [ih hpre' h1' h2']
    | false =>
      have hall : ps.all (fun q => !q.isPosOnly) = true := by simpa [posOnlyPrefix, hp] using hpre
      have hnil : ps.filter (·.isPosOnly) = [] := by
        rw [List.filter_eq_nil_iff]; intro a ha
        have := (List.all_eq_true.mp hall) a ha; simpa using this
      have hl := h2 p (by simp) hp
      have ih' := ih (posOnlyPrefix_of_all ps hall) h1' h2'
      rw [hnil] at ih'
      simp only [List.map_nil] at ih'
      simp only [List.filter, hp, hnil, List.map_nil]
      rcases hl with hl | ⟨hl, hd⟩
      · cases hk : p.kind <;> simp [bindGo, hk, hl, ih']
      · cases hk : p.kind <;> simp [bindGo, hk, hl, hd, ih']

theorem names_injective {sig : List (Param V)} (h : sig.Pairwise (fun a b => a.name ≠ b.name))
    {a b : Param V} (ha : a ∈ sig) (hb : b ∈ sig) (hn : a.name = b.name) : a = b := by
  induction sig with
  | nil => cases ha
  | cons x xs ih =>
    rw [List.pairwise_cons] at h
    rcases List.mem_cons.mp ha with ha1 | ha2 <;> rcases List.mem_cons.mp hb with hb1 | hb2
    · rw [ha1, hb1]
    · rw [ha1] at hn; exact absurd hn (h.1 b hb2)
    · rw [hb1] at hn; exact absurd hn.symm (h.1 a ha2)
    · exact ih h.2 ha2 hb2

theorem chainMap_nil (kw : List (Str × V)) : chainMap kw [] = kw := by
  simp [chainMap]

/-- **Central theorem.** For every legal signature (any number of parameters) and any parsed
    values, the call made by `main` binds *every* parameter of the wrapped callable to the value
    parsed for it: positional-only parameters are passed positionally in signature order, all
    others by keyword. -/
theorem c20_main_args (sig : List (Param V)) (hv : ValidSig sig) (vals : Str → V) :
    Callables.bind sig (mainCall (mainFields sig) vals [] []).args (mainCall (mainFields sig) vals [] []).kwargs
      = some (sig.map (fun p => (p.name, vals p.name))) := by
  have hargs : (mainCall (mainFields sig) vals [] []).args
      = (sig.filter (·.isPosOnly)).map (fun p => vals p.name) := by
    simp only [mainCall, List.append_nil, mainFields_eq, List.filter_map, List.map_map]
    rw [← c20_posonly_order sig hv]
    congr 1
  have hkw : (mainCall (mainFields sig) vals [] []).kwargs
      = ((sortedSig sig).filter (fun p => !p.isPosOnly)).map (fun p => (p.name, vals p.name)) := by
    simp only [mainCall, chainMap_nil, mainFields_eq, List.filter_map, List.map_map]
    congr 1
  rw [hargs, hkw]
  have hmem : ∀ q, q ∈ (sortedSig sig).filter (fun p => !p.isPosOnly) ↔ (q ∈ sig ∧ q.isPosOnly = false) := by
    intro q; simp [List.mem_filter, mem_sortedSig]
  have hallowed : kwAllowed sig
      (((sortedSig sig).filter (fun p => !p.isPosOnly)).map (fun p => (p.name, vals p.name))) = true := by
    unfold kwAllowed
    rw [List.all_eq_true]
    intro e he
    obtain ⟨q, hq, rfl⟩ := List.mem_map.mp he
    obtain ⟨hqs, hqp⟩ := (hmem q).mp hq
    simp only [List.any_eq_true]
    refine ⟨q, hqs, ?_⟩
    unfold Param.isPosOnly at hqp
    simp [hqp]
  unfold Callables.bind
  rw [hallowed]
  simp only [if_true]
  apply bindGo_routed vals _ sig hv.kinds
  · intro p hp hpo
    apply lookup_map_none
    intro q hq hn
    obtain ⟨hqs, hqp⟩ := (hmem q).mp hq
    have := names_injective hv.names hqs hp hn
    subst this
    rw [hpo] at hqp; cases hqp
  · intro p hp hpo
    exact Or.inl (lookup_map_some _ vals p ((hmem p).mpr ⟨hp, hpo⟩))

/-- non-vacuity: `def f(x: int, y: int = 2, /, z: int = 5, *, w: str)` is a legal signature with
    every kind, and defaults in the middle -/
def exampleSig : List (Param Nat) :=
  [ { name := S "x", kind := .posOnly, ann := some .plain, dflt := none },
    { name := S "y", kind := .posOnly, ann := some .plain, dflt := some (.value 2 false) },
    { name := S "z", kind := .posOrKw, ann := some .plain, dflt := some (.value 5 false) },
    { name := S "w", kind := .kwOnly, ann := some .plain, dflt := none } ]

example : ValidSig exampleSig :=
  ⟨by simp [exampleSig, S], by decide, by decide⟩

example : (mainFields exampleSig).map (·.name) = [S "x", S "w", S "y", S "z"] := by decide

example : setup (mainFields exampleSig) = .ok := by decide

/-! ### `only_keep_action_args` and set-up for all supported types -/

/-- custom action classes: nothing is filtered -/
theorem c20_keep_custom (keys ctor : List Str) :
    onlyKeepActionArgs keys (.custom ctor) = keys := rfl

/-- stock actions: every surviving key is an argument of the constructor (or `action`) -/
theorem c20_keep_stock (keys : List Str) (a : Action) (ctor : List Str)
    (h : stockCtorArgs a = some ctor) :
    ∀ k ∈ onlyKeepActionArgs keys a, k ∈ ctor ∨ k = S "action" := by
  intro k hk
  simp only [onlyKeepActionArgs, h, List.mem_filter] at hk
  have := hk.2
  simp only [List.contains_eq_mem, List.mem_append, List.mem_singleton, decide_eq_true_eq] at this
  exact this

/-- … and every key the constructor takes survives -/
theorem c20_keep_stock_complete (keys : List Str) (a : Action) (ctor : List Str)
    (h : stockCtorArgs a = some ctor) (k : Str) (hk : k ∈ keys) (hc : k ∈ ctor) :
    k ∈ onlyKeepActionArgs keys a := by
  simp [onlyKeepActionArgs, h, List.mem_filter, hk, hc]

example : stockCtorArgs .storeTrue = some (["self", "option_strings", "dest", "default", "required",
    "help"].map S) := rfl
example : onlyKeepActionArgs [S "type", S "default", S "name", S "action"] .storeTrue
    = [S "default", S "action"] := by decide
example : onlyKeepActionArgs [S "type", S "name"] (.custom boolActionCtor) = [S "type", S "name"] := rfl

theorem mem_dedup (l : List Str) (x : Str) : x ∈ dedup l ↔ x ∈ l := by
  induction l with
  | nil => simp [dedup]
  | cons y ys ih =>
    simp only [dedup, List.mem_cons, List.mem_filter, ih]
    constructor
    · rintro (h | h)
      · exact Or.inl h
      · exact Or.inr h.1
    · rintro (h | h)
      · exact Or.inl h
      · by_cases hxy : x = y
        · exact Or.inl hxy
        · exact Or.inr ⟨h, by simpa using hxy⟩

instance : Inhabited (Param Nat) := ⟨{ name := [], kind := .posOrKw, ann := none, dflt := none }⟩

/-- D4 regression input: `@main def f(a: int = 1, flag: bool = False)` -/
def d4Sig : List (Param Nat) :=
  [ { name := S "a", kind := .posOrKw, ann := some .plain, dflt := some (.value 1 false) },
    { name := S "flag", kind := .posOrKw, ann := some .bool, dflt := some (.value 0 false) } ]

/-! #### what `add_argument` depends on: (type class, positional, kind of default, custom keys) -/

/-- the four kinds of `dataclasses.Field` default `get_arg_options` distinguishes -/
inductive DK | missing | litNone | value | factory
  deriving DecidableEq, Repr

def dkOf : FDefault V → DK
  | .missing => .missing
  | .value _ true => .litNone
  | .value _ false => .value
  | .factory _ => .factory

/-- a value-free representative of a field -/
def shapeField (ty : TyClass) (pos : Bool) (dk : DK) (custom : List Str) : Field Unit :=
  { name := [], ty := ty, positional := pos, custom := custom, help := [],
    default := match dk with
      | .missing => .missing
      | .litNone => .value () true
      | .value => .value () false
      | .factory => .factory () }

/-- `add_argument` never looks at the name, the help text or the default *value* -/
theorem addArgument_shape (f : Field V) :
    addArgument f = addArgument (shapeField f.ty f.positional (dkOf f.default) f.custom) := by
  obtain ⟨name, ty, default, positional, custom, help, mutable⟩ := f
  cases default with
  | missing => rfl
  | value v n => cases n <;> rfl
  | factory r => rfl

/-- the closed form of the set-up outcome for the custom keys `main` adds -/
def shapeDefect (ty : TyClass) (pos : Bool) (dk : DK) : Bool :=
  pos && !(ty == .choice) && !(ty == .dc) && (ty == .optional || dk == .litNone)

theorem addArgument_shape_closed (ty : TyClass) (pos : Bool) (dk : DK) :
    (addArgument (shapeField ty pos dk [S "help"]) == .typeError) = shapeDefect ty pos dk ∧
    (addArgument (shapeField ty pos dk []) == .typeError) = shapeDefect ty pos dk := by
  cases ty <;> cases pos <;> cases dk <;> decide

/-- **The only set-up failure.** A parameter's option cannot be added to the parser exactly when it
    is positional-only, not a `Literal`/`choice` nor a dataclass, and either `Optional[...]` or
    defaulting to the literal `None` (argparse: "'required' is an invalid argument for
    positionals"). Every other combination of type class (`bool` included), kind and default sets
    up. -/
def setupDefect (p : Param V) : Bool :=
  shapeDefect (annClass p.ann) p.isPosOnly (dkOf (mainDefault p.dflt))

theorem c20_addArgument_closed (p : Param V) :
    addArgument (mainField p) = .typeError ↔ setupDefect p = true := by
  rw [addArgument_shape]
  have h := (addArgument_shape_closed (mainField p).ty (mainField p).positional
    (dkOf (mainField p).default)).1
  have hc : (mainField p).custom = [S "help"] := rfl
  rw [hc]
  unfold setupDefect
  have h1 : (mainField p).ty = annClass p.ann := rfl
  have h2 : (mainField p).positional = p.isPosOnly := rfl
  have h3 : (mainField p).default = mainDefault p.dflt := rfl
  rw [h1, h2, h3] at h ⊢
  rw [← h]
  cases addArgument (shapeField (annClass p.ann) p.isPosOnly (dkOf (mainDefault p.dflt)) [S "help"]) <;> simp

/-- **The synthesised fields are the hand-written ones (item by item).** For a parameter whose
    default is not mutable, `main`'s field and the independently written field of the equivalent
    dataclass agree on name, type class, default (value / factory / missing) and `positional`. -/
theorem c20_fields_agree (p : Param V) (hm : p.mutableDefault = false) :
    (mainField p).name = (plainField p).name ∧ (mainField p).ty = (plainField p).ty ∧
    (mainField p).default = (plainField p).default ∧
    (mainField p).positional = (plainField p).positional := by
  obtain ⟨name, kind, ann, dflt, help, mu⟩ := p
  simp only at hm
  subst hm
  refine ⟨rfl, ?_, ?_, ?_⟩
  · cases ann <;> rfl
  · cases dflt with
    | none => rfl
    | some d => cases d <;> rfl
  · cases kind <;> rfl

/-- per parameter: the synthesised field and the hand-written one meet the same fate in
    `add_argument` — for every type class (including `bool`), kind and non-mutable default -/
theorem addArgument_main_eq_plain (p : Param V) (hm : p.mutableDefault = false) :
    addArgument (mainField p) = addArgument (plainField p) := by
  obtain ⟨_, hty, hd, hpos⟩ := c20_fields_agree p hm
  rw [addArgument_shape (mainField p), addArgument_shape (plainField p), ← hty, ← hd, ← hpos]
  have hc : (mainField p).custom = [S "help"] := rfl
  have hp : (plainField p).custom = [] := rfl
  rw [hc, hp]
  have h := addArgument_shape_closed (mainField p).ty (mainField p).positional (dkOf (mainField p).default)
  generalize addArgument (shapeField (mainField p).ty (mainField p).positional
    (dkOf (mainField p).default) [S "help"]) = x at h
  generalize addArgument (shapeField (mainField p).ty (mainField p).positional
    (dkOf (mainField p).default) []) = y at h
  obtain ⟨h1, h2⟩ := h
  cases x <;> cases y <;> simp_all

theorem setup_eq_all (l : List (Field V)) :
    setup l = if l.all (fun f => addArgument f == .ok) then .ok else .typeError := by
  induction l with
  | nil => rfl
  | cons f fs ih =>
    simp only [setup, List.all_cons]
    split <;> rename_i h <;> simp [h, ih]

theorem all_congr_mem {α} (l : List α) (f g : α → Bool) (h : ∀ a ∈ l, f a = g a) :
    l.all f = l.all g := by
  induction l with
  | nil => rfl
  | cons x xs ih =>
    simp only [List.all_cons, h x (by simp), ih (fun a ha => h a (by simp [ha]))]

theorem all_partition {α} (key P : α → Bool) (l : List α) :
    (l.filter (fun a => !key a) ++ l.filter key).all P = l.all P := by
  induction l with
  | nil => rfl
  | cons x xs ih =>
    rw [List.all_append] at ih
    cases hx : key x <;>
      simp only [List.filter, hx, Bool.not_false, Bool.not_true, List.all_append, List.all_cons, ← ih]
    · rw [Bool.and_assoc]
    · rw [Bool.and_left_comm]

/-- the named exclusion of finding C20-mutable-default -/
def NoMutableDefault (sig : List (Param V)) : Prop := ∀ p ∈ sig, p.mutableDefault = false

instance (sig : List (Param V)) : Decidable (NoMutableDefault sig) := by
  unfold NoMutableDefault; exact List.decidableBAll _ _

/-- **All supported types.** `main` adds no set-up failure of its own: for every signature without
    a mutable default — any number of parameters, every type class including `bool`, every kind —
    the class it synthesises can be added to a parser exactly when the (independently written)
    equivalent dataclass can. -/
theorem c20_all_types (sig : List (Param V)) (hm : NoMutableDefault sig) :
    setup (mainFields sig) = setup (plainFields sig) := by
  rw [setup_eq_all, setup_eq_all]
  unfold mainFields plainFields
  rw [stableSort_eq_partition, stableSort_eq_partition, all_partition, all_partition,
    List.all_map, List.all_map]
  have : ∀ p ∈ sig, ((fun f => addArgument f == AddOutcome.ok) ∘ mainField) p
      = ((fun f => addArgument f == AddOutcome.ok) ∘ plainField) p := by
    intro p hp
    simp only [Function.comp, addArgument_main_eq_plain p (hm p hp)]
  rw [all_congr_mem _ _ _ this]

/-- **When set-up succeeds (closed form).** The parser for the synthesised class is built without
    error for every signature none of whose parameters is a positional-only Optional / `= None`
    parameter — `bool` parameters, dataclass parameters, every default included. -/
theorem c20_setup_ok (sig : List (Param V)) (h : ∀ p ∈ sig, setupDefect p = false) :
    setup (mainFields sig) = .ok := by
  rw [setup_eq_all]
  unfold mainFields
  rw [stableSort_eq_partition, all_partition, List.all_map]
  have : sig.all ((fun f => addArgument f == AddOutcome.ok) ∘ mainField) = true := by
    rw [List.all_eq_true]
    intro p hp
    have hne : addArgument (mainField p) ≠ .typeError := fun e => by
      have := (c20_addArgument_closed p).mp e; rw [h p hp] at this; cases this
    simp only [Function.comp]
    cases hx : addArgument (mainField p) with
    | ok => rfl
    | typeError => exact absurd hx hne
  rw [this]; rfl

/-- … and conversely a single such parameter makes set-up fail for every command line -/
theorem c20_setup_fails (sig : List (Param V)) (p : Param V) (hp : p ∈ sig) (hd : setupDefect p = true) :
    setup (mainFields sig) = .typeError := by
  rw [setup_eq_all]
  unfold mainFields
  rw [stableSort_eq_partition, all_partition, List.all_map]
  have : sig.all ((fun f => addArgument f == AddOutcome.ok) ∘ mainField) = false := by
    rw [List.all_eq_false]
    refine ⟨p, hp, ?_⟩
    simp [Function.comp, (c20_addArgument_closed p).mpr hd]
  rw [this]; rfl

/-- regression (D4): `@main def f(a: int = 1, flag: bool = False)` sets up and is called with the
    parsed values; `name` no longer reaches `BooleanOptionalAction`, `help` does and is accepted -/
example : setup (mainFields d4Sig) = .ok := by decide
example : ∀ p ∈ d4Sig, setupDefect p = false := by decide
example : NoMutableDefault d4Sig := by decide
example : mainRun d4Sig (.ok [(S "a", 1), (S "flag", 0)]) 7 [] []
    = .call { args := [], kwargs := [(S "a", 1), (S "flag", 0)] } := by decide
example : S "name" ∉ (argOptionKeys (mainField (d4Sig.getD 1 default))).1 ∧
    S "help" ∈ (argOptionKeys (mainField (d4Sig.getD 1 default))).1 := by decide

/-! #### full statement, witnesses (open findings) and the partial theorem -/

/-- **Full statement.** A function decorated with `main` whose command line parses is called, with
    every parameter bound to its parsed value. -/
def FullMainCalls : Prop :=
  ∀ (sig : List (Param Nat)), ValidSig sig → ∀ (vals : List (Str × Nat)),
    (∀ p ∈ sig, (vals.lookup p.name).isSome) →
    ∃ c, mainRun sig (.ok vals) 0 [] [] = .call c ∧
      Callables.bind sig c.args c.kwargs = some (sig.map (fun p => (p.name, lookupD vals 0 p.name)))

/-- finding C20-posonly-optional: `def f(o: Optional[int], /)` (also `= None`) -/
def posOptionalSig : List (Param Nat) :=
  [ { name := S "o", kind := .posOnly, ann := some .optional, dflt := none } ]

/-- finding C20-mutable-default: `def f(xs: List[int] = [1, 2])` -/
def mutableSig : List (Param Nat) :=
  [ { name := S "xs", kind := .posOrKw, ann := some .list, dflt := some (.value 12 false),
      mutableDefault := true } ]

/-- finding C20-posonly-bool: `def f(flag: bool = False, /)`: set-up succeeds — the failure
    (NotImplementedError in `BooleanOptionalAction.__call__`) is inside the parse, a parameter of the
    model -/
def posBoolSig : List (Param Nat) :=
  [ { name := S "flag", kind := .posOnly, ann := some .bool, dflt := some (.value 0 false) } ]

theorem c20_posonly_optional_witness :
    ValidSig posOptionalSig ∧ mainRun posOptionalSig (.ok [(S "o", 3)]) 0 [] [] = .raise (S "TypeError") ∧
    setup (plainFields posOptionalSig) = .typeError :=
  ⟨⟨by simp [posOptionalSig], by decide, by decide⟩, by decide, by decide⟩

theorem c20_mutable_default_witness :
    ValidSig mutableSig ∧ mainRun mutableSig (.ok [(S "xs", 12)]) 0 [] [] = .raise (S "ValueError") ∧
    setup (plainFields mutableSig) = .ok :=
  ⟨⟨by simp [mutableSig], by decide, by decide⟩, by decide, by decide⟩

theorem c20_posonly_bool_setup_ok : setup (mainFields posBoolSig) = .ok ∧
    ∀ e, mainRun posBoolSig (.raise e) 0 [] [] = .raise e := ⟨by decide, fun _ => rfl⟩

/-- **Witness.** The full statement is false for the code as it is (two independent reasons). -/
theorem c20_main_calls_witness : ¬ FullMainCalls := by
  intro h
  obtain ⟨c, hc, _⟩ := h posOptionalSig c20_posonly_optional_witness.1 [(S "o", 3)] (by decide)
  rw [c20_posonly_optional_witness.2.1] at hc
  cases hc

theorem mainFields_not_mutable (sig : List (Param V)) (hm : NoMutableDefault sig) :
    (mainFields sig).any (·.mutable) = false := by
  rw [List.any_eq_false]
  intro f hf
  rw [mainFields_eq] at hf
  obtain ⟨p, hp, rfl⟩ := List.mem_map.mp hf
  have := hm p (mem_sortedSig.mp hp)
  simp [mainField, this]

/-- the whole run, **partial**: a legal signature without a mutable default and without a
    positional-only Optional / `= None` parameter, whose command line parses (every parameter has a
    parsed value), ends in exactly the call that binds every parameter to its parsed value -/
theorem c20_main_run (sig : List (Param V)) (hv : ValidSig sig) (d : V)
    (vals : List (Str × V)) (hm : NoMutableDefault sig) (hs : ∀ p ∈ sig, setupDefect p = false)
    (hcov : ∀ p ∈ sig, ∃ v, vals.lookup p.name = some v) :
    ∃ c, mainRun sig (.ok vals) d [] [] = .call c ∧
      ∀ p ∈ sig, ∃ v, vals.lookup p.name = some v ∧
        (Callables.bind sig c.args c.kwargs).map (fun b => b.lookup p.name) = some (some v) := by
  have hmut := mainFields_not_mutable sig hm
  refine ⟨mainCall (mainFields sig) (lookupD vals d) [] [], ?_, ?_⟩
  · simp [mainRun, hmut, c20_setup_ok sig hs]
  · intro p hp
    obtain ⟨v, hv'⟩ := hcov p hp
    refine ⟨v, hv', ?_⟩
    rw [c20_main_args sig hv]
    simp only [Option.map_some]
    congr 1
    have : lookupD vals d p.name = v := by simp [lookupD, hv']
    rw [← this]
    exact lookup_map_some sig (lookupD vals d) p hp

example : NoMutableDefault exampleSig ∧ (∀ p ∈ exampleSig, setupDefect p = false) := by decide

/-- a rejected command line is rejected by `main` with the same status, and no call is made -/
theorem c20_main_rejects (sig : List (Param V)) (d : V) (code : Nat) (hm : NoMutableDefault sig)
    (hs : ∀ p ∈ sig, setupDefect p = false) : mainRun sig (.exit code) d [] [] = .exit code := by
  simp [mainRun, mainFields_not_mutable sig hm, c20_setup_ok sig hs]

/-! ### the cache of `config_for` -/

theorem lookup_append_some {α β} [BEq α] (t e : List (α × β)) (k : α) (c : β)
    (h : t.lookup k = some c) : (t ++ e).lookup k = some c := by
  induction t with
  | nil => cases h
  | cons x xs ih =>
    obtain ⟨a, b⟩ := x
    simp only [List.cons_append, List.lookup_cons] at h ⊢
    cases hk : (k == a) <;> simp only [hk] at h ⊢
    · exact ih h
    · exact h

theorem lookup_append_new {α β} [BEq α] [LawfulBEq α] (t : List (α × β)) (k : α) (c : β)
    (h : t.lookup k = none) : (t ++ [(k, c)]).lookup k = some c := by
  induction t with
  | nil => simp
  | cons x xs ih =>
    obtain ⟨a, b⟩ := x
    simp only [List.cons_append, List.lookup_cons] at h ⊢
    cases hk : (k == a) <;> simp only [hk] at h ⊢
    · exact ih h
    · cases h

theorem cachedCall_stores (st : CacheState) (k : CacheKey) (hk : k.hashable = true) :
    (cachedCall st k).2.table.lookup k = some (cachedCall st k).1 := by
  unfold cachedCall
  simp only [hk, if_true]
  cases h : st.table.lookup k with
  | some c => simpa using h
  | none => simpa using lookup_append_new st.table k st.next h

theorem cachedCall_keeps (st : CacheState) (k k' : CacheKey) (c : Nat)
    (h : st.table.lookup k = some c) : (cachedCall st k').2.table.lookup k = some c := by
  unfold cachedCall
  cases hh : k'.hashable with
  | false => simpa using h
  | true =>
    simp only [if_true]
    cases hl : st.table.lookup k' with
    | some c' => simpa using h
    | none => simpa using lookup_append_some st.table _ k c h

theorem runCalls_keeps (ks : List CacheKey) (st : CacheState) (k : CacheKey) (c : Nat)
    (h : st.table.lookup k = some c) : (runCalls st ks).2.table.lookup k = some c := by
  induction ks generalizing st with
  | nil => simpa [runCalls] using h
  | cons k' ks ih =>
    simp only [runCalls]
    exact ih _ (cachedCall_keeps st k k' c h)

theorem cachedCall_hit (st : CacheState) (k : CacheKey) (c : Nat) (hk : k.hashable = true)
    (h : st.table.lookup k = some c) : (cachedCall st k).1 = c := by
  simp [cachedCall, hk, h]

/-- **Cache.** Once `config_for` has been called with hashable arguments, calling it again with the
    same arguments returns the *same class object*, whatever calls (any number — the cache is
    unbounded, `maxsize=None` —, any arguments, any other callables, hashable or not) happened in
    between: a lookup after any number of other insertions returns the first class. -/
theorem c20_cached (st : CacheState) (k : CacheKey) (hk : k.hashable = true) (ks : List CacheKey) :
    (cachedCall (runCalls (cachedCall st k).2 ks).2 k).1 = (cachedCall st k).1 :=
  cachedCall_hit _ k _ hk (runCalls_keeps ks _ k _ (cachedCall_stores st k hk))

/-- an unhashable argument (e.g. `ignore_args=[...]`) bypasses the cache: a fresh class each time -/
theorem c20_unhashable_fresh (st : CacheState) (k : CacheKey) (hk : k.hashable = false) :
    (cachedCall st k).1 = st.next ∧ (cachedCall st k).2.next = st.next + 1 := by
  simp [cachedCall, hk]

/-- the reading of "the same callable": `lru_cache` keys on the *spelling* of the call — the same
    callable asked for with `frozen=True`, with `ignore_args="b"` instead of `("b",)`, or with the
    `**defaults` in another order gets a different class object each (named exclusion: identity is
    claimed for identically written calls only) -/
theorem c20_cache_spelling_witness :
    (runCalls {} [ { target := 0, ignore := .absent, frozen := none, defaults := [] },
                   { target := 0, ignore := .absent, frozen := some true, defaults := [] },
                   { target := 0, ignore := .str (S "b"), frozen := none, defaults := [] },
                   { target := 0, ignore := .tuple [S "b"], frozen := none, defaults := [] },
                   { target := 0, ignore := .absent, frozen := none, defaults := [(S "b", S "3"), (S "c", S "1")] },
                   { target := 0, ignore := .absent, frozen := none, defaults := [(S "c", S "1"), (S "b", S "3")] } ]).1
      = [0, 1, 2, 3, 4, 5] := by decide

/-- finding C20-cache-untyped-key: the cache key holds `**defaults` values up to Python `==`
    (`lru_cache(typed=False)`): `b=1`, `b=1.0`, `b=True` are one key (here: one equality class
    `num:1`), so the class derived for the first spelling — with *its* default — is returned for
    the others -/
theorem c20_cache_conflation_witness :
    (runCalls {} [ { target := 0, ignore := .absent, frozen := none, defaults := [(S "b", S "num:1")] },
                   { target := 0, ignore := .absent, frozen := none, defaults := [(S "b", S "num:1")] } ]).1
      = [0, 0] := by decide

example : (runCalls {} [ { target := 0, ignore := .tuple [S "a"], frozen := none, defaults := [] },
                         { target := 0, ignore := .absent, frozen := none, defaults := [] },
                         { target := 0, ignore := .tuple [S "a"], frozen := none, defaults := [] },
                         { target := 0, ignore := .list [S "a"], frozen := none, defaults := [] },
                         { target := 0, ignore := .list [S "a"], frozen := none, defaults := [] } ]).1
    = [0, 1, 0, 2, 3] := by decide

/-! ### `Partial.__call__` -/

/-- the value the *last* occurrence of `n` in a keyword list carries (Python keyword dicts have
    unique keys; the model does not need that) -/
def lastLookup : List (Str × V) → Str → Option V
  | [], _ => none
  | (k, v) :: rest, n => match lastLookup rest n with
    | some w => some w
    | none => if n == k then some v else none

def orElse' (a b : Option V) : Option V := match a with
  | some x => some x
  | none => b

theorem lookup_append' (a b : List (Str × V)) (n : Str) :
    (a ++ b).lookup n = orElse' (a.lookup n) (b.lookup n) := by
  induction a with
  | nil => rfl
  | cons x xs ih =>
    obtain ⟨k, v⟩ := x
    simp only [List.cons_append, List.lookup_cons]
    cases (n == k) <;> simp [ih, orElse']

theorem lookup_none_of_any_false (d : List (Str × V)) (k : Str)
    (h : d.any (fun e => e.1 == k) = false) : d.lookup k = none := by
  induction d with
  | nil => rfl
  | cons x xs ih =>
    obtain ⟨a, b⟩ := x
    simp only [List.any_cons, Bool.or_eq_false_iff] at h
    have : (k == a) = false := by
      have := h.1; simp only [beq_eq_false_iff_ne, ne_eq] at this ⊢; exact fun e => this e.symm
    simp only [List.lookup_cons, this]
    exact ih h.2

theorem lookup_replace (d : List (Str × V)) (k : Str) (v : V) (n : Str) :
    (d.map (fun e => if e.1 == k then (e.1, v) else (e.1, e.2))).lookup n
      = if n == k then (if d.any (fun e => e.1 == k) then some v else none) else d.lookup n := by
  induction d with
  | nil => simp
  | cons x xs ih =>
    obtain ⟨a, b⟩ := x
    simp only [List.map_cons, List.any_cons]
    rw [show (if (a == k) = true then (a, v) else (a, b)) = (a, if a == k then v else b) by
      split <;> rfl]
    simp only [List.lookup_cons, ih]
    by_cases hna : n = a
    · subst hna
      by_cases hnk : n = k
      · subst hnk; simp
      · have : (n == k) = false := by simpa using hnk
        simp [this]
    · have h1 : (n == a) = false := by simpa using hna
      simp only [h1]
      by_cases hnk : n = k
      · subst hnk
        have : (a == n) = false := by simpa using fun e : a = n => hna e.symm
        simp only [this, Bool.false_or]
      · have : (n == k) = false := by simpa using hnk
        simp [this]

/-- one `dict.update` step -/
theorem lookup_update_step (d : List (Str × V)) (k : Str) (v : V) (n : Str) :
    (if d.any (fun e => e.1 == k) then d.map (fun e => if e.1 == k then (e.1, v) else (e.1, e.2))
     else d ++ [(k, v)]).lookup n = if n == k then some v else d.lookup n := by
  cases h : d.any (fun e => e.1 == k) with
  | true => rw [if_pos rfl, lookup_replace, h]; simp
  | false =>
    simp only [Bool.false_eq_true, if_false, lookup_append', List.lookup_cons, List.lookup_nil]
    by_cases hn : n = k
    · subst hn; simp [lookup_none_of_any_false d n h, orElse']
    · have : (n == k) = false := by simpa using hn
      simp only [this, Bool.false_eq_true, if_false]
      cases d.lookup n <;> rfl

theorem dictUpdate_cons (d : List (Str × V)) (k : Str) (v : V) (rest : List (Str × V)) :
    dictUpdate d ((k, v) :: rest) =
      dictUpdate (if d.any (fun e => e.1 == k) then
          d.map (fun e => if e.1 == k then (e.1, v) else (e.1, e.2)) else d ++ [(k, v)]) rest := by
  simp only [dictUpdate]
  split <;> rfl

/-- **Later kwargs win.** In the keyword dictionary `Partial.__call__` builds, a name carries the
    explicitly passed value if there is one, the parsed field value otherwise. -/
theorem c20_partial_kwargs_win (fv kw : List (Str × V)) (n : Str) :
    (partialCall fv ([] : List V) kw).kwargs.lookup n = orElse' (lastLookup kw n) (fv.lookup n) := by
  simp only [partialCall]
  induction kw generalizing fv with
  | nil => rfl
  | cons e rest ih =>
    obtain ⟨k, v⟩ := e
    rw [dictUpdate_cons, ih, lookup_update_step]
    simp only [lastLookup]
    cases lastLookup rest n <;> cases (n == k) <;> simp [orElse']

theorem keys_dictUpdate (d kw : List (Str × V)) :
    ∀ e ∈ dictUpdate d kw, (∃ e' ∈ d, e'.1 = e.1) ∨ (∃ e' ∈ kw, e'.1 = e.1) := by
  induction kw generalizing d with
  | nil => intro e he; exact Or.inl ⟨e, he, rfl⟩
  | cons x rest ih =>
    obtain ⟨k, v⟩ := x
    intro e he
    rw [dictUpdate_cons] at he
    rcases ih _ e he with ⟨e', he', hk⟩ | ⟨e', he', hk⟩
    · split at he'
      · obtain ⟨e'', he'', rfl⟩ := List.mem_map.mp he'
        refine Or.inl ⟨e'', he'', ?_⟩
        rw [← hk]; split <;> rfl
      · rcases List.mem_append.mp he' with h | h
        · exact Or.inl ⟨e', h, hk⟩
        · simp only [List.mem_singleton] at h
          subst h
          exact Or.inr ⟨(k, v), by simp, hk⟩
    · exact Or.inr ⟨e', by simp [he'], hk⟩

/-- the named exclusion of finding C20-partial-posonly -/
def NoPosOnly (sig : List (Param V)) : Prop := ∀ p ∈ sig, p.isPosOnly = false

instance (sig : List (Param V)) : Decidable (NoPosOnly sig) := by
  unfold NoPosOnly; exact List.decidableBAll _ _

/-- what a parameter ends up with when the parsed object is called: the explicit keyword if there
    is one, else the parsed field value, else (an ignored / skipped parameter) the callee's own
    default -/
def CallValue (fv kw : List (Str × V)) (p : Param V) (v : V) : Prop :=
  orElse' (lastLookup kw p.name) (fv.lookup p.name) = some v ∨
  (orElse' (lastLookup kw p.name) (fv.lookup p.name) = none ∧ p.defaultValue = some v)

/-- **Full statement.** Calling the parsed object invokes the target with exactly those values:
    whenever every keyword names a parameter and every parameter has a `CallValue`, the call binds
    every parameter to it. -/
def FullPartialCall : Prop :=
  ∀ (sig : List (Param Nat)) (fv kw : List (Str × Nat)) (w : Str → Nat),
    sig.Pairwise (fun a b => a.name ≠ b.name) → posOnlyPrefix sig = true →
    (∀ e ∈ fv, ∃ p ∈ sig, p.name = e.1) → (∀ e ∈ kw, ∃ p ∈ sig, p.name = e.1) →
    (∀ p ∈ sig, CallValue fv kw p (w p.name)) →
    Callables.bind sig (partialCall fv [] kw).args (partialCall fv [] kw).kwargs
      = some (sig.map (fun p => (p.name, w p.name)))

/-- finding C20-partial-posonly: `def f(a: int, /, b: int = 2)`, parsed `a=7` -/
def posOnlyTarget : List (Param Nat) :=
  [ { name := S "a", kind := .posOnly, ann := some .plain, dflt := none },
    { name := S "b", kind := .posOrKw, ann := some .plain, dflt := some (.value 2 false) } ]

/-- **Witness.** `Partial.__call__` passes every field by keyword, so a target with a
    positional-only parameter cannot be called: CPython raises TypeError (`bind = none`). -/
theorem c20_partial_posonly_witness :
    Callables.bind posOnlyTarget (partialCall [(S "a", 7), (S "b", 2)] [] []).args
      (partialCall [(S "a", (7 : Nat)), (S "b", 2)] [] []).kwargs = none := by decide

theorem c20_partial_call_full_witness : ¬ FullPartialCall := by
  intro h
  have := h posOnlyTarget [(S "a", 7), (S "b", 2)] [] (fun n => if n = S "a" then 7 else 2)
    (by simp [posOnlyTarget, S]) (by decide)
    (by intro e he; simp only [List.mem_cons, List.not_mem_nil, or_false] at he
        rcases he with rfl | rfl
        · exact ⟨{ name := S "a", kind := .posOnly, ann := some .plain, dflt := none },
            by simp [posOnlyTarget], rfl⟩
        · exact ⟨{ name := S "b", kind := .posOrKw, ann := some .plain, dflt := some (.value 2 false) },
            by simp [posOnlyTarget], rfl⟩)
    (by intro e he; cases he)
    (by intro p hp; simp only [posOnlyTarget, List.mem_cons, List.not_mem_nil, or_false] at hp
        rcases hp with rfl | rfl <;> exact Or.inl (by decide))
  rw [c20_partial_posonly_witness] at this
  cases this

/-- **Calling the parsed object (partial: `NoPosOnly`).** For a target without positional-only
    parameters: if every keyword names a parameter and every parameter has a `CallValue` — the
    explicit keyword, else the parsed field, else (ignored or skipped parameters) its own default —
    the target is invoked with exactly those values, whatever the number of parameters. -/
theorem c20_partial_call (sig : List (Param V)) (fv kw : List (Str × V)) (w : Str → V)
    (hno : NoPosOnly sig)
    (hfv : ∀ e ∈ fv, ∃ p ∈ sig, p.name = e.1) (hkw : ∀ e ∈ kw, ∃ p ∈ sig, p.name = e.1)
    (hcover : ∀ p ∈ sig, CallValue fv kw p (w p.name)) :
    Callables.bind sig (partialCall fv [] kw).args (partialCall fv [] kw).kwargs
      = some (sig.map (fun p => (p.name, w p.name))) := by
  have hallowed : kwAllowed sig (partialCall fv ([] : List V) kw).kwargs = true := by
    unfold kwAllowed
    rw [List.all_eq_true]
    intro e he
    have : ∃ p ∈ sig, p.name = e.1 := by
      rcases keys_dictUpdate fv kw e he with ⟨e', he', hk⟩ | ⟨e', he', hk⟩
      · obtain ⟨p, hp, hn⟩ := hfv e' he'; exact ⟨p, hp, hn.trans hk⟩
      · obtain ⟨p, hp, hn⟩ := hkw e' he'; exact ⟨p, hp, hn.trans hk⟩
    obtain ⟨p, hp, hn⟩ := this
    simp only [List.any_eq_true]
    refine ⟨p, hp, ?_⟩
    have := hno p hp
    unfold Param.isPosOnly at this
    simp [hn, this]
  have hnil : sig.filter (·.isPosOnly) = [] := by
    rw [List.filter_eq_nil_iff]; intro a ha; simp [hno a ha]
  have hpre : posOnlyPrefix sig = true :=
    posOnlyPrefix_of_all sig (by rw [List.all_eq_true]; intro a ha; simp [hno a ha])
  have key := bindGo_routed w (partialCall fv ([] : List V) kw).kwargs sig hpre
    (fun p hp hpo => by rw [hno p hp] at hpo; cases hpo)
    (fun p hp _ => by rw [c20_partial_kwargs_win]; exact hcover p hp)
  rw [hnil] at key
  unfold Callables.bind
  rw [hallowed]
  simpa [partialCall] using key

/-- non-vacuity: `def tgt(a, b=2, *, c, d=4)`, fields `b=7` (parsed), explicit `a=1, c=3, b=9`;
    `d` is an ignored parameter and keeps its own default -/
def partialTarget : List (Param Nat) :=
  [ { name := S "a", kind := .posOrKw, ann := none, dflt := none },
    { name := S "b", kind := .posOrKw, ann := none, dflt := some (.value 2 false) },
    { name := S "c", kind := .kwOnly, ann := none, dflt := none },
    { name := S "d", kind := .kwOnly, ann := none, dflt := some (.value 4 false) } ]

example : NoPosOnly partialTarget := by decide
example : Callables.bind partialTarget
      [] (partialCall [(S "b", 7)] [] [(S "a", 1), (S "c", 3), (S "b", 9)]).kwargs
    = some [(S "a", 1), (S "b", 9), (S "c", 3), (S "d", 4)] := by decide
example : CallValue [(S "b", (7 : Nat))] [(S "a", 1), (S "c", 3), (S "b", 9)]
    { name := S "d", kind := .kwOnly, ann := none, dflt := some (.value 4 false) } 4 :=
  Or.inr (by decide)

/-! ### `config_for`: one field per non-ignored, typed parameter -/

/-- the field a parameter contributes, if any: ignored parameters and parameters with neither an
    annotation (own or class-level) nor a default contribute none -/
def candidate (classAnn ignore : List Str) (ov : List (Str × V × Shape)) (p : CParam V) :
    Option (CField V) :=
  if ignore.contains p.name then none
  else if p.annotated || classAnn.contains p.name then
    some { name := p.name, default := (effDefault ov p).map (·.1),
           mutable := match effDefault ov p with | some (_, sh) => mutableShape sh | none => false }
  else match effDefault ov p with
    | some (v, sh) => some { name := p.name, default := some v, mutable := mutableShape sh }
    | none => none

/-- no untyped parameter has a default whose type cannot be inferred (else NotImplementedError) -/
def Inferable (classAnn ignore : List Str) (ov : List (Str × V × Shape)) (sig : List (CParam V)) : Prop :=
  ∀ p ∈ sig, ignore.contains p.name = false → p.annotated = false → classAnn.contains p.name = false →
    ∀ v sh, effDefault ov p = some (v, sh) → inferable sh = true

theorem configLoop_exact (classAnn ignore : List Str) (ov : List (Str × V × Shape))
    (ps : List (CParam V)) (acc : List (CField V)) (hinf : Inferable classAnn ignore ov ps) :
    ∃ fs, configLoop classAnn ignore ov ps acc = .ok fs ∧
      fs = ((ps.filterMap (candidate classAnn ignore ov)).filter (·.default.isNone)).reverse ++ acc
          ++ (ps.filterMap (candidate classAnn ignore ov)).filter (·.default.isSome) := by
  induction ps generalizing acc with
  | nil => exact ⟨acc, rfl, by simp⟩
  | cons p ps ih =>
    have hinf' : Inferable classAnn ignore ov ps := fun q hq => hinf q (by simp [hq])
    have hp := hinf p (by simp)
    simp only [configLoop, List.filterMap_cons]
    cases hig : ignore.contains p.name with
    | true =>
      simp only [candidate, hig, if_true]
      exact ih acc hinf'
    | false =>
      simp only [Bool.false_eq_true, if_false]
      cases hty : (p.annotated || classAnn.contains p.name) with
      | true =>
        have htyped : typedOf classAnn p (effDefault ov p) = .yes := by
          unfold typedOf
          cases ha : p.annotated
          · have : classAnn.contains p.name = true := by rw [ha, Bool.false_or] at hty; exact hty
            simp only [Bool.false_eq_true, if_false, this, if_true]
          · simp
        simp only [htyped, candidate, hig, hty, Bool.false_eq_true, if_false, if_true]
        cases he : effDefault ov p with
        | none =>
          obtain ⟨fs, h1, h2⟩ := ih ({ name := p.name, default := none } :: acc) hinf'
          exact ⟨fs, h1, by simp [h2]⟩
        | some d =>
          obtain ⟨v, sh⟩ := d
          obtain ⟨fs, h1, h2⟩ := ih (acc ++ [{ name := p.name, default := some v, mutable := mutableShape sh }]) hinf'
          exact ⟨fs, h1, by simp [h2]⟩
      | false =>
        have ha : p.annotated = false := (Bool.or_eq_false_iff.mp hty).1
        have hc : classAnn.contains p.name = false := (Bool.or_eq_false_iff.mp hty).2
        cases he : effDefault ov p with
        | none =>
          have htyped : typedOf classAnn p (none : Option (V × Shape)) = .skip := by
            simp only [typedOf, ha, hc, Bool.false_eq_true, if_false]
          simp only [htyped, candidate, hig, hty, he, Bool.false_eq_true, if_false]
          exact ih acc hinf'
        | some d =>
          obtain ⟨v, sh⟩ := d
          have hi := hp hig ha hc v sh he
          have htyped : typedOf classAnn p (some (v, sh)) = .yes := by
            simp only [typedOf, ha, hc, hi, Bool.false_eq_true, if_false, if_true]
          simp only [htyped, candidate, hig, hty, he, Bool.false_eq_true, if_false]
          obtain ⟨fs, h1, h2⟩ := ih (acc ++ [{ name := p.name, default := some v, mutable := mutableShape sh }]) hinf'
          exact ⟨fs, h1, by simp [h2]⟩

/-- the list handed to `make_dataclass`, exactly: the required candidates in reverse signature
    order (the code inserts them at the front), then the optional candidates in signature order -/
theorem configFields_exact (classAnn ignore : List Str) (ov : List (Str × V × Shape))
    (sig : List (CParam V)) (hinf : Inferable classAnn ignore ov sig) :
    configFields classAnn ignore ov sig = .ok
      (((sig.filterMap (candidate classAnn ignore ov)).filter (·.default.isNone)).reverse
        ++ (sig.filterMap (candidate classAnn ignore ov)).filter (·.default.isSome)) := by
  obtain ⟨fs, h1, h2⟩ := configLoop_exact classAnn ignore ov sig [] hinf
  unfold configFields
  rw [h1, h2]; simp

/-- no field candidate has a default of an unhashable class (named exclusion of finding
    C20-mutable-default on the `config_for` side) -/
def NoMutableCfg (classAnn ignore : List Str) (ov : List (Str × V × Shape)) (sig : List (CParam V)) : Prop :=
  ∀ p ∈ sig, ∀ f, candidate classAnn ignore ov p = some f → f.mutable = false

theorem configFor_ok_iff (classAnn ignore : List Str) (ov : List (Str × V × Shape))
    (sig : List (CParam V)) (fs : List (CField V)) :
    configFor classAnn ignore ov sig = .ok fs ↔
      (configFields classAnn ignore ov sig = .ok fs ∧ fs.any (·.mutable) = false) := by
  unfold configFor
  cases h : configFields classAnn ignore ov sig with
  | ok fs' =>
    cases hm : fs'.any (·.mutable) with
    | true =>
      simp only [hm, if_true]
      constructor
      · intro e; cases e
      · rintro ⟨e, hf⟩; injection e with e; subst e; rw [hm] at hf; cases hf
    | false =>
      simp only [hm, Bool.false_eq_true, if_false]
      constructor
      · intro e; injection e with e; subst e; exact ⟨rfl, hm⟩
      · rintro ⟨e, _⟩; exact e
  | notImplemented => simp
  | mutableDefault => simp
  | docError o => simp

/-- **Exact shape of the derived class (partial: `Inferable`, `NoMutableCfg`).** `config_for`
    succeeds and its fields are: the required candidates in reverse signature order, then the
    optional candidates in signature order. -/
theorem c20_config_fields (classAnn ignore : List Str) (ov : List (Str × V × Shape))
    (sig : List (CParam V)) (hinf : Inferable classAnn ignore ov sig)
    (hnm : NoMutableCfg classAnn ignore ov sig) :
    configFor classAnn ignore ov sig = .ok
      (((sig.filterMap (candidate classAnn ignore ov)).filter (·.default.isNone)).reverse
        ++ (sig.filterMap (candidate classAnn ignore ov)).filter (·.default.isSome)) := by
  rw [configFor_ok_iff]
  refine ⟨configFields_exact classAnn ignore ov sig hinf, ?_⟩
  rw [List.any_eq_false]
  intro f hf
  have hf' : f ∈ sig.filterMap (candidate classAnn ignore ov) := by
    simp only [List.mem_append, List.mem_reverse, List.mem_filter] at hf
    rcases hf with h | h <;> exact h.1
  obtain ⟨p, hp, hc⟩ := List.mem_filterMap.mp hf'
  simp [hnm p hp f hc]

/-- **One option per non-ignored parameter, with the signature's default.** Whenever `config_for`
    returns a class: its fields are exactly the candidates (same number, same members); each carries
    the override / signature default of a non-ignored parameter of that name, and no ignored
    parameter yields a field. -/
theorem c20_config_options (classAnn ignore : List Str) (ov : List (Str × V × Shape))
    (sig : List (CParam V)) (fs : List (CField V))
    (h : configFor classAnn ignore ov sig = .ok fs) (hinf : Inferable classAnn ignore ov sig) :
    fs.length = (sig.filterMap (candidate classAnn ignore ov)).length ∧
    (∀ f, f ∈ fs ↔ f ∈ sig.filterMap (candidate classAnn ignore ov)) ∧
    (∀ f ∈ fs, ∃ p ∈ sig, f.name = p.name ∧ ignore.contains p.name = false ∧
        f.default = (effDefault ov p).map (·.1)) := by
  have h := ((configFor_ok_iff classAnn ignore ov sig fs).mp h).1
  rw [configFields_exact classAnn ignore ov sig hinf] at h
  injection h with h
  subst h
  have hmem : ∀ f, f ∈ ((sig.filterMap (candidate classAnn ignore ov)).filter (·.default.isNone)).reverse
        ++ (sig.filterMap (candidate classAnn ignore ov)).filter (·.default.isSome)
      ↔ f ∈ sig.filterMap (candidate classAnn ignore ov) := by
    intro f
    simp only [List.mem_append, List.mem_reverse, List.mem_filter]
    constructor
    · rintro (h | h) <;> exact h.1
    · intro h; cases hd : f.default <;> simp [h]
  refine ⟨?_, hmem, ?_⟩
  · generalize sig.filterMap (candidate classAnn ignore ov) = L
    induction L with
    | nil => rfl
    | cons x xs ih =>
      simp only [List.length_append, List.length_reverse, List.length_cons] at ih ⊢
      cases hx : x.default <;> simp [List.filter, hx] <;> omega
  · intro f hf
    obtain ⟨p, hp, hc⟩ := List.mem_filterMap.mp ((hmem f).mp hf)
    refine ⟨p, hp, ?_⟩
    unfold candidate at hc
    cases hig : ignore.contains p.name with
    | true => rw [hig, if_pos rfl] at hc; cases hc
    | false =>
      simp only [hig, Bool.false_eq_true, if_false] at hc
      split at hc
      · injection hc with hc; subst hc; exact ⟨rfl, rfl, rfl⟩
      · split at hc
        · rename_i v sh he
          injection hc with hc; subst hc; exact ⟨rfl, rfl, by simp [he]⟩
        · cases hc

/-- **Derive, parse, call (composition).** For a callable without positional-only parameters whose
    config class `config_for` derives (fields `fs`): whatever values the parse puts into the fields,
    calling the parsed object with explicit keywords `kw` binds every parameter to its `CallValue`
    — the field keys are parameter names by `c20_config_options`, so only the keywords and the
    coverage of the non-field (ignored / skipped) parameters remain as hypotheses. -/
theorem c20_config_then_call (sig : List (Param V)) (csig : List (CParam V))
    (hsame : csig.map (·.name) = sig.map (·.name))
    (classAnn ignore : List Str) (ov : List (Str × V × Shape)) (fs : List (CField V))
    (h : configFor classAnn ignore ov csig = .ok fs) (hinf : Inferable classAnn ignore ov csig)
    (hno : NoPosOnly sig) (vals : Str → V) (kw : List (Str × V)) (w : Str → V)
    (hkw : ∀ e ∈ kw, ∃ p ∈ sig, p.name = e.1)
    (hcover : ∀ p ∈ sig, CallValue (fs.map (fun f => (f.name, vals f.name))) kw p (w p.name)) :
    Callables.bind sig (partialCall (fs.map (fun f => (f.name, vals f.name))) [] kw).args
        (partialCall (fs.map (fun f => (f.name, vals f.name))) [] kw).kwargs
      = some (sig.map (fun p => (p.name, w p.name))) := by
  apply c20_partial_call sig _ kw w hno _ hkw hcover
  intro e he
  obtain ⟨f, hf, rfl⟩ := List.mem_map.mp he
  obtain ⟨cp, hcp, hn, _⟩ := (c20_config_options classAnn ignore ov csig fs h hinf).2.2 f hf
  have : cp.name ∈ sig.map (·.name) := by rw [← hsame]; exact List.mem_map.mpr ⟨cp, hcp, rfl⟩
  obtain ⟨p, hp, hpn⟩ := List.mem_map.mp this
  exact ⟨p, hp, by simp [hpn, hn]⟩

/-! #### full statement and witnesses for `config_for` -/

/-- **Full statement.** `config_for` derives a class with one field per parameter of the callable. -/
def ConfigFull : Prop :=
  ∀ sig : List (CParam Nat), ∃ fs, configFor [] [] [] sig = .ok fs ∧ fs.map (·.name) = sig.map (·.name)

/-- `def f(a: int, b=None)`: the type of `b` cannot be inferred → NotImplementedError for the whole
    callable (partial.py:221) -/
theorem c20_config_none_default_witness :
    configFor [] [] [] ([ { name := S "a", annotated := true, dflt := none },
      { name := S "b", annotated := false, dflt := some (0, .other) } ] : List (CParam Nat))
      = .notImplemented := by rfl

/-- finding C20-mutable-default: `def f(xs=[1, 2])` / `def f(xs: List[int] = [1, 2])` → ValueError
    from `make_dataclass` although the type is inferable / annotated -/
theorem c20_config_mutable_witness :
    configFor [] [] [] ([ { name := S "xs", annotated := false, dflt := some (12, .list [.int, .int]) } ]
      : List (CParam Nat)) = .mutableDefault ∧
    configFor [] [] [] ([ { name := S "xs", annotated := true, dflt := some (12, .list [.int, .int]) } ]
      : List (CParam Nat)) = .mutableDefault ∧
    inferable (.list [.int, .int]) = true := ⟨by rfl, by rfl, by rfl⟩

/-- `def f(a, b: int = 1)`: the untyped parameter without default is dropped (with a warning) -/
theorem c20_config_untyped_dropped :
    configFor [] [] [] ([ { name := S "a", annotated := false, dflt := none },
      { name := S "b", annotated := true, dflt := some (1, .int) } ] : List (CParam Nat))
      = .ok [ { name := S "b", default := some 1 } ] := by rfl

theorem c20_config_full_witness : ¬ ConfigFull := by
  intro h
  obtain ⟨fs, hfs, _⟩ := h [ { name := S "a", annotated := true, dflt := none },
      { name := S "b", annotated := false, dflt := some (0, .other) } ]
  rw [c20_config_none_default_witness] at hfs
  cases hfs

/-- non-vacuity: `def tgt(a, b: int, c=2.5, *, d="s", e: str)` with `ignore_args="d"`, override
    `c=9`: `a` is skipped (no type), `d` ignored; required `e`, `b` come first (reversed). -/
def cfgSig : List (CParam Nat) :=
  [ { name := S "a", annotated := false, dflt := none },
    { name := S "b", annotated := true, dflt := none },
    { name := S "c", annotated := false, dflt := some (25, .float) },
    { name := S "d", annotated := false, dflt := some (5, .str) },
    { name := S "e", annotated := true, dflt := none } ]

example : Inferable [] [S "d"] [(S "c", 9, .int)] cfgSig := by
  intro p hp hig ha _ v sh he
  simp only [cfgSig, List.mem_cons, List.not_mem_nil, or_false] at hp
  rcases hp with rfl | rfl | rfl | rfl | rfl
  · have h0 : effDefault [(S "c", (9 : Nat), Shape.int)]
        ({ name := S "a", annotated := false, dflt := none } : CParam Nat) = none := by rfl
    rw [h0] at he; cases he
  · cases ha
  · have h0 : effDefault [(S "c", (9 : Nat), Shape.int)]
        ({ name := S "c", annotated := false, dflt := some (25, .float) } : CParam Nat)
        = some (9, .int) := by rfl
    rw [h0] at he; cases he; rfl
  · exact absurd hig (by decide)
  · cases ha

example : configFor [] [S "d"] [(S "c", 9, .int)] cfgSig = .ok
    [ { name := S "e", default := none }, { name := S "b", default := none },
      { name := S "c", default := some 9 } ] := by rfl

/-! ### docstring `Args:` entries -/

/-- **Only the first colon separates.** An entry line `key: description` is split at its first
    colon, so the description may itself contain any number of colons (ratios, URLs, "one of: …"). -/
theorem c20_doc_entry_colons (k d : Str) (hk : ':' ∉ k) :
    splitFirstColon (k ++ ':' :: d) = some (k, d) := by
  induction k with
  | nil => simp [splitFirstColon]
  | cons c cs ih =>
    have hc : c ≠ ':' := fun e => hk (by simp [e])
    have hcs : ':' ∉ cs := fun h => hk (by simp [h])
    simp [splitFirstColon, hc, ih hcs]

/-- a line without any colon is the only way an entry line is rejected -/
theorem c20_doc_entry_rejected (s : Str) : splitFirstColon s = none ↔ ':' ∉ s := by
  induction s with
  | nil => simp [splitFirstColon]
  | cons c cs ih =>
    by_cases hc : c = ':'
    · simp [splitFirstColon, hc]
    · have hc' : ¬ (':' = c) := fun e => hc e.symm
      cases h : splitFirstColon cs with
      | none => simp [splitFirstColon, hc, hc', h, ih.mp h]
      | some p =>
        have : ¬ (':' ∉ cs) := fun hn => by rw [ih.mpr hn] at h; cases h
        have this := Decidable.not_not.mp this
        simp [splitFirstColon, hc, h, this]

/-- one documented description for a parameter ⇒ that description is its help text; the
    `__init__` docstring takes precedence over the class docstring -/
theorem c20_help_unique_init (initE classE : List (Str × Str)) (name h : Str)
    (hu : helpEntries initE name = [h]) : pickHelp initE classE name = some h := by
  simp [pickHelp, hu]

theorem c20_help_unique_class (initE classE : List (Str × Str)) (name h : Str)
    (hi : helpEntries initE name = []) (hu : helpEntries classE name = [h]) :
    pickHelp initE classE name = some h := by
  simp [pickHelp, hi, hu]

/-- finding C20-help-prefix-match (partial.py:174-178 matches `k.startswith(name)`): an
    undocumented parameter `b` takes the text of `beta`; with both documented the result is the
    `pop()` of a two-element set, i.e. it depends on the hash seed (`none` in the model) -/
theorem c20_help_prefix_witness :
    pickHelp [] [(S "beta", S "the beta text")] (S "b") = some (S "the beta text") ∧
    pickHelp [] [(S "b", S "the b text"), (S "beta", S "the beta text")] (S "b") = none := by decide

example : parseArgsDoc "R.\n\n Args:\n     s: 1:2\n         or 3:4\n     m (str): one of: a, b\n\n Returns:\n     d: x\n ".toList
    = .ok [(S "s", S "1:2 or 3:4"), (S "m (str)", S "one of: a, b")] := by
  rfl
example : pickHelp [] [(S "scale", S "a ratio like 1:2"), (S "mode (str)", S "one of: a, b")] (S "mode")
    = some (S "one of: a, b") := by decide
example : parseArgsDoc "Args:\n    no separator".toList = .valueError := by decide

end SpVerif.C20
