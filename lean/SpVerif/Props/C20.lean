/-
  C20 — callable front-ends pass exactly the parsed values to the wrapped callable.
  Theorems about `SpVerif.Model.Callables` (mirrors decorators.py, helpers/partial.py,
  only_keep_action_args in wrappers/field_wrapper.py).
-/
import SpVerif.Model.Callables
namespace SpVerif.C20
open SpVerif SpVerif.Callables

variable {V : Type}

/-! ### legal signatures -/

/-- Python's rule "non-default argument follows default argument" -/
def defaultsSuffix : List (Param V) → Bool
  | [] => true
  | p :: ps => (if p.hasDefault then ps.all (·.hasDefault) else true) && defaultsSuffix ps

/-- positional-only parameters come first (they are written before the `/`) -/
def posOnlyPrefix : List (Param V) → Bool
  | [] => true
  | p :: ps => if p.isPosOnly then posOnlyPrefix ps else ps.all (fun q => !q.isPosOnly)

/-- what CPython accepts as a `def` header (restricted to the three modelled kinds) -/
structure ValidSig (sig : List (Param V)) : Prop where
  names : sig.Pairwise (fun a b => a.name ≠ b.name)
  kinds : posOnlyPrefix sig = true
  defaults : defaultsSuffix (sig.filter (fun p => !(p.kind == .kwOnly))) = true

/-! ### the stable sort is a stable partition -/

theorem insertByKey_false {α} (key : α → Bool) (x : α) (hx : key x = false) (l : List α) :
    insertByKey key x l = x :: l := by
  cases l <;> simp [insertByKey, hx]

theorem insertByKey_true {α} (key : α → Bool) (x : α) (hx : key x = true) (A B : List α)
    (hA : ∀ a ∈ A, key a = false) (hB : ∀ b ∈ B, key b = true) :
    insertByKey key x (A ++ B) = A ++ x :: B := by
  induction A with
  | nil =>
    cases B with
    | nil => rfl
    | cons b bs => simp [insertByKey, hx, hB b (by simp)]
  | cons a as ih =>
    have ha := hA a (by simp)
    have := ih (fun a' h => hA a' (by simp [h]))
    simp [insertByKey, hx, ha, this]

/-- `sorted(l, key=k)` with a Boolean key = the `False` elements in order, then the `True` ones. -/
theorem stableSort_eq_partition {α} (key : α → Bool) (l : List α) :
    stableSort key l = l.filter (fun a => !key a) ++ l.filter key := by
  induction l with
  | nil => rfl
  | cons x xs ih =>
    simp only [stableSort, ih]
    cases hx : key x with
    | false => rw [insertByKey_false _ _ hx]; simp [List.filter, hx]
    | true =>
      rw [insertByKey_true key x hx _ _
        (by intro a ha; simpa using (List.mem_filter.mp ha).2)
        (by intro b hb; exact (List.mem_filter.mp hb).2)]
      simp [List.filter, hx]

/-- the signature in dataclass-field order -/
def sortedSig (sig : List (Param V)) : List (Param V) :=
  sig.filter (fun p => !p.hasDefault) ++ sig.filter (·.hasDefault)

theorem mainField_isSet (p : Param V) : (mainField p).default.isSet = p.hasDefault := by
  unfold mainField Param.hasDefault mainDefault
  cases p.dflt with
  | none => rfl
  | some d => cases d <;> rfl

/-- a value default (anything that is not a plain function: numbers, dataclass instances,
    `functools.partial` objects, config instances) is the field's default itself — never a factory,
    never called; only a plain function becomes the default factory -/
theorem c20_value_default_kept (p : Param V) (v : V) (n : Bool) (h : p.dflt = some (.value v n)) :
    (mainField p).default = .value v n := by
  simp [mainField, mainDefault, h]

theorem c20_function_default_is_factory (p : Param V) (fn r : V) (h : p.dflt = some (.func fn r)) :
    (mainField p).default = .factory r := by
  simp [mainField, mainDefault, h]

theorem mainFields_eq (sig : List (Param V)) : mainFields sig = (sortedSig sig).map mainField := by
  unfold mainFields sortedSig
  rw [stableSort_eq_partition, List.filter_map, List.filter_map, List.map_append]
  congr 2 <;> (apply List.filter_congr; intro p _; simp [Function.comp, mainField_isSet])

theorem mem_sortedSig {sig : List (Param V)} {p : Param V} : p ∈ sortedSig sig ↔ p ∈ sig := by
  unfold sortedSig
  simp only [List.mem_append, List.mem_filter]
  constructor
  · rintro (h | h) <;> exact h.1
  · intro h; cases hd : p.hasDefault <;> simp [h]

theorem partition_of_defaultsSuffix (l : List (Param V)) (h : defaultsSuffix l = true) :
    l.filter (fun p => !p.hasDefault) ++ l.filter (·.hasDefault) = l := by
  induction l with
  | nil => rfl
  | cons p ps ih =>
    simp only [defaultsSuffix, Bool.and_eq_true] at h
    cases hd : p.hasDefault with
    | false => simp [List.filter, hd, ih h.2]
    | true =>
      have hall : ps.all (·.hasDefault) = true := by simpa [hd] using h.1
      have h1 : ps.filter (fun p => !p.hasDefault) = [] := by
        rw [List.filter_eq_nil_iff]; intro a ha
        have := (List.all_eq_true.mp hall) a ha; simp [this]
      have h2 : ps.filter (·.hasDefault) = ps := by
        rw [List.filter_eq_self]; intro a ha; exact (List.all_eq_true.mp hall) a ha
      simp [List.filter, hd, h1, h2]

theorem defaultsSuffix_filter (q : Param V → Bool) (l : List (Param V))
    (h : defaultsSuffix l = true) : defaultsSuffix (l.filter q) = true := by
  induction l with
  | nil => rfl
  | cons p ps ih =>
    simp only [defaultsSuffix, Bool.and_eq_true] at h
    cases hq : q p with
    | false => simpa [List.filter, hq] using ih h.2
    | true =>
      simp only [List.filter, hq, defaultsSuffix, Bool.and_eq_true]
      refine ⟨?_, ih h.2⟩
      cases hd : p.hasDefault with
      | false => simp
      | true =>
        have hall : ps.all (·.hasDefault) = true := by simpa [hd] using h.1
        simp only [if_true, List.all_eq_true]
        intro a ha
        exact (List.all_eq_true.mp hall) a (List.mem_filter.mp ha).1

/-- **Stable-sort lemma.** For a legal signature the positional-only parameters keep their
    relative order when the fields are sorted "without default first". -/
theorem c20_posonly_order (sig : List (Param V)) (hv : ValidSig sig) :
    (sortedSig sig).filter (·.isPosOnly) = sig.filter (·.isPosOnly) := by
  have hpo : sig.filter (·.isPosOnly) =
      (sig.filter (fun p => !(p.kind == .kwOnly))).filter (·.isPosOnly) := by
    rw [List.filter_filter]; apply List.filter_congr; intro p _
    unfold Param.isPosOnly; cases p.kind <;> rfl
  have hds : defaultsSuffix (sig.filter (·.isPosOnly)) = true := by
    rw [hpo]; exact defaultsSuffix_filter _ _ hv.defaults
  have := partition_of_defaultsSuffix _ hds
  unfold sortedSig
  rw [List.filter_append, List.filter_filter, List.filter_filter]
  rw [List.filter_filter, List.filter_filter] at this
  calc _ = List.filter (fun a => (!a.hasDefault) && a.isPosOnly) sig ++
            List.filter (fun a => a.hasDefault && a.isPosOnly) sig := by
          congr 1 <;> (apply List.filter_congr; intro p _; exact Bool.and_comm _ _)
    _ = _ := this

/-! ### CPython binding of the call made by `main` -/

theorem lookup_map_none (L : List (Param V)) (f : Param V → V) (n : Str)
    (h : ∀ q ∈ L, q.name ≠ n) : (L.map (fun q => (q.name, f q))).lookup n = none := by
  induction L with
  | nil => rfl
  | cons x xs ih =>
    have hx : (n == x.name) = false := by
      simp only [beq_eq_false_iff_ne, ne_eq]; exact fun e => h x (by simp) e.symm
    simp only [List.map_cons, List.lookup_cons, hx]
    exact ih (fun q hq => h q (by simp [hq]))

theorem lookup_map_some (L : List (Param V)) (vals : Str → V) (q : Param V) (hq : q ∈ L) :
    (L.map (fun p => (p.name, vals p.name))).lookup q.name = some (vals q.name) := by
  induction L with
  | nil => cases hq
  | cons x xs ih =>
    simp only [List.map_cons, List.lookup_cons]
    by_cases hx : q.name = x.name
    · simp [hx]
    · have : (q.name == x.name) = false := by simpa using hx
      simp only [this]
      rcases List.mem_cons.mp hq with h | h
      · subst h; exact absurd rfl hx
      · exact ih h

theorem posOnlyPrefix_of_all (ps : List (Param V)) (h : ps.all (fun q => !q.isPosOnly) = true) :
    posOnlyPrefix ps = true := by
  induction ps with
  | nil => rfl
  | cons p ps ih =>
    simp only [List.all_cons, Bool.and_eq_true] at h
    have hp : p.isPosOnly = false := by simpa using h.1
    simp [posOnlyPrefix, hp, h.2]

/-- the walk of `bindGo` when positional-only parameters are passed positionally and everything
    else by keyword -/
theorem bindGo_routed (vals : Str → V) (kw : List (Str × V)) (sig : List (Param V))
    (hpre : posOnlyPrefix sig = true)
    (h1 : ∀ p ∈ sig, p.isPosOnly = true → kw.lookup p.name = none)
    (h2 : ∀ p ∈ sig, p.isPosOnly = false → kw.lookup p.name = some (vals p.name) ∨
      (kw.lookup p.name = none ∧ p.defaultValue = some (vals p.name))) :
    bindGo sig ((sig.filter (·.isPosOnly)).map (fun p => vals p.name)) kw
      = some (sig.map (fun p => (p.name, vals p.name))) := by
  induction sig with
  | nil => rfl
  | cons p ps ih =>
    have h1' : ∀ q ∈ ps, q.isPosOnly = true → kw.lookup q.name = none :=
      fun q hq => h1 q (by simp [hq])
    have h2' : ∀ q ∈ ps, q.isPosOnly = false → kw.lookup q.name = some (vals q.name) ∨
        (kw.lookup q.name = none ∧ q.defaultValue = some (vals q.name)) :=
      fun q hq => h2 q (by simp [hq])
    cases hp : p.isPosOnly with
    | true =>
      have hk : p.kind = .posOnly := by
        unfold Param.isPosOnly at hp; cases hkk : p.kind <;> simp_all
      have hpre' : posOnlyPrefix ps = true := by simpa [posOnlyPrefix, hp] using hpre
      have hl := h1 p (by simp) hp
      simp only [List.filter, hp, List.map_cons, bindGo, hk, hl, Option.isSome_none]
      simp [ih hpre' h1' h2']
    | false =>
      have hall : ps.all (fun q => !q.isPosOnly) = true := by simpa [posOnlyPrefix, hp] using hpre
      have hnil : ps.filter (·.isPosOnly) = [] := by
        rw [List.filter_eq_nil_iff]; intro a ha
        have := (List.all_eq_true.mp hall) a ha; simpa using this
      have hl := h2 p (by simp) hp
      have ih' := ih (posOnlyPrefix_of_all ps hall) h1' h2'
      rw [hnil] at ih'
      simp only [List.map_nil] at ih'
      simp only [List.filter, hp, hnil, List.map_nil]
      rcases hl with hl | ⟨hl, hd⟩
      · cases hk : p.kind <;> simp [bindGo, hk, hl, ih']
      · cases hk : p.kind <;> simp [bindGo, hk, hl, hd, ih']

theorem names_injective {sig : List (Param V)} (h : sig.Pairwise (fun a b => a.name ≠ b.name))
    {a b : Param V} (ha : a ∈ sig) (hb : b ∈ sig) (hn : a.name = b.name) : a = b := by
  induction sig with
  | nil => cases ha
  | cons x xs ih =>
    rw [List.pairwise_cons] at h
    rcases List.mem_cons.mp ha with ha1 | ha2 <;> rcases List.mem_cons.mp hb with hb1 | hb2
    · rw [ha1, hb1]
    · rw [ha1] at hn; exact absurd hn (h.1 b hb2)
    · rw [hb1] at hn; exact absurd hn.symm (h.1 a ha2)
    · exact ih h.2 ha2 hb2

theorem chainMap_nil (kw : List (Str × V)) : chainMap kw [] = kw := by
  simp [chainMap]

/-- **Central theorem.** For every legal signature (any number of parameters) and any parsed
    values, the call made by `main` binds *every* parameter of the wrapped callable to the value
    parsed for it: positional-only parameters are passed positionally in signature order, all
    others by keyword. -/
theorem c20_main_args (sig : List (Param V)) (hv : ValidSig sig) (vals : Str → V) :
    Callables.bind sig (mainCall (mainFields sig) vals [] []).args (mainCall (mainFields sig) vals [] []).kwargs
      = some (sig.map (fun p => (p.name, vals p.name))) := by
  have hargs : (mainCall (mainFields sig) vals [] []).args
      = (sig.filter (·.isPosOnly)).map (fun p => vals p.name) := by
    simp only [mainCall, List.append_nil, mainFields_eq, List.filter_map, List.map_map]
    rw [← c20_posonly_order sig hv]
    congr 1
  have hkw : (mainCall (mainFields sig) vals [] []).kwargs
      = ((sortedSig sig).filter (fun p => !p.isPosOnly)).map (fun p => (p.name, vals p.name)) := by
    simp only [mainCall, chainMap_nil, mainFields_eq, List.filter_map, List.map_map]
    congr 1
  rw [hargs, hkw]
  have hmem : ∀ q, q ∈ (sortedSig sig).filter (fun p => !p.isPosOnly) ↔ (q ∈ sig ∧ q.isPosOnly = false) := by
    intro q; simp [List.mem_filter, mem_sortedSig]
  have hallowed : kwAllowed sig
      (((sortedSig sig).filter (fun p => !p.isPosOnly)).map (fun p => (p.name, vals p.name))) = true := by
    unfold kwAllowed
    rw [List.all_eq_true]
    intro e he
    obtain ⟨q, hq, rfl⟩ := List.mem_map.mp he
    obtain ⟨hqs, hqp⟩ := (hmem q).mp hq
    simp only [List.any_eq_true]
    refine ⟨q, hqs, ?_⟩
    unfold Param.isPosOnly at hqp
    simp [hqp]
  unfold Callables.bind
  rw [hallowed]
  simp only [if_true]
  apply bindGo_routed vals _ sig hv.kinds
  · intro p hp hpo
    apply lookup_map_none
    intro q hq hn
    obtain ⟨hqs, hqp⟩ := (hmem q).mp hq
    have := names_injective hv.names hqs hp hn
    subst this
    rw [hpo] at hqp; cases hqp
  · intro p hp hpo
    exact Or.inl (lookup_map_some _ vals p ((hmem p).mpr ⟨hp, hpo⟩))

/-- non-vacuity: `def f(x: int, y: int = 2, /, z: int = 5, *, w: str)` is a legal signature with
    every kind, and defaults in the middle -/
def exampleSig : List (Param Nat) :=
  [ { name := S "x", kind := .posOnly, ann := some .plain, dflt := none },
    { name := S "y", kind := .posOnly, ann := some .plain, dflt := some (.value 2 false) },
    { name := S "z", kind := .posOrKw, ann := some .plain, dflt := some (.value 5 false) },
    { name := S "w", kind := .kwOnly, ann := some .plain, dflt := none } ]

example : ValidSig exampleSig :=
  ⟨by simp [exampleSig, S], by decide, by decide⟩

example : (mainFields exampleSig).map (·.name) = [S "x", S "w", S "y", S "z"] := by decide

example : setup (mainFields exampleSig) = .ok := by decide

/-! ### `only_keep_action_args` and set-up for all supported types -/

/-- custom action classes: nothing is filtered -/
theorem c20_keep_custom (keys ctor : List Str) :
    onlyKeepActionArgs keys (.custom ctor) = keys := rfl

/-- stock actions: every surviving key is an argument of the constructor (or `action`) -/
theorem c20_keep_stock (keys : List Str) (a : Action) (ctor : List Str)
    (h : stockCtorArgs a = some ctor) :
    ∀ k ∈ onlyKeepActionArgs keys a, k ∈ ctor ∨ k = S "action" := by
  intro k hk
  simp only [onlyKeepActionArgs, h, List.mem_filter] at hk
  have := hk.2
  simp only [List.contains_eq_mem, List.mem_append, List.mem_singleton, decide_eq_true_eq] at this
  exact this

/-- … and every key the constructor takes survives -/
theorem c20_keep_stock_complete (keys : List Str) (a : Action) (ctor : List Str)
    (h : stockCtorArgs a = some ctor) (k : Str) (hk : k ∈ keys) (hc : k ∈ ctor) :
    k ∈ onlyKeepActionArgs keys a := by
  simp [onlyKeepActionArgs, h, List.mem_filter, hk, hc]

example : stockCtorArgs .storeTrue = some (["self", "option_strings", "dest", "default", "required",
    "help"].map S) := rfl
example : onlyKeepActionArgs [S "type", S "default", S "name", S "action"] .storeTrue
    = [S "default", S "action"] := by decide
example : onlyKeepActionArgs [S "type", S "name"] (.custom boolActionCtor) = [S "type", S "name"] := rfl

theorem mem_dedup (l : List Str) (x : Str) : x ∈ dedup l ↔ x ∈ l := by
  induction l with
  | nil => simp [dedup]
  | cons y ys ih =>
    simp only [dedup, List.mem_cons, List.mem_filter, ih]
    constructor
    · rintro (h | h)
      · exact Or.inl h
      · exact Or.inr h.1
    · rintro (h | h)
      · exact Or.inl h
      · by_cases hxy : x = y
        · exact Or.inl hxy
        · exact Or.inr ⟨h, by simpa using hxy⟩

instance : Inhabited (Param Nat) := ⟨{ name := [], kind := .posOrKw, ann := none, dflt := none }⟩

/-- D4 regression input: `@main def f(a: int = 1, flag: bool = False)` -/
def d4Sig : List (Param Nat) :=
  [ { name := S "a", kind := .posOrKw, ann := some .plain, dflt := some (.value 1 false) },
    { name := S "flag", kind := .posOrKw, ann := some .bool, dflt := some (.value 0 false) } ]

/-! #### what `add_argument` depends on: (type class, positional, kind of default, custom keys) -/

/-- the four kinds of `dataclasses.Field` default `get_arg_options` distinguishes -/
inductive DK | missing | litNone | value | factory
  deriving DecidableEq, Repr

def dkOf : FDefault V → DK
  | .missing => .missing
  | .value _ true => .litNone
  | .value _ false => .value
  | .factory _ => .factory

/-- a value-free representative of a field -/
def shapeField (ty : TyClass) (pos : Bool) (dk : DK) (custom : List Str) : Field Unit :=
  { name := [], ty := ty, positional := pos, custom := custom, help := [],
    default := match dk with
      | .missing => .missing
      | .litNone => .value () true
      | .value => .value () false
      | .factory => .factory () }

/-- `add_argument` never looks at the name, the help text or the default *value* -/
theorem addArgument_shape (f : Field V) :
    addArgument f = addArgument (shapeField f.ty f.positional (dkOf f.default) f.custom) := by
  obtain ⟨name, ty, default, positional, custom, help, mutable⟩ := f
  cases default with
  | missing => rfl
  | value v n => cases n <;> rfl
  | factory r => rfl

/-- every combination of type class, positional flag and kind of default is accepted by
    `add_argument`, with and without the `help` custom key (72 cases, decided) — since 302ccc9 also
    the positional `Optional[...]` / `= None` ones -/
theorem addArgument_shape_ok (ty : TyClass) (pos : Bool) (dk : DK) :
    addArgument (shapeField ty pos dk [S "help"]) = .ok ∧ addArgument (shapeField ty pos dk []) = .ok := by
  cases ty <;> cases pos <;> cases dk <;> decide

/-- **Set-up never fails (closed form).** Whatever the parameter — every type class (`bool`,
    `Optional`, dataclass, …), every kind (positional-only included), every default — the option /
    positional `main` synthesises for it is accepted by the parser. -/
theorem c20_addArgument_closed (p : Param V) : addArgument (mainField p) = .ok := by
  rw [addArgument_shape]
  have hc : (mainField p).custom = [S "help"] := rfl
  rw [hc]
  exact (addArgument_shape_ok _ _ _).1

theorem addArgument_plain_ok (p : Param V) : addArgument (plainField p) = .ok := by
  rw [addArgument_shape]
  have hc : (plainField p).custom = [] := rfl
  rw [hc]
  exact (addArgument_shape_ok _ _ _).2

/-- **The synthesised fields are the hand-written ones (item by item).** For a parameter whose
    default is not mutable, `main`'s field and the independently written field of the equivalent
    dataclass agree on name, type class, default (value / factory / missing) and `positional`. -/
theorem c20_fields_agree (p : Param V) (hm : p.mutableDefault = false) :
    (mainField p).name = (plainField p).name ∧ (mainField p).ty = (plainField p).ty ∧
    (mainField p).default = (plainField p).default ∧
    (mainField p).positional = (plainField p).positional := by
  obtain ⟨name, kind, ann, dflt, help, mu⟩ := p
  simp only at hm
  subst hm
  refine ⟨rfl, ?_, ?_, ?_⟩
  · cases ann <;> rfl
  · cases dflt with
    | none => rfl
    | some d => cases d <;> rfl
  · cases kind <;> rfl

/-- per parameter: the synthesised field and the hand-written one meet the same fate in
    `add_argument` — for every type class (including `bool`), kind and default -/
theorem addArgument_main_eq_plain (p : Param V) :
    addArgument (mainField p) = addArgument (plainField p) := by
  rw [c20_addArgument_closed, addArgument_plain_ok]

theorem setup_eq_all (l : List (Field V)) :
    setup l = if l.all (fun f => addArgument f == .ok) then .ok else .typeError := by
  induction l with
  | nil => rfl
  | cons f fs ih =>
    simp only [setup, List.all_cons]
    split <;> rename_i h <;> simp [h, ih]

theorem all_congr_mem {α} (l : List α) (f g : α → Bool) (h : ∀ a ∈ l, f a = g a) :
    l.all f = l.all g := by
  induction l with
  | nil => rfl
  | cons x xs ih =>
    simp only [List.all_cons, h x (by simp), ih (fun a ha => h a (by simp [ha]))]

theorem all_partition {α} (key P : α → Bool) (l : List α) :
    (l.filter (fun a => !key a) ++ l.filter key).all P = l.all P := by
  induction l with
  | nil => rfl
  | cons x xs ih =>
    rw [List.all_append] at ih
    cases hx : key x <;>
      simp only [List.filter, hx, Bool.not_false, Bool.not_true, List.all_append, List.all_cons, ← ih]
    · rw [Bool.and_assoc]
    · rw [Bool.and_left_comm]

/-- the named exclusion of finding C20-mutable-default -/
def NoMutableDefault (sig : List (Param V)) : Prop := ∀ p ∈ sig, p.mutableDefault = false

instance (sig : List (Param V)) : Decidable (NoMutableDefault sig) := by
  unfold NoMutableDefault; exact List.decidableBAll _ _

/-- **When set-up succeeds: always.** The parser for the synthesised class is built without error
    for every signature — any number of parameters, every type class including `bool`, every kind
    and default. -/
theorem c20_setup_ok (sig : List (Param V)) : setup (mainFields sig) = .ok := by
  rw [setup_eq_all]
  unfold mainFields
  rw [stableSort_eq_partition, all_partition, List.all_map]
  have : sig.all ((fun f => addArgument f == AddOutcome.ok) ∘ mainField) = true := by
    rw [List.all_eq_true]
    intro p _
    simp [Function.comp, c20_addArgument_closed p]
  rw [this]; rfl

theorem plain_setup_ok (sig : List (Param V)) : setup (plainFields sig) = .ok := by
  rw [setup_eq_all]
  unfold plainFields
  rw [stableSort_eq_partition, all_partition, List.all_map]
  have : sig.all ((fun f => addArgument f == AddOutcome.ok) ∘ plainField) = true := by
    rw [List.all_eq_true]
    intro p _
    simp [Function.comp, addArgument_plain_ok p]
  rw [this]; rfl

/-- **All supported types.** `main` adds no set-up failure of its own: for every signature the class
    it synthesises can be added to a parser exactly when the (independently written) equivalent
    dataclass can — both always can. -/
theorem c20_all_types (sig : List (Param V)) :
    setup (mainFields sig) = setup (plainFields sig) := by
  rw [c20_setup_ok, plain_setup_ok]

/-- regression (D4): `@main def f(a: int = 1, flag: bool = False)` sets up and is called with the
    parsed values; `name` no longer reaches `BooleanOptionalAction`, `help` does and is accepted -/
example : setup (mainFields d4Sig) = .ok := by decide
example : NoMutableDefault d4Sig := by decide
example : mainRun d4Sig (.ok [(S "a", 1), (S "flag", 0)]) 7 [] []
    = .call { args := [], kwargs := [(S "a", 1), (S "flag", 0)] } := by decide
example : S "name" ∉ (argOptionKeys (mainField (d4Sig.getD 1 default))).1 ∧
    S "help" ∈ (argOptionKeys (mainField (d4Sig.getD 1 default))).1 := by decide

/-! #### full statement, witnesses (open findings) and the partial theorem -/

/-- **Full statement.** A function decorated with `main` whose command line parses is called, with
    every parameter bound to its parsed value. -/
def FullMainCalls : Prop :=
  ∀ (sig : List (Param Nat)), ValidSig sig → ∀ (vals : List (Str × Nat)),
    (∀ p ∈ sig, (vals.lookup p.name).isSome) →
    ∃ c, mainRun sig (.ok vals) 0 [] [] = .call c ∧
      Callables.bind sig c.args c.kwargs = some (sig.map (fun p => (p.name, lookupD vals 0 p.name)))

/-- regression (302ccc9): `def f(o: Optional[int], /)` (also `= None`) -/
def posOptionalSig : List (Param Nat) :=
  [ { name := S "o", kind := .posOnly, ann := some .optional, dflt := none } ]

/-- finding C20-mutable-default: `def f(xs: List[int] = [1, 2])` -/
def mutableSig : List (Param Nat) :=
  [ { name := S "xs", kind := .posOrKw, ann := some .list, dflt := some (.value 12 false),
      mutableDefault := true } ]

/-- regression (5a62da3): `def f(flag: bool = False, /)` -/
def posBoolSig : List (Param Nat) :=
  [ { name := S "flag", kind := .posOnly, ann := some .bool, dflt := some (.value 0 false) } ]

/-- regressions for the repaired findings C20-posonly-optional and C20-posonly-bool: the parser is
    built and the parsed value is passed positionally -/
example : setup (mainFields posOptionalSig) = .ok ∧
    mainRun posOptionalSig (.ok [(S "o", 3)]) 0 [] [] = .call { args := [3], kwargs := [] } := by decide
example : S "required" ∉ (argOptionKeys (mainField (posOptionalSig.getD 0 default))).1 := by decide
example : setup (mainFields posBoolSig) = .ok ∧
    mainRun posBoolSig (.ok [(S "flag", 1)]) 0 [] [] = .call { args := [1], kwargs := [] } := by decide

theorem c20_mutable_default_witness :
    ValidSig mutableSig ∧ mainRun mutableSig (.ok [(S "xs", 12)]) 0 [] [] = .raise (S "ValueError") ∧
    setup (plainFields mutableSig) = .ok :=
  ⟨⟨by simp [mutableSig], by decide, by decide⟩, by decide, by decide⟩

/-- **Witness.** The full statement is false for the code as it is: a mutable signature default
    (open finding C20-mutable-default). -/
theorem c20_main_calls_witness : ¬ FullMainCalls := by
  intro h
  obtain ⟨c, hc, _⟩ := h mutableSig c20_mutable_default_witness.1 [(S "xs", 12)] (by decide)
  rw [c20_mutable_default_witness.2.1] at hc
  cases hc

theorem mainFields_not_mutable (sig : List (Param V)) (hm : NoMutableDefault sig) :
    (mainFields sig).any (·.mutable) = false := by
  rw [List.any_eq_false]
  intro f hf
  rw [mainFields_eq] at hf
  obtain ⟨p, hp, rfl⟩ := List.mem_map.mp hf
  have := hm p (mem_sortedSig.mp hp)
  simp [mainField, this]

/-- the whole run, **partial** (`NoMutableDefault`): a legal signature without a mutable default whose
    command line parses (every parameter has a parsed value) ends in exactly the call that binds
    every parameter to its parsed value -/
theorem c20_main_run (sig : List (Param V)) (hv : ValidSig sig) (d : V)
    (vals : List (Str × V)) (hm : NoMutableDefault sig)
    (hcov : ∀ p ∈ sig, ∃ v, vals.lookup p.name = some v) :
    ∃ c, mainRun sig (.ok vals) d [] [] = .call c ∧
      ∀ p ∈ sig, ∃ v, vals.lookup p.name = some v ∧
        (Callables.bind sig c.args c.kwargs).map (fun b => b.lookup p.name) = some (some v) := by
  have hmut := mainFields_not_mutable sig hm
  refine ⟨mainCall (mainFields sig) (lookupD vals d) [] [], ?_, ?_⟩
  · simp [mainRun, hmut, c20_setup_ok sig]
  · intro p hp
    obtain ⟨v, hv'⟩ := hcov p hp
    refine ⟨v, hv', ?_⟩
    rw [c20_main_args sig hv]
    simp only [Option.map_some]
    congr 1
    have : lookupD vals d p.name = v := by simp [lookupD, hv']
    rw [← this]
    exact lookup_map_some sig (lookupD vals d) p hp

example : NoMutableDefault exampleSig := by decide

/-- a rejected command line is rejected by `main` with the same status, and no call is made -/
theorem c20_main_rejects (sig : List (Param V)) (d : V) (code : Nat) (hm : NoMutableDefault sig) :
    mainRun sig (.exit code) d [] [] = .exit code := by
  simp [mainRun, mainFields_not_mutable sig hm, c20_setup_ok sig]

/-! ### the cache of `config_for` -/

theorem lookup_append_some {α β} [BEq α] (t e : List (α × β)) (k : α) (c : β)
    (h : t.lookup k = some c) : (t ++ e).lookup k = some c := by
  induction t with
  | nil => cases h
  | cons x xs ih =>
    obtain ⟨a, b⟩ := x
    simp only [List.cons_append, List.lookup_cons] at h ⊢
    cases hk : (k == a) <;> simp only [hk] at h ⊢
    · exact ih h
    · exact h

theorem lookup_append_new {α β} [BEq α] [LawfulBEq α] (t : List (α × β)) (k : α) (c : β)
    (h : t.lookup k = none) : (t ++ [(k, c)]).lookup k = some c := by
  induction t with
  | nil => simp
  | cons x xs ih =>
    obtain ⟨a, b⟩ := x
    simp only [List.cons_append, List.lookup_cons] at h ⊢
    cases hk : (k == a) <;> simp only [hk] at h ⊢
    · exact ih h
    · cases h

theorem cachedCall_stores (st : CacheState) (k : CacheKey) (hk : k.hashable = true) :
    (cachedCall st k).2.table.lookup k = some (cachedCall st k).1 := by
  unfold cachedCall
  simp only [hk, if_true]
  cases h : st.table.lookup k with
  | some c => simpa using h
  | none => simpa using lookup_append_new st.table k st.next h

theorem cachedCall_keeps (st : CacheState) (k k' : CacheKey) (c : Nat)
    (h : st.table.lookup k = some c) : (cachedCall st k').2.table.lookup k = some c := by
  unfold cachedCall
  cases hh : k'.hashable with
  | false => simpa using h
  | true =>
    simp only [if_true]
    cases hl : st.table.lookup k' with
    | some c' => simpa using h
    | none => simpa using lookup_append_some st.table _ k c h

theorem runCalls_keeps (ks : List CacheKey) (st : CacheState) (k : CacheKey) (c : Nat)
    (h : st.table.lookup k = some c) : (runCalls st ks).2.table.lookup k = some c := by
  induction ks generalizing st with
  | nil => simpa [runCalls] using h
  | cons k' ks ih =>
    simp only [runCalls]
    exact ih _ (cachedCall_keeps st k k' c h)

theorem cachedCall_hit (st : CacheState) (k : CacheKey) (c : Nat) (hk : k.hashable = true)
    (h : st.table.lookup k = some c) : (cachedCall st k).1 = c := by
  simp [cachedCall, hk, h]

/-- **Cache.** Once `config_for` has been called with hashable arguments, calling it again with the
    same arguments returns the *same class object*, whatever calls (any number — the cache is
    unbounded, `maxsize=None` —, any arguments, any other callables, hashable or not) happened in
    between: a lookup after any number of other insertions returns the first class. -/
theorem c20_cached (st : CacheState) (k : CacheKey) (hk : k.hashable = true) (ks : List CacheKey) :
    (cachedCall (runCalls (cachedCall st k).2 ks).2 k).1 = (cachedCall st k).1 :=
  cachedCall_hit _ k _ hk (runCalls_keeps ks _ k _ (cachedCall_stores st k hk))

/-- an unhashable argument (e.g. `ignore_args=[...]`) bypasses the cache: a fresh class each time -/
theorem c20_unhashable_fresh (st : CacheState) (k : CacheKey) (hk : k.hashable = false) :
    (cachedCall st k).1 = st.next ∧ (cachedCall st k).2.next = st.next + 1 := by
  simp [cachedCall, hk]

/-- the reading of "the same callable": `lru_cache` keys on the *spelling* of the call — the same
    callable asked for with `frozen=True`, with `ignore_args="b"` instead of `("b",)`, or with the
    `**defaults` in another order gets a different class object each (named exclusion: identity is
    claimed for identically written calls only) -/
theorem c20_cache_spelling_witness :
    (runCalls {} [ { target := 0, ignore := .absent, frozen := none, defaults := [] },
                   { target := 0, ignore := .absent, frozen := some true, defaults := [] },
                   { target := 0, ignore := .str (S "b"), frozen := none, defaults := [] },
                   { target := 0, ignore := .tuple [S "b"], frozen := none, defaults := [] },
                   { target := 0, ignore := .absent, frozen := none, defaults := [(S "b", S "3"), (S "c", S "1")] },
                   { target := 0, ignore := .absent, frozen := none, defaults := [(S "c", S "1"), (S "b", S "3")] } ]).1
      = [0, 1, 2, 3, 4, 5] := by decide

/-- **Typed keys.** Two hashable requests that differ in anything — the callable, the way
    `ignore_args` is written, `frozen`, the name, order or *typed value* of a `**defaults` entry —
    are different cache keys and get different class objects (since 4d0f313 `lru_cache(typed=True)`:
    `b=1`, `b=1.0` and `b=True` are three different values). -/
theorem c20_cache_typed (k1 k2 : CacheKey) (h1 : k1.hashable = true) (h2 : k2.hashable = true)
    (hne : k1 ≠ k2) : (runCalls {} [k1, k2]).1 = [0, 1] := by
  have hb : (k2 == k1) = false := by simpa using fun e : k2 = k1 => hne e.symm
  simp [runCalls, cachedCall, h1, h2, List.lookup_cons, hb]

/-- regression (4d0f313, finding C20-cache-untyped-key): `config_for(f, b=1)`, `b=True`, `b=1.0` -/
example : (runCalls {} [ { target := 0, ignore := .absent, frozen := none, defaults := [(S "b", S "1")] },
                         { target := 0, ignore := .absent, frozen := none, defaults := [(S "b", S "True")] },
                         { target := 0, ignore := .absent, frozen := none, defaults := [(S "b", S "1.0")] },
                         { target := 0, ignore := .absent, frozen := none, defaults := [(S "b", S "1")] } ]).1
    = [0, 1, 2, 0] := by decide

example : (runCalls {} [ { target := 0, ignore := .tuple [S "a"], frozen := none, defaults := [] },
                         { target := 0, ignore := .absent, frozen := none, defaults := [] },
                         { target := 0, ignore := .tuple [S "a"], frozen := none, defaults := [] },
                         { target := 0, ignore := .list [S "a"], frozen := none, defaults := [] },
                         { target := 0, ignore := .list [S "a"], frozen := none, defaults := [] } ]).1
    = [0, 1, 0, 2, 3] := by decide

/-! ### `Partial.__call__` -/

/-- the value the *last* occurrence of `n` in a keyword list carries (Python keyword dicts have
    unique keys; the model does not need that) -/
def lastLookup : List (Str × V) → Str → Option V
  | [], _ => none
  | (k, v) :: rest, n => match lastLookup rest n with
    | some w => some w
    | none => if n == k then some v else none

def orElse' (a b : Option V) : Option V := match a with
  | some x => some x
  | none => b

theorem lookup_append' (a b : List (Str × V)) (n : Str) :
    (a ++ b).lookup n = orElse' (a.lookup n) (b.lookup n) := by
  induction a with
  | nil => rfl
  | cons x xs ih =>
    obtain ⟨k, v⟩ := x
    simp only [List.cons_append, List.lookup_cons]
    cases (n == k) <;> simp [ih, orElse']

theorem lookup_none_of_any_false (d : List (Str × V)) (k : Str)
    (h : d.any (fun e => e.1 == k) = false) : d.lookup k = none := by
  induction d with
  | nil => rfl
  | cons x xs ih =>
    obtain ⟨a, b⟩ := x
    simp only [List.any_cons, Bool.or_eq_false_iff] at h
    have : (k == a) = false := by
      have := h.1; simp only [beq_eq_false_iff_ne, ne_eq] at this ⊢; exact fun e => this e.symm
    simp only [List.lookup_cons, this]
    exact ih h.2

theorem lookup_replace (d : List (Str × V)) (k : Str) (v : V) (n : Str) :
    (d.map (fun e => if e.1 == k then (e.1, v) else (e.1, e.2))).lookup n
      = if n == k then (if d.any (fun e => e.1 == k) then some v else none) else d.lookup n := by
  induction d with
  | nil => simp
  | cons x xs ih =>
    obtain ⟨a, b⟩ := x
    simp only [List.map_cons, List.any_cons]
    rw [show (if (a == k) = true then (a, v) else (a, b)) = (a, if a == k then v else b) by
      split <;> rfl]
    simp only [List.lookup_cons, ih]
    by_cases hna : n = a
    · subst hna
      by_cases hnk : n = k
      · subst hnk; simp
      · have : (n == k) = false := by simpa using hnk
        simp [this]
    · have h1 : (n == a) = false := by simpa using hna
      simp only [h1]
      by_cases hnk : n = k
      · subst hnk
        have : (a == n) = false := by simpa using fun e : a = n => hna e.symm
        simp only [this, Bool.false_or]
      · have : (n == k) = false := by simpa using hnk
        simp [this]

/-- one `dict.update` step -/
theorem lookup_update_step (d : List (Str × V)) (k : Str) (v : V) (n : Str) :
    (if d.any (fun e => e.1 == k) then d.map (fun e => if e.1 == k then (e.1, v) else (e.1, e.2))
     else d ++ [(k, v)]).lookup n = if n == k then some v else d.lookup n := by
  cases h : d.any (fun e => e.1 == k) with
  | true => rw [if_pos rfl, lookup_replace, h]; simp
  | false =>
    simp only [Bool.false_eq_true, if_false, lookup_append', List.lookup_cons, List.lookup_nil]
    by_cases hn : n = k
    · subst hn; simp [lookup_none_of_any_false d n h, orElse']
    · have : (n == k) = false := by simpa using hn
      simp only [this, Bool.false_eq_true, if_false]
      cases d.lookup n <;> rfl

theorem dictUpdate_cons (d : List (Str × V)) (k : Str) (v : V) (rest : List (Str × V)) :
    dictUpdate d ((k, v) :: rest) =
      dictUpdate (if d.any (fun e => e.1 == k) then
          d.map (fun e => if e.1 == k then (e.1, v) else (e.1, e.2)) else d ++ [(k, v)]) rest := by
  simp only [dictUpdate]
  split <;> rfl

/-- **Later kwargs win.** In the keyword dictionary `Partial.__call__` builds, a name carries the
    explicitly passed value if there is one, the parsed field value otherwise. -/
theorem c20_partial_kwargs_win (fv kw : List (Str × V)) (n : Str) :
    (dictUpdate fv kw).lookup n = orElse' (lastLookup kw n) (fv.lookup n) := by
  induction kw generalizing fv with
  | nil => rfl
  | cons e rest ih =>
    obtain ⟨k, v⟩ := e
    rw [dictUpdate_cons, ih, lookup_update_step]
    simp only [lastLookup]
    cases lastLookup rest n <;> cases (n == k) <;> simp [orElse']

theorem keys_dictUpdate (d kw : List (Str × V)) :
    ∀ e ∈ dictUpdate d kw, (∃ e' ∈ d, e'.1 = e.1) ∨ (∃ e' ∈ kw, e'.1 = e.1) := by
  induction kw generalizing d with
  | nil => intro e he; exact Or.inl ⟨e, he, rfl⟩
  | cons x rest ih =>
    obtain ⟨k, v⟩ := x
    intro e he
    rw [dictUpdate_cons] at he
    rcases ih _ e he with ⟨e', he', hk⟩ | ⟨e', he', hk⟩
    · split at he'
      · obtain ⟨e'', he'', rfl⟩ := List.mem_map.mp he'
        refine Or.inl ⟨e'', he'', ?_⟩
        rw [← hk]; split <;> rfl
      · rcases List.mem_append.mp he' with h | h
        · exact Or.inl ⟨e', h, hk⟩
        · simp only [List.mem_singleton] at h
          subst h
          exact Or.inr ⟨(k, v), by simp, hk⟩
    · exact Or.inr ⟨e', by simp [he'], hk⟩

/-! #### positional-only parameters are moved out of the keyword dictionary (8ca70f1) -/

theorem lookup_filter_ne (d : List (Str × V)) (k n : Str) (h : n ≠ k) :
    (d.filter (fun e => !(e.1 == k))).lookup n = d.lookup n := by
  induction d with
  | nil => rfl
  | cons x xs ih =>
    obtain ⟨a, b⟩ := x
    by_cases hak : a = k
    · subst hak
      have : (n == a) = false := by simpa using h
      simp [List.filter, List.lookup_cons, this, ih]
    · have hak' : (a == k) = false := by simpa using hak
      simp only [List.filter, hak', Bool.not_false, List.lookup_cons]
      cases (n == a) <;> simp [ih]

theorem lookup_filter_self (d : List (Str × V)) (k : Str) :
    (d.filter (fun e => !(e.1 == k))).lookup k = none := by
  induction d with
  | nil => rfl
  | cons x xs ih =>
    obtain ⟨a, b⟩ := x
    by_cases hak : a = k
    · subst hak; simp [List.filter, ih]
    · have hak' : (a == k) = false := by simpa using hak
      have hka : (k == a) = false := by simpa using fun e : k = a => hak e.symm
      simp [List.filter, hak', List.lookup_cons, hka, ih]

theorem lookup_ne_none_of_mem (d : List (Str × V)) (e : Str × V) (h : e ∈ d) : d.lookup e.1 ≠ none := by
  induction d with
  | nil => cases h
  | cons x xs ih =>
    obtain ⟨a, b⟩ := x
    simp only [List.lookup_cons]
    cases hk : (e.1 == a) with
    | true => simp
    | false =>
      rcases List.mem_cons.mp h with h | h
      · subst h; simp at hk
      · exact ih h

/-- what the loop of `Partial.__call__` does when every positional-only parameter has a value in the
    keyword dictionary: those values leave the dictionary, in signature order; nothing else changes -/
theorem movePositional_spec (w : Str → V) (sig : List (Param V)) (d : List (Str × V))
    (hn : sig.Pairwise (fun a b => a.name ≠ b.name)) (hpre : posOnlyPrefix sig = true)
    (hpos : ∀ p ∈ sig, p.isPosOnly = true → d.lookup p.name = some (w p.name)) :
    (movePositional sig 0 d).1 = (sig.filter (·.isPosOnly)).map (fun p => w p.name) ∧
    (∀ p ∈ sig, p.isPosOnly = true → (movePositional sig 0 d).2.lookup p.name = none) ∧
    (∀ n, (∀ p ∈ sig, p.isPosOnly = true → p.name ≠ n) → (movePositional sig 0 d).2.lookup n = d.lookup n) ∧
    (∀ e ∈ (movePositional sig 0 d).2, e ∈ d) := by
  induction sig generalizing d with
  | nil => exact ⟨rfl, fun _ h _ => (by cases h), fun _ _ => rfl, fun _ h => h⟩
  | cons p ps ih =>
    rw [List.pairwise_cons] at hn
    cases hp : p.isPosOnly with
    | true =>
      have hk : p.kind = .posOnly := by
        unfold Param.isPosOnly at hp; cases hkk : p.kind <;> simp_all
      have hpre' : posOnlyPrefix ps = true := by simpa [posOnlyPrefix, hp] using hpre
      have hl := hpos p (by simp) hp
      have hpos' : ∀ q ∈ ps, q.isPosOnly = true →
          (d.filter (fun e => !(e.1 == p.name))).lookup q.name = some (w q.name) := by
        intro q hq hqp
        rw [lookup_filter_ne _ _ _ (fun e => hn.1 q hq e.symm)]
        exact hpos q (by simp [hq]) hqp
      obtain ⟨i1, i2, i3, i4⟩ := ih (d.filter (fun e => !(e.1 == p.name))) hn.2 hpre' hpos'
      have hmv : movePositional (p :: ps) 0 d =
          (w p.name :: (movePositional ps 0 (d.filter (fun e => !(e.1 == p.name)))).1,
           (movePositional ps 0 (d.filter (fun e => !(e.1 == p.name)))).2) := by
        simp [movePositional, hk, hl]
      rw [hmv]
      refine ⟨by simp [List.filter, hp, i1], ?_, ?_, ?_⟩
      · intro q hq hqp
        rcases List.mem_cons.mp hq with rfl | hq'
        · rw [i3 q.name (fun r hr _ => fun e => hn.1 r hr e.symm)]
          exact lookup_filter_self d q.name
        · exact i2 q hq' hqp
      · intro n hne
        rw [i3 n (fun q hq hqp => hne q (by simp [hq]) hqp)]
        exact lookup_filter_ne d p.name n (fun e => hne p (by simp) hp e.symm)
      · intro e he
        exact (List.mem_filter.mp (i4 e he)).1
    | false =>
      have hall : ps.all (fun q => !q.isPosOnly) = true := by simpa [posOnlyPrefix, hp] using hpre
      have hnil : ps.filter (·.isPosOnly) = [] := by
        rw [List.filter_eq_nil_iff]; intro a ha
        have := (List.all_eq_true.mp hall) a ha; simpa using this
      have hk : (p.kind == Kind.posOnly) = false := hp
      have hmv : movePositional (p :: ps) 0 d = ([], d) := by simp [movePositional, hk]
      rw [hmv]
      refine ⟨by simp [List.filter, hp, hnil], ?_, fun _ _ => rfl, fun _ h => h⟩
      intro q hq hqp
      rcases List.mem_cons.mp hq with rfl | hq'
      · rw [hp] at hqp; cases hqp
      · have := (List.all_eq_true.mp hall) q hq'; simp [hqp] at this

/-- what a parameter ends up with when the parsed object is called: the explicit keyword if there
    is one, else the parsed field value, else (an ignored / skipped parameter) the callee's own
    default -/
def CallValue (fv kw : List (Str × V)) (p : Param V) (v : V) : Prop :=
  orElse' (lastLookup kw p.name) (fv.lookup p.name) = some v ∨
  (orElse' (lastLookup kw p.name) (fv.lookup p.name) = none ∧ p.defaultValue = some v)

/-- every positional-only parameter has a value among the fields / explicit keywords (the loop of
    `Partial.__call__` stops at the first one that has none — named exclusion) -/
def PosOnlySupplied (sig : List (Param V)) (fv kw : List (Str × V)) (w : Str → V) : Prop :=
  ∀ p ∈ sig, p.isPosOnly = true → orElse' (lastLookup kw p.name) (fv.lookup p.name) = some (w p.name)

/-- **Full statement.** Calling the parsed object invokes the target with exactly those values:
    whenever every keyword names a parameter and every parameter has a `CallValue`, the call binds
    every parameter to it. -/
def FullPartialCall : Prop :=
  ∀ (sig : List (Param Nat)) (fv kw : List (Str × Nat)) (w : Str → Nat),
    sig.Pairwise (fun a b => a.name ≠ b.name) → posOnlyPrefix sig = true →
    (∀ e ∈ fv, ∃ p ∈ sig, p.name = e.1) → (∀ e ∈ kw, ∃ p ∈ sig, p.name = e.1) →
    (∀ p ∈ sig, CallValue fv kw p (w p.name)) →
    Callables.bind sig (partialCall sig fv [] kw).args (partialCall sig fv [] kw).kwargs
      = some (sig.map (fun p => (p.name, w p.name)))

/-- regression (8ca70f1, finding C20-partial-posonly): `def f(a: int, /, b: int = 2)`, parsed `a=7` -/
def posOnlyTarget : List (Param Nat) :=
  [ { name := S "a", kind := .posOnly, ann := some .plain, dflt := none },
    { name := S "b", kind := .posOrKw, ann := some .plain, dflt := some (.value 2 false) } ]

example : partialCall posOnlyTarget [(S "a", 7), (S "b", 2)] [] []
    = { args := [7], kwargs := [(S "b", 2)] } := by decide
example : Callables.bind posOnlyTarget (partialCall posOnlyTarget [(S "a", 7), (S "b", 2)] [] []).args
      (partialCall posOnlyTarget [(S "a", (7 : Nat)), (S "b", 2)] [] []).kwargs
    = some [(S "a", 7), (S "b", 2)] := by decide

/-- the residual corner: `def f(a=1, b=2, /)` with `a` ignored (no value) and `b` a field: the loop
    stops at `a`, `b` stays a keyword, CPython rejects it -/
def posOnlyGapTarget : List (Param Nat) :=
  [ { name := S "a", kind := .posOnly, ann := some .plain, dflt := some (.value 1 false) },
    { name := S "b", kind := .posOnly, ann := some .plain, dflt := some (.value 2 false) } ]

theorem c20_partial_posonly_gap_witness :
    Callables.bind posOnlyGapTarget (partialCall posOnlyGapTarget [(S "b", 7)] [] []).args
      (partialCall posOnlyGapTarget [(S "b", (7 : Nat))] [] []).kwargs = none := by decide

theorem c20_partial_call_full_witness : ¬ FullPartialCall := by
  intro h
  have := h posOnlyGapTarget [(S "b", 7)] [] (fun n => if n = S "a" then 1 else 7)
    (by simp [posOnlyGapTarget, S]) (by decide)
    (by intro e he; simp only [List.mem_cons, List.not_mem_nil, or_false] at he
        subst he
        exact ⟨{ name := S "b", kind := .posOnly, ann := some .plain, dflt := some (.value 2 false) },
            by simp [posOnlyGapTarget], rfl⟩)
    (by intro e he; cases he)
    (by intro p hp; simp only [posOnlyGapTarget, List.mem_cons, List.not_mem_nil, or_false] at hp
        rcases hp with rfl | rfl
        · exact Or.inr (by decide)
        · exact Or.inl (by decide))
  rw [c20_partial_posonly_gap_witness] at this
  cases this

/-- **Calling the parsed object (partial: `PosOnlySupplied`).** For any legal target — positional-only
    parameters included —: if every keyword names a parameter, every positional-only parameter has
    a value and every other parameter has a `CallValue` (the explicit keyword, else the parsed field,
    else its own default), the target is invoked with exactly those values: positional-only ones
    positionally in signature order, the rest by keyword; whatever the number of parameters. -/
theorem c20_partial_call (sig : List (Param V)) (fv kw : List (Str × V)) (w : Str → V)
    (hn : sig.Pairwise (fun a b => a.name ≠ b.name)) (hpre : posOnlyPrefix sig = true)
    (hfv : ∀ e ∈ fv, ∃ p ∈ sig, p.name = e.1) (hkw : ∀ e ∈ kw, ∃ p ∈ sig, p.name = e.1)
    (hpos : PosOnlySupplied sig fv kw w)
    (hcover : ∀ p ∈ sig, CallValue fv kw p (w p.name)) :
    Callables.bind sig (partialCall sig fv [] kw).args (partialCall sig fv [] kw).kwargs
      = some (sig.map (fun p => (p.name, w p.name))) := by
  have hpos' : ∀ p ∈ sig, p.isPosOnly = true → (dictUpdate fv kw).lookup p.name = some (w p.name) := by
    intro p hp hpo; rw [c20_partial_kwargs_win]; exact hpos p hp hpo
  obtain ⟨s1, s2, s3, s4⟩ := movePositional_spec w sig (dictUpdate fv kw) hn hpre hpos'
  have hargs : (partialCall sig fv ([] : List V) kw).args
      = (sig.filter (·.isPosOnly)).map (fun p => w p.name) := by
    simp [partialCall, s1]
  have hkws : (partialCall sig fv ([] : List V) kw).kwargs = (movePositional sig 0 (dictUpdate fv kw)).2 := by
    simp [partialCall]
  rw [hargs, hkws]
  have hallowed : kwAllowed sig (movePositional sig 0 (dictUpdate fv kw)).2 = true := by
    unfold kwAllowed
    rw [List.all_eq_true]
    intro e he
    have hed := s4 e he
    have : ∃ p ∈ sig, p.name = e.1 := by
      rcases keys_dictUpdate fv kw e hed with ⟨e', he', hk⟩ | ⟨e', he', hk⟩
      · obtain ⟨p, hp, hn'⟩ := hfv e' he'; exact ⟨p, hp, hn'.trans hk⟩
      · obtain ⟨p, hp, hn'⟩ := hkw e' he'; exact ⟨p, hp, hn'.trans hk⟩
    obtain ⟨p, hp, hpn⟩ := this
    simp only [List.any_eq_true]
    refine ⟨p, hp, ?_⟩
    have hnp : p.isPosOnly = false := by
      cases hpo : p.isPosOnly with
      | false => rfl
      | true =>
        have h0 := s2 p hp hpo
        rw [hpn] at h0
        exact absurd h0 (lookup_ne_none_of_mem _ e he)
    unfold Param.isPosOnly at hnp
    simp [hpn, hnp]
  unfold Callables.bind
  rw [hallowed]
  simp only [if_true]
  apply bindGo_routed w _ sig hpre
  · exact s2
  · intro p hp hpo
    rw [s3 p.name (fun q hq hqp e => by
      have := names_injective hn hq hp e; subst this; rw [hpo] at hqp; cases hqp)]
    rw [c20_partial_kwargs_win]
    exact hcover p hp

/-- non-vacuity: `def tgt(z, /, a, b=2, *, c, d=4)`, fields `z=5, b=7` (parsed), explicit
    `a=1, c=3, b=9`; `d` is an ignored parameter and keeps its own default -/
def partialTarget : List (Param Nat) :=
  [ { name := S "z", kind := .posOnly, ann := none, dflt := none },
    { name := S "a", kind := .posOrKw, ann := none, dflt := none },
    { name := S "b", kind := .posOrKw, ann := none, dflt := some (.value 2 false) },
    { name := S "c", kind := .kwOnly, ann := none, dflt := none },
    { name := S "d", kind := .kwOnly, ann := none, dflt := some (.value 4 false) } ]

example : posOnlyPrefix partialTarget = true := by decide
example : Callables.bind partialTarget
      (partialCall partialTarget [(S "z", 5), (S "b", 7)] [] [(S "a", 1), (S "c", 3), (S "b", 9)]).args
      (partialCall partialTarget [(S "z", 5), (S "b", 7)] [] [(S "a", 1), (S "c", 3), (S "b", 9)]).kwargs
    = some [(S "z", 5), (S "a", 1), (S "b", 9), (S "c", 3), (S "d", 4)] := by decide
example : CallValue [(S "b", (7 : Nat))] [(S "a", 1), (S "c", 3), (S "b", 9)]
    { name := S "d", kind := .kwOnly, ann := none, dflt := some (.value 4 false) } 4 :=
  Or.inr (by decide)

/-! ### `config_for`: one field per non-ignored, typed parameter -/

/-- the field a parameter contributes, if any: ignored parameters and parameters with neither an
    annotation (own or class-level) nor a default contribute none -/
def candidate (classAnn ignore : List Str) (ov : List (Str × V × Shape)) (p : CParam V) :
    Option (CField V) :=
  if ignore.contains p.name then none
  else if p.annotated || classAnn.contains p.name then
    some { name := p.name, default := (effDefault ov p).map (·.1),
           mutable := match effDefault ov p with | some (_, sh) => mutableShape sh | none => false }
  else match effDefault ov p with
    | some (v, sh) => some { name := p.name, default := some v, mutable := mutableShape sh }
    | none => none

/-- no untyped parameter has a default whose type cannot be inferred (else NotImplementedError) -/
def Inferable (classAnn ignore : List Str) (ov : List (Str × V × Shape)) (sig : List (CParam V)) : Prop :=
  ∀ p ∈ sig, ignore.contains p.name = false → p.annotated = false → classAnn.contains p.name = false →
    ∀ v sh, effDefault ov p = some (v, sh) → inferable sh = true

theorem configLoop_exact (classAnn ignore : List Str) (ov : List (Str × V × Shape))
    (ps : List (CParam V)) (acc : List (CField V)) (hinf : Inferable classAnn ignore ov ps) :
    ∃ fs, configLoop classAnn ignore ov ps acc = .ok fs ∧
      fs = ((ps.filterMap (candidate classAnn ignore ov)).filter (·.default.isNone)).reverse ++ acc
          ++ (ps.filterMap (candidate classAnn ignore ov)).filter (·.default.isSome) := by
  induction ps generalizing acc with
  | nil => exact ⟨acc, rfl, by simp⟩
  | cons p ps ih =>
    have hinf' : Inferable classAnn ignore ov ps := fun q hq => hinf q (by simp [hq])
    have hp := hinf p (by simp)
    simp only [configLoop, List.filterMap_cons]
    cases hig : ignore.contains p.name with
    | true =>
      simp only [candidate, hig, if_true]
      exact ih acc hinf'
    | false =>
      simp only [Bool.false_eq_true, if_false]
      cases hty : (p.annotated || classAnn.contains p.name) with
      | true =>
        have htyped : typedOf classAnn p (effDefault ov p) = .yes := by
          unfold typedOf
          cases ha : p.annotated
          · have : classAnn.contains p.name = true := by rw [ha, Bool.false_or] at hty; exact hty
            simp only [Bool.false_eq_true, if_false, this, if_true]
          · simp
        simp only [htyped, candidate, hig, hty, Bool.false_eq_true, if_false, if_true]
        cases he : effDefault ov p with
        | none =>
          obtain ⟨fs, h1, h2⟩ := ih ({ name := p.name, default := none } :: acc) hinf'
          exact ⟨fs, h1, by simp [h2]⟩
        | some d =>
          obtain ⟨v, sh⟩ := d
          obtain ⟨fs, h1, h2⟩ := ih (acc ++ [{ name := p.name, default := some v, mutable := mutableShape sh }]) hinf'
          exact ⟨fs, h1, by simp [h2]⟩
      | false =>
        have ha : p.annotated = false := (Bool.or_eq_false_iff.mp hty).1
        have hc : classAnn.contains p.name = false := (Bool.or_eq_false_iff.mp hty).2
        cases he : effDefault ov p with
        | none =>
          have htyped : typedOf classAnn p (none : Option (V × Shape)) = .skip := by
            simp only [typedOf, ha, hc, Bool.false_eq_true, if_false]
          simp only [htyped, candidate, hig, hty, he, Bool.false_eq_true, if_false]
          exact ih acc hinf'
        | some d =>
          obtain ⟨v, sh⟩ := d
          have hi := hp hig ha hc v sh he
          have htyped : typedOf classAnn p (some (v, sh)) = .yes := by
            simp only [typedOf, ha, hc, hi, Bool.false_eq_true, if_false, if_true]
          simp only [htyped, candidate, hig, hty, he, Bool.false_eq_true, if_false]
          obtain ⟨fs, h1, h2⟩ := ih (acc ++ [{ name := p.name, default := some v, mutable := mutableShape sh }]) hinf'
          exact ⟨fs, h1, by simp [h2]⟩

/-- the list handed to `make_dataclass`, exactly: the required candidates in reverse signature
    order (the code inserts them at the front), then the optional candidates in signature order -/
theorem configFields_exact (classAnn ignore : List Str) (ov : List (Str × V × Shape))
    (sig : List (CParam V)) (hinf : Inferable classAnn ignore ov sig) :
    configFields classAnn ignore ov sig = .ok
      (((sig.filterMap (candidate classAnn ignore ov)).filter (·.default.isNone)).reverse
        ++ (sig.filterMap (candidate classAnn ignore ov)).filter (·.default.isSome)) := by
  obtain ⟨fs, h1, h2⟩ := configLoop_exact classAnn ignore ov sig [] hinf
  unfold configFields
  rw [h1, h2]; simp

/-- no field candidate has a default of an unhashable class (named exclusion of finding
    C20-mutable-default on the `config_for` side) -/
def NoMutableCfg (classAnn ignore : List Str) (ov : List (Str × V × Shape)) (sig : List (CParam V)) : Prop :=
  ∀ p ∈ sig, ∀ f, candidate classAnn ignore ov p = some f → f.mutable = false

theorem configFor_ok_iff (classAnn ignore : List Str) (ov : List (Str × V × Shape))
    (sig : List (CParam V)) (fs : List (CField V)) :
    configFor classAnn ignore ov sig = .ok fs ↔
      (configFields classAnn ignore ov sig = .ok fs ∧ fs.any (·.mutable) = false) := by
  unfold configFor
  cases h : configFields classAnn ignore ov sig with
  | ok fs' =>
    cases hm : fs'.any (·.mutable) with
    | true =>
      simp only [hm, if_true]
      constructor
      · intro e; cases e
      · rintro ⟨e, hf⟩; injection e with e; subst e; rw [hm] at hf; cases hf
    | false =>
      simp only [hm, Bool.false_eq_true, if_false]
      constructor
      · intro e; injection e with e; subst e; exact ⟨rfl, hm⟩
      · rintro ⟨e, _⟩; exact e
  | notImplemented => simp
  | mutableDefault => simp
  | docError o => simp

/-- **Exact shape of the derived class (partial: `Inferable`, `NoMutableCfg`).** `config_for`
    succeeds and its fields are: the required candidates in reverse signature order, then the
    optional candidates in signature order. -/
theorem c20_config_fields (classAnn ignore : List Str) (ov : List (Str × V × Shape))
    (sig : List (CParam V)) (hinf : Inferable classAnn ignore ov sig)
    (hnm : NoMutableCfg classAnn ignore ov sig) :
    configFor classAnn ignore ov sig = .ok
      (((sig.filterMap (candidate classAnn ignore ov)).filter (·.default.isNone)).reverse
        ++ (sig.filterMap (candidate classAnn ignore ov)).filter (·.default.isSome)) := by
  rw [configFor_ok_iff]
  refine ⟨configFields_exact classAnn ignore ov sig hinf, ?_⟩
  rw [List.any_eq_false]
  intro f hf
  have hf' : f ∈ sig.filterMap (candidate classAnn ignore ov) := by
    simp only [List.mem_append, List.mem_reverse, List.mem_filter] at hf
    rcases hf with h | h <;> exact h.1
  obtain ⟨p, hp, hc⟩ := List.mem_filterMap.mp hf'
  simp [hnm p hp f hc]

/-- **One option per non-ignored parameter, with the signature's default.** Whenever `config_for`
    returns a class: its fields are exactly the candidates (same number, same members); each carries
    the override / signature default of a non-ignored parameter of that name, and no ignored
    parameter yields a field. -/
theorem c20_config_options (classAnn ignore : List Str) (ov : List (Str × V × Shape))
    (sig : List (CParam V)) (fs : List (CField V))
    (h : configFor classAnn ignore ov sig = .ok fs) (hinf : Inferable classAnn ignore ov sig) :
    fs.length = (sig.filterMap (candidate classAnn ignore ov)).length ∧
    (∀ f, f ∈ fs ↔ f ∈ sig.filterMap (candidate classAnn ignore ov)) ∧
    (∀ f ∈ fs, ∃ p ∈ sig, f.name = p.name ∧ ignore.contains p.name = false ∧
        f.default = (effDefault ov p).map (·.1)) := by
  have h := ((configFor_ok_iff classAnn ignore ov sig fs).mp h).1
  rw [configFields_exact classAnn ignore ov sig hinf] at h
  injection h with h
  subst h
  have hmem : ∀ f, f ∈ ((sig.filterMap (candidate classAnn ignore ov)).filter (·.default.isNone)).reverse
        ++ (sig.filterMap (candidate classAnn ignore ov)).filter (·.default.isSome)
      ↔ f ∈ sig.filterMap (candidate classAnn ignore ov) := by
    intro f
    simp only [List.mem_append, List.mem_reverse, List.mem_filter]
    constructor
    · rintro (h | h) <;> exact h.1
    · intro h; cases hd : f.default <;> simp [h]
  refine ⟨?_, hmem, ?_⟩
  · generalize sig.filterMap (candidate classAnn ignore ov) = L
    induction L with
    | nil => rfl
    | cons x xs ih =>
      simp only [List.length_append, List.length_reverse, List.length_cons] at ih ⊢
      cases hx : x.default <;> simp [List.filter, hx] <;> omega
  · intro f hf
    obtain ⟨p, hp, hc⟩ := List.mem_filterMap.mp ((hmem f).mp hf)
    refine ⟨p, hp, ?_⟩
    unfold candidate at hc
    cases hig : ignore.contains p.name with
    | true => rw [hig, if_pos rfl] at hc; cases hc
    | false =>
      simp only [hig, Bool.false_eq_true, if_false] at hc
      split at hc
      · injection hc with hc; subst hc; exact ⟨rfl, rfl, rfl⟩
      · split at hc
        · rename_i v sh he
          injection hc with hc; subst hc; exact ⟨rfl, rfl, by simp [he]⟩
        · cases hc

/-- **Derive, parse, call (composition).** For a legal callable whose config class `config_for`
    derives (fields `fs`): whatever values the parse puts into the fields, calling the parsed object
    with explicit keywords `kw` binds every parameter to its `CallValue` — the field keys are
    parameter names by `c20_config_options`, so only the keywords, the positional-only supply and the
    coverage of the non-field (ignored / skipped) parameters remain as hypotheses. -/
theorem c20_config_then_call (sig : List (Param V)) (csig : List (CParam V))
    (hsame : csig.map (·.name) = sig.map (·.name))
    (classAnn ignore : List Str) (ov : List (Str × V × Shape)) (fs : List (CField V))
    (h : configFor classAnn ignore ov csig = .ok fs) (hinf : Inferable classAnn ignore ov csig)
    (hn : sig.Pairwise (fun a b => a.name ≠ b.name)) (hpre : posOnlyPrefix sig = true)
    (vals : Str → V) (kw : List (Str × V)) (w : Str → V)
    (hkw : ∀ e ∈ kw, ∃ p ∈ sig, p.name = e.1)
    (hpos : PosOnlySupplied sig (fs.map (fun f => (f.name, vals f.name))) kw w)
    (hcover : ∀ p ∈ sig, CallValue (fs.map (fun f => (f.name, vals f.name))) kw p (w p.name)) :
    Callables.bind sig (partialCall sig (fs.map (fun f => (f.name, vals f.name))) [] kw).args
        (partialCall sig (fs.map (fun f => (f.name, vals f.name))) [] kw).kwargs
      = some (sig.map (fun p => (p.name, w p.name))) := by
  apply c20_partial_call sig _ kw w hn hpre _ hkw hpos hcover
  intro e he
  obtain ⟨f, hf, rfl⟩ := List.mem_map.mp he
  obtain ⟨cp, hcp, hnm, _⟩ := (c20_config_options classAnn ignore ov csig fs h hinf).2.2 f hf
  have : cp.name ∈ sig.map (·.name) := by rw [← hsame]; exact List.mem_map.mpr ⟨cp, hcp, rfl⟩
  obtain ⟨p, hp, hpn⟩ := List.mem_map.mp this
  exact ⟨p, hp, by simp [hpn, hnm]⟩

/-! #### full statement and witnesses for `config_for` -/

/-- **Full statement.** `config_for` derives a class with one field per parameter of the callable. -/
def ConfigFull : Prop :=
  ∀ sig : List (CParam Nat), ∃ fs, configFor [] [] [] sig = .ok fs ∧ fs.map (·.name) = sig.map (·.name)

/-- `def f(a: int, b=None)`: the type of `b` cannot be inferred → NotImplementedError for the whole
    callable (partial.py:221) -/
theorem c20_config_none_default_witness :
    configFor [] [] [] ([ { name := S "a", annotated := true, dflt := none },
      { name := S "b", annotated := false, dflt := some (0, .other) } ] : List (CParam Nat))
      = .notImplemented := by rfl

/-- finding C20-mutable-default: `def f(xs=[1, 2])` / `def f(xs: List[int] = [1, 2])` → ValueError
    from `make_dataclass` although the type is inferable / annotated -/
theorem c20_config_mutable_witness :
    configFor [] [] [] ([ { name := S "xs", annotated := false, dflt := some (12, .list [.int, .int]) } ]
      : List (CParam Nat)) = .mutableDefault ∧
    configFor [] [] [] ([ { name := S "xs", annotated := true, dflt := some (12, .list [.int, .int]) } ]
      : List (CParam Nat)) = .mutableDefault ∧
    inferable (.list [.int, .int]) = true := ⟨by rfl, by rfl, by rfl⟩

/-- `def f(a, b: int = 1)`: the untyped parameter without default is dropped (with a warning) -/
theorem c20_config_untyped_dropped :
    configFor [] [] [] ([ { name := S "a", annotated := false, dflt := none },
      { name := S "b", annotated := true, dflt := some (1, .int) } ] : List (CParam Nat))
      = .ok [ { name := S "b", default := some 1 } ] := by rfl

theorem c20_config_full_witness : ¬ ConfigFull := by
  intro h
  obtain ⟨fs, hfs, _⟩ := h [ { name := S "a", annotated := true, dflt := none },
      { name := S "b", annotated := false, dflt := some (0, .other) } ]
  rw [c20_config_none_default_witness] at hfs
  cases hfs

/-- non-vacuity: `def tgt(a, b: int, c=2.5, *, d="s", e: str)` with `ignore_args="d"`, override
    `c=9`: `a` is skipped (no type), `d` ignored; required `e`, `b` come first (reversed). -/
def cfgSig : List (CParam Nat) :=
  [ { name := S "a", annotated := false, dflt := none },
    { name := S "b", annotated := true, dflt := none },
    { name := S "c", annotated := false, dflt := some (25, .float) },
    { name := S "d", annotated := false, dflt := some (5, .str) },
    { name := S "e", annotated := true, dflt := none } ]

example : Inferable [] [S "d"] [(S "c", 9, .int)] cfgSig := by
  intro p hp hig ha _ v sh he
  simp only [cfgSig, List.mem_cons, List.not_mem_nil, or_false] at hp
  rcases hp with rfl | rfl | rfl | rfl | rfl
  · have h0 : effDefault [(S "c", (9 : Nat), Shape.int)]
        ({ name := S "a", annotated := false, dflt := none } : CParam Nat) = none := by rfl
    rw [h0] at he; cases he
  · cases ha
  · have h0 : effDefault [(S "c", (9 : Nat), Shape.int)]
        ({ name := S "c", annotated := false, dflt := some (25, .float) } : CParam Nat)
        = some (9, .int) := by rfl
    rw [h0] at he; cases he; rfl
  · exact absurd hig (by decide)
  · cases ha

example : configFor [] [S "d"] [(S "c", 9, .int)] cfgSig = .ok
    [ { name := S "e", default := none }, { name := S "b", default := none },
      { name := S "c", default := some 9 } ] := by rfl

/-! ### docstring `Args:` entries -/

/-- **Only the first colon separates.** An entry line `key: description` is split at its first
    colon, so the description may itself contain any number of colons (ratios, URLs, "one of: …"). -/
theorem c20_doc_entry_colons (k d : Str) (hk : ':' ∉ k) :
    splitFirstColon (k ++ ':' :: d) = some (k, d) := by
  induction k with
  | nil => simp [splitFirstColon]
  | cons c cs ih =>
    have hc : c ≠ ':' := fun e => hk (by simp [e])
    have hcs : ':' ∉ cs := fun h => hk (by simp [h])
    simp [splitFirstColon, hc, ih hcs]

/-- a line without any colon is the only way an entry line is rejected -/
theorem c20_doc_entry_rejected (s : Str) : splitFirstColon s = none ↔ ':' ∉ s := by
  induction s with
  | nil => simp [splitFirstColon]
  | cons c cs ih =>
    by_cases hc : c = ':'
    · simp [splitFirstColon, hc]
    · have hc' : ¬ (':' = c) := fun e => hc e.symm
      cases h : splitFirstColon cs with
      | none => simp [splitFirstColon, hc, hc', h, ih.mp h]
      | some p =>
        have : ¬ (':' ∉ cs) := fun hn => by rw [ih.mpr hn] at h; cases h
        have this := Decidable.not_not.mp this
        simp [splitFirstColon, hc, h, this]

/-- one documented description for a parameter ⇒ that description is its help text; the
    `__init__` docstring takes precedence over the class docstring -/
theorem c20_help_unique_init (initE classE : List (Str × Str)) (name h : Str)
    (hu : helpEntries initE name = [h]) : pickHelp initE classE name = some h := by
  simp [pickHelp, hu]

theorem c20_help_unique_class (initE classE : List (Str × Str)) (name h : Str)
    (hi : helpEntries initE name = []) (hu : helpEntries classE name = [h]) :
    pickHelp initE classE name = some h := by
  simp [pickHelp, hi, hu]

/-- **No other parameter's text.** A help candidate for `name` is always the description of an
    entry whose key's first word is exactly `name` (`name: …` or `name (type): …`) — since f3cc715
    the text of a longer-named parameter (`beta` for `b`) can no longer leak. -/
theorem c20_help_exact (es : List (Str × Str)) (name h : Str) (hh : h ∈ helpEntries es name) :
    ∃ e ∈ es, firstWord e.1 = some name ∧ e.2 = h := by
  unfold helpEntries at hh
  rw [mem_dedup] at hh
  obtain ⟨e, he, rfl⟩ := List.mem_map.mp hh
  obtain ⟨hm, hf⟩ := List.mem_filter.mp he
  exact ⟨e, hm, by simpa using hf, rfl⟩

/-- … hence a parameter without an entry of its own gets the empty help -/
theorem c20_help_undocumented (initE classE : List (Str × Str)) (name : Str)
    (hi : ∀ e ∈ initE, firstWord e.1 ≠ some name) (hc : ∀ e ∈ classE, firstWord e.1 ≠ some name) :
    pickHelp initE classE name = some [] := by
  have h1 : helpEntries initE name = [] := by
    cases h : helpEntries initE name with
    | nil => rfl
    | cons x xs =>
      obtain ⟨e, he, hf, _⟩ := c20_help_exact initE name x (by rw [h]; simp)
      exact absurd hf (hi e he)
  have h2 : helpEntries classE name = [] := by
    cases h : helpEntries classE name with
    | nil => rfl
    | cons x xs =>
      obtain ⟨e, he, hf, _⟩ := c20_help_exact classE name x (by rw [h]; simp)
      exact absurd hf (hc e he)
  simp [pickHelp, h1, h2]

/-- regression (f3cc715, finding C20-help-prefix-match): an undocumented `b` no longer takes the text
    of `beta`; with both documented `b` gets its own text, deterministically; `b (int)` counts -/
example : pickHelp [] [(S "beta", S "the beta text")] (S "b") = some [] := by decide
example : pickHelp [] [(S "b", S "the b text"), (S "beta", S "the beta text")] (S "b")
    = some (S "the b text") := by decide
example : pickHelp [] [(S "b (int)", S "typed"), (S "beta", S "other")] (S "b") = some (S "typed") := by decide

example : parseArgsDoc "R.\n\n Args:\n     s: 1:2\n         or 3:4\n     m (str): one of: a, b\n\n Returns:\n     d: x\n ".toList
    = .ok [(S "s", S "1:2 or 3:4"), (S "m (str)", S "one of: a, b")] := by
  rfl
example : pickHelp [] [(S "scale", S "a ratio like 1:2"), (S "mode (str)", S "one of: a, b")] (S "mode")
    = some (S "one of: a, b") := by decide
example : parseArgsDoc "Args:\n    no separator".toList = .valueError := by decide

end SpVerif.C20
