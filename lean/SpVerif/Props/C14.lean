/-
  C14 — loading through a base class recovers the right subclass or exactly the base.
  Theorems about `SpVerif.Model.Subclass` (mirrors serializable.py `from_dict` / `to_dict` / `__init_subclass__`).

  Structure: (A) the stable sort; (B) the choice "sorted by number of init fields, first superset" for an arbitrary
  candidate list — the unbounded quantifiers (any hierarchy, any iteration order π of the subclass set, hence any
  definition order) are closed here by a cardinality argument; (C) the same statements for `fromDict` on instances;
  (D) `save_dc_types`; (E) regression examples of the repaired finding, and the open finding D16: full statement,
  witness, named exclusion; (R) the class table (`resolve`, `descendants`, flag inheritance) and the identified clause
  restated over it; (E3) the repaired finding `C14-frozen-noninit-setattr` (now a theorem), (E4) the open finding `C14-nested-drop-forwarding`.
-/
import Batteries.Data.List.Perm
import SpVerif.Model.Subclass
namespace SpVerif.C14
open SpVerif SpVerif.Sub List

/-! ### (A) `list.sort(key=…)` -/

theorem insertByKey_perm (key : α → Nat) (x : α) (l : List α) : (insertByKey key x l).Perm (x :: l) := by
  induction l with
  | nil => exact Perm.refl _
  | cons y ys ih =>
    simp only [insertByKey]
    split
    · exact Perm.refl _
    · exact (Perm.cons y ih).trans (Perm.swap x y ys)

theorem sortByKey_perm (key : α → Nat) (l : List α) : (sortByKey key l).Perm l := by
  induction l with
  | nil => exact Perm.refl _
  | cons x xs ih => exact (insertByKey_perm key x _).trans (Perm.cons x ih)

theorem insertByKey_sorted (key : α → Nat) (x : α) (l : List α)
    (h : l.Pairwise (fun a b => key a ≤ key b)) : (insertByKey key x l).Pairwise (fun a b => key a ≤ key b) := by
  induction l with
  | nil => simp [insertByKey]
  | cons y ys ih =>
    simp only [insertByKey]
    have hy := (pairwise_cons.mp h)
    split
    · rename_i hxy
      refine pairwise_cons.mpr ⟨?_, h⟩
      intro b hb
      rcases mem_cons.mp hb with rfl | hb
      · exact hxy
      · exact Nat.le_trans hxy (hy.1 b hb)
    · rename_i hxy
      refine pairwise_cons.mpr ⟨?_, ih hy.2⟩
      intro b hb
      have := (insertByKey_perm key x ys).subset hb
      rcases mem_cons.mp this with rfl | hb
      · omega
      · exact hy.1 b hb

/-- the candidates end up in ascending order of their number of init fields -/
theorem sortByKey_sorted (key : α → Nat) (l : List α) :
    (sortByKey key l).Pairwise (fun a b => key a ≤ key b) := by
  induction l with
  | nil => simp [sortByKey]
  | cons x xs ih => exact insertByKey_sorted key x _ ih

/-- in a list sorted by `key`, the first element satisfying `p` has the least key among those satisfying `p` -/
theorem find_first_le (key : α → Nat) (p : α → Bool) (l : List α)
    (hs : l.Pairwise (fun a b => key a ≤ key b)) (c d : α) (hc : l.find? p = some c) (hd : d ∈ l) (hpd : p d = true) :
    key c ≤ key d := by
  induction l with
  | nil => cases hd
  | cons a t ih =>
    have ha := pairwise_cons.mp hs
    by_cases hpa : p a = true
    · simp only [find?_cons, hpa] at hc
      cases hc
      rcases mem_cons.mp hd with rfl | hd
      · exact Nat.le_refl _
      · exact ha.1 d hd
    · have hpa' : p a = false := by simpa using hpa
      simp only [find?_cons, hpa'] at hc
      rcases mem_cons.mp hd with rfl | hd
      · exact absurd hpd hpa
      · exact ih ha.2 hc hd

/-! ### (B) the choice, for any candidate list -/

/-- serializable.py:880-893 over an abstract "field names of a class" function (all fields, `init=False` included;
    the sort key is the number of fields) -/
def pick (flds : α → List Str) (cands : List α) (req : List Str) : Option α :=
  (sortByKey (fun c => (flds c).length) cands).find? (fun c => req.all (fun k => (flds c).contains k))

theorem pickSubclass_eq (R : List RCls) (cands : List Nat) (req : List Str) :
    pickSubclass R cands req = pick (fieldNames R) cands req := rfl

/-- a candidate "has every required key" -/
def Covers (flds : α → List Str) (c : α) (req : List Str) : Prop := ∀ k ∈ req, k ∈ flds c

theorem covers_iff (flds : α → List Str) (c : α) (req : List Str) :
    (req.all (fun k => (flds c).contains k)) = true ↔ Covers flds c req := by
  simp [Covers, List.all_eq_true]

/-- **Superset clause.** Whatever the order of the candidates, a chosen class is one of the candidates and has every
    required (serialized) key among its init fields. -/
theorem c14_superset (flds : α → List Str) (cands : List α) (req : List Str) (c : α)
    (h : pick flds cands req = some c) : c ∈ cands ∧ Covers flds c req := by
  unfold pick at h
  have hm := mem_of_find?_eq_some h
  have hp := find?_some h
  exact ⟨(sortByKey_perm _ cands).subset hm, (covers_iff flds c req).mp hp⟩

/-- … and some class is chosen as soon as one candidate qualifies (the derived class itself always does). -/
theorem c14_superset_exists (flds : α → List Str) (cands : List α) (req : List Str) (d : α)
    (hd : d ∈ cands) (hcov : Covers flds d req) : ∃ c, pick flds cands req = some c := by
  unfold pick
  cases h : (sortByKey (fun c => (flds c).length) cands).find? (fun c => req.all (fun k => (flds c).contains k)) with
  | some c => exact ⟨c, rfl⟩
  | none =>
    have := find?_eq_none.mp h d ((sortByKey_perm _ cands).symm.subset hd)
    exact absurd ((covers_iff flds d req).mpr hcov) this

/-- no candidate qualifies ⇒ nothing is chosen (the code then fails with `RuntimeError`) -/
theorem pick_none (flds : α → List Str) (cands : List α) (req : List Str)
    (h : ∀ c ∈ cands, ¬ Covers flds c req) : pick flds cands req = none := by
  unfold pick
  refine find?_eq_none.mpr ?_
  intro c hc hp
  exact h c ((sortByKey_perm _ cands).subset hc) ((covers_iff flds c req).mp hp)

/-- the field set of `d` identifies it among the candidates -/
def Identifies (flds : α → List Str) (cands : List α) (d : α) : Prop :=
  ∀ c ∈ cands, (∀ k, k ∈ flds c ↔ k ∈ flds d) → c = d

/-- cardinality argument: a duplicate-free list contained in a list that is not longer has the same elements -/
theorem subset_of_card_le (a b : List Str) (hn : a.Nodup) (hab : a ⊆ b) (hl : b.length ≤ a.length) : b ⊆ a :=
  ((subperm_of_subset hn hab).perm_of_length_le hl).symm.subset

/-- **Superset clause, sharpened.**  Whatever class is chosen — identified or not, whatever the order — has EXACTLY the
    field-name set of `d` (cardinality argument: it sorts no later than `d` and contains `d`'s fields). -/
theorem pick_same_set (flds : α → List Str) (cands : List α) (req : List Str) (d c : α)
    (hd : d ∈ cands) (hnd : (flds d).Nodup)
    (hsub : Covers flds d req) (hfull : ∀ c ∈ cands, Covers flds c req → flds d ⊆ flds c)
    (hc : pick flds cands req = some c) : flds d ⊆ flds c ∧ flds c ⊆ flds d := by
  have ⟨hcm, hcc⟩ := c14_superset flds cands req c hc
  have hle : (flds c).length ≤ (flds d).length := by
    unfold pick at hc
    exact find_first_le (fun c => (flds c).length) _ _ (sortByKey_sorted _ cands) c d hc
      ((sortByKey_perm _ cands).symm.subset hd) ((covers_iff flds d req).mpr hsub)
  have hdc : flds d ⊆ flds c := hfull c hcm hcc
  exact ⟨hdc, subset_of_card_le _ _ hnd hdc hle⟩

/-- **Central theorem (identified clause).**  If `d` has every required key, every candidate having the required keys
    has all of `d`'s fields (the required keys are `d`'s serialized keys minus fields every candidate inherits), and no
    other candidate has the same field set, the choice is `d` — for EVERY order `cands` of the candidate set (the iteration
    order of `all_subclasses`, i.e. every definition order / process history) and any number of classes. -/
theorem c14_identified_pick (flds : α → List Str) (cands : List α) (req : List Str) (d : α)
    (hd : d ∈ cands) (hnd : (flds d).Nodup)
    (hsub : Covers flds d req) (hfull : ∀ c ∈ cands, Covers flds c req → flds d ⊆ flds c)
    (huniq : Identifies flds cands d) : pick flds cands req = some d := by
  obtain ⟨c, hc⟩ := c14_superset_exists flds cands req d hd hsub
  have ⟨hdc, hcd⟩ := pick_same_set flds cands req d c hd hnd hsub hfull hc
  have : c = d := huniq c (c14_superset flds cands req c hc).1 (fun k => ⟨fun h => hcd h, fun h => hdc h⟩)
  rw [hc, this]

/-- **Order freedom.** In the identified case the chosen class does not depend on the iteration order of the
    subclass set (nor, therefore, on the order in which the classes were defined). -/
theorem c14_order_free (flds : α → List Str) (cands₁ cands₂ : List α) (req : List Str) (d : α)
    (hperm : cands₁.Perm cands₂) (hd : d ∈ cands₁) (hnd : (flds d).Nodup)
    (hsub : Covers flds d req) (hfull : ∀ c ∈ cands₁, Covers flds c req → flds d ⊆ flds c)
    (huniq : Identifies flds cands₁ d) :
    pick flds cands₁ req = pick flds cands₂ req := by
  rw [c14_identified_pick flds cands₁ req d hd hnd hsub hfull huniq]
  have huniq₂ : Identifies flds cands₂ d := fun c hc => huniq c (hperm.symm.subset hc)
  have hfull₂ : ∀ c ∈ cands₂, Covers flds c req → flds d ⊆ flds c := fun c hc => hfull c (hperm.symm.subset hc)
  rw [c14_identified_pick flds cands₂ req d (hperm.subset hd) hnd hsub hfull₂ huniq₂]

/-- the full statement "the choice never depends on the iteration order" is FALSE without identification:
    two siblings with the same field set are told apart only by the set order -/
def OrderNeverMatters : Prop :=
  ∀ (flds : Nat → List Str) (c₁ c₂ : List Nat) (req : List Str), c₁.Perm c₂ → pick flds c₁ req = pick flds c₂ req

theorem c14_order_matters_witness : ¬ OrderNeverMatters := by
  intro h
  have := h (fun _ => ["x".toList]) [1, 2] [2, 1] ["x".toList] (Perm.swap 2 1 [])
  simp [pick, sortByKey, insertByKey] at this

/-! non-vacuity of (B): three candidates, nested / overlapping field sets, `d = 2` identified -/
example : pick (fun c => match c with | 1 => ["a".toList] | 2 => ["a".toList, "x".toList] | _ => ["a".toList, "x".toList, "y".toList])
    [3, 2, 1] ["x".toList, "a".toList] = some 2 := by decide
example : Identifies (fun c => match c with | 1 => ["a".toList] | 2 => ["a".toList, "x".toList] | _ => ["a".toList, "x".toList, "y".toList])
    [3, 2, 1] 2 := by
  intro c hc h
  simp only [mem_cons, not_mem_nil, or_false] at hc
  rcases hc with rfl | rfl | rfl
  · have := (h "y".toList).mp (by simp); simp at this
  · rfl
  · have := (h "x".toList).mpr (by simp); simp at this

/-! ### (C) `from_dict` on flat instances -/

def fInt (n : String) (init : Bool := true) : Field := ⟨n.toList, init, .prim, some (.int 0)⟩

def mkCls (n : String) (parent : Option Nat) (dis : Option Bool) (own : List Field) (frozen : Bool := false)
    (mixin : Bool := false) : Cls :=
  { name := n.toList, parent := parent, dis := dis, own := own, frozen := frozen, mixin := mixin }

/-- the field values of an instance whose fields are all `int`: `x` gives the value of each field name -/
def valOf (x : Str → Int) (F : List Field) : List (Str × Val) := F.map (fun f => (f.name, Val.int (x f.name)))

/-- what `to_dict` writes for them -/
def rawOf (x : Str → Int) (F : List Field) : List (Str × J) := F.map (fun f => (f.name, J.int (x f.name)))

theorem encKV_valOf (R : List RCls) (save : Bool) (x : Str → Int) (F : List Field) :
    encKV R save (valOf x F) = rawOf x F := by
  induction F with
  | nil => simp [valOf, rawOf, encKV]
  | cons f fs ih =>
    simp only [valOf, rawOf, map_cons, encKV, encV] at ih ⊢
    rw [ih]

/-- a serialized key is found with the value of that name (whichever class declared the field) -/
theorem lookup_rawOf_name (x : Str → Int) (F : List Field) (k : Str) (hk : k ∈ F.map (·.name)) :
    lookupKey k (rawOf x F) = some (J.int (x k)) := by
  induction F with
  | nil => cases hk
  | cons g gs ih =>
    simp only [rawOf, map_cons, lookupKey]
    by_cases hg : g.name = k
    · simp [hg]
    · simp only [hg, if_false]
      simp only [map_cons, mem_cons] at hk
      rcases hk with hk | hk
      · exact absurd hk.symm hg
      · exact ih hk

theorem lookup_rawOf (x : Str → Int) (F : List Field) (f : Field) (hf : f ∈ F) :
    lookupKey f.name (rawOf x F) = some (J.int (x f.name)) :=
  lookup_rawOf_name x F f.name (mem_map.mpr ⟨f, hf, rfl⟩)

theorem lookup_rawOf_none (x : Str → Int) (F : List Field) (k : Str) (hk : k ∉ F.map (·.name)) :
    lookupKey k (rawOf x F) = none := by
  induction F with
  | nil => rfl
  | cons g gs ih =>
    simp only [map_cons, mem_cons, not_or] at hk
    simp only [rawOf, map_cons, lookupKey]
    rw [if_neg (fun h => hk.1 h.symm)]
    exact ih hk.2

theorem lookup_valOf (x : Str → Int) (F : List Field) (f : Field) (hf : f ∈ F) :
    lookupKey f.name (valOf x F) = some (Val.int (x f.name)) := by
  induction F with
  | nil => cases hf
  | cons g gs ih =>
    simp only [valOf, map_cons, lookupKey]
    by_cases hg : g.name = f.name
    · simp [hg]
    · simp only [hg, if_false]
      rcases mem_cons.mp hf with rfl | hf
      · exact absurd rfl hg
      · exact ih hf

/-- the field loop on `int` fields that are all present: every one is decoded to itself -/
theorem decodeFields_prim (load : Nat → J → Option Bool → Out) (dropE : Bool) (kv : List (Str × J))
    (x : Str → Int) (F : List Field) (hp : ∀ f ∈ F, f.ty = .prim)
    (hk : ∀ f ∈ F, lookupKey f.name kv = some (J.int (x f.name))) :
    decodeFields load dropE kv F = .ok (valOf x F) := by
  induction F with
  | nil => rfl
  | cons f fs ih =>
    have h1 := hk f (by simp)
    have h2 := hp f (by simp)
    have ih' := ih (fun g hg => hp g (by simp [hg])) (fun g hg => hk g (by simp [hg]))
    simp only [decodeFields, h1, h2, decodeField, ih', valOf, map_cons]

/-- the constructor call when every field has an argument -/
theorem construct_all (x : Str → Int) (F : List Field) (args : List (Str × Val))
    (hk : ∀ f ∈ F, lookupKey f.name args = some (Val.int (x f.name))) :
    construct F args = .ok (valOf x F) := by
  induction F with
  | nil => rfl
  | cons f fs ih =>
    have h1 := hk f (by simp)
    have ih' := ih (fun g hg => hk g (by simp [hg]))
    simp only [construct, h1, ih', valOf, map_cons]

theorem rawOf_keys (x : Str → Int) (F : List Field) : (rawOf x F).map (·.1) = F.map (·.name) := by
  simp [rawOf]

/-- **A dict whose keys are all fields of `c` and that has every field of `c` is loaded as exactly `c`** — with any
    `drop_extra_fields`, any subclasses, any order: no key is left over, so the subclass search is never entered
    (serializable.py:860) and the constructor gets every argument (never `RuntimeError`). -/
theorem load_exact (R : List RCls) (π : Nat → List Nat) (fuel : Nat) (c : Nat) (rc : RCls) (kv : List (Str × J))
    (x : Str → Int) (drop : Option Bool)
    (hc : R[c]? = some rc) (hty : lookupKey typeKey kv = none)
    (hp : ∀ f ∈ rc.fields, f.ty = .prim)
    (hk : ∀ f ∈ rc.fields, lookupKey f.name kv = some (J.int (x f.name)))
    (hno : ∀ k ∈ kv.map (·.1), k ∈ rc.fields.map (·.name)) :
    fromDict R π (fuel + 1) c (.obj kv) drop = .ok (.inst c (valOf x rc.fields)) := by
  simp only [fromDict, hty, hc]
  rw [decodeFields_prim _ _ kv x rc.fields hp hk]
  have hno' : (kv.map (·.1)).filter (fun k => !(rc.fields.map (·.name)).contains k) = [] := by
    apply filter_eq_nil_iff.mpr; intro k hk'; simpa using hno k hk'
  simp only [hno', isEmpty_nil, Bool.true_or, if_true]
  rw [construct_all x rc.fields _ (fun f hf => lookup_valOf x rc.fields f hf)]

/-- **Drop clause.** With `drop_extra_fields` in effect (given as `True`, or `None` on a class that does not decode
    into subclasses) and no `_type_` key, the result is EXACTLY the base class, its own fields kept, every unknown
    key dropped — whatever the unknown keys are and whatever subclasses exist. -/
theorem c14_drop (R : List RCls) (π : Nat → List Nat) (fuel : Nat) (b : Nat) (rb : RCls) (kv : List (Str × J))
    (x : Str → Int) (drop : Option Bool)
    (hb : R[b]? = some rb)
    (hdrop : drop.getD (if rb.mixin then false else !rb.dis) = true)
    (hty : lookupKey typeKey kv = none) (hp : ∀ f ∈ rb.fields, f.ty = .prim)
    (hk : ∀ f ∈ rb.fields, lookupKey f.name kv = some (J.int (x f.name))) :
    fromDict R π (fuel + 1) b (.obj kv) drop = .ok (.inst b (valOf x rb.fields)) := by
  simp only [fromDict, hty, hb, hdrop]
  rw [decodeFields_prim _ true kv x rb.fields hp hk]
  simp only [Bool.or_true, if_true]
  rw [construct_all x rb.fields _ (fun f hf => lookup_valOf x rb.fields f hf)]

example : fromDict (resolve [mkCls "B" none (some false) [fInt "a"]]) (fun _ => []) 1 0
    (.obj [("a".toList, .int 5), ("zz".toList, .int 7)]) none = .ok (.inst 0 [("a".toList, .int 5)]) := by rfl

/-- the hypotheses under which an instance of a derived class `D` is loaded through its base `b` (flat, `int` fields).
    `names`: children extend parents — the field NAMES of the base are a prefix of those of the derived class (a child
    may redeclare an inherited field; its position is kept, see `inheritFields`); `extn` are the names `D` adds. -/
structure Derived (R : List RCls) (b D : Nat) (rb rD : RCls) (extn : List Str) : Prop where
  hb : R[b]? = some rb
  hD : R[D]? = some rD
  names : rD.fields.map (·.name) = rb.fields.map (·.name) ++ extn
  primB : ∀ f ∈ rb.fields, f.ty = .prim
  prim : ∀ f ∈ rD.fields, f.ty = .prim
  nodup : (rD.fields.map (·.name)).Nodup
  noTypeKey : typeKey ∉ rD.fields.map (·.name)

theorem initNames_eq (R : List RCls) (c : Nat) (rc : RCls) (h : R[c]? = some rc) :
    initNames R c = (rc.fields.filter (·.init)).map (·.name) := by
  simp [initNames, h]

theorem fieldNames_eq (R : List RCls) (c : Nat) (rc : RCls) (h : R[c]? = some rc) :
    fieldNames R c = rc.fields.map (·.name) := by
  simp [fieldNames, h]

/-- the keys the candidate must have (serializable.py:880) when a `D` instance is loaded through `b`: the keys that are
    not fields of `b`, and those of `b`'s INIT fields (the `init=False` fields of `b` are consumed and not required) -/
def reqOf (R : List RCls) (b : Nat) (rb : RCls) (extn : List Str) (x : Str → Int) : List Str :=
  extn ++ ((valOf x rb.fields).map (·.1)).filter (fun k => (initNames R b).contains k)

/-- every candidate has the fields of the class it derives from (children extend parents) -/
def ExtendBase (R : List RCls) (cands : List Nat) (b : Nat) : Prop :=
  ∀ c ∈ cands, ∀ k ∈ fieldNames R b, k ∈ fieldNames R c

/-- `D` itself has every required key — whether its extra fields are init fields or not -/
theorem req_covered (R : List RCls) (b D : Nat) (rb rD : RCls) (extn : List Str) (x : Str → Int)
    (h : Derived R b D rb rD extn) : Covers (fieldNames R) D (reqOf R b rb extn x) := by
  intro k hk
  rw [fieldNames_eq R D rD h.hD, h.names]
  rcases mem_append.mp hk with hk | hk
  · exact mem_append_right _ hk
  · have hk1 := (mem_filter.mp hk).1
    simp only [valOf, map_map] at hk1
    obtain ⟨f, hf, rfl⟩ := mem_map.mp hk1
    exact mem_append_left _ (mem_map.mpr ⟨f, hf, rfl⟩)

/-- a subclass of `b` that has the required keys has every field of `D`, i.e. every serialized key -/
theorem req_covers (R : List RCls) (b D : Nat) (rb rD : RCls) (extn : List Str) (x : Str → Int)
    (h : Derived R b D rb rD extn) (c : Nat) (hcb : ∀ k ∈ fieldNames R b, k ∈ fieldNames R c)
    (hc : Covers (fieldNames R) c (reqOf R b rb extn x)) : fieldNames R D ⊆ fieldNames R c := by
  intro k hk
  rw [fieldNames_eq R D rD h.hD, h.names] at hk
  rcases mem_append.mp hk with hk | hk
  · exact hcb k (by rw [fieldNames_eq R b rb h.hb]; exact hk)
  · exact hc k (mem_append_left _ hk)

/-- the first call (through the base) of `b.from_dict(to_dict(d))`: the base's own fields are consumed, the added
    keys are left over, and the choice among `π b` decides -/
theorem keep_step (R : List RCls) (π : Nat → List Nat) (fuel : Nat) (b D : Nat) (rb rD : RCls)
    (extn : List Str) (x : Str → Int) (drop : Option Bool)
    (h : Derived R b D rb rD extn) (hkeep : drop.getD (if rb.mixin then false else !rb.dis) = false) (hext : extn ≠ []) :
    fromDict R π (fuel + 2) b (.obj (rawOf x rD.fields)) drop =
      match pickSubclass R ((π b).filter (fun c => c ≠ b)) (reqOf R b rb extn x) with
      | some child => fromDict R π (fuel + 1) child (.obj (rawOf x rD.fields)) (some false)
      | none => .raise "RuntimeError".toList := by
  obtain ⟨hb, hD, hnames, hpb, hprim, hnd, hnt⟩ := h
  have hnd' := hnd
  rw [hnames] at hnd'
  have hdisj : ∀ k ∈ extn, k ∉ rb.fields.map (·.name) := fun k hk hk' =>
    (nodup_append.mp hnd').2.2 k hk' k hk rfl
  have hty : lookupKey typeKey (rawOf x rD.fields) = none := lookup_rawOf_none x _ _ hnt
  have hkb : ∀ f ∈ rb.fields, lookupKey f.name (rawOf x rD.fields) = some (J.int (x f.name)) :=
    fun f hf => lookup_rawOf_name x _ f.name (by rw [hnames]; exact mem_append_left _ (mem_map.mpr ⟨f, hf, rfl⟩))
  rw [show fuel + 2 = (fuel + 1) + 1 from rfl, fromDict]
  simp only [hty, hb, hkeep]
  rw [decodeFields_prim _ false _ x rb.fields hpb hkb]
  simp only [rawOf_keys, Bool.or_false]
  have hextras : (rD.fields.map (·.name)).filter (fun k => !(rb.fields.map (·.name)).contains k) = extn := by
    rw [hnames, filter_append]
    have h1 : (rb.fields.map (·.name)).filter (fun k => !(rb.fields.map (·.name)).contains k) = [] := by
      apply filter_eq_nil_iff.mpr; intro k hk; simp [hk]
    have h2 : extn.filter (fun k => !(rb.fields.map (·.name)).contains k) = extn := by
      apply filter_eq_self.mpr; intro k hk; simpa using hdisj k hk
    rw [h1, h2, nil_append]
  rw [hextras]
  have hne : extn.isEmpty = false := by
    cases extn with
    | nil => exact absurd rfl hext
    | cons e es => rfl
  simp only [hne, Bool.false_eq_true, if_false, reqOf]
  rfl

theorem enc_flat (R : List RCls) (D : Nat) (x : Str → Int) (F : List Field) :
    encV R false (.inst D (valOf x F)) = .obj (rawOf x F) := by
  simp [encV, encKV_valOf]

/-- the second call: the dict of a `D` instance loaded as a class `c` with the same field-name set -/
theorem load_same_set (R : List RCls) (π : Nat → List Nat) (fuel : Nat) (D c : Nat) (rD rc : RCls) (x : Str → Int)
    (drop : Option Bool) (hD : R[D]? = some rD) (hnt : typeKey ∉ rD.fields.map (·.name))
    (hc : R[c]? = some rc) (hp : ∀ f ∈ rc.fields, f.ty = .prim)
    (hDc : fieldNames R D ⊆ fieldNames R c) (hcD : fieldNames R c ⊆ fieldNames R D) :
    fromDict R π (fuel + 1) c (.obj (rawOf x rD.fields)) drop = .ok (.inst c (valOf x rc.fields)) := by
  rw [fieldNames_eq R D rD hD, fieldNames_eq R c rc hc] at hDc hcD
  exact load_exact R π fuel c rc _ x drop hc (lookup_rawOf_none x _ _ hnt) hp
    (fun f hf => lookup_rawOf_name x _ f.name (hcD (mem_map.mpr ⟨f, hf, rfl⟩)))
    (fun k hk => hDc (by rw [rawOf_keys] at hk; exact hk))

/-- **Superset clause, end to end.**  Without identification, `b.from_dict(to_dict(d))` (subclass decoding in effect)
    RETURNS an instance — never `RuntimeError` — of a strict subclass `c` of the candidate set whose field-name set is
    EXACTLY that of `D` (so it has every serialized field), with every serialized value kept; for every order `π b`. -/
theorem c14_superset_result (R : List RCls) (π : Nat → List Nat) (fuel : Nat) (b D : Nat) (rb rD : RCls)
    (extn : List Str) (x : Str → Int) (drop : Option Bool)
    (h : Derived R b D rb rD extn) (hkeep : drop.getD (if rb.mixin then false else !rb.dis) = false) (hext : extn ≠ [])
    (hsubcls : ExtendBase R (π b) b) (hDπ : D ∈ π b) (hDb : D ≠ b) :
    ∃ c, c ∈ π b ∧ c ≠ b ∧ fieldNames R D ⊆ fieldNames R c ∧ fieldNames R c ⊆ fieldNames R D ∧
      ∀ rc, R[c]? = some rc → (∀ f ∈ rc.fields, f.ty = .prim) →
        fromDict R π (fuel + 2) b (encV R false (.inst D (valOf x rD.fields))) drop
          = .ok (.inst c (valOf x rc.fields)) := by
  have hDc : D ∈ (π b).filter (fun c => c ≠ b) := mem_filter.mpr ⟨hDπ, by simpa using hDb⟩
  have hndI : (fieldNames R D).Nodup := by rw [fieldNames_eq R D rD h.hD]; exact h.nodup
  have hfull : ∀ c ∈ (π b).filter (fun c => c ≠ b), Covers (fieldNames R) c (reqOf R b rb extn x) →
      fieldNames R D ⊆ fieldNames R c := fun c hc hcov =>
    req_covers R b D rb rD extn x h c (hsubcls c (mem_filter.mp hc).1) hcov
  obtain ⟨c, hc⟩ := c14_superset_exists (fieldNames R) _ (reqOf R b rb extn x) D hDc (req_covered R b D rb rD extn x h)
  have hcm' := mem_filter.mp (c14_superset (fieldNames R) _ _ c hc).1
  have ⟨h1, h2⟩ := pick_same_set (fieldNames R) _ _ D c hDc hndI (req_covered R b D rb rD extn x h) hfull hc
  refine ⟨c, hcm'.1, by simpa using hcm'.2, h1, h2, ?_⟩
  intro rc hrc hp
  rw [enc_flat, keep_step R π fuel b D rb rD extn x drop h hkeep hext, pickSubclass_eq, hc]
  exact load_same_set R π fuel D c rD rc x (some false) h.hD h.noTypeKey hrc hp h1 h2

/-- **Identified clause, end to end (full strength).**  `b.from_dict(to_dict(d), drop)` with subclass decoding in effect,
    `d` an instance of a derived class `D` — its extra fields init fields or not — returns `d` itself (class `D`, same
    values) whenever no other subclass of `b` has `D`'s field set; for every iteration order `π b` of the subclass set,
    i.e. every definition order / process history, and any number of classes. -/
theorem c14_identified (R : List RCls) (π : Nat → List Nat) (fuel : Nat) (b D : Nat) (rb rD : RCls)
    (extn : List Str) (x : Str → Int) (drop : Option Bool)
    (h : Derived R b D rb rD extn)
    (hkeep : drop.getD (if rb.mixin then false else !rb.dis) = false)
    (hext : extn ≠ [])
    (hsubcls : ExtendBase R (π b) b) (hDπ : D ∈ π b) (hDb : D ≠ b)
    (huniq : Identifies (fieldNames R) ((π b).filter (fun c => c ≠ b)) D) :
    fromDict R π (fuel + 2) b (encV R false (.inst D (valOf x rD.fields))) drop = .ok (.inst D (valOf x rD.fields)) := by
  have hDc : D ∈ (π b).filter (fun c => c ≠ b) := mem_filter.mpr ⟨hDπ, by simpa using hDb⟩
  have hndI : (fieldNames R D).Nodup := by rw [fieldNames_eq R D rD h.hD]; exact h.nodup
  have hfull : ∀ c ∈ (π b).filter (fun c => c ≠ b), Covers (fieldNames R) c (reqOf R b rb extn x) →
      fieldNames R D ⊆ fieldNames R c := fun c hc hcov =>
    req_covers R b D rb rD extn x h c (hsubcls c (mem_filter.mp hc).1) hcov
  rw [enc_flat, keep_step R π fuel b D rb rD extn x drop h hkeep hext, pickSubclass_eq,
    c14_identified_pick (fieldNames R) _ _ D hDc hndI (req_covered R b D rb rD extn x h) hfull huniq]
  exact load_same_set R π fuel D D rD rD x (some false) h.hD h.noTypeKey h.hD h.prim
    (fun _ hk => hk) (fun _ hk => hk)

/-- **Order freedom, end to end**: two iteration orders of the subclass set (two process histories) give the same
    loaded instance in the identified case. -/
theorem c14_order_free_load (R : List RCls) (π₁ π₂ : Nat → List Nat) (fuel : Nat) (b D : Nat) (rb rD : RCls)
    (extn : List Str) (x : Str → Int) (drop : Option Bool)
    (h : Derived R b D rb rD extn) (hkeep : drop.getD (if rb.mixin then false else !rb.dis) = false) (hext : extn ≠ [])
    (hperm : (π₁ b).Perm (π₂ b)) (hsubcls : ExtendBase R (π₁ b) b) (hDπ : D ∈ π₁ b) (hDb : D ≠ b)
    (huniq : Identifies (fieldNames R) ((π₁ b).filter (fun c => c ≠ b)) D) :
    fromDict R π₁ (fuel + 2) b (encV R false (.inst D (valOf x rD.fields))) drop
      = fromDict R π₂ (fuel + 2) b (encV R false (.inst D (valOf x rD.fields))) drop := by
  rw [c14_identified R π₁ fuel b D rb rD extn x drop h hkeep hext hsubcls hDπ hDb huniq]
  have huniq₂ : Identifies (fieldNames R) ((π₂ b).filter (fun c => c ≠ b)) D := fun c hc =>
    huniq c (mem_filter.mpr ⟨hperm.symm.subset (mem_filter.mp hc).1, (mem_filter.mp hc).2⟩)
  have hsubcls₂ : ExtendBase R (π₂ b) b := fun c hc => hsubcls c (hperm.symm.subset hc)
  rw [c14_identified R π₂ fuel b D rb rD extn x drop h hkeep hext hsubcls₂ (hperm.subset hDπ) hDb huniq₂]

/-- **A derived class that adds no field** (its field names are its base's; also the load of an instance through its own
    class, `D = b`): whatever `drop_extra_fields`, the flags and the subclasses, the result is the class loaded
    through, with every value — the only class the serialized keys can tell. -/
theorem c14_same_fields (R : List RCls) (π : Nat → List Nat) (fuel : Nat) (b D : Nat) (rb rD : RCls)
    (x : Str → Int) (drop : Option Bool) (h : Derived R b D rb rD []) :
    fromDict R π (fuel + 1) b (encV R false (.inst D (valOf x rD.fields))) drop = .ok (.inst b (valOf x rb.fields)) := by
  have hn : rD.fields.map (·.name) = rb.fields.map (·.name) := by simpa using h.names
  rw [enc_flat]
  exact load_exact R π fuel b rb _ x drop h.hb (lookup_rawOf_none x _ _ h.noTypeKey) h.primB
    (fun f hf => lookup_rawOf_name x _ f.name (by rw [hn]; exact mem_map.mpr ⟨f, hf, rfl⟩))
    (fun k hk => by rw [rawOf_keys, hn] at hk; exact hk)

/-! #### the hierarchy used by the examples and witnesses
    `B0(a)` ; `D1(B0)(x)` ; `D2(B0)(x, y)` ; `D3(B0)(n: init=False)` ; `Box(l: List[B0], f: B0, o: Optional[B0])` ;
    `D5(B0)(x, m: init=False)` (same INIT fields as `D1`, one more field) -/

def exH (dis : Bool) : List Cls :=
  [ mkCls "B0" none (some dis) [fInt "a"],
    mkCls "D1" (some 0) none [fInt "x"],
    mkCls "D2" (some 0) none [fInt "x", fInt "y"],
    mkCls "D3" (some 0) none [fInt "n" false],
    mkCls "Box" none none [⟨"l".toList, true, .list 0, some (.list [])⟩, ⟨"f".toList, true, .dc 0, some .none⟩,
                           ⟨"o".toList, true, .opt 0, some .none⟩],
    mkCls "D5" (some 0) none [fInt "x", fInt "m" false] ]

def exR (dis : Bool) : List RCls := resolve (exH dis)

/-- the hypotheses of `c14_identified` are satisfiable: `D1` through `B0`, candidates in the order `[5, 3, 2, 1]` -/
example : Derived (exR true) 0 1 ((exR true).getD 0 default) ((exR true).getD 1 default) ["x".toList] :=
  ⟨rfl, rfl, rfl, by decide, by decide, by decide, by decide⟩
example : ExtendBase (exR true) [5, 3, 2, 1] 0 := by
  intro c hc k hk
  have hc' : c = 5 ∨ c = 3 ∨ c = 2 ∨ c = 1 := by simpa using hc
  have hk' : k = "a".toList := by
    have : fieldNames (exR true) 0 = ["a".toList] := rfl
    rw [this] at hk; simpa using hk
  subst hk'
  rcases hc' with rfl | rfl | rfl | rfl <;> decide
example : Identifies (fieldNames (exR true)) ([5, 3, 2, 1].filter (fun c => c ≠ 0)) 1 := by
  intro c hc h
  have hc' : c = 5 ∨ c = 3 ∨ c = 2 ∨ c = 1 := by simpa using hc
  rcases hc' with rfl | rfl | rfl | rfl
  · have := (h "m".toList).mp (by decide); revert this; decide
  · have := (h "x".toList).mpr (by decide); revert this; decide
  · have := (h "y".toList).mp (by decide); revert this; decide
  · rfl
example : fromDict (exR true) (fun _ => [5, 3, 2, 1]) 2 0
    (encV (exR true) false (.inst 1 [("a".toList, .int 5), ("x".toList, .int 6)])) none
    = .ok (.inst 1 [("a".toList, .int 5), ("x".toList, .int 6)]) := by rfl

/-! ### (E1) regression examples for the repaired finding `C14-noninit-field-blocks-recovery` (fixed in /repo 9c31ab9 + the
    sort-key follow-up): the superset test looks at ALL fields of a candidate and the sort key is the number of fields -/

/-- `D3` adds only the init=False field `n`: its dict `{a, n}` loaded through `B0` now comes back as `D3` (before the
    repair no candidate had `n` among its INIT fields and `B0(a=…, n=…)` raised `RuntimeError`) -/
example : fromDict (exR true) (fun _ => [1, 2, 3, 5]) 2 0
    (encV (exR true) false (.inst 3 [("a".toList, .int 7), ("n".toList, .int 8)])) none
    = .ok (.inst 3 [("a".toList, .int 7), ("n".toList, .int 8)]) := by rfl

/-- `D1(a, x)` and `D5(a, x, m: init=False)` have the same number of INIT fields; with the candidates sorted by their number
    of fields `D1`'s dict comes back as `D1` even when the set order lists `D5` first (with the old sort key the tie was
    broken by the set order and `D5` came back) -/
example : fromDict (exR true) (fun _ => [5, 1, 2, 3]) 2 0
    (encV (exR true) false (.inst 1 [("a".toList, .int 5), ("x".toList, .int 6)])) none
    = .ok (.inst 1 [("a".toList, .int 5), ("x".toList, .int 6)]) := by rfl

/-- … and `D5`'s own dict `{a, x, m}` comes back as `D5` -/
example : fromDict (exR true) (fun _ => [1, 5, 2, 3]) 2 0
    (encV (exR true) false (.inst 5 [("a".toList, .int 5), ("x".toList, .int 6), ("m".toList, .int 9)])) none
    = .ok (.inst 5 [("a".toList, .int 5), ("x".toList, .int 6), ("m".toList, .int 9)]) := by rfl

/-! ### (D) `save_dc_types` -/

theorem lookupKey_head {α : Type} (k : Str) (v : α) (r : List (Str × α)) : lookupKey k ((k, v) :: r) = some v := by
  simp [lookupKey]

theorem eraseKey_head {α : Type} (k : Str) (v : α) (r : List (Str × α)) (h : k ∉ r.map (·.1)) :
    eraseKey k ((k, v) :: r) = r := by
  simp only [eraseKey, filter_cons, ne_eq, not_true_eq_false, decide_false, Bool.false_eq_true, if_false]
  apply filter_eq_self.mpr
  intro p hp
  have : p.1 ≠ k := fun e => h (mem_map.mpr ⟨p, hp, e⟩)
  simpa using this

/-- **`save_dc_types`, top level.**  The serialized form of a (flat) instance of ANY class `D` written with
    `save_dc_types=True` is restored as exactly `D` with the same values when loaded through ANY class `b` with ANY
    `drop_extra_fields` — regardless of field sets, of the subclass set order, and of whether `D` derives from `b`. -/
theorem c14_dc_types_top (R : List RCls) (π : Nat → List Nat) (fuel : Nat) (b D : Nat) (rD : RCls)
    (x : Str → Int) (drop : Option Bool)
    (hD : R[D]? = some rD) (hloc : locate R rD.name = some D)
    (hprim : ∀ f ∈ rD.fields, f.ty = .prim) (hnt : typeKey ∉ rD.fields.map (·.name)) :
    fromDict R π (fuel + 2) b (encV R true (.inst D (valOf x rD.fields))) drop = .ok (.inst D (valOf x rD.fields)) := by
  have henc : encV R true (.inst D (valOf x rD.fields)) = .obj ((typeKey, J.str rD.name) :: rawOf x rD.fields) := by
    simp [encV, encKV_valOf, nameOf, hD]
  have hk : typeKey ∉ (rawOf x rD.fields).map (·.1) := by rw [rawOf_keys]; exact hnt
  rw [henc, show fuel + 2 = (fuel + 1) + 1 from rfl, fromDict]
  simp only [lookupKey_head, hloc, eraseKey_head _ _ _ hk]
  exact load_exact R π fuel D rD _ x drop hD (lookup_rawOf_none x _ _ hnt) hprim
    (fun f hf => lookup_rawOf x _ f hf) (fun k hk' => by rw [rawOf_keys] at hk'; exact hk')

/-- e.g. the sibling-with-identical-fields case that plain loading cannot tell apart: `D1` written with its type,
    loaded through `B0` with `drop_extra_fields=True`, candidates in an order that would otherwise favour `D2`/`D3` -/
example : fromDict (exR true) (fun _ => [3, 2, 1]) 2 0
    (encV (exR true) true (.inst 1 [("a".toList, .int 5), ("x".toList, .int 6)])) (some true)
    = .ok (.inst 1 [("a".toList, .int 5), ("x".toList, .int 6)]) := by rfl


mutual
/-- fuel needed by `fromDict` on `to_dict(v, save_dc_types=True)`: two calls per instance level -/
def depth : Val → Nat
  | .inst _ fs => depthKV fs + 2
  | .list xs => depthL xs + 1
  | .dict kv => depthKV kv + 1
  | _ => 1
def depthKV : List (Str × Val) → Nat
  | [] => 0
  | (_, v) :: r => max (depth v) (depthKV r)
def depthL : List Val → Nat
  | [] => 0
  | v :: r => max (depth v) (depthL r)
end

mutual
/-- `okV R items v`: `v` is `None` or a well-formed instance tree over the class table `R` (fields in field order,
    `int` / dataclass / `Optional` / `List` / `Dict` values matching the annotations, class names resolvable, no field
    called `_type_`).  `items = false` additionally demands that `List[…]` / `Dict[str, …]` fields hold no elements:
    this is the named exclusion of the open finding `C14-D16-no-type-key-in-containers`. -/
def okV (R : List RCls) (items : Bool) : Val → Bool
  | .none => true
  | .inst c fs =>
    match R[c]? with
    | some rc => (locate R rc.name == some c) && !((rc.fields.map (·.name)).contains typeKey)
                 && okFields R items rc.fields fs
    | none => false
  | _ => false
def okFields (R : List RCls) (items : Bool) : List Field → List (Str × Val) → Bool
  | [], [] => true
  | f :: fs, (n, v) :: r =>
    (n == f.name) && !((r.map (·.1)).contains n) &&
    (match f.ty, v with
      | .prim, .int _ => true
      | .dc _, v => okV R items v
      | .opt _, v => okV R items v
      | .list _, .list xs => okL R items xs
      | .dict _, .dict kv => okD R items kv
      | _, _ => false) && okFields R items fs r
  | _, _ => false
def okL (R : List RCls) (items : Bool) : List Val → Bool
  | [] => true
  | v :: r => items && okV R items v && okL R items r
def okD (R : List RCls) (items : Bool) : List (Str × Val) → Bool
  | [] => true
  | (_, v) :: r => items && okV R items v && okD R items r
end

/-- the `save_dc_types` clause at full strength: every well-formed instance tree, instances inside containers included -/
def DcTypesFull : Prop :=
  ∀ (R : List RCls) (π : Nat → List Nat) (v : Val) (b : Nat) (drop : Option Bool),
    okV R true v = true → roundTrip R π (depth v) b v true drop = .ok v

/-- **Witness (D16).** `Box(l=[D1(a=5, x=6)])` written with `save_dc_types=True`: the list item gets no `_type_` key and
    comes back as a plain `B0` (here `B0` does not decode into subclasses; with identical siblings it comes back as
    whichever sibling the set order favours). -/
theorem c14_dc_types_witness : ¬ DcTypesFull := by
  intro h
  have := h (exR false) (fun _ => [1, 2, 3]) (.inst 4 [("l".toList, .list [.inst 1 [("a".toList, .int 5), ("x".toList, .int 6)]]),
      ("f".toList, .none), ("o".toList, .none)]) 4 none (by rfl)
  have e : roundTrip (exR false) (fun _ => [1, 2, 3]) (depth (.inst 4 [("l".toList, .list [.inst 1 [("a".toList, .int 5), ("x".toList, .int 6)]]),
      ("f".toList, .none), ("o".toList, .none)])) 4 (.inst 4 [("l".toList, .list [.inst 1 [("a".toList, .int 5), ("x".toList, .int 6)]]),
      ("f".toList, .none), ("o".toList, .none)]) true none
      = .ok (.inst 4 [("l".toList, .list [.inst 0 [("a".toList, .int 5)]]), ("f".toList, .none), ("o".toList, .none)]) := by rfl
  rw [e] at this
  injection this with h1
  injection h1 with _ h2
  injection h2 with h3 _
  injection h3 with _ h4
  injection h4 with h5
  injection h5 with h6 _
  injection h6 with h7
  exact absurd h7 (by decide)


/-! ### (E2) open finding `C14-D16-no-type-key-in-containers`: the partial theorem — exact class at every depth through dataclass-typed and Optional fields -/

theorem encKV_eq_map (R : List RCls) (s : Bool) (fs : List (Str × Val)) :
    encKV R s fs = fs.map (fun q => (q.1, encV R s q.2)) := by
  induction fs with
  | nil => rfl
  | cons p r ih => obtain ⟨n, v⟩ := p; simp only [encKV, map_cons, ih]

theorem lookup_mapval {α β : Type} (g : α → β) (fs : List (Str × α)) (hn : (fs.map (·.1)).Nodup) (p : Str × α) (hp : p ∈ fs) :
    lookupKey p.1 (fs.map (fun q => (q.1, g q.2))) = some (g p.2) := by
  induction fs with
  | nil => cases hp
  | cons q r ih =>
    have hq : q.1 ∉ r.map (·.1) ∧ (r.map (·.1)).Nodup := by rw [map_cons] at hn; exact nodup_cons.mp hn
    simp only [map_cons, lookupKey]
    rcases mem_cons.mp hp with rfl | hp
    · simp
    · have : q.1 ≠ p.1 := fun e => hq.1 (e ▸ mem_map.mpr ⟨p, hp, rfl⟩)
      rw [if_neg this]
      exact ih hq.2 hp

theorem lookup_self {α : Type} (fs : List (Str × α)) (hn : (fs.map (·.1)).Nodup) (p : Str × α) (hp : p ∈ fs) :
    lookupKey p.1 fs = some p.2 := by
  have := lookup_mapval id fs hn p hp
  simpa using this

theorem okFields_names (R : List RCls) (i : Bool) (F : List Field) (fs : List (Str × Val))
    (h : okFields R i F fs = true) : fs.map (·.1) = F.map (·.name) ∧ (fs.map (·.1)).Nodup := by
  induction F generalizing fs with
  | nil =>
    cases fs with
    | nil => simp
    | cons p r => simp [okFields] at h
  | cons f F' ih =>
    cases fs with
    | nil => simp [okFields] at h
    | cons p r =>
      obtain ⟨n, v⟩ := p
      unfold okFields at h
      simp only [Bool.and_eq_true, beq_iff_eq, Bool.not_eq_true'] at h
      obtain ⟨⟨⟨hn, hnot⟩, _⟩, hr⟩ := h
      have ⟨h1, h2⟩ := ih r hr
      refine ⟨by simp [hn, h1], ?_⟩
      simp only [map_cons, nodup_cons]
      refine ⟨?_, h2⟩
      intro hm
      have : (r.map (·.1)).contains n = true := by simpa using hm
      rw [this] at hnot
      cases hnot

theorem construct_of_lookup (F : List Field) (fs : List (Str × Val)) (args : List (Str × Val))
    (hn : fs.map (·.1) = F.map (·.name)) (hl : ∀ p ∈ fs, lookupKey p.1 args = some p.2) :
    construct F args = .ok fs := by
  induction F generalizing fs with
  | nil =>
    cases fs with
    | nil => rfl
    | cons p r => simp at hn
  | cons f F' ih =>
    cases fs with
    | nil => simp at hn
    | cons p r =>
      simp only [map_cons, cons.injEq] at hn
      have h1 := hl p (by simp)
      rw [hn.1] at h1
      have ih' := ih r hn.2 (fun q hq => hl q (by simp [hq]))
      simp only [construct, h1, ih']
      rw [← hn.1]

theorem okL_false (R : List RCls) (xs : List Val) (h : okL R false xs = true) : xs = [] := by
  cases xs with
  | nil => rfl
  | cons v r => simp [okL] at h

theorem okD_false (R : List RCls) (kv : List (Str × Val)) (h : okD R false kv = true) : kv = [] := by
  cases kv with
  | nil => rfl
  | cons p r => obtain ⟨n, v⟩ := p; simp [okD] at h

mutual
/-- **`save_dc_types` at every nesting level (`_partial`).**  For every well-formed instance tree `v` of ANY depth whose
    `List`/`Dict` fields hold no elements (exclusion `okV R false`, finding D16), loading `to_dict(v, save_dc_types=True)`
    through ANY class with ANY `drop_extra_fields` and any subclass-set order restores `v` exactly — the exact class at
    every level reached through dataclass-annotated and `Optional` fields, regardless of field sets. -/
theorem c14_dc_types_partial (R : List RCls) (π : Nat → List Nat) (v : Val) (hok : okV R false v = true)
    (fuel : Nat) (hf : depth v ≤ fuel) (b : Nat) (drop : Option Bool) :
    fromDict R π fuel b (encV R true v) drop = .ok v := by
  match v with
  | .none =>
    obtain ⟨f, rfl⟩ : ∃ f, fuel = f + 1 := ⟨fuel - 1, by simp only [depth] at hf; omega⟩
    simp [encV, fromDict]
  | .int _ => simp [okV] at hok
  | .str _ => simp [okV] at hok
  | .list _ => simp [okV] at hok
  | .dict _ => simp [okV] at hok
  | .inst c fs =>
    cases hc : R[c]? with
    | none => simp [okV, hc] at hok
    | some rc =>
      unfold okV at hok
      simp only [hc, Bool.and_eq_true, beq_iff_eq, Bool.not_eq_true'] at hok
      obtain ⟨⟨hloc, hnt⟩, hfs⟩ := hok
      have hnt' : typeKey ∉ rc.fields.map (·.name) := by
        intro hm
        have : (rc.fields.map (·.name)).contains typeKey = true := by simpa using hm
        rw [this] at hnt; cases hnt
      have ⟨hnames, hnd⟩ := okFields_names R false rc.fields fs hfs
      simp only [depth] at hf
      obtain ⟨f, rfl⟩ : ∃ f, fuel = f + 2 := ⟨fuel - 2, by omega⟩
      have hkeys : (encKV R true fs).map (·.1) = rc.fields.map (·.name) := by
        rw [encKV_eq_map, map_map]
        have : ((fun x : Str × J => x.fst) ∘ fun q : Str × Val => (q.fst, encV R true q.snd)) = (fun q => q.fst) := rfl
        rw [this]; exact hnames
      have henc : encV R true (.inst c fs) = .obj ((typeKey, J.str rc.name) :: encKV R true fs) := by
        simp [encV, nameOf, hc]
      have hk : typeKey ∉ (encKV R true fs).map (·.1) := by rw [hkeys]; exact hnt'
      rw [henc, show f + 2 = (f + 1) + 1 from rfl, fromDict]
      simp only [lookupKey_head, hloc, eraseKey_head _ _ _ hk]
      have hty : lookupKey typeKey (encKV R true fs) = none := by
        have : ∀ (kv : List (Str × J)), typeKey ∉ kv.map (·.1) → lookupKey typeKey kv = none := by
          intro kv; induction kv with
          | nil => intro _; rfl
          | cons q r ih =>
            intro hq
            simp only [map_cons, mem_cons, not_or] at hq
            simp only [lookupKey]
            rw [if_neg (fun e => hq.1 e.symm)]
            exact ih hq.2
        exact this _ hk
      rw [fromDict]
      simp only [hty, hc]
      have hkv : ∀ p ∈ fs, lookupKey p.1 (encKV R true fs) = some (encV R true p.2) := by
        intro p hp; rw [encKV_eq_map]; exact lookup_mapval (encV R true) fs hnd p hp
      rw [dc_fields_partial R π rc.fields fs hfs f (by omega) (encKV R true fs) _ hkv]
      have hno : ((encKV R true fs).map (·.1)).filter (fun k => !(rc.fields.map (·.name)).contains k) = [] := by
        rw [hkeys]; apply filter_eq_nil_iff.mpr; intro k hk; simp [hk]
      simp only [hno, isEmpty_nil, Bool.true_or, if_true]
      rw [construct_of_lookup rc.fields fs fs hnames (fun p hp => lookup_self fs hnd p hp)]
/-- the field loop of `from_dict` on the serialized fields of a well-formed instance -/
theorem dc_fields_partial (R : List RCls) (π : Nat → List Nat) (F : List Field) (fs : List (Str × Val))
    (hok : okFields R false F fs = true) (fuel : Nat) (hf : depthKV fs ≤ fuel) (kv : List (Str × J)) (e : Bool)
    (hkv : ∀ p ∈ fs, lookupKey p.1 kv = some (encV R true p.2)) :
    decodeFields (fun c j dr => fromDict R π fuel c j dr) e kv F = .ok fs := by
  match F, fs with
  | [], [] => rfl
  | [], _ :: _ => simp [okFields] at hok
  | _ :: _, [] => simp [okFields] at hok
  | f0 :: F', (n, v) :: r =>
    unfold okFields at hok
    simp only [Bool.and_eq_true, beq_iff_eq] at hok
    obtain ⟨⟨⟨hn, _⟩, hv⟩, hr⟩ := hok
    simp only [depthKV] at hf
    have hlook := hkv (n, v) (by simp)
    simp only at hlook
    rw [hn] at hlook
    have ih := dc_fields_partial R π F' r hr fuel (by omega) kv e (fun p hp => hkv p (by simp [hp]))
    have hdec : decodeField (fun c j dr => fromDict R π fuel c j dr) f0.ty (encV R true v) e = .ok v := by
      cases hty : f0.ty with
      | prim =>
        rw [hty] at hv
        cases v <;> simp at hv
        simp [decodeField, encV]
      | dc c' =>
        rw [hty] at hv
        simp only at hv
        simp only [decodeField]
        exact c14_dc_types_partial R π v hv fuel (by omega) c' (some e)
      | opt c' =>
        rw [hty] at hv
        simp only at hv
        have hload := c14_dc_types_partial R π v hv fuel (by omega) c' none
        cases v with
        | none => simp [decodeField, encV]
        | inst c fs' =>
          have : ∃ kv', encV R true (.inst c fs') = .obj kv' :=
            ⟨(typeKey, J.str (nameOf R c)) :: encKV R true fs', by simp [encV]⟩
          obtain ⟨kv', hkv'⟩ := this
          rw [hkv'] at hload ⊢
          simp only [decodeField, hload]
        | int _ => simp [okV] at hv
        | str _ => simp [okV] at hv
        | list _ => simp [okV] at hv
        | dict _ => simp [okV] at hv
      | list c' =>
        rw [hty] at hv
        cases v <;> simp at hv
        rename_i xs
        have := okL_false R xs hv
        subst this
        simp [decodeField, encV, encL, seqOut]
      | dict c' =>
        rw [hty] at hv
        cases v <;> simp at hv
        rename_i kv0
        have := okD_false R kv0 hv
        subst this
        simp [decodeField, encV, encKV, seqOut]
    simp only [decodeFields, hlook, hdec, ih, hn]
end

/-- the hypotheses are satisfiable by a nested tree: `Box(l=[], f=D2(a,x,y), o=D1(a,x))` -/
example : okV (exR true) false (.inst 4 [("l".toList, .list []),
    ("f".toList, .inst 2 [("a".toList, .int 1), ("x".toList, .int 2), ("y".toList, .int 3)]),
    ("o".toList, .inst 1 [("a".toList, .int 4), ("x".toList, .int 5)])]) = true := by rfl


/-! ### (R) the class table: `resolve` (definition order = process history), `descendants`, flag inheritance -/

theorem resolve_foldl (acc : List RCls) (h : List Cls) (c : Cls) :
    (h ++ [c]).foldl resolveStep acc = resolveStep (h.foldl resolveStep acc) c := by
  simp [foldl_append]

theorem resolveStep_length (acc : List RCls) (c : Cls) : (resolveStep acc c).length = acc.length + 1 := by
  simp [resolveStep]

theorem resolveStep_get_lt (acc : List RCls) (c : Cls) (i : Nat) (hi : i < acc.length) :
    (resolveStep acc c)[i]? = acc[i]? := by
  simp only [resolveStep]
  exact getElem?_append_left hi

/-- the field NAMES of a class: its parent's names, then the new names (a redeclared field keeps its place) -/
theorem inheritFields_names (pf own : List Field) :
    (inheritFields pf own).map (·.name)
      = pf.map (·.name) ++ (own.filter (fun g => !(pf.map (·.name)).contains g.name)).map (·.name) := by
  unfold inheritFields
  rw [map_append, map_map]
  congr 1
  apply map_congr_left
  intro f _
  simp only [Function.comp]
  cases hfind : own.find? (fun g => g.name == f.name) with
  | none => rfl
  | some g =>
    have := find?_some hfind
    simpa using this

/-- what `resolve` guarantees about every class and each of its (strict) ancestors -/
def TableInv (R : List RCls) : Prop :=
  ∀ (i : Nat) (r : RCls), R[i]? = some r → ∀ a ∈ r.ancs, ∃ ra : RCls, R[a]? = some ra ∧ a < i ∧
    (ra.fields.map (·.name)) <+: (r.fields.map (·.name)) ∧ ∀ a' ∈ ra.ancs, a' ∈ r.ancs

theorem tableInv_step (acc : List RCls) (c : Cls) (hinv : TableInv acc) : TableInv (resolveStep acc c) := by
  unfold TableInv at *
  intro i r hi a ha
  by_cases hlt : i < acc.length
  · rw [resolveStep_get_lt acc c i hlt] at hi
    obtain ⟨ra, h1, h2, h3, h4⟩ := hinv i r hi a ha
    exact ⟨ra, by rw [resolveStep_get_lt acc c a (by omega)]; exact h1, h2, h3, h4⟩
  · have hlen := resolveStep_length acc c
    have hieq : i = acc.length := by
      have : i < (resolveStep acc c).length := by
        rcases Nat.lt_or_ge i (resolveStep acc c).length with h | h
        · exact h
        · rw [getElem?_eq_none_iff.mpr h] at hi; cases hi
      omega
    subst hieq
    -- the class just defined
    have hnew : (resolveStep acc c)[acc.length]? = some
        { name := c.name,
          fields := inheritFields (match c.parent.bind (fun i => (acc[i]?).map (fun r => (i, r))) with
            | some (_, r) => r.fields | none => []) c.own,
          dis := c.dis.getD (match c.parent.bind (fun i => (acc[i]?).map (fun r => (i, r))) with
            | some (_, r) => r.dis | none => false),
          ancs := (match c.parent.bind (fun i => (acc[i]?).map (fun r => (i, r))) with
            | some (i, r) => i :: r.ancs | none => []),
          frozen := c.frozen, mixin := c.mixin } := by
      simp only [resolveStep]
      rw [getElem?_append_right (Nat.le_refl _)]
      simp only [Nat.sub_self, getElem?_cons_zero]
      rfl
    rw [hnew] at hi
    cases hp : c.parent.bind (fun i => (acc[i]?).map (fun r => (i, r))) with
    | none =>
      rw [hp] at hi
      have := (Option.some.inj hi)
      subst this
      simp at ha
    | some pr =>
      obtain ⟨p, rp⟩ := pr
      rw [hp] at hi
      have hr := (Option.some.inj hi)
      subst hr
      simp only at ha ⊢
      -- `p` is a valid earlier class
      have hpacc : acc[p]? = some rp := by
        cases hc : c.parent with
        | none => simp [hc] at hp
        | some q =>
          simp only [hc, Option.bind_some, Option.map_eq_some_iff] at hp
          obtain ⟨r', hr', heq⟩ := hp
          have : q = p ∧ r' = rp := by simpa using heq
          rw [← this.1, ← this.2]; exact hr'
      have hplt : p < acc.length := by
        rcases Nat.lt_or_ge p acc.length with h | h
        · exact h
        · rw [getElem?_eq_none_iff.mpr h] at hpacc; cases hpacc
      have hnames : (rp.fields.map (·.name)) <+: ((inheritFields rp.fields c.own).map (·.name)) := by
        rw [inheritFields_names]; exact prefix_append _ _
      rcases mem_cons.mp ha with rfl | ha'
      · exact ⟨rp, by rw [resolveStep_get_lt acc c a hplt]; exact hpacc, hplt, hnames,
          fun a' h' => mem_cons_of_mem _ h'⟩
      · obtain ⟨ra, h1, h2, h3, h4⟩ := hinv p rp hpacc a ha'
        exact ⟨ra, by rw [resolveStep_get_lt acc c a (by omega)]; exact h1, by omega, h3.trans hnames,
          fun a' h' => mem_cons_of_mem _ (h4 a' h')⟩

theorem tableInv_foldl (h : List Cls) (acc : List RCls) (hinv : TableInv acc) : TableInv (h.foldl resolveStep acc) := by
  induction h generalizing acc with
  | nil => exact hinv
  | cons c cs ih => exact ih _ (tableInv_step acc c hinv)

/-- **Children extend parents, for every table and every definition order**: in `resolve h` each strict ancestor of a
    class is defined earlier and its field names are a prefix of the class's field names. -/
theorem resolve_fields_prefix (h : List Cls) : TableInv (resolve h) :=
  tableInv_foldl h [] (by unfold TableInv; intro i r hi; simp at hi)

/-- `all_subclasses(b)` in the model: exactly the classes that have `b` among their strict ancestors -/
theorem mem_descendants_iff (R : List RCls) (b i : Nat) :
    i ∈ descendants R b ↔ ∃ r, R[i]? = some r ∧ b ∈ r.ancs := by
  unfold descendants
  simp only [mem_filter, mem_range]
  constructor
  · rintro ⟨hi, hm⟩
    cases hr : R[i]? with
    | none => simp [hr] at hm
    | some r => exact ⟨r, rfl, by simpa [hr] using hm⟩
  · rintro ⟨r, hr, hb⟩
    refine ⟨?_, by simp [hr, hb]⟩
    rcases Nat.lt_or_ge i R.length with h | h
    · exact h
    · rw [getElem?_eq_none_iff.mpr h] at hr; cases hr

/-- **`decode_into_subclasses` is inherited at definition time** (serializable.py:202-217): the class defined by the
    statement `c` on top of the classes `acc` gets its own stated value, else its parent's current value, else `False`. -/
theorem resolve_dis (acc : List RCls) (c : Cls) :
    ((resolveStep acc c)[acc.length]?).map (·.dis)
      = some (c.dis.getD (match c.parent.bind (fun p => acc[p]?) with | some rp => rp.dis | none => false)) := by
  simp only [resolveStep]
  rw [getElem?_append_right (Nat.le_refl _)]
  simp only [Nat.sub_self, getElem?_cons_zero, Option.map_some]
  cases hc : c.parent with
  | none => simp
  | some q =>
    cases hq : acc[q]? with
    | none => simp [hq]
    | some rq => simp [hq]

/-- a flag stated on the class wins; an unstated one is the parent's; earlier classes are never touched by a later
    definition (so the order of unrelated definitions is irrelevant) -/
theorem resolve_earlier_unchanged (acc : List RCls) (c : Cls) (i : Nat) (hi : i < acc.length) :
    (resolveStep acc c)[i]? = acc[i]? := resolveStep_get_lt acc c i hi

/-- **Identified clause over a class table.**  `R = resolve h` for ANY list of class statements `h` (any hierarchy shape,
    any definition order), `π b` ANY enumeration of `descendants R b` (the set `all_subclasses(b)`), `D` any descendant of
    `b` that adds a field: the hypotheses `Derived.names`, `ExtendBase`, `D ∈ π b`, `D ≠ b` of `c14_identified` are
    DERIVED from the table. -/
theorem c14_identified_table (h : List Cls) (π : Nat → List Nat) (fuel : Nat) (b D : Nat) (rb rD : RCls)
    (x : Str → Int) (drop : Option Bool)
    (hb : (resolve h)[b]? = some rb) (hD : (resolve h)[D]? = some rD)
    (hdesc : D ∈ descendants (resolve h) b) (hπ : (π b).Perm (descendants (resolve h) b))
    (hadds : rD.fields.map (·.name) ≠ rb.fields.map (·.name))
    (hpb : ∀ f ∈ rb.fields, f.ty = .prim) (hpD : ∀ f ∈ rD.fields, f.ty = .prim)
    (hnd : (rD.fields.map (·.name)).Nodup) (hnt : typeKey ∉ rD.fields.map (·.name))
    (hkeep : drop.getD (if rb.mixin then false else !rb.dis) = false)
    (huniq : Identifies (fieldNames (resolve h)) ((π b).filter (fun c => c ≠ b)) D) :
    fromDict (resolve h) π (fuel + 2) b (encV (resolve h) false (.inst D (valOf x rD.fields))) drop
      = .ok (.inst D (valOf x rD.fields)) := by
  have hinv := resolve_fields_prefix h
  obtain ⟨rD', hrD', hbD⟩ := (mem_descendants_iff _ b D).mp hdesc
  rw [hD] at hrD'; cases hrD'
  obtain ⟨rb', hrb', hlt, hpre, _⟩ := hinv D rD hD b hbD
  rw [hb] at hrb'; cases hrb'
  obtain ⟨extn, hextn⟩ := hpre
  have hder : Derived (resolve h) b D rb rD extn := ⟨hb, hD, hextn.symm, hpb, hpD, hnd, hnt⟩
  have hext : extn ≠ [] := by
    intro he; apply hadds; rw [← hextn, he, append_nil]
  have hsubcls : ExtendBase (resolve h) (π b) b := by
    intro c hc k hk
    obtain ⟨rc, hrc, hbc⟩ := (mem_descendants_iff _ b c).mp (hπ.subset hc)
    obtain ⟨rb'', hrb'', _, hpre', _⟩ := hinv c rc hrc b hbc
    rw [hb] at hrb''; cases hrb''
    rw [fieldNames_eq _ b rb hb] at hk
    rw [fieldNames_eq _ c rc hrc]
    exact hpre'.subset hk
  exact c14_identified (resolve h) π fuel b D rb rD extn x drop hder hkeep hext hsubcls
    (hπ.symm.subset hdesc) (by omega) huniq


/-- the hypotheses of `c14_identified_table` are satisfiable on the example table: `D1` is a descendant of `B0`, and the
    set order `[5, 3, 2, 1]` enumerates `descendants` -/
example : 1 ∈ descendants (exR true) 0 ∧ ([5, 3, 2, 1] : List Nat).Perm (descendants (exR true) 0) := by decide
example : exR true = resolve (exH true) := rfl

/-! ### (E3) repaired finding `C14-frozen-noninit-setattr` (/repo 6aeb5e3: `object.__setattr__` for the init=False values):
    a frozen dataclass with an `init=False` field loads like any other -/

def exFrozen : List RCls := resolve
  [ mkCls "F0" none (some true) [fInt "a"] true,
    mkCls "F2" (some 0) none [fInt "n" false] true,
    mkCls "F3" (some 0) none [fInt "x"] true ]

/-- **Loading the serialized form of an instance through its own class gives it back** — any class (frozen or not, init=False
    fields or not), any `drop_extra_fields`, any subclasses, any set order.  (Before the repair this full statement was
    refuted by `F2` below: `setattr` raised `FrozenInstanceError`.) -/
theorem c14_load_through_self (R : List RCls) (π : Nat → List Nat) (fuel : Nat) (b : Nat) (rb : RCls) (x : Str → Int)
    (drop : Option Bool) (hb : R[b]? = some rb) (hp : ∀ f ∈ rb.fields, f.ty = .prim)
    (hnt : typeKey ∉ rb.fields.map (·.name)) :
    fromDict R π (fuel + 1) b (encV R false (.inst b (valOf x rb.fields))) drop = .ok (.inst b (valOf x rb.fields)) := by
  rw [enc_flat]
  exact load_exact R π fuel b rb _ x drop hb (lookup_rawOf_none x _ _ hnt) hp
    (fun f hf => lookup_rawOf x _ f hf) (fun k hk => by rw [rawOf_keys] at hk; exact hk)

/-- regression: `F2` (frozen, adds `n: init=False`) through itself and through its base `F0` -/
example : fromDict exFrozen (fun _ => [1, 2]) 2 1
    (encV exFrozen false (.inst 1 [("a".toList, .int 7), ("n".toList, .int 8)])) none
    = .ok (.inst 1 [("a".toList, .int 7), ("n".toList, .int 8)]) := by rfl
example : fromDict exFrozen (fun _ => [1, 2]) 3 0
    (encV exFrozen false (.inst 1 [("a".toList, .int 7), ("n".toList, .int 8)])) none
    = .ok (.inst 1 [("a".toList, .int 7), ("n".toList, .int 8)]) := by rfl
example : fromDict exFrozen (fun _ => [1, 2]) 3 0
    (encV exFrozen false (.inst 2 [("a".toList, .int 7), ("x".toList, .int 8)])) none
    = .ok (.inst 2 [("a".toList, .int 7), ("x".toList, .int 8)]) := by rfl

/-! ### (E4) open finding `C14-nested-drop-forwarding`: a field annotated with a dataclass is decoded with the CONTAINER's
    resolved `drop_extra_fields` (decoding.py:147-149), Optional/List/Dict items by the item class's own flag -/

/-- "a dataclass-annotated field is decoded by its own class's `decode_into_subclasses`, like an Optional/List item" -/
def NestedOwnFlag : Prop :=
  ∀ (R : List RCls) (π : Nat → List Nat) (fuel : Nat) (c : Nat) (j : J) (e : Bool),
    decodeField (fun c j dr => fromDict R π fuel c j dr) (.dc c) j e = fromDict R π fuel c j none

/-- **Witness.** `Box(f: B0, o: Optional[B0], l: List[B0])`, `B0` decodes into subclasses, `Box` does not, all three hold
    `D1(5, 6)`: `Box.from_dict(d)` gives `f = B0(a=5)` (x lost) but `o = D1`, `l = [D1]`. -/
theorem c14_nested_forwarding_witness : ¬ NestedOwnFlag := by
  intro h
  have := h (exR true) (fun _ => [1, 2, 3, 5]) 3 0 (.obj [("a".toList, .int 5), ("x".toList, .int 6)]) true
  have e1 : decodeField (fun c j dr => fromDict (exR true) (fun _ => [1, 2, 3, 5]) 3 c j dr) (.dc 0)
      (.obj [("a".toList, .int 5), ("x".toList, .int 6)]) true = .ok (.inst 0 [("a".toList, .int 5)]) := by rfl
  have e2 : fromDict (exR true) (fun _ => [1, 2, 3, 5]) 3 0 (.obj [("a".toList, .int 5), ("x".toList, .int 6)]) none
      = .ok (.inst 1 [("a".toList, .int 5), ("x".toList, .int 6)]) := by rfl
  rw [e1, e2] at this
  injection this with h1
  injection h1 with h2 _
  exact absurd h2 (by decide)
example : fromDict (exR true) (fun _ => [1, 2, 3, 5]) 6 4
    (encV (exR true) false (.inst 4 [("l".toList, .list [.inst 1 [("a".toList, .int 5), ("x".toList, .int 6)]]),
      ("f".toList, .inst 1 [("a".toList, .int 5), ("x".toList, .int 6)]),
      ("o".toList, .inst 1 [("a".toList, .int 5), ("x".toList, .int 6)])])) none
    = .ok (.inst 4 [("l".toList, .list [.inst 1 [("a".toList, .int 5), ("x".toList, .int 6)]]),
      ("f".toList, .inst 0 [("a".toList, .int 5)]),
      ("o".toList, .inst 1 [("a".toList, .int 5), ("x".toList, .int 6)])]) := by rfl

/-! the set order decides between two siblings with the same field set — on `fromDict`, not only on `pick` -/
example : fromDict (resolve [mkCls "B" none (some true) [fInt "a"], mkCls "E1" (some 0) none [fInt "x"],
      mkCls "E2" (some 0) none [fInt "x"]]) (fun _ => [1, 2]) 3 0 (.obj [("a".toList, .int 1), ("x".toList, .int 2)]) none
    = .ok (.inst 1 [("a".toList, .int 1), ("x".toList, .int 2)]) := by rfl
example : fromDict (resolve [mkCls "B" none (some true) [fInt "a"], mkCls "E1" (some 0) none [fInt "x"],
      mkCls "E2" (some 0) none [fInt "x"]]) (fun _ => [2, 1]) 3 0 (.obj [("a".toList, .int 1), ("x".toList, .int 2)]) none
    = .ok (.inst 2 [("a".toList, .int 1), ("x".toList, .int 2)]) := by rfl

/-! a child that REDECLARES an inherited field keeps the field's position (`dataclasses.fields`), and loading through
    `Serializable` itself always decodes into subclasses -/
example : ((resolve [mkCls "R0" none (some true) [fInt "a", fInt "b"], mkCls "R1" (some 0) none [fInt "a", fInt "c"]]).getD 1
    default).fields.map (·.name) = ["a".toList, "b".toList, "c".toList] := by rfl
example : fromDict (resolve [mkCls "Serializable" none none [] false true, mkCls "B" (some 0) none [fInt "a"],
      mkCls "E1" (some 1) none [fInt "x"]]) (fun _ => [1, 2]) 3 0 (.obj [("a".toList, .int 1), ("x".toList, .int 2)]) none
    = .ok (.inst 2 [("a".toList, .int 1), ("x".toList, .int 2)]) := by rfl


/-! ### (G) clauses 1–3 for ARBITRARY field contents (nested dataclasses, Optional, List, Dict, any values): the class that
    comes back does not depend on the field types or values, only on the key set — provided the fields decode at all -/

/-- the required keys, by names only -/
def reqN (R : List RCls) (b : Nat) (rb : RCls) (extn : List Str) : List Str :=
  extn ++ (rb.fields.map (·.name)).filter (fun k => (initNames R b).contains k)

theorem reqOf_eq_reqN (R : List RCls) (b : Nat) (rb : RCls) (extn : List Str) (x : Str → Int) :
    reqOf R b rb extn x = reqN R b rb extn := by
  have : (valOf x rb.fields).map (·.1) = rb.fields.map (·.name) := by
    simp only [valOf, map_map]; rfl
  simp only [reqOf, reqN, this]

/-- what is needed of the serialized dict `kv` of a `D` instance and of the two classes (no field types, no values) -/
structure DerivedKeys (R : List RCls) (b D : Nat) (rb rD : RCls) (extn : List Str) (kv : List (Str × J)) : Prop where
  hb : R[b]? = some rb
  hD : R[D]? = some rD
  names : rD.fields.map (·.name) = rb.fields.map (·.name) ++ extn
  keys : kv.map (·.1) = rD.fields.map (·.name)
  nodup : (rD.fields.map (·.name)).Nodup
  noTypeKey : lookupKey typeKey kv = none

/-- **Drop clause, any content.** If the base's fields decode (to whatever values `dec`) and the constructor accepts them,
    the result is an instance of EXACTLY the base — whatever else the dict holds, whatever subclasses exist. -/
theorem c14_drop_gen (R : List RCls) (π : Nat → List Nat) (fuel : Nat) (b : Nat) (rb : RCls) (kv : List (Str × J))
    (drop : Option Bool) (dec fs : List (Str × Val))
    (hb : R[b]? = some rb)
    (hdrop : drop.getD (if rb.mixin then false else !rb.dis) = true) (hty : lookupKey typeKey kv = none)
    (hdec : decodeFields (fun c j dr => fromDict R π fuel c j dr) true kv rb.fields = .ok dec)
    (hcon : construct rb.fields dec = .ok fs) :
    fromDict R π (fuel + 1) b (.obj kv) drop = .ok (.inst b fs) := by
  simp only [fromDict, hty, hb, hdrop, hdec, Bool.or_true, if_true, hcon]

/-- the first call through the base, any content: the choice is made on the key names alone -/
theorem keep_step_gen (R : List RCls) (π : Nat → List Nat) (fuel : Nat) (b D : Nat) (rb rD : RCls)
    (extn : List Str) (kv : List (Str × J)) (drop : Option Bool) (decB : List (Str × Val))
    (h : DerivedKeys R b D rb rD extn kv) (hkeep : drop.getD (if rb.mixin then false else !rb.dis) = false)
    (hext : extn ≠ [])
    (hdecB : decodeFields (fun c j dr => fromDict R π (fuel + 1) c j dr) false kv rb.fields = .ok decB)
    (hnamesB : decB.map (·.1) = rb.fields.map (·.name)) :
    fromDict R π (fuel + 2) b (.obj kv) drop =
      match pickSubclass R ((π b).filter (fun c => c ≠ b)) (reqN R b rb extn) with
      | some child => fromDict R π (fuel + 1) child (.obj kv) (some false)
      | none => .raise "RuntimeError".toList := by
  obtain ⟨hb, hD, hnames, hkeys, hnd, hty⟩ := h
  have hnd' := hnd
  rw [hnames] at hnd'
  have hdisj : ∀ k ∈ extn, k ∉ rb.fields.map (·.name) := fun k hk hk' =>
    (nodup_append.mp hnd').2.2 k hk' k hk rfl
  rw [show fuel + 2 = (fuel + 1) + 1 from rfl, fromDict]
  simp only [hty, hb, hkeep, hdecB, hkeys, hnamesB, Bool.or_false]
  have hextras : (rD.fields.map (·.name)).filter (fun k => !(rb.fields.map (·.name)).contains k) = extn := by
    rw [hnames, filter_append]
    have h1 : (rb.fields.map (·.name)).filter (fun k => !(rb.fields.map (·.name)).contains k) = [] := by
      apply filter_eq_nil_iff.mpr; intro k hk; simp [hk]
    have h2 : extn.filter (fun k => !(rb.fields.map (·.name)).contains k) = extn := by
      apply filter_eq_self.mpr; intro k hk; simpa using hdisj k hk
    rw [h1, h2, nil_append]
  rw [hextras]
  have hne : extn.isEmpty = false := by
    cases extn with
    | nil => exact absurd rfl hext
    | cons e es => rfl
  simp only [hne, Bool.false_eq_true, if_false, reqN]
  rfl

/-- **Identified clause, any content.**  Whatever the fields of `D` hold (nested instances, containers, any values): if
    the base's fields decode and `D`'s own fields decode and construct `fs`, then loading through `b` returns an instance of
    `D` — the class choice depends on the key names only — for every set order `π b`. -/
theorem c14_identified_gen (R : List RCls) (π : Nat → List Nat) (fuel : Nat) (b D : Nat) (rb rD : RCls)
    (extn : List Str) (kv : List (Str × J)) (drop : Option Bool) (decB decD fs : List (Str × Val))
    (h : DerivedKeys R b D rb rD extn kv) (hkeep : drop.getD (if rb.mixin then false else !rb.dis) = false)
    (hext : extn ≠ [])
    (hdecB : decodeFields (fun c j dr => fromDict R π (fuel + 1) c j dr) false kv rb.fields = .ok decB)
    (hnamesB : decB.map (·.1) = rb.fields.map (·.name))
    (hdecD : decodeFields (fun c j dr => fromDict R π fuel c j dr) false kv rD.fields = .ok decD)
    (hcon : construct rD.fields decD = .ok fs)
    (hsubcls : ExtendBase R (π b) b) (hDπ : D ∈ π b) (hDb : D ≠ b)
    (huniq : Identifies (fieldNames R) ((π b).filter (fun c => c ≠ b)) D) :
    fromDict R π (fuel + 2) b (.obj kv) drop = .ok (.inst D fs) := by
  have hDc : D ∈ (π b).filter (fun c => c ≠ b) := mem_filter.mpr ⟨hDπ, by simpa using hDb⟩
  have hndI : (fieldNames R D).Nodup := by rw [fieldNames_eq R D rD h.hD]; exact h.nodup
  have hcov : Covers (fieldNames R) D (reqN R b rb extn) := by
    intro k hk
    rw [fieldNames_eq R D rD h.hD, h.names]
    rcases mem_append.mp hk with hk | hk
    · exact mem_append_right _ hk
    · exact mem_append_left _ (mem_filter.mp hk).1
  have hfull : ∀ c ∈ (π b).filter (fun c => c ≠ b), Covers (fieldNames R) c (reqN R b rb extn) →
      fieldNames R D ⊆ fieldNames R c := by
    intro c hc hcv k hk
    rw [fieldNames_eq R D rD h.hD, h.names] at hk
    rcases mem_append.mp hk with hk | hk
    · exact hsubcls c (mem_filter.mp hc).1 k (by rw [fieldNames_eq R b rb h.hb]; exact hk)
    · exact hcv k (mem_append_left _ hk)
  rw [keep_step_gen R π fuel b D rb rD extn kv drop decB h hkeep hext hdecB hnamesB, pickSubclass_eq,
    c14_identified_pick (fieldNames R) _ _ D hDc hndI hcov hfull huniq]
  have hno : (kv.map (·.1)).filter (fun k => !(rD.fields.map (·.name)).contains k) = [] := by
    rw [h.keys]; apply filter_eq_nil_iff.mpr; intro k hk; simp [hk]
  simp only [fromDict, h.noTypeKey, h.hD, Option.getD_some, hdecD, hno, isEmpty_nil, Bool.true_or, if_true, hcon]

/-- non-vacuity with nested content: `D6(B0)` adds `f: Box`-like nested fields — here `Box` (class 4) holding a list, a
    dataclass and an Optional — loaded through … itself is covered by `c14_dc_types_partial`; for the key-only theorem take the
    example table's `Box` extended by one field -/
def exG : List RCls := resolve
  [ mkCls "B0" none (some true) [fInt "a"],
    mkCls "D1" (some 0) none [fInt "x"],
    mkCls "P" none (some true) [⟨"f".toList, true, .dc 0, some .none⟩],
    mkCls "Q" (some 2) none [⟨"l".toList, true, .list 0, some (.list [])⟩, fInt "k"] ]

example : fromDict exG (fun c => if c = 2 then [3] else [1]) 6 2
    (encV exG false (.inst 3 [("f".toList, .inst 1 [("a".toList, .int 1), ("x".toList, .int 2)]),
      ("l".toList, .list [.inst 1 [("a".toList, .int 3), ("x".toList, .int 4)]]), ("k".toList, .int 9)])) none
    = .ok (.inst 3 [("f".toList, .inst 1 [("a".toList, .int 1), ("x".toList, .int 2)]),
      ("l".toList, .list [.inst 1 [("a".toList, .int 3), ("x".toList, .int 4)]]), ("k".toList, .int 9)]) := by rfl


end SpVerif.C14
