/-
  C16 — `--help` is complete, accurate, reproducible and has no side effects: theorems over
  `SpVerif.Help.entries` (Model/Help.lean).

  * `c16_complete`, `c16_one_entry`  — entries ↔ exposed fields, position by position; each entry lists
    exactly its field's option strings (also for ANY iteration order `π` of a set, had one been
    used: `c16_complete_with`); no option string is listed by two entries.
  * `c16_one_entry` — … negative flags of `bool` fields included: no listed string belongs to two
    entries or is `-h` / `--help`.  `Produced` ("the help is produced or conflict resolution refuses") is
    FALSE today: `c16_produced_witness` (field `h`), `c16_produced_witness_negflag` (`flag: bool` next to
    `noflag`) — both `argparse.ArgumentError`, open findings; `c16_produced_partial` otherwise.
  * `c16_hidden`, `c16_hidden_no_entry` — `cmd=False` / `init=False` fields and members (with their whole
    subtree) contribute nothing.  NOTE: `c16_hidden`, `c16_perm_invariant`, `c16_order_deterministic` are
    laws of the MODEL; that the code skips such fields before anything else and consults no
    hash-ordered container is what the correspondence check samples (fresh interpreters, several seeds).
  * `NoSideEffectDashHelp` — the `--help` FLAG route: FALSE when only one of the two command lines names a
    config file (`c16_no_side_effect_dash_help_witness`), `c16_no_side_effect_dash_help_partial` otherwise.
  * `c16_accurate`, priority lemmas — the help column ends in the effective default.
  * `c16_perm_invariant`, `c16_order_deterministic` (reproducibility across hash seeds, FULL since fix
    4849cc7) — every entry shows `Naming.optionStrings` of its field: shortest first, equal lengths
    in generation order; no iteration order of a hash container is consulted.  What the `set` of the old code did is kept visible: `PermInvariant` for
    `entriesSetOrder` is FALSE (`c16_perm_invariant_witness`, the fixed defect D3) and holds under the
    decidable exclusion `equalLengthTie = false` (`c16_perm_invariant_partial`), where the old and
    the new code agree (`c16_setOrder_eq_entries`).
  * `NoSideEffect` — FALSE today when the later command line names a config file
    (`c16_no_side_effect_witness`, open finding C16-print-help-before-argv-config) and for subgroup
    parsers (D9, property C08); `c16_no_side_effect_partial` without either.  The constructor
    `config_path=` variant (finding C16-print-help-before-config) was repaired by fix e83a7f8: the
    old `print_help` is kept as `printHelpOld` with its witness `c16_no_side_effect_old_ctor_witness`.
-/
import SpVerif.Model.Help
import SpVerif.Props.C03
namespace SpVerif.C16
open SpVerif SpVerif.Help

/-! ### sorting by length -/

theorem insertByLen_perm (x : Str) (l : List Str) : (insertByLen x l).Perm (x :: l) := by
  induction l with
  | nil => exact .refl _
  | cons y ys ih =>
    simp only [insertByLen]
    split
    · exact .refl _
    · exact (List.Perm.cons y ih).trans (List.Perm.swap x y ys)

theorem foldl_insertByLen_perm (l acc : List Str) :
    (l.foldl (fun acc x => insertByLen x acc) acc).Perm (acc ++ l) := by
  induction l generalizing acc with
  | nil => simp
  | cons x xs ih =>
    simp only [List.foldl_cons]
    refine (ih _).trans ?_
    refine ((insertByLen_perm x acc).append_right xs).trans ?_
    simpa using (List.perm_middle (a := x) (l₁ := acc) (l₂ := xs)).symm

theorem sortByLen_perm (l : List Str) : (sortByLen l).Perm l := by
  simpa [sortByLen] using foldl_insertByLen_perm l []

/-- sorted by length (weakly) -/
def SortedLen (l : List Str) : Prop := l.Pairwise (fun a b => a.length ≤ b.length)

theorem insertByLen_sorted (x : Str) (l : List Str) (h : SortedLen l) : SortedLen (insertByLen x l) := by
  induction l with
  | nil => simp [insertByLen, SortedLen]
  | cons y ys ih =>
    simp only [insertByLen]
    have hy := List.pairwise_cons.mp h
    split
    · rename_i hlt
      refine List.pairwise_cons.mpr ⟨?_, h⟩
      intro b hb
      rcases List.mem_cons.mp hb with rfl | hb
      · exact Nat.le_of_lt hlt
      · exact Nat.le_trans (Nat.le_of_lt hlt) (hy.1 b hb)
    · rename_i hge
      refine List.pairwise_cons.mpr ⟨?_, ih hy.2⟩
      intro b hb
      have := (insertByLen_perm x ys).subset hb
      rcases List.mem_cons.mp this with rfl | hb
      · exact Nat.le_of_not_lt hge
      · exact hy.1 b hb

theorem foldl_insertByLen_sorted (l acc : List Str) (h : SortedLen acc) :
    SortedLen (l.foldl (fun acc x => insertByLen x acc) acc) := by
  induction l generalizing acc with
  | nil => simpa using h
  | cons x xs ih => exact ih _ (insertByLen_sorted x acc h)

theorem sortByLen_sorted (l : List Str) : SortedLen (sortByLen l) :=
  foldl_insertByLen_sorted l [] List.Pairwise.nil

/-- a function that is injective on the elements of a list whose images are pairwise distinct -/
theorem inj_of_nodup_map {α β : Type} (f : α → β) :
    ∀ (l : List α), (l.map f).Nodup → ∀ a b, a ∈ l → b ∈ l → f a = f b → a = b
  | [], _, _, _, ha, _, _ => by cases ha
  | x :: xs, h, a, b, ha, hb, hab => by
    simp only [List.map_cons, List.nodup_cons, List.mem_map, not_exists, not_and] at h
    rcases List.mem_cons.mp ha with ha' | ha' <;> rcases List.mem_cons.mp hb with hb' | hb'
    · rw [ha', hb']
    · subst ha'; exact absurd hab.symm (h.1 b hb')
    · subst hb'; exact absurd hab (h.1 a ha')
    · exact inj_of_nodup_map f xs h.2 a b ha' hb' hab

/-- **sorting a permutation of a list with pairwise distinct keys gives the same result** -/
theorem sortByLen_eq_of_perm (l₁ l₂ : List Str) (hp : l₁.Perm l₂) (hd : (l₁.map List.length).Nodup) :
    sortByLen l₁ = sortByLen l₂ := by
  have p1 := sortByLen_perm l₁
  have p2 := sortByLen_perm l₂
  have s1 : (sortByLen l₁).Pairwise (fun a b => a.length ≤ b.length) := sortByLen_sorted l₁
  have s2 : (sortByLen l₂).Pairwise (fun a b => a.length ≤ b.length) := sortByLen_sorted l₂
  refine List.Perm.eq_of_pairwise (le := fun a b => a.length ≤ b.length) ?_ s1 s2
    (p1.trans (hp.trans p2.symm))
  intro a b ha hb hab hba
  exact inj_of_nodup_map List.length l₁ hd a b (p1.subset ha) (hp.symm.subset (p2.subset hb))
    (Nat.le_antisymm hab hba)

example : sortByLen ["--a_b".toList, "-q".toList, "--abc".toList]
    = sortByLen ["--abc".toList, "--a_b".toList, "-q".toList] → False := by decide

example : sortByLen ["--a_bc".toList, "-q".toList, "--abc".toList]
    = sortByLen ["--abc".toList, "--a_bc".toList, "-q".toList] :=
  sortByLen_eq_of_perm _ _ (by decide) (by decide)

theorem mem_dedup (l : List Str) (x : Str) : x ∈ dedup l ↔ x ∈ l := by
  induction l with
  | nil => simp [dedup]
  | cons y ys ih =>
    simp only [dedup, List.mem_cons, List.mem_filter, ih]
    constructor
    · rintro (h | ⟨h, _⟩)
      · exact .inl h
      · exact .inr h
    · rintro (h | h)
      · exact .inl h
      · by_cases hxy : x = y
        · exact .inl hxy
        · exact .inr ⟨h, by simpa using hxy⟩

/-! ### what one `add_argument` call registers -/

/-- `π` is an iteration order: it permutes every list -/
def PermFn (π : List Str → List Str) : Prop := ∀ l, (π l).Perm l

theorem permFn_id : PermFn id := fun _ => .refl _
theorem permFn_reverse : PermFn List.reverse := fun l => List.reverse_perm l

/-- `pos` orders a field's option strings without losing or inventing one -/
def PosOK (cfg : Cfg) (pos : XLeaf → Str → List Str) : Prop :=
  ∀ x pref, (pos x pref).Perm (dedup (optionList cfg (x.fw pref)))

theorem positivesSet_ok (cfg : Cfg) (π : List Str → List Str) (hπ : PermFn π) :
    PosOK cfg (positivesSet cfg π) :=
  fun _ _ => (sortByLen_perm _).trans (hπ _)

theorem positives_eq_set_id (cfg : Cfg) : positives cfg = positivesSet cfg id := by
  funext x pref
  have hp : (x.fw pref).positional = false := rfl
  simp [positives, positivesSet, optionStrings, optionStringsFrom, hp]

theorem positives_ok (cfg : Cfg) : PosOK cfg (positives cfg) := by
  rw [positives_eq_set_id]; exact positivesSet_ok cfg id permFn_id

/-- the entry `e` lists the field wrapper `x` (with resolved prefix `pref`) -/
structure Lists (cfg : Cfg) (src : Sources) (x : XLeaf) (pref : Str) (e : Entry) : Prop where
  dest : e.dest = x.dest
  cls : e.cls = x.cls
  gdest : e.gdest = x.gdest
  /-- the field's own option strings, each once, then the negative flags of a `bool` field -/
  opts : ∃ pos neg, e.opts = pos ++ neg ∧ pos.Perm (dedup (optionList cfg (x.fw pref))) ∧
    (if x.leaf.ty = .bool then negStrings pos negPrefix none pref = some neg else neg = [])
  metavar : e.metavar = Help.metavar x.leaf.ty
  dflt : e.dflt = effDefault src x
  help : e.help = helpOf x.leaf
  shown : e.shown = shownHelp (helpOf x.leaf) (effDefault src x)

theorem mkEntry_lists (cfg : Cfg) (src : Sources) (pos : XLeaf → Str → List Str) (hpos : PosOK cfg pos)
    (x : XLeaf) (pref : Str) (e : Entry) (h : mkEntry src pos x pref = some e) :
    Lists cfg src x pref e := by
  unfold mkEntry at h
  have hp := hpos x pref
  by_cases hb : x.leaf.ty = .bool
  · simp only [hb, if_true] at h
    cases hn : negStrings (pos x pref) negPrefix none pref with
    | none => rw [hn] at h; cases h
    | some neg =>
      rw [hn] at h
      simp only [Option.some.injEq] at h
      subst h
      exact ⟨rfl, rfl, rfl, ⟨_, neg, rfl, hp, by simp [hb, hn]⟩, by simp [hb], rfl, rfl, rfl⟩
  · simp only [hb, if_false, Option.some.injEq] at h
    subst h
    exact ⟨rfl, rfl, rfl, ⟨_, [], by simp, hp, by simp [hb]⟩, rfl, rfl, rfl, rfl⟩

/-- every option string the field generates is shown by its entry, and every shown string that is
    not a negative flag is one the field generates -/
theorem Lists.all_shown {cfg : Cfg} {src : Sources} {x : XLeaf} {pref : Str} {e : Entry}
    (h : Lists cfg src x pref e) (s : Str) (hs : s ∈ optionList cfg (x.fw pref)) : s ∈ e.opts := by
  obtain ⟨pos, neg, he, hp, _⟩ := h.opts
  rw [he]
  exact List.mem_append_left _ (hp.symm.subset ((mem_dedup _ _).mpr hs))

theorem mkAll_spec (src : Sources) (pos : XLeaf → Str → List Str) :
    ∀ (xs : List XLeaf) (rs : List FieldRec) (es : List Entry), mkAll src pos xs rs = some es →
      es.length = min xs.length rs.length ∧
      ∀ (i : Nat) (x : XLeaf) (r : FieldRec), xs[i]? = some x → rs[i]? = some r →
        ∃ e, es[i]? = some e ∧ mkEntry src pos x r.pref = some e
  | [], rs, es, h => by
    cases rs <;> simp [mkAll] at h <;> subst h <;> simp
  | x :: xs, [], es, h => by
    simp [mkAll] at h; subst h; simp
  | x :: xs, r :: rs, es, h => by
    simp only [mkAll] at h
    cases he : mkEntry src pos x r.pref with
    | none => rw [he] at h; cases hm : mkAll src pos xs rs <;> rw [hm] at h <;> cases h
    | some e =>
      cases hm : mkAll src pos xs rs with
      | none => rw [he, hm] at h; cases h
      | some es' =>
        rw [he, hm] at h
        simp only [Option.some.injEq] at h
        subst h
        obtain ⟨hl, hi⟩ := mkAll_spec src pos xs rs es' hm
        refine ⟨by simp [hl, Nat.succ_min_succ], ?_⟩
        intro i x' r' hx hr
        cases i with
        | zero =>
          simp only [List.getElem?_cons_zero, Option.some.injEq] at hx hr
          subst hx; subst hr
          exact ⟨e, by simp, he⟩
        | succ j =>
          simp only [List.getElem?_cons_succ] at hx hr
          obtain ⟨e', h1, h2⟩ := hi j x' r' hx hr
          exact ⟨e', by simpa using h1, h2⟩

theorem setup_ok_resolve (cfg : Cfg) (mode : CR) (res : List Str) (recs recs' : List FieldRec)
    (h : setup cfg mode res recs = .ok recs') : resolve cfg mode recs = .ok recs' := by
  unfold setup at h
  cases hr : resolve cfg mode recs with
  | err e => rw [hr] at h; cases e <;> cases h
  | ok r =>
    rw [hr] at h
    simp only at h
    split at h
    · cases h
    · cases h; rfl

/-- the wrappers `entries` works on -/
def wrappers (forest : Forest) : List XLeaf := xleaves (flatForest forest)

theorem entriesWith_eq (cfg : Cfg) (mode : CR) (forest : Forest) (src : Sources)
    (pos : XLeaf → Str → List Str) :
    entriesWith cfg mode forest src pos =
      match setup cfg mode reserved ((wrappers forest).map XLeaf.rec0) with
      | .ok recs => finish (mkAll src pos (wrappers forest) recs)
      | .conflictResolutionError => Out.conflictResolutionError
      | .assertionError => Out.assertionError
      | .argumentError => Out.argumentError := rfl

/-- what a produced help text rests on: resolution succeeded, every `add_argument` call was built,
    and none of them hit an option string that was already taken -/
theorem entriesWith_ok (cfg : Cfg) (mode : CR) (forest : Forest) (src : Sources)
    (pos : XLeaf → Str → List Str) (es : List Entry) (h : entriesWith cfg mode forest src pos = .ok es) :
    ∃ recs, setup cfg mode reserved ((wrappers forest).map XLeaf.rec0) = .ok recs ∧
      mkAll src pos (wrappers forest) recs = some es ∧ argClash reserved es = false := by
  rw [entriesWith_eq] at h
  cases hs : setup cfg mode reserved ((wrappers forest).map XLeaf.rec0) with
  | conflictResolutionError => rw [hs] at h; cases h
  | assertionError => rw [hs] at h; cases h
  | argumentError => rw [hs] at h; cases h
  | ok recs =>
    rw [hs] at h
    simp only at h
    cases hm : mkAll src pos (wrappers forest) recs with
    | none => rw [hm] at h; cases h
    | some es' =>
      rw [hm] at h
      simp only [finish] at h
      split at h
      · cases h
      · rename_i hc
        cases h
        exact ⟨recs, rfl, hm, by simpa using hc⟩

/-- the general form of `c16_complete`, for any ordering `pos` of each field's option strings -/
theorem c16_complete_with (cfg : Cfg) (mode : CR) (forest : Forest) (src : Sources)
    (pos : XLeaf → Str → List Str) (hpos : PosOK cfg pos) (es : List Entry)
    (h : entriesWith cfg mode forest src pos = .ok es) :
    ∃ recs, setup cfg mode reserved ((wrappers forest).map XLeaf.rec0) = .ok recs ∧
      recs.length = (wrappers forest).length ∧ es.length = (wrappers forest).length ∧
      ∀ (i : Nat) (x : XLeaf), (wrappers forest)[i]? = some x →
        ∃ (r : FieldRec) (e : Entry), recs[i]? = some r ∧ es[i]? = some e ∧ Lists cfg src x r.pref e := by
  obtain ⟨recs, hs, hm, _⟩ := entriesWith_ok cfg mode forest src pos es h
  · have hlen : recs.length = (wrappers forest).length := by
      have := C03.c03_frame_length cfg mode _ recs (setup_ok_resolve _ _ _ _ _ hs)
      simpa using this
    obtain ⟨hl, hi⟩ := mkAll_spec src pos _ _ _ hm
    refine ⟨recs, hs, hlen, by simp [hl, hlen], ?_⟩
    intro i x hx
    have hi' : i < recs.length := by
      rw [hlen]
      rcases Nat.lt_or_ge i (wrappers forest).length with h | h
      · exact h
      · rw [List.getElem?_eq_none h] at hx; cases hx
    obtain ⟨e, h1, h2⟩ := hi i x recs[i] hx (List.getElem?_eq_getElem hi')
    exact ⟨recs[i], e, List.getElem?_eq_getElem hi', h1, mkEntry_lists cfg src pos hpos x _ e h2⟩

/-- **C16 (complete).** For any parser configuration, any forest of registrations and any default
    sources: when `--help` can be produced at all, its entries correspond position by position to
    the command-line-exposed fields of all destinations (in wrapper pre-order) — same number, and
    the i-th entry carries the i-th field's destination and group title, every option string the
    field generates under its resolved prefix (each exactly once, plus the negative flags of a
    `bool`), its metavar, its effective default and its help text. -/
theorem c16_complete (cfg : Cfg) (mode : CR) (forest : Forest) (src : Sources) (es : List Entry)
    (h : entries cfg mode forest src = .ok es) :
    ∃ recs, setup cfg mode reserved ((wrappers forest).map XLeaf.rec0) = .ok recs ∧
      recs.length = (wrappers forest).length ∧ es.length = (wrappers forest).length ∧
      ∀ (i : Nat) (x : XLeaf), (wrappers forest)[i]? = some x →
        ∃ (r : FieldRec) (e : Entry), recs[i]? = some r ∧ es[i]? = some e ∧ Lists cfg src x r.pref e :=
  c16_complete_with cfg mode forest src _ (positives_ok cfg) es h

/-- the same held for every iteration order of the set the old code used -/
theorem c16_complete_setOrder (cfg : Cfg) (mode : CR) (forest : Forest) (src : Sources)
    (π : List Str → List Str) (hπ : PermFn π) (es : List Entry)
    (h : entriesSetOrder cfg mode forest src π = .ok es) :
    es.length = (wrappers forest).length :=
  (c16_complete_with cfg mode forest src _ (positivesSet_ok cfg π hπ) es h).choose_spec.2.2.1

/-! ### no option string is listed twice -/

theorem resolved_fw (cfg : Cfg) (mode : CR) (xs : List XLeaf) (recs : List FieldRec)
    (h : resolve cfg mode (xs.map XLeaf.rec0) = .ok recs) (i : Nat) (x : XLeaf) (r : FieldRec)
    (hx : xs[i]? = some x) (hr : recs[i]? = some r) : r.toFW = x.fw r.pref := by
  have hf := C03.c03_frame cfg mode _ recs h
  have := congrArg (fun l => l[i]?) hf
  simp only [List.getElem?_map, hx, hr, Option.map_some, Option.some.injEq] at this
  have h1 : r.name = x.leaf.name := congrArg FieldRec.name this
  have h2 : r.parentDest = x.gdest := congrArg FieldRec.parentDest this
  have h3 : r.aliases = x.leaf.aliases := congrArg FieldRec.aliases this
  simp [FieldRec.toFW, XLeaf.fw, XLeaf.dest, h1, h2, h3]

theorem mem_opts_iff (cfg : Cfg) (r : FieldRec) (s : Str) :
    s ∈ r.opts cfg ↔ s ∈ optionList cfg r.toFW := by
  have hp : r.toFW.positional = false := rfl
  simp only [FieldRec.opts, optionStrings, hp, Bool.false_eq_true, if_false]
  rw [(sortByLen_perm _).mem_iff, mem_dedup]

/-- two different fields never GENERATE the same option string (C03's uniqueness of owners after
    conflict resolution); the negative flags of `bool` fields are covered by `c16_one_entry` -/
theorem c16_positive_disjoint (cfg : Cfg) (mode : CR) (forest : Forest) (recs : List FieldRec)
    (hs : setup cfg mode reserved ((wrappers forest).map XLeaf.rec0) = .ok recs)
    (i j : Nat) (hij : i ≠ j) (x y : XLeaf) (ri rj : FieldRec)
    (hx : (wrappers forest)[i]? = some x) (hy : (wrappers forest)[j]? = some y)
    (hri : recs[i]? = some ri) (hrj : recs[j]? = some rj) (s : Str)
    (hsi : s ∈ optionList cfg (x.fw ri.pref)) (hsj : s ∈ optionList cfg (y.fw rj.pref)) : False := by
  have hres := setup_ok_resolve _ _ _ _ _ hs
  have e1 := resolved_fw cfg mode _ recs hres i x ri hx hri
  have e2 := resolved_fw cfg mode _ recs hres j y rj hy hrj
  exact C03.c03_disjoint cfg mode _ recs hres i j ri rj hri hrj hij s
    ((mem_opts_iff cfg ri s).mpr (e1 ▸ hsi)) ((mem_opts_iff cfg rj s).mpr (e2 ▸ hsj))


/-! ### every listed string — negative flags included — belongs to one entry -/

theorem argClash_false (seen : List Str) : ∀ (es : List Entry), argClash seen es = false →
    ∀ (i : Nat) (e : Entry), es[i]? = some e →
      (∀ s ∈ e.opts, s ∉ seen) ∧
      ∀ (j : Nat) (e' : Entry), j < i → es[j]? = some e' → ∀ s ∈ e.opts, s ∉ e'.opts
  | [], _, i, e, hi => by simp at hi
  | e0 :: es, h, i, e, hi => by
    simp only [argClash, Bool.or_eq_false_iff, List.any_eq_false] at h
    obtain ⟨h0, hrest⟩ := h
    have ih := argClash_false (seen ++ e0.opts) es hrest
    cases i with
    | zero =>
      simp only [List.getElem?_cons_zero, Option.some.injEq] at hi
      subst hi
      exact ⟨fun s hs => by simpa using h0 s hs, fun j e' hj => absurd hj (Nat.not_lt_zero _)⟩
    | succ k =>
      simp only [List.getElem?_cons_succ] at hi
      obtain ⟨hseen, hprev⟩ := ih k e hi
      refine ⟨fun s hs hin => hseen s hs (List.mem_append_left _ hin), ?_⟩
      intro j e' hj hj' s hs
      cases j with
      | zero =>
        simp only [List.getElem?_cons_zero, Option.some.injEq] at hj'
        subst hj'
        exact fun hin => hseen s hs (List.mem_append_right _ hin)
      | succ m =>
        exact hprev m e' (Nat.lt_of_succ_lt_succ hj) (by simpa using hj') s hs

/-- **C16 (exactly one entry).** Whenever `--help` is produced, no option string — the fields' own
    strings AND the negative flags `BooleanOptionalAction` adds — is listed by two different
    entries, and none is `-h` / `--help`: every string shown identifies one entry, hence one field
    of one destination.  (Where the code would violate this — `flag: bool` next to a field named
    `noflag` — it produces no help at all: `c16_produced_witness_negflag`.) -/
theorem c16_one_entry (cfg : Cfg) (mode : CR) (forest : Forest) (src : Sources) (es : List Entry)
    (h : entries cfg mode forest src = .ok es) (i j : Nat) (hij : i ≠ j) (a b : Entry)
    (hi : es[i]? = some a) (hj : es[j]? = some b) (s : Str) (hs : s ∈ a.opts) :
    s ∉ b.opts ∧ s ∉ reserved := by
  obtain ⟨_, _, _, hc⟩ := entriesWith_ok cfg mode forest src (positives cfg) es h
  have ha := argClash_false reserved es hc i a hi
  refine ⟨?_, ha.1 s hs⟩
  rcases Nat.lt_or_gt_of_ne hij with hlt | hgt
  · intro hsb
    exact (argClash_false reserved es hc j b hj).2 i a hlt hi s hsb hs
  · exact ha.2 j b hgt hj s hs

/-! ### when is the help produced at all -/

theorem dashFor_head (x : Str) : (dashFor x).head? = some '-' := by
  unfold dashFor; split <;> rfl

theorem aliasPair_head (pref a : Str) : (aliasPair pref a).1.head? = some '-' := by
  unfold aliasPair
  split
  · rfl
  · rfl
  · exact dashFor_head _

theorem head_append {l m : Str} {c : Char} (h : l.head? = some c) : (l ++ m).head? = some c := by
  cases l with
  | nil => cases h
  | cons x xs => simpa using h

theorem basePairs_head (cfg : Cfg) (fw : FW) (p : Str × Str) (hp : p ∈ basePairs cfg fw) :
    p.1.head? = some '-' := by
  simp only [basePairs, List.mem_append, List.mem_map] at hp
  rcases hp with (⟨c, _, rfl⟩ | h2) | ⟨a, _, rfl⟩
  · exact dashFor_head _
  · split at h2
    · simp only [List.mem_map] at h2
      obtain ⟨c, _, rfl⟩ := h2
      rfl
    · cases h2
  · exact aliasPair_head _ _

theorem extraPairs_head (cfg : Cfg) (fw : FW) (p : Str × Str) (hp : p ∈ extraPairs cfg fw) :
    p.1.head? = some '-' := by
  unfold extraPairs at hp
  split at hp
  · simp only [List.mem_map] at hp
    obtain ⟨q, _, rfl⟩ := hp
    exact dashFor_head _
  · cases hp

/-- every generated option string starts with a dash -/
theorem optionList_head (cfg : Cfg) (fw : FW) (hpos : fw.positional = false) (s : Str)
    (hs : s ∈ optionList cfg fw) : s.head? = some '-' := by
  simp only [optionList, hpos, Bool.false_eq_true, if_false, List.mem_map, List.mem_append] at hs
  obtain ⟨p, hp, rfl⟩ := hs
  rcases hp with hp | hp
  · exact head_append (basePairs_head cfg fw p hp)
  · exact head_append (extraPairs_head cfg fw p hp)

theorem splitOnChar_ne_nil (sep : Char) : ∀ s : Str, splitOnChar sep s ≠ []
  | [] => by simp [splitOnChar]
  | c :: cs => by
    simp only [splitOnChar]
    split
    · simp
    · split <;> simp

theorem splitOnChar_two (sep : Char) : ∀ s : Str, sep ∈ s → ∃ a b r, splitOnChar sep s = a :: b :: r
  | [], h => by cases h
  | c :: cs, h => by
    simp only [splitOnChar]
    by_cases hc : c = sep
    · simp only [hc, if_true]
      cases hsp : splitOnChar sep cs with
      | nil => exact absurd hsp (splitOnChar_ne_nil sep cs)
      | cons b r => exact ⟨[], b, r, rfl⟩
    · have hm : sep ∈ cs := by
        rcases List.mem_cons.mp h with h | h
        · exact absurd h.symm hc
        · exact h
      obtain ⟨a, b, r, he⟩ := splitOnChar_two sep cs hm
      simp only [hc, if_false, he]
      exact ⟨c :: a, b, r, rfl⟩

/-- `BooleanOptionalAction` can build the negative of every string that starts with a dash -/
theorem negOne_some (np opt : Str) (h : opt.head? = some '-') : ∃ n, negOne np opt = some n := by
  unfold negOne
  by_cases hd : opt.contains '.' = true
  · have hm : '.' ∈ opt := by simpa using hd
    obtain ⟨a, b, r, he⟩ := splitOnChar_two '.' opt hm
    simp only [hd, if_true, he]
    exact ⟨_, rfl⟩
  · simp only [hd, Bool.false_eq_true, if_false, h, if_true]
    exact ⟨_, rfl⟩

theorem negLoop_some (np : Str) : ∀ (opts acc : List Str), (∀ o ∈ opts, o.head? = some '-') →
    ∃ l, negLoop np acc opts = some l
  | [], acc, _ => ⟨acc, rfl⟩
  | o :: os, acc, h => by
    obtain ⟨n, hn⟩ := negOne_some np o (h o (by simp))
    have hos : ∀ o' ∈ os, o'.head? = some '-' := fun o' ho' => h o' (by simp [ho'])
    simp only [negLoop, hn]
    split
    · exact negLoop_some np os _ hos
    · split
      · exact negLoop_some np os _ hos
      · exact negLoop_some np os _ hos

theorem positives_head (cfg : Cfg) (x : XLeaf) (pref : Str) (s : Str) (hs : s ∈ positives cfg x pref) :
    s.head? = some '-' :=
  optionList_head cfg (x.fw pref) rfl s ((mem_dedup _ _).mp ((positives_ok cfg x pref).subset hs))

/-- the `NotImplementedError` arm of `BooleanOptionalAction` is never taken -/
theorem mkEntry_some (cfg : Cfg) (src : Sources) (x : XLeaf) (pref : Str) :
    ∃ e, mkEntry src (positives cfg) x pref = some e := by
  unfold mkEntry
  by_cases hb : x.leaf.ty = .bool
  · obtain ⟨l, hl⟩ := negLoop_some negPrefix (positives cfg x pref) [] (positives_head cfg x pref)
    simp only [hb, if_true, negStrings, hl]
    exact ⟨_, rfl⟩
  · simp only [hb, if_false]
    exact ⟨_, rfl⟩

theorem mkAll_some (cfg : Cfg) (src : Sources) : ∀ (xs : List XLeaf) (rs : List FieldRec),
    ∃ es, mkAll src (positives cfg) xs rs = some es
  | [], rs => by cases rs <;> exact ⟨[], by simp [mkAll]⟩
  | _ :: _, [] => ⟨[], by simp [mkAll]⟩
  | x :: xs, r :: rs => by
    obtain ⟨e, he⟩ := mkEntry_some cfg src x r.pref
    obtain ⟨es, hes⟩ := mkAll_some cfg src xs rs
    exact ⟨e :: es, by simp [mkAll, he, hes]⟩

/-- the full statement of "`--help` exits with status 0": setting up the parser either succeeds or
    is refused by the conflict resolver with its own error -/
def Produced : Prop :=
  ∀ (cfg : Cfg) (mode : CR) (forest : Forest) (src : Sources), mode ≠ .always_merge →
    (∃ es, entries cfg mode forest src = .ok es) ∨ entries cfg mode forest src = .conflictResolutionError

/-- `h: int = 3` registered at `a` -/
def helpClashForest : Forest :=
  [(.node "K0".toList "a".toList
      [{ name := "h".toList, ty := .int, dflt := some "3".toList, aliases := [] }] [] [], [])]

/-- `flag: bool = False; noflag: int = 0` registered at `a` -/
def negClashForest : Forest :=
  [(.node "K0".toList "a".toList
      [{ name := "flag".toList, ty := .bool, dflt := some "False".toList, aliases := [] },
       { name := "noflag".toList, ty := .int, dflt := some "0".toList, aliases := [] }] [] [], [])]

def cfgPlain0 : Cfg := { dash := .underscore, gen := .flat, nest := .default }

/-- **finding C16-help-clash** (root: conflicts.py:144 TODO #49, as C03-help-clash): a field named `h`
    collides with the built-in `-h`; `_preprocessing` dies with `argparse.ArgumentError`, so
    `--help` prints a traceback instead of the help. -/
theorem c16_produced_witness : ¬ Produced := by
  intro h
  have e : entries cfgPlain0 .auto helpClashForest { inst := [], files := [] } = .argumentError := by
    decide
  rcases h cfgPlain0 .auto helpClashForest { inst := [], files := [] } (by decide) with ⟨es, h⟩ | h <;>
    rw [e] at h <;> cases h

/-- **finding C16-negflag-clash** (same root): the negative flag `--noflag` of `flag: bool` collides
    with the field `noflag`; the resolver never sees negative flags, `add_argument` raises
    `argparse.ArgumentError`. -/
theorem c16_produced_witness_negflag :
    entries cfgPlain0 .auto negClashForest { inst := [], files := [] } = .argumentError := by decide

/-- **C16 (produced, partial).** Outside ALWAYS_MERGE (C11) and unless an option string collides
    with one that is already taken (`-h` / `--help`, or a negative flag against another field —
    the two findings above; decidable: the outcome is `argumentError`), the entries are produced or
    the conflict resolver refuses with `ConflictResolutionError`: no `AssertionError`, no
    `NotImplementedError`, for any forest, configuration and default sources. -/
theorem c16_produced_partial (cfg : Cfg) (mode : CR) (forest : Forest) (src : Sources)
    (hm : mode ≠ .always_merge) (hc : entries cfg mode forest src ≠ .argumentError) :
    (∃ es, entries cfg mode forest src = .ok es) ∨
      entries cfg mode forest src = .conflictResolutionError := by
  unfold entries at hc ⊢
  rw [entriesWith_eq] at hc ⊢
  cases hs : setup cfg mode reserved ((wrappers forest).map XLeaf.rec0) with
  | conflictResolutionError => right; rfl
  | argumentError => rw [hs] at hc; exact absurd rfl hc
  | assertionError =>
    exfalso
    unfold setup at hs
    cases hr : resolve cfg mode ((wrappers forest).map XLeaf.rec0) with
    | err e =>
      cases e with
      | conflictResolutionError => rw [hr] at hs; cases hs
      | assertionError => exact C03.c03_total cfg mode hm _ hr
    | ok r =>
      rw [hr] at hs
      simp only at hs
      split at hs <;> cases hs
  | ok recs =>
    rw [hs] at hc
    simp only at hc ⊢
    obtain ⟨es, hes⟩ := mkAll_some cfg src (wrappers forest) recs
    rw [hes] at hc ⊢
    simp only [finish] at hc ⊢
    split
    · rename_i hcl
      simp [hcl] at hc
    · exact .inl ⟨es, rfl⟩

/-- the hypotheses hold on a non-trivial forest (see `sampleForest` below for one with members) -/
example : entries cfgPlain0 .auto
    [(.node "K0".toList "a".toList
      [{ name := "v".toList, ty := .bool, dflt := none, aliases := ["--vv".toList] },
       { name := "x".toList, ty := .int, dflt := some "1".toList, aliases := [] }] [] [], [])]
    { inst := [], files := [] } ≠ .argumentError := by decide

/-! ### hidden fields -/

theorem filter_exposed_idem (l : List Leaf) :
    (l.filter Leaf.exposed).filter Leaf.exposed = l.filter Leaf.exposed := by
  simp [List.filter_filter]

theorem xleaves_eraseHidden (g : Group) : g.eraseHidden.xleaves = g.xleaves := by
  simp [Group.xleaves, Group.eraseHidden]

theorem xleaves_map_eraseHidden (gs : List Group) :
    xleaves (gs.map Group.eraseHidden) = xleaves gs := by
  induction gs with
  | nil => rfl
  | cons g gs ih =>
    simp only [xleaves, List.map_cons, List.flatMap_cons] at ih ⊢
    rw [xleaves_eraseHidden, ih]

mutual
theorem flat_eraseHidden (parent : Str) (level : Nat) (pref : Str) :
    ∀ t : Tree, flat parent level pref t.eraseHidden = (flat parent level pref t).map Group.eraseHidden
  | .node cls name leaves over kids cmd => by
    simp only [Tree.eraseHidden, flat, List.map_cons, Group.eraseHidden]
    rw [flatKids_eraseHidden]
theorem flatKids_eraseHidden (parent : Str) (level : Nat) :
    ∀ ts : List Tree, flatKids parent level (eraseKids ts) = (flatKids parent level ts).map Group.eraseHidden
  | [] => rfl
  | t :: ts => by
    have he : t.eraseHidden.exposed = t.exposed := by cases t; rfl
    by_cases hx : t.exposed = true
    · simp only [eraseKids, flatKids, hx, if_true, he, List.map_append]
      rw [flat_eraseHidden, flatKids_eraseHidden]
    · simp only [eraseKids, flatKids, hx, if_false, List.nil_append, Bool.false_eq_true]
      rw [flatKids_eraseHidden]
end

/-- the forest with every `cmd=False` / `init=False` field deleted from every class -/
def eraseHiddenForest (f : Forest) : Forest := f.map (fun r => (r.1.eraseHidden, r.2))

theorem flatForest_eraseHidden (f : Forest) :
    flatForest (eraseHiddenForest f) = (flatForest f).map Group.eraseHidden := by
  induction f with
  | nil => rfl
  | cons r rs ih =>
    simp only [flatForest, eraseHiddenForest, List.map_cons, List.flatMap_cons, List.map_append] at ih ⊢
    rw [flat_eraseHidden, ih]

theorem c16_hidden_with (cfg : Cfg) (mode : CR) (forest : Forest) (src : Sources)
    (pos : XLeaf → Str → List Str) :
    entriesWith cfg mode (eraseHiddenForest forest) src pos = entriesWith cfg mode forest src pos := by
  unfold entriesWith entriesOfGroups
  rw [flatForest_eraseHidden, xleaves_map_eraseHidden]

/-- **C16 (hidden fields have no influence).** Deleting every `cmd=False` (or `init=False`) field
    from every class gives exactly the same `--help` entries — the same option strings, prefixes
    after conflict resolution, defaults and errors.  Since the table of actions *is* the list of
    entries, a spelling of a hidden field is recognised exactly if it would be recognised had
    the field never been declared. -/
theorem c16_hidden (cfg : Cfg) (mode : CR) (forest : Forest) (src : Sources) :
    entries cfg mode (eraseHiddenForest forest) src = entries cfg mode forest src :=
  c16_hidden_with cfg mode forest src _

/-- every declared leaf with its destination -/
def declared (gs : List Group) : List (Str × Leaf) :=
  gs.flatMap (fun g => g.leaves.map (fun l => (g.dest ++ '.' :: l.name, l)))

theorem mem_xleaves_declared (gs : List Group) (x : XLeaf) (hx : x ∈ xleaves gs) :
    (x.dest, x.leaf) ∈ declared gs ∧ x.leaf.exposed = true := by
  simp only [xleaves, List.mem_flatMap, Group.xleaves, List.mem_map, List.mem_filter] at hx
  obtain ⟨g, hg, l, ⟨hl, he⟩, rfl⟩ := hx
  refine ⟨?_, he⟩
  simp only [declared, List.mem_flatMap, List.mem_map]
  exact ⟨g, hg, l, hl, rfl⟩

/-- **C16 (no entry for a hidden field).** When every declared field has its own destination
    (distinct root destinations and field names), no entry of `--help` carries the destination
    of a `cmd=False` / `init=False` field. -/
theorem c16_hidden_no_entry (cfg : Cfg) (mode : CR) (forest : Forest) (src : Sources)
    (es : List Entry) (h : entries cfg mode forest src = .ok es)
    (hnd : ((declared (flatForest forest)).map (·.1)).Nodup)
    (d : Str) (l : Leaf) (hl : (d, l) ∈ declared (flatForest forest)) (hh : l.exposed = false) :
    ∀ e ∈ es, e.dest ≠ d := by
  obtain ⟨recs, _, hrl, hel, hall⟩ := c16_complete cfg mode forest src es h
  intro e he hd
  obtain ⟨i, hi, rfl⟩ := List.getElem_of_mem he
  have hi' : i < (wrappers forest).length := hel ▸ hi
  obtain ⟨r, e', _, h2, hL⟩ := hall i _ (List.getElem?_eq_getElem hi')
  rw [List.getElem?_eq_getElem hi, Option.some.injEq] at h2
  subst h2
  obtain ⟨hm, hexp⟩ := mem_xleaves_declared _ _ (List.getElem_mem hi')
  have := inj_of_nodup_map (·.1) _ hnd _ _ hm hl (by simpa [hL.dest] using hd)
  have : (wrappers forest)[i].leaf = l := congrArg (·.2) this
  rw [this, hh] at hexp
  cases hexp


/-! ### the shown default is the effective default -/

/-- the last applied file that mentions the field wins -/
theorem fileDefault_append_some (fs : List (List (Str × Str))) (f : List (Str × Str)) (d v : Str)
    (h : f.lookup d = some v) : fileDefault (fs ++ [f]) d = some v := by
  induction fs with
  | nil => simp [fileDefault, h]
  | cons g gs ih => simp [fileDefault, ih]

theorem fileDefault_append_none (fs : List (List (Str × Str))) (f : List (Str × Str)) (d : Str)
    (h : f.lookup d = none) : fileDefault (fs ++ [f]) d = fileDefault fs d := by
  induction fs with
  | nil => simp [fileDefault, h]
  | cons g gs ih => simp [fileDefault, ih]

/-- config files beat everything -/
theorem effDefault_file (src : Sources) (x : XLeaf) (v : Str)
    (h : fileDefault src.files x.dest = some v) : effDefault src x = some v := by
  simp [effDefault, h]

/-- else the default instance given to `add_arguments` -/
theorem effDefault_inst (src : Sources) (x : XLeaf) (v : Option Str)
    (hf : fileDefault src.files x.dest = none) (h : src.inst.lookup x.dest = some v) :
    effDefault src x = v := by
  simp [effDefault, hf, h]

/-- else the keyword override of the enclosing member's factory -/
theorem effDefault_member (src : Sources) (x : XLeaf) (v : Option Str)
    (hf : fileDefault src.files x.dest = none) (hi : src.inst.lookup x.dest = none)
    (h : x.over.lookup x.leaf.name = some v) : effDefault src x = v := by
  simp [effDefault, hf, hi, h]

/-- else the definition -/
theorem effDefault_definition (src : Sources) (x : XLeaf)
    (hf : fileDefault src.files x.dest = none) (hi : src.inst.lookup x.dest = none)
    (h : x.over.lookup x.leaf.name = none) : effDefault src x = x.leaf.dflt := by
  simp [effDefault, hf, hi, h]

/-- a default that is not `None` is always shown, as the last thing in the help column -/
theorem shownHelp_default (h v : Str) :
    ∃ pre, shownHelp h (some v) = pre ++ defaultOpen ++ v ++ [')'] := by
  unfold shownHelp
  by_cases hh : h.isEmpty
  · exact ⟨[], by simp [hh]⟩
  · exact ⟨h ++ [' '], by simp [hh]⟩

/-- the field's help text is the beginning of the help column -/
theorem shownHelp_help (h : Str) (d : Option Str) : ∃ post, shownHelp h d = h ++ post := by
  unfold shownHelp
  by_cases hh : h.isEmpty
  · have : h = [] := by simpa using hh
    subst this
    exact ⟨_, (List.nil_append _).symm⟩
  · exact ⟨_, by simp [hh]; rfl⟩

/-- **C16 (accurate).** In every entry the help column starts with the field's own help text
    and — whenever the effective default (config files > default instance > member factory >
    definition) is not `None` — ends with `(default: <that value>)`. -/
theorem c16_accurate (cfg : Cfg) (src : Sources) (x : XLeaf) (pref : Str) (e : Entry)
    (h : Lists cfg src x pref e) :
    (∃ post, e.shown = helpOf x.leaf ++ post) ∧
    (∀ v, effDefault src x = some v → ∃ pre, e.shown = pre ++ defaultOpen ++ v ++ [')']) := by
  refine ⟨?_, ?_⟩
  · rw [h.shown]; exact shownHelp_help _ _
  · intro v hv; rw [h.shown, hv]; exact shownHelp_default _ _

/-! ### reproducibility across hash seeds -/

/-- elements of a length-sorted list are at least as long as its head -/
theorem SortedLen.head_le {y : Str} {ys : List Str} (h : SortedLen (y :: ys)) :
    ∀ b ∈ y :: ys, y.length ≤ b.length := by
  intro b hb
  rcases List.mem_cons.mp hb with rfl | hb
  · exact Nat.le_refl _
  · exact (List.pairwise_cons.mp h).1 b hb

/-- inserting into a sorted list puts the new string after all strings of the same length -/
theorem insertByLen_filter (n : Nat) (x : Str) (l : List Str) (h : SortedLen l) :
    (insertByLen x l).filter (fun s => s.length == n)
      = l.filter (fun s => s.length == n) ++ [x].filter (fun s => s.length == n) := by
  induction l with
  | nil => simp [insertByLen]
  | cons y ys ih =>
    simp only [insertByLen]
    split
    · rename_i hlt
      by_cases hx : x.length = n
      · have hnone : (y :: ys).filter (fun s => s.length == n) = [] := by
          rw [List.filter_eq_nil_iff]
          intro b hb
          have := h.head_le b hb
          simp only [beq_iff_eq]
          omega
        rw [hnone]
        simp [hx, hnone]
      · have : [x].filter (fun s => s.length == n) = [] := by simp [hx]
        rw [this, List.append_nil, List.filter_cons]
        simp [hx]
    · rw [List.filter_cons, List.filter_cons, ih (List.pairwise_cons.mp h).2]
      split <;> simp

theorem foldl_insertByLen_filter (n : Nat) (l acc : List Str) (h : SortedLen acc) :
    (l.foldl (fun acc x => insertByLen x acc) acc).filter (fun s => s.length == n)
      = acc.filter (fun s => s.length == n) ++ l.filter (fun s => s.length == n) := by
  induction l generalizing acc with
  | nil => simp
  | cons x xs ih =>
    simp only [List.foldl_cons]
    rw [ih _ (insertByLen_sorted x acc h), insertByLen_filter n x acc h, List.filter_cons]
    split <;> simp_all

/-- **`sortByLen` is the stable sort by length**: strings of one length keep their relative order -/
theorem sortByLen_stable (n : Nat) (l : List Str) :
    (sortByLen l).filter (fun s => s.length == n) = l.filter (fun s => s.length == n) := by
  simpa [sortByLen] using foldl_insertByLen_filter n l [] List.Pairwise.nil

/-- **C16 (reproducible) — full since fix 4849cc7.** The order in which an entry (and the usage
    line) shows a field's option strings is a function of the declaration alone: it is the list of
    generated strings in generation order (name, nested name, aliases in declaration order, then
    their dash variants — `optionList`), first occurrences only, shortest first, and strings of
    equal length in generation order.  No hash-ordered container is consulted, so nothing in the
    entries can differ between interpreter runs. -/
theorem c16_order_deterministic (cfg : Cfg) (x : XLeaf) (pref : Str) :
    (positives cfg x pref).Perm (dedup (optionList cfg (x.fw pref))) ∧
    SortedLen (positives cfg x pref) ∧
    ∀ n, (positives cfg x pref).filter (fun s => s.length == n)
          = (dedup (optionList cfg (x.fw pref))).filter (fun s => s.length == n) := by
  have hp : (x.fw pref).positional = false := rfl
  have e : positives cfg x pref = sortByLen (dedup (optionList cfg (x.fw pref))) := by
    simp [positives, optionStrings, hp]
  rw [e]
  exact ⟨sortByLen_perm _, sortByLen_sorted _, fun n => sortByLen_stable n _⟩

theorem mkEntry_opts (src : Sources) (pos : XLeaf → Str → List Str) (x : XLeaf) (pref : Str) (e : Entry)
    (h : mkEntry src pos x pref = some e) : ∃ neg, e.opts = pos x pref ++ neg := by
  unfold mkEntry at h
  by_cases hb : x.leaf.ty = .bool
  · simp only [hb, if_true] at h
    cases hn : negStrings (pos x pref) negPrefix none pref with
    | none => rw [hn] at h; cases h
    | some neg => rw [hn] at h; cases h; exact ⟨neg, rfl⟩
  · simp only [hb, if_false, Option.some.injEq] at h
    subst h
    exact ⟨[], by simp⟩

/-- **C16 (reproducible: the canonical order).** Whenever `--help` can be produced, the option
    strings of the i-th entry are — in this order — `Naming.optionStrings` of the i-th exposed
    field under its resolved prefix (followed by the negative flags of a `bool`): the
    order-preserving de-duplication of the generated strings, stably sorted by length
    (`c16_order_deterministic`).  Nothing in it refers to an iteration order, so the entries — and
    with them usage and help text — are the same in every interpreter and under every hash seed. -/
theorem c16_perm_invariant (cfg : Cfg) (mode : CR) (forest : Forest) (src : Sources) (es : List Entry)
    (h : entries cfg mode forest src = .ok es) :
    ∃ recs, setup cfg mode reserved ((wrappers forest).map XLeaf.rec0) = .ok recs ∧
      ∀ (i : Nat) (x : XLeaf), (wrappers forest)[i]? = some x →
        ∃ (r : FieldRec) (e : Entry) (neg : List Str), recs[i]? = some r ∧ es[i]? = some e ∧
          e.opts = optionStrings cfg (x.fw r.pref) ++ neg := by
  obtain ⟨recs, hs, hrl, _, _⟩ := c16_complete cfg mode forest src es h
  refine ⟨recs, hs, ?_⟩
  intro i x hx
  obtain ⟨recs', hs', hm, _⟩ := entriesWith_ok cfg mode forest src (positives cfg) es h
  rw [hs] at hs'
  cases hs'
  · have hi' : i < recs.length := by
      rw [hrl]
      rcases Nat.lt_or_ge i (wrappers forest).length with h | h
      · exact h
      · rw [List.getElem?_eq_none h] at hx; cases hx
    obtain ⟨e, h1, h2⟩ := (mkAll_spec src (positives cfg) _ _ _ hm).2 i x recs[i] hx
      (List.getElem?_eq_getElem hi')
    obtain ⟨neg, hneg⟩ := mkEntry_opts src (positives cfg) x _ e h2
    exact ⟨recs[i], e, neg, List.getElem?_eq_getElem hi', h1, hneg⟩

/-- the current code is the old code run with the insertion order as "set order" -/
theorem entries_eq_setOrder_id (cfg : Cfg) (mode : CR) (forest : Forest) (src : Sources) :
    entries cfg mode forest src = entriesSetOrder cfg mode forest src id := by
  unfold entries entriesSetOrder
  rw [positives_eq_set_id]

/-- the statement the OLD code (set, then sort by length) would have needed: its entries do not
    depend on the iteration order of the set -/
def PermInvariant : Prop :=
  ∀ (cfg : Cfg) (mode : CR) (forest : Forest) (src : Sources) (π₁ π₂ : List Str → List Str),
    PermFn π₁ → PermFn π₂ →
      entriesSetOrder cfg mode forest src π₁ = entriesSetOrder cfg mode forest src π₂

/-- `a_b: int = 3` registered at `a` -/
def witnessForest : Forest :=
  [(.node "K0".toList "a".toList
      [{ name := "a_b".toList, ty := .int, dflt := some "3".toList, aliases := [] }] [] [], [])]

def cfgBoth : Cfg := { dash := .both, gen := .flat, nest := .default }
def noSources : Sources := { inst := [], files := [] }

/-- **the fixed defect D3 (C16-D3-set-order)**: `a_b: int` under UNDERSCORE_AND_DASH has the two
    option strings `--a_b` / `--a-b` of equal length; the two iteration orders of that two-element
    set gave two different entries (and usage lines).  A reintroduced `set` would bring this back. -/
theorem c16_perm_invariant_witness : ¬ PermInvariant := by
  intro h
  have := h cfgBoth .auto witnessForest noSources id List.reverse permFn_id permFn_reverse
  revert this
  decide

/-- some field ends up (after conflict resolution) with two option strings of equal length -/
def equalLengthTie (cfg : Cfg) (mode : CR) (forest : Forest) : Bool :=
  match setup cfg mode reserved ((wrappers forest).map XLeaf.rec0) with
  | .ok recs => ((wrappers forest).zip recs).any (fun p =>
      !decide (((dedup (optionList cfg (p.1.fw p.2.pref))).map List.length).Nodup))
  | _ => false

theorem mkAll_congr (src : Sources) (pos₁ pos₂ : XLeaf → Str → List Str) :
    ∀ (xs : List XLeaf) (rs : List FieldRec),
      (∀ p ∈ xs.zip rs, pos₁ p.1 p.2.pref = pos₂ p.1 p.2.pref) →
      mkAll src pos₁ xs rs = mkAll src pos₂ xs rs
  | [], rs, _ => by cases rs <;> simp [mkAll]
  | _ :: _, [], _ => by simp [mkAll]
  | x :: xs, r :: rs, h => by
    have h0 := h (x, r) (by simp)
    have ih := mkAll_congr src pos₁ pos₂ xs rs (fun p hp => h p (by simp [hp]))
    simp only [mkAll, mkEntry, h0, ih]

/-- **the old code was reproducible only without ties.** If no field has two option strings of
    equal length, the set-ordered entries are the same for every iteration order. -/
theorem c16_perm_invariant_partial (cfg : Cfg) (mode : CR) (forest : Forest) (src : Sources)
    (π₁ π₂ : List Str → List Str) (h₁ : PermFn π₁) (h₂ : PermFn π₂)
    (hd : equalLengthTie cfg mode forest = false) :
    entriesSetOrder cfg mode forest src π₁ = entriesSetOrder cfg mode forest src π₂ := by
  unfold entriesSetOrder
  rw [entriesWith_eq, entriesWith_eq]
  unfold equalLengthTie at hd
  cases hs : setup cfg mode reserved ((wrappers forest).map XLeaf.rec0) with
  | conflictResolutionError => rfl
  | assertionError => rfl
  | argumentError => rfl
  | ok recs =>
    rw [hs] at hd
    simp only [List.any_eq_false] at hd
    have : mkAll src (positivesSet cfg π₁) (wrappers forest) recs
        = mkAll src (positivesSet cfg π₂) (wrappers forest) recs := by
      apply mkAll_congr
      intro p hp
      have hn := hd p hp
      have hn : ((dedup (optionList cfg (p.1.fw p.2.pref))).map List.length).Nodup := by
        simpa using hn
      unfold positivesSet optionStringsFrom
      apply sortByLen_eq_of_perm
      · exact (h₁ _).trans (h₂ _).symm
      · exact ((h₁ _).map List.length).nodup_iff.mpr hn
    simp only [this]

/-- without ties the old code listed exactly what the current code lists -/
theorem c16_setOrder_eq_entries (cfg : Cfg) (mode : CR) (forest : Forest) (src : Sources)
    (π : List Str → List Str) (hπ : PermFn π) (hd : equalLengthTie cfg mode forest = false) :
    entriesSetOrder cfg mode forest src π = entries cfg mode forest src := by
  rw [entries_eq_setOrder_id]
  exact c16_perm_invariant_partial cfg mode forest src π id hπ permFn_id hd

/-- the hypothesis is satisfiable by a non-trivial input: `lr: float` with alias `--rate`, `x: int` -/
example : equalLengthTie cfgBoth .auto
    [(.node "K0".toList "a".toList
      [{ name := "lr".toList, ty := .float, dflt := some "0.5".toList, aliases := ["--rate".toList] },
       { name := "x".toList, ty := .int, dflt := none, aliases := [] }] [] [], [])] = false := by decide

example : equalLengthTie cfgBoth .auto witnessForest = true := by decide

/-- on the witness the current code shows the generation order `--a_b`, `--a-b` -/
example : ∃ e, entries cfgBoth .auto witnessForest noSources = .ok [e] ∧
    e.opts = ["--a_b".toList, "--a-b".toList] := ⟨_, rfl, by decide⟩

/-! ### producing the help changes nothing about later parsing -/

/-- the full statement, for any kind of table and any way of running it -/
def NoSideEffect : Prop :=
  ∀ (T R : Type) (run : T → List Str → R) (p : Parser T) (args : List Str),
    p.table = none → p.ctorApplied = false → p.argvApplied = false →
    (Parser.parse run p.printHelp args).1 = (Parser.parse run p args).1

/-- the same with the `print_help` of the code before fix e83a7f8 -/
def NoSideEffectOld : Prop :=
  ∀ (T R : Type) (run : T → List Str → R) (p : Parser T) (args : List Str),
    p.table = none → p.ctorApplied = false → p.argvApplied = false →
    (Parser.parse run p.printHelpOld args).1 = (Parser.parse run p args).1

/-- `x: int = 3` at `a`, config file `{a: {x: 9}}` -/
def witnessFileForest : Forest :=
  [(.node "K0".toList "a".toList
      [{ name := "x".toList, ty := .int, dflt := some "3".toList, aliases := [] }] [] [], [])]

def witnessFile : List (Str × Str) := [("a.x".toList, "9".toList)]
def witnessFileSources : Sources := { inst := [], files := [witnessFile] }
def witnessNoFileSources : Sources := { inst := [], files := [] }

def cfgPlain : Cfg := { dash := .underscore, gen := .flat, nest := .default }

/-- **finding C16-print-help-before-argv-config (open)**: `print_help()` builds the table before the
    file named by `--config_path` on the later command line was pushed into the wrappers, and the
    latch keeps that table: the later parse runs on default `3` where a parse without
    `print_help()` runs on `9`. -/
theorem c16_no_side_effect_witness : ¬ NoSideEffect := by
  intro h
  have := h Out Out (fun t _ => t)
    (helpParser cfgPlain .auto witnessFileForest witnessNoFileSources [witnessFile] (fun _ => true))
    [] rfl rfl rfl
  revert this
  decide

/-- **finding C16-print-help-before-config (repaired by e83a7f8)**: the old `print_help()` did the
    same to the constructor's `config_path=` files … -/
theorem c16_no_side_effect_old_ctor_witness : ¬ NoSideEffectOld := by
  intro h
  have := h Out Out (fun t _ => t)
    (helpParser cfgPlain .auto witnessFileForest witnessFileSources) [] rfl rfl rfl
  revert this
  decide

/-- … on which the repaired one is harmless -/
example : (Parser.parse (fun t _ => t)
      (helpParser cfgPlain .auto witnessFileForest witnessFileSources).printHelp []).1
    = (Parser.parse (fun t _ => t)
      (helpParser cfgPlain .auto witnessFileForest witnessFileSources) ([] : List Str)).1 := by decide

/-- **C16 (no side effect, partial).** For a parser whose later command line names no config file
    and whose table does not depend on the arguments `_preprocessing` is called with (no subgroup
    fields — D9 belongs to C08), a parse after `print_help()` returns what a parse without it
    returns — with or without constructor config files (since fix e83a7f8). -/
theorem c16_no_side_effect_partial {T R : Type} (run : T → List Str → R) (p : Parser T)
    (args : List Str) (ht : p.table = none)
    (hfiles : p.namesFiles args = false) (hsub : ∀ b c a₁ a₂, p.build b c a₁ = p.build b c a₂) :
    (Parser.parse run p.printHelp args).1 = (Parser.parse run p args).1 := by
  simp [Parser.parse, Parser.printHelp, Parser.prep, ht, hfiles,
    hsub (p.ctorApplied || p.hasCtorFiles) p.argvApplied [] args]

/-- the same for the old code needed "no constructor files" as well -/
theorem c16_no_side_effect_old_partial {T R : Type} (run : T → List Str → R) (p : Parser T)
    (args : List Str) (ht : p.table = none) (hctor : p.hasCtorFiles = false)
    (hfiles : p.namesFiles args = false) (hsub : ∀ b c a₁ a₂, p.build b c a₁ = p.build b c a₂) :
    (Parser.parse run p.printHelpOld args).1 = (Parser.parse run p args).1 := by
  simp [Parser.parse, Parser.printHelpOld, Parser.prep, ht, hfiles, hctor,
    hsub p.ctorApplied p.argvApplied [] args]

/-- the entries model has no subgroup fields: unless the command line names a file, `print_help()`
    is harmless, whatever files the constructor was given -/
theorem c16_no_side_effect_entries {R : Type} (run : Out → List Str → R) (cfg : Cfg) (mode : CR)
    (forest : Forest) (src : Sources) (argvFiles : List (List (Str × Str))) (names : List Str → Bool)
    (args : List Str) (hfiles : names args = false) :
    (Parser.parse run (helpParser cfg mode forest src argvFiles names).printHelp args).1
      = (Parser.parse run (helpParser cfg mode forest src argvFiles names) args).1 :=
  c16_no_side_effect_partial run _ args rfl (by simp [helpParser, hfiles]) (fun _ _ _ _ => rfl)

/-! ### the `--help` FLAG route -/

/-- the full statement for `parse_args([..., "--help"])` (caught `SystemExit`) followed by another
    parse on the same parser object -/
def NoSideEffectDashHelp : Prop :=
  ∀ (T R : Type) (run : T → List Str → R) (p : Parser T) (a₁ a₂ : List Str),
    p.table = none → p.ctorApplied = false → p.argvApplied = false →
    (Parser.parse run (p.dashHelp a₁) a₂).1 = (Parser.parse run p a₂).1

/-- **finding C16-print-help-before-argv-config, `--help` route**: `parse_args(["--help"])` builds the
    table; a later `parse_args(["--config_path", f])` on the same parser runs on default `3` where a
    fresh parser gives `9` (here: a command line names a file iff it is non-empty). -/
theorem c16_no_side_effect_dash_help_witness : ¬ NoSideEffectDashHelp := by
  intro h
  have := h Out Out (fun t _ => t)
    (helpParser cfgPlain .auto witnessFileForest witnessNoFileSources [witnessFile]
      (fun a => !a.isEmpty)) [] ["--config_path".toList] rfl rfl rfl
  revert this
  decide

/-- the other direction: `--config_path f --help` first, then a parse that names no file, keeps `9` -/
example : (Parser.parse (fun t _ => t)
      ((helpParser cfgPlain .auto witnessFileForest witnessNoFileSources [witnessFile]
        (fun a => !a.isEmpty)).dashHelp ["--config_path".toList]) []).1
    ≠ (Parser.parse (fun t _ => t)
      (helpParser cfgPlain .auto witnessFileForest witnessNoFileSources [witnessFile]
        (fun a => !a.isEmpty)) ([] : List Str)).1 := by decide

/-- **C16 (no side effect of the `--help` flag, partial).** If the command line that carried
    `--help` and the later command line agree on whether they name config files, and the table
    does not depend on the arguments (no subgroup fields), the later parse returns what a fresh
    parser returns — with or without constructor config files: unlike the old `print_help()`, the
    flag route always applied them first. -/
theorem c16_no_side_effect_dash_help_partial {T R : Type} (run : T → List Str → R) (p : Parser T)
    (a₁ a₂ : List Str) (ht : p.table = none) (hn : p.namesFiles a₁ = p.namesFiles a₂)
    (hsub : ∀ b c x y, p.build b c x = p.build b c y) :
    (Parser.parse run (p.dashHelp a₁) a₂).1 = (Parser.parse run p a₂).1 := by
  simp [Parser.parse, Parser.dashHelp, Parser.prep, ht, hn,
    hsub (p.ctorApplied || p.hasCtorFiles) (p.argvApplied || p.namesFiles a₂) a₁ a₂]

theorem c16_no_side_effect_dash_help_entries {R : Type} (run : Out → List Str → R) (cfg : Cfg) (mode : CR)
    (forest : Forest) (src : Sources) (argvFiles : List (List (Str × Str))) (names : List Str → Bool)
    (a₁ a₂ : List Str) (hn : names a₁ = names a₂) :
    (Parser.parse run ((helpParser cfg mode forest src argvFiles names).dashHelp a₁) a₂).1
      = (Parser.parse run (helpParser cfg mode forest src argvFiles names) a₂).1 :=
  c16_no_side_effect_dash_help_partial run _ a₁ a₂ rfl (by simpa [helpParser] using hn)
    (fun _ _ _ _ => rfl)

/-- non-trivial instance: constructor files present, both command lines name none -/
example : (Parser.parse (fun t _ => t)
      ((helpParser cfgPlain .auto witnessFileForest witnessFileSources).dashHelp []) []).1
    = (Parser.parse (fun t _ => t)
      (helpParser cfgPlain .auto witnessFileForest witnessFileSources) ([] : List Str)).1 :=
  c16_no_side_effect_dash_help_entries _ _ _ _ _ _ _ _ _ rfl

/-- a second `print_help()` / a `print_help()` after a parse never rebuilds the table -/
theorem printHelp_after_table {T : Type} (p : Parser T) (t : T) (h : p.table = some t) :
    p.printHelp = p := by
  simp [Parser.printHelp, h]

/-- `_preprocessing` always leaves a table behind -/
theorem prep_table_some {T : Type} (p : Parser T) (args : List Str) : ∃ t, (p.prep args).table = some t := by
  unfold Parser.prep
  cases h : p.table with
  | some t => exact ⟨t, by simp [h]⟩
  | none => exact ⟨_, rfl⟩

theorem printHelp_table_some {T : Type} (p : Parser T) : ∃ t, p.printHelp.table = some t := by
  unfold Parser.printHelp
  cases h : p.table with
  | some t => exact ⟨t, by simp [h]⟩
  | none => exact prep_table_some _ []

/-- **C16 (the text can be produced again).** Producing the help a second, third, … time on the same
    parser object formats the very same table (the latch `_preprocessing_done`): `print_help()` is
    idempotent on the parser state — so the repeated texts can only be equal if formatting itself
    leaves the actions untouched, which the harness checks on the real code (sequences of
    `print_help` / `format_help` / `--help` on one parser). -/
theorem c16_rehelp {T : Type} (p : Parser T) : p.printHelp.printHelp = p.printHelp := by
  obtain ⟨t, ht⟩ := printHelp_table_some p
  exact printHelp_after_table _ t ht

/-- … and the same after a parse in between -/
theorem c16_rehelp_after_parse {T R : Type} (run : T → List Str → R) (p : Parser T) (args : List Str) :
    (Parser.parse run p args).2.printHelp = (Parser.parse run p args).2 := by
  obtain ⟨t, ht⟩ := prep_table_some { p with ctorApplied := p.ctorApplied || p.hasCtorFiles,
                                             argvApplied := p.argvApplied || p.namesFiles args } args
  have : (Parser.parse run p args).2
      = Parser.prep { p with ctorApplied := p.ctorApplied || p.hasCtorFiles,
                             argvApplied := p.argvApplied || p.namesFiles args } args := by
    unfold Parser.parse
    simp only
    split <;> rfl
  rw [this]
  exact printHelp_after_table _ t ht

/-! ### non-vacuity: a forest on which `--help` is produced, with a hidden field, a nested member,
    a default instance and a config file -/

def sampleForest : Forest :=
  [(.node "K1".toList "cfg".toList
      [{ name := "n".toList, ty := .int, dflt := some "2".toList, aliases := [] },
       { name := "secret".toList, ty := .str, dflt := some "s".toList, aliases := [], cmd := false }]
      []
      [.node "K0".toList "m".toList
        [{ name := "lr".toList, ty := .float, dflt := some "0.5".toList, aliases := ["--rate".toList],
           helpExplicit := "learning rate".toList },
         { name := "flag".toList, ty := .bool, dflt := some "False".toList, aliases := [] }]
        [("lr".toList, some "0.1".toList)] []], [])]

def sampleSources : Sources :=
  { inst := [], files := [[("cfg.n".toList, "7".toList)], [("cfg.m.lr".toList, "0.3".toList)]] }

example : ∃ es, entries cfgBoth .auto sampleForest sampleSources = .ok es ∧ es.length = 3 ∧
    es.map (·.dflt) = [some "7".toList, some "0.3".toList, some "False".toList] ∧
    es.map (·.opts) = [["-n".toList, "--n".toList], ["--lr".toList, "--rate".toList],
      ["--flag".toList, "--noflag".toList]] := by
  refine ⟨_, rfl, ?_⟩
  decide

example : ((declared (flatForest sampleForest)).map (·.1)).Nodup := by decide

/-- the hypotheses of `c16_one_entry` / `c16_hidden_no_entry` are met by the sample (its hidden field
    `cfg.secret` is declared, not exposed, and the parser can be set up) -/
def sampleHidden : Leaf :=
  { name := "secret".toList, ty := .str, dflt := some "s".toList, aliases := [], cmd := false }

example : ("cfg.secret".toList, sampleHidden) ∈ declared (flatForest sampleForest)
    ∧ sampleHidden.exposed = false := by decide

example : ∃ recs, setup cfgBoth .auto reserved ((wrappers sampleForest).map XLeaf.rec0) = .ok recs ∧
    recs.length = 3 := ⟨_, rfl, rfl⟩

/-- a `cmd=False` MEMBER hides its whole subtree: no group, no entry, and `eraseHiddenForest` deletes it -/
def hiddenMemberForest : Forest :=
  [(.node "K1".toList "cfg".toList
      [{ name := "n".toList, ty := .int, dflt := some "2".toList, aliases := [] }] []
      [.node "K0".toList "m".toList
        [{ name := "lr".toList, ty := .float, dflt := some "0.5".toList, aliases := [] }] [] [] false,
       .node "K0".toList "k".toList
        [{ name := "lr".toList, ty := .float, dflt := some "0.5".toList, aliases := [] }] [] []], [])]

example : (flatForest hiddenMemberForest).map (·.dest) = ["cfg".toList, "cfg.k".toList]
    ∧ (flatForest (eraseHiddenForest hiddenMemberForest)).length = 2
    ∧ ∃ es, entries cfgBoth .auto hiddenMemberForest noSources = .ok es ∧
        es.map (·.dest) = ["cfg.n".toList, "cfg.k.lr".toList] := by
  refine ⟨by decide, by decide, _, rfl, by decide⟩

/-- hidden fields really are erased by `eraseHiddenForest` (the statement of `c16_hidden` is not
    about two equal forests) -/
example : (declared (flatForest (eraseHiddenForest sampleForest))).length + 1
    = (declared (flatForest sampleForest)).length := by decide

example : equalLengthTie cfgBoth .auto sampleForest = false := by decide


end SpVerif.C16
