/-
  C07 — a subgroup choice selects the type, its defaults and its options.

  Theorems over `SpVerif.Model.Subgroups` (the rounds of `_resolve_subgroups` + the main parse).
  The loop theorems are by induction on the number of rounds, i.e. on the nesting depth of subgroups
  inside subgroups, with no bound.  Gaps that are *named* here:
    * `ReportsStatement` (namespace.subgroups = the chosen keys, unconditionally) is refuted by
      `c07_reports_witness` (`--mod kb`: the choice parser forbids abbreviations, the main parser accepts
      them); `c07_reports_partial` proves it for command lines that the two parsers read alike.
    * `NoCrashStatement` is refuted by `c07_instance_witness` (a frozen-instance alternative whose class
      has a subgroup field with a default key: AssertionError).
    * under EXPLICIT resolution a valid tree can crash with ArgumentError (`c07_explicit_witness`).
    * that option strings registered in the choice parser are never renamed by a later conflict
      resolution is not proved (hypothesis `SameReading` of `c07_reports_partial`); it is covered by the
      correspondence ops `sg.rounds` / `sg.e2e`.
  Union[A, B] sub-commands use argparse sub-parsers, which are not modelled (oracle only).
-/
import SpVerif.Model.Subgroups
namespace SpVerif.C07
open SpVerif SpVerif.Subgroups

/-! ### 0. small list facts -/

theorem lookup_map_mem {α : Type} (l : List α) (key : α → Str) (val : α → Val) (d : Str) (v : Val)
    (h : (l.map (fun a => (key a, val a))).lookup d = some v) :
    ∃ a ∈ l, key a = d ∧ val a = v := by
  induction l with
  | nil => simp [List.lookup] at h
  | cons x xs ih =>
    simp only [List.map_cons, List.lookup] at h
    by_cases hk : d == key x
    · simp only [hk] at h
      refine ⟨x, by simp, ?_, ?_⟩
      · exact (eq_of_beq hk).symm
      · simpa using h
    · simp only [hk] at h
      obtain ⟨a, ha, h1, h2⟩ := ih h
      exact ⟨a, by simp [ha], h1, h2⟩

/-! ### 1. argparse at outcome level -/

/-- an exact option string is read the same way with and without abbreviations -/
theorem findOpt_exact (ab : Bool) (tbl : List Act) (o : Str) (a : Act) (h : findExact tbl o = some a) :
    findOpt ab tbl o = .act a := by
  simp [findOpt, h]

/-- registering further actions never changes which action an already known option addresses -/
theorem findExact_append_left (tbl ext : List Act) (o : Str) (a : Act) (h : findExact tbl o = some a) :
    findExact (tbl ++ ext) o = some a := by
  induction tbl with
  | nil => simp [findExact] at h
  | cons x xs ih =>
    simp only [List.cons_append, findExact] at h ⊢
    cases hx : x.opts.contains o with
    | true => simp only [hx, ↓reduceIte] at h ⊢; exact h
    | false => simp only [hx, Bool.false_eq_true, ↓reduceIte] at h ⊢; exact ih h

theorem parseOut_ok (ab strict : Bool) (tbl : List Act) (argv : List (Str × Str)) (ns : List (Str × Val))
    (h : parseOut ab strict tbl argv = .ok ns) :
    ns = tbl.map (fun a => (a.dest, actValue ab tbl argv a)) ∧
    argv.all pairOk = true ∧
    argv.any (pairBad ab strict tbl) = false ∧
    tbl.any (fun a => a.required && (lastFor ab tbl a.dest argv).isNone) = false := by
  unfold parseOut at h
  split at h
  · cases h
  · split at h
    · cases h
    · split at h
      · cases h
      · rename_i h1 h2 h3
        refine ⟨by injection h with h; exact h.symm, ?_, ?_, ?_⟩
        · simpa using h1
        · simpa using h2
        · simpa using h3

/-- any pair that cannot be taken ends a (well-shaped) command line with status 2 -/
theorem parseOut_bad (ab strict : Bool) (tbl : List Act) (argv : List (Str × Str))
    (hshape : argv.all pairOk = true) (p : Str × Str) (hp : p ∈ argv)
    (hbad : pairBad ab strict tbl p = true) : parseOut ab strict tbl argv = .exit2 := by
  unfold parseOut
  have : argv.any (pairBad ab strict tbl) = true := List.any_eq_true.mpr ⟨p, hp, hbad⟩
  simp [hshape, this]

/-- the value of a string-typed action with choices (a subgroup option): the last value passed
    under an option addressing it — which is then one of the choices — else its default -/
theorem actValue_choice (ab : Bool) (tbl : List Act) (argv : List (Str × Str)) (a : Act) (k : Str)
    (hconv : a.conv = .base .str) (h : actValue ab tbl argv a = .sc (.str k)) :
    (lastFor ab tbl a.dest argv = some k ∧ ∀ ch, a.choices = some ch → ch.contains k = true) ∨
    (lastFor ab tbl a.dest argv = none ∧ a.default = some (.sc (.str k))) := by
  unfold actValue at h
  cases hl : lastFor ab tbl a.dest argv with
  | none =>
    right
    simp only [hl] at h
    refine ⟨rfl, ?_⟩
    cases hd : a.default with
    | none => simp [hd] at h
    | some d => simp only [hd, Option.getD_some] at h; rw [h]
  | some v =>
    left
    simp only [hl] at h
    have hc : convOk a v = some (.str k) := by
      cases hc : convOk a v with
      | none => simp [hc] at h
      | some s => simp only [hc, Val.sc.injEq] at h; rw [h]
    unfold convOk at hc
    simp only [hconv, Conv.apply, BConv.apply] at hc
    cases hch : a.choices with
    | none =>
      simp only [hch, Option.some.injEq, Scalar.str.injEq] at hc
      exact ⟨by rw [hc], by intro ch h; cases h⟩
    | some ch =>
      simp only [hch] at hc
      cases hin : ch.contains v with
      | true =>
        simp only [hin, ↓reduceIte, Option.some.injEq, Scalar.str.injEq] at hc
        subst hc
        exact ⟨rfl, by intro ch' h'; cases h'; exact hin⟩
      | false => simp only [hin, Bool.false_eq_true, ↓reduceIte] at hc; cases hc

/-! ### 2. one round -/

/-- an action of the choice parser: `type=str`, `choices=` the keys -/
def IsChoiceAct (a : Act) : Prop := a.conv = .base .str ∧ a.choices.isSome = true

theorem toAct_sub_choice (cfg : Cfg) (r : SRec) (h : r.isSub = true) : IsChoiceAct (r.toAct cfg) := by
  unfold SRec.isSub at h
  unfold SRec.toAct IsChoiceAct
  cases hk : r.kind with
  | leaf c d => simp [hk] at h
  | sub d f alts => simp

/-- `register` only appends actions of subgroup fields -/
theorem register_acts (cfg : Cfg) (rs : List SRec) (tbl tbl' : List Act)
    (h : register cfg tbl rs = .ok tbl') :
    ∃ ext, tbl' = tbl ++ ext ∧ ∀ a ∈ ext, IsChoiceAct a := by
  induction rs generalizing tbl with
  | nil =>
    simp only [register, Except.ok.injEq] at h
    exact ⟨[], by simp [h], by simp⟩
  | cons r rs ih =>
    unfold register at h
    cases hk : r.kind with
    | leaf c d =>
      simp only [hk] at h
      exact ih tbl h
    | sub d f alts =>
      simp only [hk] at h
      split at h
      · cases h
      · split at h
        · cases h
        · obtain ⟨ext, he, hc⟩ := ih _ h
          refine ⟨r.toAct cfg :: ext, by simp [he], ?_⟩
          intro a ha
          rcases List.mem_cons.mp ha with rfl | ha
          · exact toAct_sub_choice cfg r (by simp [SRec.isSub, hk])
          · exact hc a ha

/-- what a successful round consists of -/
theorem round_ok (cfg : Cfg) (mode : CR) (st st' : RState) (argv : List (Str × Str))
    (h : round cfg mode st argv = .ok st') :
    ∃ ns recs, register cfg st.ctbl (unresolved st) = .ok st'.ctbl ∧
      parseOut false false st'.ctbl argv = .ok ns ∧
      expandAll ns (unresolved st) (st.recs, st.resolved, st.classes, st.hidden) =
        .ok (recs, st'.resolved, st'.classes, st'.hidden) ∧
      reResolve cfg mode recs = .ok st'.recs := by
  unfold round at h
  simp only at h
  split at h
  · cases h
  · rename_i ctbl hreg
    split at h
    · cases h
    · split at h
      · cases h
      · cases h
      · rename_i ns hp
        split at h
        · cases h
        · rename_i recs resolved classes hidden hex
          split at h
          · cases h
          · rename_i recs' hre
            injection h with h
            subst h
            exact ⟨ns, recs, hreg, hp, hex, hre⟩

/-- the selection rule, relative to the choice parser's table `tbl` of the round: the key is the last
    value passed under an option addressing the destination (and then one of the keys), else the
    declared default -/
def Sel (tbl : List Act) (argv : List (Str × Str)) (d k : Str) : Prop :=
  ∃ a ∈ tbl, a.dest = d ∧
    ((lastFor false tbl d argv = some k ∧ ∀ ch, a.choices = some ch → ch.contains k = true) ∨
     (lastFor false tbl d argv = none ∧ a.default = some (.sc (.str k))))

theorem expandOne_resolved (ns : List (Str × Val)) (r : SRec)
    (acc acc' : List SRec × List (Str × Str) × List (Str × Str) × List (Str × Val))
    (h : expandOne ns r acc = .ok acc') :
    acc'.2.1 = acc.2.1 ∨ ∃ k, acc'.2.1 = acc.2.1 ++ [(r.dest, k)] ∧ ns.lookup r.dest = some (.sc (.str k)) := by
  unfold expandOne at h
  split at h
  · left; injection h with h; rw [h]
  · split at h
    · rename_i k hl
      split at h
      · cases h
      · right
        injection h with h
        exact ⟨k, by rw [← h], hl⟩
    · cases h

theorem expandAll_resolved (ns : List (Str × Val)) (rs : List SRec)
    (acc acc' : List SRec × List (Str × Str) × List (Str × Str) × List (Str × Val))
    (h : expandAll ns rs acc = .ok acc') :
    ∀ p ∈ acc'.2.1, p ∈ acc.2.1 ∨ ns.lookup p.1 = some (.sc (.str p.2)) := by
  induction rs generalizing acc with
  | nil =>
    simp only [expandAll, Except.ok.injEq] at h
    subst h
    intro p hp; exact Or.inl hp
  | cons r rs ih =>
    unfold expandAll at h
    split at h
    · cases h
    · rename_i acc1 h1
      intro p hp
      rcases ih acc1 h p hp with hin | hl
      · rcases expandOne_resolved ns r acc acc1 h1 with he | ⟨k, he, hl⟩
        · left; rw [← he]; exact hin
        · rw [he] at hin
          rcases List.mem_append.mp hin with hin | hin
          · exact Or.inl hin
          · right
            simp only [List.mem_singleton] at hin
            subst hin
            exact hl
      · exact Or.inr hl

/-- **c07_select, one round.** Every key resolved in a successful round follows the selection rule
    with respect to that round's choice parser. -/
theorem c07_select_round (cfg : Cfg) (mode : CR) (st st' : RState) (argv : List (Str × Str))
    (hc : ∀ a ∈ st.ctbl, IsChoiceAct a)
    (h : round cfg mode st argv = .ok st') :
    (∃ ext, st'.ctbl = st.ctbl ++ ext) ∧ (∀ a ∈ st'.ctbl, IsChoiceAct a) ∧
    ∀ p ∈ st'.resolved, p ∈ st.resolved ∨ Sel st'.ctbl argv p.1 p.2 := by
  obtain ⟨ns, recs, hreg, hp, hex, _⟩ := round_ok cfg mode st st' argv h
  obtain ⟨ext, he, hce⟩ := register_acts cfg _ _ _ hreg
  have hall : ∀ a ∈ st'.ctbl, IsChoiceAct a := by
    intro a ha
    rw [he] at ha
    rcases List.mem_append.mp ha with ha | ha
    · exact hc a ha
    · exact hce a ha
  refine ⟨⟨ext, he⟩, hall, ?_⟩
  intro p hpm
  rcases expandAll_resolved ns _ _ _ hex p hpm with hin | hl
  · exact Or.inl hin
  · right
    obtain ⟨hns, _, _, _⟩ := parseOut_ok _ _ _ _ _ hp
    rw [hns] at hl
    obtain ⟨a, ha, hd, hv⟩ := lookup_map_mem st'.ctbl (·.dest) (actValue false st'.ctbl argv) p.1 _ hl
    have := actValue_choice false st'.ctbl argv a p.2 (hall a ha).1 hv
    rw [hd] at this
    exact ⟨a, ha, hd, this⟩

/-! ### 3. all rounds (any nesting depth) -/

/-- the selection rule with respect to *some* stage of the choice parser that the final one extends
    (options are only ever added to it, and `findExact_append_left` shows that the options known at
    that stage keep addressing the same actions) -/
def SelAt (final : List Act) (argv : List (Str × Str)) (d k : Str) : Prop :=
  ∃ tbl ext, final = tbl ++ ext ∧ Sel tbl argv d k

/-- **c07_select.** After any number of rounds (any nesting depth of subgroups inside subgroups),
    every resolved subgroup's key is the key given for it on the command line, else its declared
    default key; a given key is one of the subgroup's keys. -/
theorem c07_select (cfg : Cfg) (mode : CR) (n : Nat) (st st' : RState) (argv : List (Str × Str))
    (hc : ∀ a ∈ st.ctbl, IsChoiceAct a)
    (h : loop cfg mode n st argv = .ok st') :
    (∃ ext, st'.ctbl = st.ctbl ++ ext) ∧
    ∀ p ∈ st'.resolved, p ∈ st.resolved ∨ SelAt st'.ctbl argv p.1 p.2 := by
  induction n generalizing st with
  | zero => simp [loop] at h
  | succ n ih =>
    unfold loop at h
    split at h
    · rename_i st1 hr
      obtain ⟨⟨ext1, he1⟩, hc1, hsel1⟩ := c07_select_round cfg mode st st1 argv hc hr
      split at h
      · injection h with h
        subst h
        refine ⟨⟨ext1, he1⟩, ?_⟩
        intro p hp
        rcases hsel1 p hp with hin | hs
        · exact Or.inl hin
        · exact Or.inr ⟨st1.ctbl, [], by simp, hs⟩
      · obtain ⟨⟨ext2, he2⟩, hsel2⟩ := ih st1 hc1 h
        refine ⟨⟨ext1 ++ ext2, by rw [he2, he1, List.append_assoc]⟩, ?_⟩
        intro p hp
        rcases hsel2 p hp with hin | hs
        · rcases hsel1 p hin with hin | hs
          · exact Or.inl hin
          · exact Or.inr ⟨st1.ctbl, ext2, he2, hs⟩
        · exact Or.inr hs
    · cases h
    · cases h
    · cases h

/-- states reached by successful rounds that leave something unresolved -/
inductive Reach (cfg : Cfg) (mode : CR) (argv : List (Str × Str)) : RState → RState → Nat → Prop
  | refl (st : RState) : Reach cfg mode argv st st 0
  | step (st st1 st2 : RState) (k : Nat) : round cfg mode st argv = .ok st1 →
      (unresolved st1).isEmpty = false → Reach cfg mode argv st1 st2 k → Reach cfg mode argv st st2 (k + 1)

/-- a round that fails at any depth fails the whole resolution, with the same outcome -/
theorem loop_reach (cfg : Cfg) (mode : CR) (argv : List (Str × Str)) (st st2 : RState) (k m : Nat)
    (hr : Reach cfg mode argv st st2 k) :
    loop cfg mode (k + m) st argv = loop cfg mode m st2 argv := by
  induction hr with
  | refl st => simp
  | step st st1 st2 k h1 hne _ ih =>
    have : k + 1 + m = (k + m) + 1 := by omega
    rw [this, loop, h1]
    simp only [hne, Bool.false_eq_true, ↓reduceIte]
    exact ih

/-- **c07_unknown_key, one round.** A value that is not a key, passed under an option the choice
    parser knows, ends the round with status 2. -/
theorem c07_unknown_key_round (cfg : Cfg) (mode : CR) (st : RState) (argv : List (Str × Str))
    (ctbl : List Act) (hreg : register cfg st.ctbl (unresolved st) = .ok ctbl)
    (htbl : tableOk ctbl = true) (hshape : argv.all pairOk = true)
    (p : Str × Str) (hp : p ∈ argv) (a : Act) (ch : List Str)
    (hfind : findExact ctbl p.1 = some a) (hconv : a.conv = .base .str)
    (hch : a.choices = some ch) (hnot : ch.contains p.2 = false) :
    round cfg mode st argv = .exit2 := by
  have hbad : pairBad false false ctbl p = true := by
    simp only [pairBad, findOpt, hfind, convOk, hconv, Conv.apply, BConv.apply, hch, hnot,
      Bool.false_eq_true, ↓reduceIte, Option.isNone_none]
  have := parseOut_bad false false ctbl argv hshape p hp hbad
  unfold round
  simp [hreg, htbl, this]

/-- **c07_unknown_key.** At whatever depth (after any number of successful rounds) the unknown key
    is met, resolution — and with it `parse_args` — ends with status 2. -/
theorem c07_unknown_key (cfg : Cfg) (mode : CR) (st0 st : RState) (k m : Nat) (argv : List (Str × Str))
    (hr : Reach cfg mode argv st0 st k)
    (ctbl : List Act) (hreg : register cfg st.ctbl (unresolved st) = .ok ctbl)
    (htbl : tableOk ctbl = true) (hshape : argv.all pairOk = true)
    (p : Str × Str) (hp : p ∈ argv) (a : Act) (ch : List Str)
    (hfind : findExact ctbl p.1 = some a) (hconv : a.conv = .base .str)
    (hch : a.choices = some ch) (hnot : ch.contains p.2 = false) :
    loop cfg mode (k + (m + 1)) st0 argv = .exit2 := by
  rw [loop_reach cfg mode argv st0 st k (m + 1) hr, loop,
    c07_unknown_key_round cfg mode st argv ctbl hreg htbl hshape p hp a ch hfind hconv hch hnot]

theorem run_exit_of_resolve (cfg : Cfg) (mode : CR) (dest : Str) (root : Cls) (argv : List (Str × Str))
    (h : resolveSubgroups cfg mode dest root argv = .exit2) : Subgroups.run cfg mode dest root argv = .exit2 := by
  simp [Subgroups.run, h]

/-! ### 4. the value: chosen entry's defaults, overridden by exactly the options passed -/

/-- membership of a plain field in a class body -/
def HasLeaf (n : Str) (c : BConv) (d : Option Scalar) : Flds → Prop
  | .nil => False
  | .leaf n' c' d' rest => (n' = n ∧ c' = c ∧ d' = d) ∨ HasLeaf n c d rest
  | .hidden _ _ rest => HasLeaf n c d rest
  | .sub _ _ _ rest => HasLeaf n c d rest

/-- **c07_value (defaults).** The field wrappers created for a chosen entry carry, for every plain
    field, the partial keyword / instance attribute when the entry has one for it, else the class's
    own default (dataclass_wrapper.py:94-111) — and nothing else is created. -/
theorem c07_value_defaults (pd : Str) (lvl : Nat) (kw : Kw) (forced : Bool) :
    (fs : Flds) → (r : SRec) → r ∈ recsOf pd lvl kw forced fs → (c : BConv) → (d : Option Scalar) →
    r.kind = .leaf c d →
    r.fr.parentDest = pd ∧ r.fr.pref = [] ∧
    ∃ d0, HasLeaf r.fr.name c d0 fs ∧
      d = (match kw.lookup r.fr.name with | some v => some v | none => d0)
  | .nil, r, hr, c, d, hk => by simp [recsOf] at hr
  | .leaf n c' d' rest, r, hr, c, d, hk => by
    simp only [recsOf, List.mem_cons] at hr
    rcases hr with rfl | hr
    · simp only [RKind.leaf.injEq] at hk
      exact ⟨rfl, rfl, d', Or.inl ⟨rfl, hk.1, rfl⟩, hk.2.symm⟩
    · obtain ⟨h1, h2, d0, h3, h4⟩ := c07_value_defaults pd lvl kw forced rest r hr c d hk
      exact ⟨h1, h2, d0, Or.inr h3, h4⟩
  | .hidden n d' rest, r, hr, c, d, hk => by
    simp only [recsOf] at hr
    exact c07_value_defaults pd lvl kw forced rest r hr c d hk
  | .sub n d' alts rest, r, hr, c, d, hk => by
    simp only [recsOf, List.mem_cons] at hr
    rcases hr with rfl | hr
    · simp at hk
    · obtain ⟨h1, h2, d0, h3, h4⟩ := c07_value_defaults pd lvl kw forced rest r hr c d hk
      exact ⟨h1, h2, d0, h3, h4⟩

/-- the value of a plain-field action: the converted last value passed under an option addressing
    it, else its default -/
theorem actValue_leaf (ab : Bool) (tbl : List Act) (argv : List (Str × Str)) (a : Act) :
    (∃ v, lastFor ab tbl a.dest argv = some v ∧
      actValue ab tbl argv a = (match convOk a v with | some s => .sc s | none => .sc .none)) ∨
    (lastFor ab tbl a.dest argv = none ∧ actValue ab tbl argv a = a.default.getD (.sc .none)) := by
  unfold actValue
  cases hl : lastFor ab tbl a.dest argv with
  | none => right; simp
  | some v => left; exact ⟨v, rfl, rfl⟩

/-- a pair that was accepted converts under the action it addresses -/
theorem accepted_converts (ab strict : Bool) (tbl : List Act) (argv : List (Str × Str))
    (ns : List (Str × Val)) (h : parseOut ab strict tbl argv = .ok ns) (p : Str × Str) (hp : p ∈ argv)
    (a : Act) (ha : findOpt ab tbl p.1 = .act a) : ∃ s, convOk a p.2 = some s := by
  obtain ⟨_, _, hbad, _⟩ := parseOut_ok _ _ _ _ _ h
  have := (List.any_eq_false.mp hbad) p hp
  simp only [pairBad, ha, Bool.not_eq_true, Option.isNone_eq_false_iff] at this
  exact Option.isSome_iff_exists.mp this

/-- **c07_value (main parse).** In an accepted parse every active plain field's value is the
    namespace entry of an action registered for its destination in the main parser: the last value
    passed under an option addressing it (exactly, or as its unique abbreviation), else the default
    carried by the field wrapper; `classes` are the entries chosen by the rounds. -/
theorem c07_value (cfg : Cfg) (st : RState) (argv : List (Str × Str)) (res : Res)
    (h : finishParse cfg st argv = .ok res) :
    res.classes = st.classes ∧ res.hidden = st.hidden ∧
    ∀ q ∈ res.leaves, ∃ r ∈ st.recs, r.isSub = false ∧ q.1 = r.dest ∧
      ∃ a ∈ mainTable cfg st, a.dest = r.dest ∧ q.2 = actValue true (mainTable cfg st) argv a := by
  unfold finishParse at h
  simp only at h
  split at h
  · cases h
  · split at h
    · cases h
    · cases h
    · rename_i ns hp
      injection h with h
      subst h
      refine ⟨rfl, rfl, ?_⟩
      intro q hq
      simp only [List.mem_map, List.mem_filter] at hq
      obtain ⟨r, ⟨hr, hsub⟩, rfl⟩ := hq
      refine ⟨r, hr, by simpa using hsub, rfl, ?_⟩
      obtain ⟨hns, _, _, _⟩ := parseOut_ok _ _ _ _ _ hp
      have hmem : r.toAct cfg ∈ mainTable cfg st := List.mem_map.mpr ⟨r, hr, rfl⟩
      have hdest : (r.toAct cfg).dest = r.dest := by
        unfold SRec.toAct; cases r.kind <;> rfl
      cases hl : ns.lookup r.dest with
      | some v =>
        rw [hns] at hl
        obtain ⟨a, ha, hd, hv⟩ := lookup_map_mem _ (·.dest) (actValue true (mainTable cfg st) argv) _ _ hl
        exact ⟨a, ha, hd, by simp [hv]⟩
      | none =>
        exfalso
        rw [hns] at hl
        have : ∀ (l : List Act), r.toAct cfg ∈ l →
            (l.map (fun a => (a.dest, actValue true (mainTable cfg st) argv a))).lookup r.dest ≠ none := by
          intro l hl
          induction l with
          | nil => cases hl
          | cons x xs ih =>
            simp only [List.map_cons, List.lookup]
            by_cases hx : r.dest == x.dest
            · simp [hx]
            · simp only [hx]
              rcases List.mem_cons.mp hl with rfl | hl
              · simp [hdest] at hx
              · exact ih hl
        exact this _ hmem hl

/-! ### 5. options of unchosen alternatives -/

/-- **c07_foreign.** The main parser knows exactly the options of the active field wrappers
    (`mainTable` = one action per field wrapper of the root and of the entries chosen so far; the
    wrappers of an unchosen alternative are never created: `expandOne` adds `recsOf` of the found
    entry only).  A well-shaped command line with an option that addresses none of them — neither
    exactly nor as an abbreviation, e.g. one that exists only in an unchosen alternative — is rejected
    with status 2. -/
theorem c07_foreign (cfg : Cfg) (st : RState) (argv : List (Str × Str))
    (htbl : tableOk (mainTable cfg st) = true) (hshape : argv.all pairOk = true)
    (p : Str × Str) (hp : p ∈ argv) (hnone : findOpt true (mainTable cfg st) p.1 = .none) :
    finishParse cfg st argv = .exit2 := by
  have hbad : pairBad true true (mainTable cfg st) p = true := by simp [pairBad, hnone]
  have := parseOut_bad true true _ argv hshape p hp hbad
  unfold finishParse
  simp [htbl, this]

theorem c07_foreign_run (cfg : Cfg) (mode : CR) (dest : Str) (root : Cls) (st : RState)
    (argv : List (Str × Str)) (hres : resolveSubgroups cfg mode dest root argv = .ok st)
    (htbl : tableOk (mainTable cfg st) = true) (hshape : argv.all pairOk = true)
    (p : Str × Str) (hp : p ∈ argv) (hnone : findOpt true (mainTable cfg st) p.1 = .none) :
    Subgroups.run cfg mode dest root argv = .exit2 := by
  simp [Subgroups.run, hres, c07_foreign cfg st argv htbl hshape p hp hnone]

/-! ### 6. concrete trees: witnesses of the named gaps and non-vacuity of the hypotheses -/

def cfg0 : Cfg := ⟨.underscore, .flat, .default⟩
def clsA : Cls := .mk "A".toList (.leaf "lr".toList .int (some (.int 1)) .nil)
def clsB : Cls := .mk "B".toList
  (.leaf "lr".toList .int (some (.int 2)) (.leaf "wd".toList .int (some (.int 0)) .nil))
/-- `model = subgroups({"ka": A, "kb": partial(B, lr=22)}, default="ka")` -/
def demoRoot : Cls := .mk "Root".toList
  (.sub "model".toList (some "ka".toList)
    (.cons "ka".toList .cls [] clsA (.cons "kb".toList .part [("lr".toList, .int 22)] clsB .nil)) .nil)

/-- the key given selects the entry; its partial keyword is the default; a passed option overrides -/
example : Subgroups.run cfg0 .auto "config".toList demoRoot
    [("--model".toList, "kb".toList), ("--wd".toList, "7".toList)] =
    .ok { leaves := [("config.model.lr".toList, .sc (.int 22)), ("config.model.wd".toList, .sc (.int 7))],
          classes := [("config.model".toList, "B".toList)],
          subgroups := [("config.model".toList, .sc (.str "kb".toList))] } := by decide

/-- an option of the unchosen alternative is rejected; an unknown key is rejected -/
example : Subgroups.run cfg0 .auto "config".toList demoRoot [("--wd".toList, "7".toList)] = .exit2 := by decide
example : Subgroups.run cfg0 .auto "config".toList demoRoot [("--model".toList, "zz".toList)] = .exit2 := by decide

/-! ### 7. `namespace.subgroups` -/

/-- does option string `o` address destination `d`? -/
def addresses (ab : Bool) (tbl : List Act) (d : Str) (o : Str) : Bool :=
  match findOpt ab tbl o with
  | .act a => decide (a.dest = d)
  | _ => false

/-- the choice parser (at stage `tbl`, abbreviations off) and the main parser (abbreviations on) read
    every option of the command line alike as far as destination `d` is concerned — false exactly
    when an abbreviation of `d`'s option is used, or when `d`'s option was renamed after registration -/
def SameReading (tbl main : List Act) (argv : List (Str × Str)) (d : Str) : Prop :=
  ∀ p ∈ argv, addresses false tbl d p.1 = addresses true main d p.1

instance (tbl main : List Act) (argv : List (Str × Str)) (d : Str) : Decidable (SameReading tbl main argv d) := by
  unfold SameReading; exact inferInstance

/-- the two parsers were given the same `arg_options` for `d` (they come from the same cached
    `FieldWrapper.arg_options`) -/
def SameOptions (tbl main : List Act) (d : Str) : Prop :=
  ∀ a ∈ tbl, a.dest = d → ∀ a' ∈ main, a'.dest = d →
    a.default = a'.default ∧ a'.conv = .base .str ∧ a.choices = a'.choices

theorem lastFor_congr (tbl main : List Act) (d : Str) (argv : List (Str × Str))
    (h : SameReading tbl main argv d) : lastFor false tbl d argv = lastFor true main d argv := by
  induction argv with
  | nil => rfl
  | cons p rest ih =>
    have hrest : SameReading tbl main rest d := fun q hq => h q (by simp [hq])
    have hp := h p (by simp)
    simp only [lastFor, ih hrest]
    cases lastFor true main d rest with
    | some x => rfl
    | none =>
      simp only [addresses] at hp
      cases h1 : findOpt false tbl p.1 with
      | act a =>
        cases h2 : findOpt true main p.1 with
        | act a' =>
          simp only [h1, h2] at hp ⊢
          by_cases e1 : a.dest = d <;> by_cases e2 : a'.dest = d <;> simp [e1, e2] at hp ⊢
        | none => simp only [h1, h2] at hp ⊢; by_cases e1 : a.dest = d <;> simp [e1] at hp ⊢
        | ambiguous => simp only [h1, h2] at hp ⊢; by_cases e1 : a.dest = d <;> simp [e1] at hp ⊢
      | none =>
        cases h2 : findOpt true main p.1 with
        | act a' => simp only [h1, h2] at hp ⊢; by_cases e2 : a'.dest = d <;> simp [e2] at hp ⊢
        | none => rfl
        | ambiguous => rfl
      | ambiguous =>
        cases h2 : findOpt true main p.1 with
        | act a' => simp only [h1, h2] at hp ⊢; by_cases e2 : a'.dest = d <;> simp [e2] at hp ⊢
        | none => rfl
        | ambiguous => rfl

/-- the full statement: `namespace.subgroups` reports the chosen key of every subgroup -/
def ReportsStatement : Prop :=
  ∀ (cfg : Cfg) (mode : CR) (dest : Str) (root : Cls) (argv : List (Str × Str)) (st : RState) (res : Res),
    resolveSubgroups cfg mode dest root argv = .ok st →
    Subgroups.run cfg mode dest root argv = .ok res →
    ∀ p ∈ st.resolved, (p.1, Val.sc (.str p.2)) ∈ res.subgroups

/-- **witness (open finding C07-abbrev-key).** `--mod kb`: the choice parser (allow_abbrev=False)
    ignores it and the default entry `A` is instantiated, the main parser accepts it as `--model`:
    `namespace.subgroups` says `kb`. -/
theorem c07_reports_witness : ¬ ReportsStatement := by
  intro H
  have hrun : Subgroups.run cfg0 .auto "config".toList demoRoot [("--mod".toList, "kb".toList)] =
      .ok { leaves := [("config.model.lr".toList, .sc (.int 1))],
            classes := [("config.model".toList, "A".toList)],
            subgroups := [("config.model".toList, .sc (.str "kb".toList))] } := by decide
  have hres : (match resolveSubgroups cfg0 .auto "config".toList demoRoot [("--mod".toList, "kb".toList)] with
      | .ok st => st.resolved
      | _ => []) = [("config.model".toList, "ka".toList)] := by decide
  cases hr : resolveSubgroups cfg0 .auto "config".toList demoRoot [("--mod".toList, "kb".toList)] with
  | ok st =>
    rw [hr] at hres
    simp only at hres
    have := H _ _ _ _ _ st _ hr hrun ("config.model".toList, "ka".toList) (by rw [hres]; simp)
    revert this
    decide
  | exit2 => rw [hr] at hres; cases hres
  | raise e => rw [hr] at hres; cases hres
  | unmodelled => rw [hr] at hres; cases hres

/-- **c07_reports (partial).** When the two parsers read the command line alike for a subgroup's
    destination (`SameReading`: no abbreviation of its option, no renaming after registration),
    `namespace.subgroups` reports exactly the key the rounds selected and recorded for it.  (When the
    main parser sees no option for the destination at all, the reported key is the recorded one
    unconditionally: the choice parser's result is already in the namespace.) -/
theorem c07_reports_partial (cfg : Cfg) (st : RState) (argv : List (Str × Str)) (res : Res)
    (h : finishParse cfg st argv = .ok res) (tbl : List Act) (d k : Str)
    (hres : st.resolved.lookup d = some k)
    (hsel : Sel tbl argv d k) (hsame : SameReading tbl (mainTable cfg st) argv d)
    (hopt : SameOptions tbl (mainTable cfg st) d)
    (r : SRec) (hr : r ∈ st.recs) (hsub : r.isSub = true) (hd : r.dest = d) :
    (d, Val.sc (.str k)) ∈ res.subgroups := by
  subst hd
  unfold finishParse at h
  simp only at h
  split at h
  · cases h
  · split at h
    · cases h
    · cases h
    · rename_i ns hp
      injection h with h
      subst h
      simp only [List.mem_map, List.mem_filter]
      refine ⟨r, ⟨hr, hsub⟩, ?_⟩
      simp only [Prod.mk.injEq, true_and]
      cases hlt : lastFor true (mainTable cfg st) r.dest argv with
      | none => simp only [hres]
      | some v0 =>
        simp only
        obtain ⟨hns, _, _, _⟩ := parseOut_ok _ _ _ _ _ hp
        have hmem : r.toAct cfg ∈ mainTable cfg st := List.mem_map.mpr ⟨r, hr, rfl⟩
        have hdest : (r.toAct cfg).dest = r.dest := by
          unfold SRec.toAct; cases r.kind <;> rfl
        have hne : ∀ (l : List Act), r.toAct cfg ∈ l →
            ∃ v, (l.map (fun a => (a.dest, actValue true (mainTable cfg st) argv a))).lookup r.dest = some v := by
          intro l hl
          induction l with
          | nil => cases hl
          | cons x xs ih =>
            simp only [List.map_cons, List.lookup]
            by_cases hx : r.dest == x.dest
            · simp [hx]
            · simp only [hx]
              rcases List.mem_cons.mp hl with rfl | hl
              · simp [hdest] at hx
              · exact ih hl
        obtain ⟨v, hl⟩ := hne _ hmem
        obtain ⟨a', ha', hd', hv⟩ := lookup_map_mem _ (·.dest) (actValue true (mainTable cfg st) argv) _ _ hl
        rw [hns, hl]
        simp only [Option.getD_some]
        rw [← hv]
        obtain ⟨a, ha, had, hcases⟩ := hsel
        obtain ⟨hdef, hconv, hch⟩ := hopt a ha had a' ha' hd'
        have hlast := lastFor_congr tbl (mainTable cfg st) r.dest argv hsame
        unfold actValue
        rw [hd', ← hlast]
        rcases hcases with ⟨hl1, hin⟩ | ⟨hl1, hdf⟩
        · simp only [hl1, convOk, hconv, Conv.apply, BConv.apply]
          cases hc : a'.choices with
          | none => rfl
          | some ch =>
            have hin' := hin ch (by rw [hch, hc])
            have hmem' : k ∈ ch := by simpa using hin'
            simp [hmem']
        · simp only [hl1, ← hdef, hdf, Option.getD_some]

/-! ### 8. the crash on instance entries -/

/-- the full statement: resolution never raises on a subgroup tree -/
def NoCrashStatement : Prop :=
  ∀ (dest : Str) (root : Cls) (argv : List (Str × Str)),
    Subgroups.run cfg0 .auto dest root argv ≠ .raise .assertionError

def clsL : Cls := .mk "L".toList (.leaf "eps".toList .int (some (.int 5)) .nil)
/-- a frozen class with a subgroup field that declares a default key -/
def clsF : Cls := .mk "F".toList (.leaf "wd".toList .int (some (.int 3))
  (.sub "opt".toList (some "ka".toList) (.cons "ka".toList .cls [] clsL .nil) .nil))
/-- `model = subgroups({"ka": A, "kf": F(wd=6)}, default="ka")` -/
def instRoot : Cls := .mk "Root".toList
  (.sub "model".toList (some "ka".toList)
    (.cons "ka".toList .cls [] clsA (.cons "kf".toList .inst [("wd".toList, .int 6)] clsF .nil)) .nil)

/-- **witness (open finding C07-instance-with-subgroup).** Choosing the instance entry pushes the
    instance's `opt` attribute as the default of the nested subgroup option, which trips the assertion
    at parsing.py:667 in the next round. -/
theorem c07_instance_witness : ¬ NoCrashStatement := by
  intro H
  exact H "config".toList instRoot [("--model".toList, "kf".toList)] (by decide)

/-- the same tree is fine as long as the instance entry is not chosen -/
example : Subgroups.run cfg0 .auto "config".toList instRoot [] =
    .ok { leaves := [("config.model.lr".toList, .sc (.int 1))],
          classes := [("config.model".toList, "A".toList)],
          subgroups := [("config.model".toList, .sc (.str "ka".toList))] } := by decide

/-! ### 9. depth 2: the hypotheses of the loop theorems are satisfiable -/

def clsL2 : Cls := .mk "L2".toList
  (.leaf "eps".toList .int (some (.int 7)) (.leaf "beta".toList .int (some (.int 1)) .nil))
/-- `opt = subgroups({"ka": L, "kb": partial(L2, eps=9)}, default="ka")`, `wd: int = 5` -/
def clsM : Cls := .mk "M".toList
  (.sub "opt".toList (some "ka".toList)
    (.cons "ka".toList .cls [] clsL (.cons "kb".toList .part [("eps".toList, .int 9)] clsL2 .nil))
    (.leaf "wd".toList .int (some (.int 5)) .nil))
def deepRoot : Cls := .mk "Root".toList
  (.sub "model".toList (some "ka".toList)
    (.cons "ka".toList .cls [] clsA (.cons "km".toList .cls [] clsM .nil)) .nil)
def deepSt0 : RState :=
  { recs := recsOf "config".toList 1 [] false deepRoot.fields, resolved := [], classes := [], hidden := [],
    ctbl := [] }
def deepArgv : List (Str × Str) :=
  [("--model".toList, "km".toList), ("--opt".toList, "kb".toList), ("--beta".toList, "4".toList)]

/-- two rounds: both keys are the given ones (hypothesis `loop … = .ok st'` of `c07_select`) -/
example : (match loop cfg0 .auto 3 deepSt0 deepArgv with
    | .ok st => st.resolved
    | _ => []) =
    [("config.model".toList, "km".toList), ("config.model.opt".toList, "kb".toList)] := by decide

/-- the whole parse at depth 2: defaults of the chosen entries (`eps=9` from the partial), the
    passed option, and the reported keys -/
example : Subgroups.run cfg0 .auto "config".toList deepRoot deepArgv =
    .ok { leaves := [("config.model.wd".toList, .sc (.int 5)), ("config.model.opt.eps".toList, .sc (.int 9)),
                     ("config.model.opt.beta".toList, .sc (.int 4))],
          classes := [("config.model".toList, "M".toList), ("config.model.opt".toList, "L2".toList)],
          subgroups := [("config.model".toList, .sc (.str "km".toList)),
                        ("config.model.opt".toList, .sc (.str "kb".toList))] } := by decide

/-- a state reached after one successful round with something left to resolve
    (hypothesis `Reach … 1` of `c07_unknown_key` / `loop_reach`) -/
example : ∃ st1, Reach cfg0 .auto deepArgv deepSt0 st1 1 := by
  have h : (match round cfg0 .auto deepSt0 deepArgv with
      | .ok st1 => !(unresolved st1).isEmpty
      | _ => false) = true := by decide
  cases hr : round cfg0 .auto deepSt0 deepArgv with
  | ok st1 =>
    rw [hr] at h
    exact ⟨st1, .step _ st1 st1 0 hr (by simpa using h) (.refl st1)⟩
  | exit2 => rw [hr] at h; cases h
  | raise e => rw [hr] at h; cases h
  | unmodelled => rw [hr] at h; cases h

/-- the unknown key met in the second round ends everything with status 2 -/
example : (match loop cfg0 .auto 3 deepSt0 [("--model".toList, "km".toList), ("--opt".toList, "zz".toList)] with
    | .exit2 => true
    | _ => false) = true := by decide

/-- `--beta` exists only in the entry `kb` of `opt`: with the default entry chosen it is foreign -/
example : Subgroups.run cfg0 .auto "config".toList deepRoot
    [("--model".toList, "km".toList), ("--beta".toList, "4".toList)] = .exit2 := by decide

/-- `SameReading` holds for exact options and fails for the abbreviation of the witness -/
example : (match resolveSubgroups cfg0 .auto "config".toList demoRoot [("--model".toList, "kb".toList)] with
    | .ok st => decide (SameReading st.ctbl (mainTable cfg0 st) [("--model".toList, "kb".toList)] "config.model".toList)
    | _ => false) = true := by decide
example : (match resolveSubgroups cfg0 .auto "config".toList demoRoot [("--mod".toList, "kb".toList)] with
    | .ok st => decide (SameReading st.ctbl (mainTable cfg0 st) [("--mod".toList, "kb".toList)] "config.model".toList)
    | _ => true) = false := by decide

/-! ### 10. EXPLICIT mode: an option registered in the choice parser is renamed, then its old name reused -/

def clsK0 : Cls := .mk "K0".toList .nil
def chain1 : Cls := .mk "K1".toList
  (.sub "lrs".toList (some "ka".toList) (.cons "ka".toList .cls [] clsK0 .nil) .nil)
def chain2 : Cls := .mk "K2".toList
  (.sub "lrs".toList (some "ka".toList) (.cons "ka".toList .cls [] chain1 .nil) .nil)
/-- `lrs` → `lrs` → `lrs`: the same subgroup field name at three nesting levels -/
def chainRoot : Cls := .mk "Root".toList
  (.sub "lrs".toList (some "ka".toList) (.cons "ka".toList .cls [] chain2 .nil) .nil)

/-- **witness (open finding C07-explicit-reregister).** Under EXPLICIT resolution the first two
    `lrs` options are renamed to their explicit names after round 1, so the third one keeps the bare
    `--lrs` — which the choice parser already holds from round 0: `add_argument` raises ArgumentError. -/
theorem c07_explicit_witness :
    ¬ (∀ (dest : Str) (root : Cls) (argv : List (Str × Str)),
        Subgroups.run cfg0 .explicit dest root argv ≠ .raise .argumentError) := by
  intro H
  exact H "config".toList chainRoot [] (by decide)

/-- AUTO resolves the same tree (the deeper fields get the longer prefixes) -/
example : Subgroups.run cfg0 .auto "config".toList chainRoot [] =
    .ok { leaves := [],
          classes := [("config.lrs".toList, "K2".toList), ("config.lrs.lrs".toList, "K1".toList),
                      ("config.lrs.lrs.lrs".toList, "K0".toList)],
          subgroups := [("config.lrs".toList, .sc (.str "ka".toList)), ("config.lrs.lrs".toList, .sc (.str "ka".toList)),
                        ("config.lrs.lrs.lrs".toList, .sc (.str "ka".toList))] } := by decide

/-! ### 11. `cmd=False` attributes of the chosen entry -/

/-- membership of a `cmd=False` field in a class body -/
def HasHidden (n : Str) (d : Scalar) : Flds → Prop
  | .nil => False
  | .leaf _ _ _ rest => HasHidden n d rest
  | .sub _ _ _ rest => HasHidden n d rest
  | .hidden n' d' rest => (n' = n ∧ d' = d) ∨ HasHidden n d rest

/-- **c07_value (attributes without an option).** A `cmd=False` field of a chosen entry has no option
    and is never passed to the entry: its value is the partial keyword / the frozen instance's own
    attribute when the entry has one, else the class default. -/
theorem c07_value_hidden (dest : Str) (kw : Kw) :
    (fs : Flds) → (q : Str × Val) → q ∈ hiddenOf dest kw fs →
    ∃ n d0, HasHidden n d0 fs ∧ q.1 = dest ++ '.' :: n ∧
      q.2 = .sc (match kw.lookup n with | some v => v | none => d0)
  | .nil, q, hq => by simp [hiddenOf] at hq
  | .leaf _ _ _ rest, q, hq => by
    simp only [hiddenOf] at hq
    obtain ⟨n, d0, h1, h2, h3⟩ := c07_value_hidden dest kw rest q hq
    exact ⟨n, d0, h1, h2, h3⟩
  | .sub _ _ _ rest, q, hq => by
    simp only [hiddenOf] at hq
    obtain ⟨n, d0, h1, h2, h3⟩ := c07_value_hidden dest kw rest q hq
    exact ⟨n, d0, h1, h2, h3⟩
  | .hidden n' d' rest, q, hq => by
    simp only [hiddenOf, List.mem_cons] at hq
    rcases hq with rfl | hq
    · exact ⟨n', d', Or.inl ⟨rfl, rfl⟩, rfl, rfl⟩
    · obtain ⟨n, d0, h1, h2, h3⟩ := c07_value_hidden dest kw rest q hq
      exact ⟨n, d0, Or.inr h1, h2, h3⟩

/-- `Preset(width=1, url="" cmd=False)`; entries: the frozen instances `tiny`/`large` -/
def clsPreset : Cls := .mk "Preset".toList
  (.leaf "width".toList .int (some (.int 1)) (.hidden "url".toList (.str []) .nil))
def presetRoot : Cls := .mk "Root".toList
  (.sub "preset".toList (some "tiny".toList)
    (.cons "tiny".toList .inst [("width".toList, .int 8), ("url".toList, .str "t.pt".toList)] clsPreset
      (.cons "large".toList .inst [("width".toList, .int 512), ("url".toList, .str "l.pt".toList)] clsPreset .nil)) .nil)

/-- `--preset large --width 100`: the option overrides `width`, `url` stays the large preset's -/
example : Subgroups.run cfg0 .auto "config".toList presetRoot
    [("--preset".toList, "large".toList), ("--width".toList, "100".toList)] =
    .ok { leaves := [("config.preset.width".toList, .sc (.int 100))],
          classes := [("config.preset".toList, "Preset".toList)],
          subgroups := [("config.preset".toList, .sc (.str "large".toList))],
          hidden := [("config.preset.url".toList, .sc (.str "l.pt".toList))] } := by decide

end SpVerif.C07
