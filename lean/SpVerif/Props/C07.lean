/-
  C07 — a subgroup choice selects the type, its defaults and its options.

  Theorems over `SpVerif.Model.Subgroups` (the rounds of `_resolve_subgroups` + the main parse).
  The loop theorems are by induction on the number of rounds, i.e. on the nesting depth of subgroups
  inside subgroups, with no bound.  Map:
    §2-3   `c07_select(_round)`: key = given key (one of the subgroup's keys) else declared default
    §3     `c07_unknown_key(_round)`: an unknown key at any depth ends with status 2
    §4,11  `c07_value_defaults`, `c07_value_hidden`: the chosen entry's keywords / attributes are the defaults
    §5     `c07_foreign(_run)`: an option addressing no active field is rejected
    §7     `c07_reports_witness` / `c07_reports_partial`: `namespace.subgroups`
    §12    `c07_origin` (`Good`): every field wrapper is a field of the root or of a CHOSEN entry
           (`Active`/`Origin`), wrappers of unchosen alternatives are never created; the key selects the
           type (`Chosen`: entry found under the key, its class recorded at the destination)
    §13    `c07_dests_nodup`: destinations are unique for well-formed trees (`wfCls`)
    §14    `c07_value_exact`, `c07_leaf_value`: each leaf is read off its own action; `c07_select_run`,
           `c07_unknown_key_run`, `c07_unknown_key_main(_run)`: the same for `parse_args`
  Gaps that are *named* here:
    * `ReportsStatement` (namespace.subgroups = the chosen keys, unconditionally) is refuted by
      `c07_reports_witness` (`--mod kb`: the choice parser forbids abbreviations, the main parser accepts
      them); `c07_reports_partial` proves it for command lines that the two parsers read alike.
    * `NoCrashStatement` is refuted by `c07_instance_witness` (a frozen-instance alternative whose class
      has a subgroup field with a default key: AssertionError).
    * under EXPLICIT resolution a valid tree can crash with ArgumentError (`c07_explicit_witness`).
    * ACCEPTANCE is not proved: every theorem about values is of the form "if the parse returns, then";
      that a command line made of exact options of the selected groups with valid keys on a clash-free
      tree under AUTO *is* accepted (no conflict, `register`/`expandAll` succeed, nothing required is
      missing) is checked by the oracle clause `accepts` on the real code and by correspondence only.
    * FUEL: `loop` is given `depth + 1` rounds and answers `unmodelled` if that were not enough; that it
      always is enough is not proved — instead the plug-in turns an `unmodelled` answer of `sg.e2e` /
      `sg.rounds` on a well-shaped command line into a correspondence mismatch (0 on every run so far).
    * that option strings registered in the choice parser are never renamed by a later conflict
      resolution is not proved (hypothesis `SameReading` of `c07_reports_partial`); and `c07_foreign` is
      stated on the final table (`findOpt … = .none`) — the corollary "an option of a field of an unchosen
      alternative that is a prefix of no active option is rejected" would need the clash-free FLAT naming
      lemma (resolver leaves prefixes empty), which is not proved.  Both are covered by the
      correspondence ops `sg.rounds` / `sg.e2e`.
  Union[A, B] sub-commands use argparse sub-parsers, which are not modelled (oracle only).
-/
import SpVerif.Model.Subgroups
namespace SpVerif.C07
open SpVerif SpVerif.Subgroups

/-! ### 0. small list facts -/

theorem lookup_map_mem {α : Type} (l : List α) (key : α → Str) (val : α → Val) (d : Str) (v : Val)
    (h : (l.map (fun a => (key a, val a))).lookup d = some v) :
    ∃ a ∈ l, key a = d ∧ val a = v := by
  induction l with
  | nil => simp [List.lookup] at h
  | cons x xs ih =>
    simp only [List.map_cons, List.lookup] at h
    by_cases hk : d == key x
    · simp only [hk] at h
      refine ⟨x, by simp, ?_, ?_⟩
      · exact (eq_of_beq hk).symm
      · simpa using h
    · simp only [hk] at h
      obtain ⟨a, ha, h1, h2⟩ := ih h
      exact ⟨a, by simp [ha], h1, h2⟩

/-! ### 1. argparse at outcome level -/

/-- an exact option string is read the same way with and without abbreviations -/
theorem findOpt_exact (ab : Bool) (tbl : List Act) (o : Str) (a : Act) (h : findExact tbl o = some a) :
    findOpt ab tbl o = .act a := by
  simp [findOpt, h]

/-- registering further actions never changes which action an already known option addresses -/
theorem findExact_append_left (tbl ext : List Act) (o : Str) (a : Act) (h : findExact tbl o = some a) :
    findExact (tbl ++ ext) o = some a := by
  induction tbl with
  | nil => simp [findExact] at h
  | cons x xs ih =>
    simp only [List.cons_append, findExact] at h ⊢
    cases hx : x.opts.contains o with
    | true => simp only [hx, ↓reduceIte] at h ⊢; exact h
    | false => simp only [hx, Bool.false_eq_true, ↓reduceIte] at h ⊢; exact ih h

theorem parseOut_ok (ab strict : Bool) (tbl : List Act) (argv : List (Str × Str)) (ns : List (Str × Val))
    (h : parseOut ab strict tbl argv = .ok ns) :
    ns = tbl.map (fun a => (a.dest, actValue ab tbl argv a)) ∧
    argv.all pairOk = true ∧
    argv.any (pairBad ab strict tbl) = false ∧
    tbl.any (fun a => a.required && (lastFor ab tbl a.dest argv).isNone) = false := by
  unfold parseOut at h
  split at h
  · cases h
  · split at h
    · cases h
    · split at h
      · cases h
      · rename_i h1 h2 h3
        refine ⟨by injection h with h; exact h.symm, ?_, ?_, ?_⟩
        · simpa using h1
        · simpa using h2
        · simpa using h3

/-- any pair that cannot be taken ends a (well-shaped) command line with status 2 -/
theorem parseOut_bad (ab strict : Bool) (tbl : List Act) (argv : List (Str × Str))
    (hshape : argv.all pairOk = true) (p : Str × Str) (hp : p ∈ argv)
    (hbad : pairBad ab strict tbl p = true) : parseOut ab strict tbl argv = .exit2 := by
  unfold parseOut
  have : argv.any (pairBad ab strict tbl) = true := List.any_eq_true.mpr ⟨p, hp, hbad⟩
  simp [hshape, this]

/-- the value of a string-typed action with choices (a subgroup option): the last value passed
    under an option addressing it — which is then one of the choices — else its default -/
theorem actValue_choice (ab : Bool) (tbl : List Act) (argv : List (Str × Str)) (a : Act) (k : Str)
    (hconv : a.conv = .base .str) (h : actValue ab tbl argv a = .sc (.str k)) :
    (lastFor ab tbl a.dest argv = some k ∧ ∀ ch, a.choices = some ch → ch.contains k = true) ∨
    (lastFor ab tbl a.dest argv = none ∧ a.default = some (.sc (.str k))) := by
  unfold actValue at h
  cases hl : lastFor ab tbl a.dest argv with
  | none =>
    right
    simp only [hl] at h
    refine ⟨rfl, ?_⟩
    cases hd : a.default with
    | none => simp [hd] at h
    | some d => simp only [hd, Option.getD_some] at h; rw [h]
  | some v =>
    left
    simp only [hl] at h
    have hc : convOk a v = some (.str k) := by
      cases hc : convOk a v with
      | none => simp [hc] at h
      | some s => simp only [hc, Val.sc.injEq] at h; rw [h]
    unfold convOk at hc
    simp only [hconv, Conv.apply, BConv.apply] at hc
    cases hch : a.choices with
    | none =>
      simp only [hch, Option.some.injEq, Scalar.str.injEq] at hc
      exact ⟨by rw [hc], by intro ch h; cases h⟩
    | some ch =>
      simp only [hch] at hc
      cases hin : ch.contains v with
      | true =>
        simp only [hin, ↓reduceIte, Option.some.injEq, Scalar.str.injEq] at hc
        subst hc
        exact ⟨rfl, by intro ch' h'; cases h'; exact hin⟩
      | false => simp only [hin, Bool.false_eq_true, ↓reduceIte] at hc; cases hc

/-! ### 2. one round -/

/-- what `add_argument` is given for a subgroup field wrapper: its own destination, `type=str`,
    `choices=` the keys of its dict, `default=` its declared default key -/
theorem toAct_sub (cfg : Cfg) (r : SRec) (d : Option Str) (f : Bool) (alts : Alts)
    (h : r.kind = .sub d f alts) :
    (r.toAct cfg).dest = r.dest ∧ (r.toAct cfg).conv = .base .str ∧
    (r.toAct cfg).choices = some alts.keys ∧
    (r.toAct cfg).default = d.map (fun k => Val.sc (.str k)) := by
  unfold SRec.toAct
  rw [h]
  exact ⟨rfl, rfl, rfl, rfl⟩

theorem isSub_kind (r : SRec) (h : r.isSub = true) : ∃ d f alts, r.kind = .sub d f alts := by
  unfold SRec.isSub at h
  cases hk : r.kind with
  | leaf c d => simp [hk] at h
  | sub d f alts => exact ⟨d, f, alts, rfl⟩

/-- every action of the choice parser is the `add_argument` of a subgroup field wrapper -/
def FromSub (cfg : Cfg) (a : Act) : Prop := ∃ r : SRec, r.isSub = true ∧ a = r.toAct cfg

/-- `register` only appends the actions of the subgroup fields it is given -/
theorem register_acts (cfg : Cfg) (rs : List SRec) (tbl tbl' : List Act)
    (h : register cfg tbl rs = .ok tbl') :
    ∃ ext, tbl' = tbl ++ ext ∧ ∀ a ∈ ext, ∃ r ∈ rs, r.isSub = true ∧ a = r.toAct cfg := by
  induction rs generalizing tbl with
  | nil =>
    simp only [register, Except.ok.injEq] at h
    exact ⟨[], by simp [h], by simp⟩
  | cons r rs ih =>
    unfold register at h
    cases hk : r.kind with
    | leaf c d =>
      simp only [hk] at h
      obtain ⟨ext, he, hc⟩ := ih tbl h
      exact ⟨ext, he, fun a ha => by
        obtain ⟨r', hr', h1, h2⟩ := hc a ha
        exact ⟨r', by simp [hr'], h1, h2⟩⟩
    | sub d f alts =>
      simp only [hk] at h
      split at h
      · cases h
      · split at h
        · cases h
        · obtain ⟨ext, he, hc⟩ := ih _ h
          refine ⟨r.toAct cfg :: ext, by simp [he], ?_⟩
          intro a ha
          rcases List.mem_cons.mp ha with rfl | ha
          · exact ⟨r, by simp, by simp [SRec.isSub, hk], rfl⟩
          · obtain ⟨r', hr', h1, h2⟩ := hc a ha
            exact ⟨r', by simp [hr'], h1, h2⟩

/-- what a successful round consists of -/
theorem round_ok (cfg : Cfg) (mode : CR) (st st' : RState) (argv : List (Str × Str))
    (h : round cfg mode st argv = .ok st') :
    ∃ ns recs, register cfg st.ctbl (unresolved st) = .ok st'.ctbl ∧
      parseOut false false st'.ctbl argv = .ok ns ∧
      expandAll ns (unresolved st) (st.recs, st.resolved, st.classes, st.hidden) =
        .ok (recs, st'.resolved, st'.classes, st'.hidden) ∧
      reResolve cfg mode recs = .ok st'.recs := by
  unfold round at h
  simp only at h
  split at h
  · cases h
  · rename_i ctbl hreg
    split at h
    · cases h
    · split at h
      · cases h
      · cases h
      · rename_i ns hp
        split at h
        · cases h
        · rename_i recs resolved classes hidden hex
          split at h
          · cases h
          · rename_i recs' hre
            injection h with h
            subst h
            exact ⟨ns, recs, hreg, hp, hex, hre⟩

/-- the selection rule, relative to the choice parser's table `tbl` of the round: `d` is the
    destination of a subgroup field wrapper whose option is registered in `tbl`, and the key is the last
    value passed under an option addressing `d` — which is then **one of that subgroup's keys** — else
    the subgroup's **declared default key** -/
def Sel (cfg : Cfg) (tbl : List Act) (argv : List (Str × Str)) (d k : Str) : Prop :=
  ∃ (r : SRec) (dflt : Option Str) (forced : Bool) (alts : Alts),
    r.kind = .sub dflt forced alts ∧ r.dest = d ∧ r.toAct cfg ∈ tbl ∧
    ((lastFor false tbl d argv = some k ∧ alts.keys.contains k = true) ∨
     (lastFor false tbl d argv = none ∧ dflt = some k))

/-- the same in terms of the registered action -/
theorem Sel.toAct {cfg : Cfg} {tbl : List Act} {argv : List (Str × Str)} {d k : Str}
    (h : Sel cfg tbl argv d k) :
    ∃ a ∈ tbl, a.dest = d ∧
      ((lastFor false tbl d argv = some k ∧ ∀ ch, a.choices = some ch → ch.contains k = true) ∨
       (lastFor false tbl d argv = none ∧ a.default = some (.sc (.str k)))) := by
  obtain ⟨r, dflt, forced, alts, hk, hd, hm, hc⟩ := h
  obtain ⟨h1, _, h3, h4⟩ := toAct_sub cfg r dflt forced alts hk
  refine ⟨r.toAct cfg, hm, by rw [h1, hd], ?_⟩
  rcases hc with ⟨hl, hin⟩ | ⟨hl, hdf⟩
  · left
    refine ⟨hl, ?_⟩
    intro ch hch
    rw [h3] at hch
    injection hch with hch
    rw [← hch]; exact hin
  · right
    exact ⟨hl, by rw [h4, hdf]; rfl⟩

theorem expandOne_resolved (ns : List (Str × Val)) (r : SRec)
    (acc acc' : List SRec × List (Str × Str) × List (Str × Str) × List (Str × Val))
    (h : expandOne ns r acc = .ok acc') :
    acc'.2.1 = acc.2.1 ∨ ∃ k, acc'.2.1 = acc.2.1 ++ [(r.dest, k)] ∧ ns.lookup r.dest = some (.sc (.str k)) := by
  unfold expandOne at h
  split at h
  · left; injection h with h; rw [h]
  · split at h
    · rename_i k hl
      split at h
      · cases h
      · right
        injection h with h
        exact ⟨k, by rw [← h], hl⟩
    · cases h

theorem expandAll_resolved (ns : List (Str × Val)) (rs : List SRec)
    (acc acc' : List SRec × List (Str × Str) × List (Str × Str) × List (Str × Val))
    (h : expandAll ns rs acc = .ok acc') :
    ∀ p ∈ acc'.2.1, p ∈ acc.2.1 ∨ ns.lookup p.1 = some (.sc (.str p.2)) := by
  induction rs generalizing acc with
  | nil =>
    simp only [expandAll, Except.ok.injEq] at h
    subst h
    intro p hp; exact Or.inl hp
  | cons r rs ih =>
    unfold expandAll at h
    split at h
    · cases h
    · rename_i acc1 h1
      intro p hp
      rcases ih acc1 h p hp with hin | hl
      · rcases expandOne_resolved ns r acc acc1 h1 with he | ⟨k, he, hl⟩
        · left; rw [← he]; exact hin
        · rw [he] at hin
          rcases List.mem_append.mp hin with hin | hin
          · exact Or.inl hin
          · right
            simp only [List.mem_singleton] at hin
            subst hin
            exact hl
      · exact Or.inr hl

/-- **c07_select, one round.** Every key resolved in a successful round follows the selection rule
    with respect to that round's choice parser: given key (one of the subgroup's keys) else the
    declared default. -/
theorem c07_select_round (cfg : Cfg) (mode : CR) (st st' : RState) (argv : List (Str × Str))
    (hc : ∀ a ∈ st.ctbl, FromSub cfg a)
    (h : round cfg mode st argv = .ok st') :
    (∃ ext, st'.ctbl = st.ctbl ++ ext) ∧ (∀ a ∈ st'.ctbl, FromSub cfg a) ∧
    ∀ p ∈ st'.resolved, p ∈ st.resolved ∨ Sel cfg st'.ctbl argv p.1 p.2 := by
  obtain ⟨ns, recs, hreg, hp, hex, _⟩ := round_ok cfg mode st st' argv h
  obtain ⟨ext, he, hce⟩ := register_acts cfg _ _ _ hreg
  have hall : ∀ a ∈ st'.ctbl, FromSub cfg a := by
    intro a ha
    rw [he] at ha
    rcases List.mem_append.mp ha with ha | ha
    · exact hc a ha
    · obtain ⟨r, _, h1, h2⟩ := hce a ha
      exact ⟨r, h1, h2⟩
  refine ⟨⟨ext, he⟩, hall, ?_⟩
  intro p hpm
  rcases expandAll_resolved ns _ _ _ hex p hpm with hin | hl
  · exact Or.inl hin
  · right
    obtain ⟨hns, _, _, _⟩ := parseOut_ok _ _ _ _ _ hp
    rw [hns] at hl
    obtain ⟨a, ha, hd, hv⟩ := lookup_map_mem st'.ctbl (·.dest) (actValue false st'.ctbl argv) p.1 _ hl
    obtain ⟨r, hsub, rfl⟩ := hall a ha
    obtain ⟨dflt, forced, alts, hk⟩ := isSub_kind r hsub
    obtain ⟨h1, h2, h3, h4⟩ := toAct_sub cfg r dflt forced alts hk
    have hcase := actValue_choice false st'.ctbl argv (r.toAct cfg) p.2 h2 hv
    rw [hd] at hcase
    refine ⟨r, dflt, forced, alts, hk, by rw [← h1]; exact hd, ha, ?_⟩
    rcases hcase with ⟨hl1, hin⟩ | ⟨hl1, hdf⟩
    · exact Or.inl ⟨hl1, hin _ h3⟩
    · right
      refine ⟨hl1, ?_⟩
      rw [h4] at hdf
      cases dflt with
      | none => simp at hdf
      | some k0 =>
        simp only [Option.map_some, Option.some.injEq, Val.sc.injEq, Scalar.str.injEq] at hdf
        rw [hdf]

/-! ### 3. all rounds (any nesting depth) -/

/-- the selection rule with respect to *some* stage of the choice parser that the final one extends
    (options are only ever added to it, and `findExact_append_left` shows that the options known at
    that stage keep addressing the same actions) -/
def SelAt (cfg : Cfg) (final : List Act) (argv : List (Str × Str)) (d k : Str) : Prop :=
  ∃ tbl ext, final = tbl ++ ext ∧ Sel cfg tbl argv d k

/-- **c07_select.** After any number of rounds (any nesting depth of subgroups inside subgroups),
    every resolved subgroup's key is the key given for it on the command line — one of the keys of
    that subgroup's dict — else its declared default key. -/
theorem c07_select (cfg : Cfg) (mode : CR) (n : Nat) (st st' : RState) (argv : List (Str × Str))
    (hc : ∀ a ∈ st.ctbl, FromSub cfg a)
    (h : loop cfg mode n st argv = .ok st') :
    (∃ ext, st'.ctbl = st.ctbl ++ ext) ∧
    ∀ p ∈ st'.resolved, p ∈ st.resolved ∨ SelAt cfg st'.ctbl argv p.1 p.2 := by
  induction n generalizing st with
  | zero => simp [loop] at h
  | succ n ih =>
    unfold loop at h
    split at h
    · rename_i st1 hr
      obtain ⟨⟨ext1, he1⟩, hc1, hsel1⟩ := c07_select_round cfg mode st st1 argv hc hr
      split at h
      · injection h with h
        subst h
        refine ⟨⟨ext1, he1⟩, ?_⟩
        intro p hp
        rcases hsel1 p hp with hin | hs
        · exact Or.inl hin
        · exact Or.inr ⟨st1.ctbl, [], by simp, hs⟩
      · obtain ⟨⟨ext2, he2⟩, hsel2⟩ := ih st1 hc1 h
        refine ⟨⟨ext1 ++ ext2, by rw [he2, he1, List.append_assoc]⟩, ?_⟩
        intro p hp
        rcases hsel2 p hp with hin | hs
        · rcases hsel1 p hin with hin | hs
          · exact Or.inl hin
          · exact Or.inr ⟨st1.ctbl, ext2, he2, hs⟩
        · exact Or.inr hs
    · cases h
    · cases h
    · cases h

/-- states reached by successful rounds that leave something unresolved -/
inductive Reach (cfg : Cfg) (mode : CR) (argv : List (Str × Str)) : RState → RState → Nat → Prop
  | refl (st : RState) : Reach cfg mode argv st st 0
  | step (st st1 st2 : RState) (k : Nat) : round cfg mode st argv = .ok st1 →
      (unresolved st1).isEmpty = false → Reach cfg mode argv st1 st2 k → Reach cfg mode argv st st2 (k + 1)

/-- a round that fails at any depth fails the whole resolution, with the same outcome -/
theorem loop_reach (cfg : Cfg) (mode : CR) (argv : List (Str × Str)) (st st2 : RState) (k m : Nat)
    (hr : Reach cfg mode argv st st2 k) :
    loop cfg mode (k + m) st argv = loop cfg mode m st2 argv := by
  induction hr with
  | refl st => simp
  | step st st1 st2 k h1 hne _ ih =>
    have : k + 1 + m = (k + m) + 1 := by omega
    rw [this, loop, h1]
    simp only [hne, Bool.false_eq_true, ↓reduceIte]
    exact ih

/-- **c07_unknown_key, one round.** A value that is not a key, passed under an option the choice
    parser knows, ends the round with status 2. -/
theorem c07_unknown_key_round (cfg : Cfg) (mode : CR) (st : RState) (argv : List (Str × Str))
    (ctbl : List Act) (hreg : register cfg st.ctbl (unresolved st) = .ok ctbl)
    (htbl : tableOk ctbl = true) (hshape : argv.all pairOk = true)
    (p : Str × Str) (hp : p ∈ argv) (a : Act) (ch : List Str)
    (hfind : findExact ctbl p.1 = some a) (hconv : a.conv = .base .str)
    (hch : a.choices = some ch) (hnot : ch.contains p.2 = false) :
    round cfg mode st argv = .exit2 := by
  have hbad : pairBad false false ctbl p = true := by
    simp only [pairBad, findOpt, hfind, convOk, hconv, Conv.apply, BConv.apply, hch, hnot,
      Bool.false_eq_true, ↓reduceIte, Option.isNone_none]
  have := parseOut_bad false false ctbl argv hshape p hp hbad
  unfold round
  simp [hreg, htbl, this]

/-- **c07_unknown_key.** At whatever depth (after any number of successful rounds) the unknown key
    is met, resolution — and with it `parse_args` — ends with status 2. -/
theorem c07_unknown_key (cfg : Cfg) (mode : CR) (st0 st : RState) (k m : Nat) (argv : List (Str × Str))
    (hr : Reach cfg mode argv st0 st k)
    (ctbl : List Act) (hreg : register cfg st.ctbl (unresolved st) = .ok ctbl)
    (htbl : tableOk ctbl = true) (hshape : argv.all pairOk = true)
    (p : Str × Str) (hp : p ∈ argv) (a : Act) (ch : List Str)
    (hfind : findExact ctbl p.1 = some a) (hconv : a.conv = .base .str)
    (hch : a.choices = some ch) (hnot : ch.contains p.2 = false) :
    loop cfg mode (k + (m + 1)) st0 argv = .exit2 := by
  rw [loop_reach cfg mode argv st0 st k (m + 1) hr, loop,
    c07_unknown_key_round cfg mode st argv ctbl hreg htbl hshape p hp a ch hfind hconv hch hnot]

theorem run_exit_of_resolve (cfg : Cfg) (mode : CR) (dest : Str) (root : Cls) (argv : List (Str × Str))
    (h : resolveSubgroups cfg mode dest root argv = .exit2) : Subgroups.run cfg mode dest root argv = .exit2 := by
  simp [Subgroups.run, h]

/-! ### 4. the value: chosen entry's defaults, overridden by exactly the options passed -/

/-- membership of a plain field in a class body -/
def HasLeaf (n : Str) (c : BConv) (d : Option Scalar) : Flds → Prop
  | .nil => False
  | .leaf n' c' d' rest => (n' = n ∧ c' = c ∧ d' = d) ∨ HasLeaf n c d rest
  | .hidden _ _ rest => HasLeaf n c d rest
  | .sub _ _ _ rest => HasLeaf n c d rest

/-- **c07_value (defaults).** The field wrappers created for a chosen entry carry, for every plain
    field, the partial keyword / instance attribute when the entry has one for it, else the class's
    own default (dataclass_wrapper.py:94-111) — and nothing else is created. -/
theorem c07_value_defaults (pd : Str) (lvl : Nat) (kw : Kw) (forced : Bool) :
    (fs : Flds) → (r : SRec) → r ∈ recsOf pd lvl kw forced fs → (c : BConv) → (d : Option Scalar) →
    r.kind = .leaf c d →
    r.fr.parentDest = pd ∧ r.fr.pref = [] ∧
    ∃ d0, HasLeaf r.fr.name c d0 fs ∧
      d = (match kw.lookup r.fr.name with | some v => some v | none => d0)
  | .nil, r, hr, c, d, hk => by simp [recsOf] at hr
  | .leaf n c' d' rest, r, hr, c, d, hk => by
    simp only [recsOf, List.mem_cons] at hr
    rcases hr with rfl | hr
    · simp only [RKind.leaf.injEq] at hk
      exact ⟨rfl, rfl, d', Or.inl ⟨rfl, hk.1, rfl⟩, hk.2.symm⟩
    · obtain ⟨h1, h2, d0, h3, h4⟩ := c07_value_defaults pd lvl kw forced rest r hr c d hk
      exact ⟨h1, h2, d0, Or.inr h3, h4⟩
  | .hidden n d' rest, r, hr, c, d, hk => by
    simp only [recsOf] at hr
    exact c07_value_defaults pd lvl kw forced rest r hr c d hk
  | .sub n d' alts rest, r, hr, c, d, hk => by
    simp only [recsOf, List.mem_cons] at hr
    rcases hr with rfl | hr
    · simp at hk
    · obtain ⟨h1, h2, d0, h3, h4⟩ := c07_value_defaults pd lvl kw forced rest r hr c d hk
      exact ⟨h1, h2, d0, h3, h4⟩

/-- the value of a plain-field action: the converted last value passed under an option addressing
    it, else its default -/
theorem actValue_leaf (ab : Bool) (tbl : List Act) (argv : List (Str × Str)) (a : Act) :
    (∃ v, lastFor ab tbl a.dest argv = some v ∧
      actValue ab tbl argv a = (match convOk a v with | some s => .sc s | none => .sc .none)) ∨
    (lastFor ab tbl a.dest argv = none ∧ actValue ab tbl argv a = a.default.getD (.sc .none)) := by
  unfold actValue
  cases hl : lastFor ab tbl a.dest argv with
  | none => right; simp
  | some v => left; exact ⟨v, rfl, rfl⟩

/-- a pair that was accepted converts under the action it addresses -/
theorem accepted_converts (ab strict : Bool) (tbl : List Act) (argv : List (Str × Str))
    (ns : List (Str × Val)) (h : parseOut ab strict tbl argv = .ok ns) (p : Str × Str) (hp : p ∈ argv)
    (a : Act) (ha : findOpt ab tbl p.1 = .act a) : ∃ s, convOk a p.2 = some s := by
  obtain ⟨_, _, hbad, _⟩ := parseOut_ok _ _ _ _ _ h
  have := (List.any_eq_false.mp hbad) p hp
  simp only [pairBad, ha, Bool.not_eq_true, Option.isNone_eq_false_iff] at this
  exact Option.isSome_iff_exists.mp this

/-- **c07_value (main parse).** In an accepted parse every active plain field's value is the
    namespace entry of an action registered for its destination in the main parser: the last value
    passed under an option addressing it (exactly, or as its unique abbreviation), else the default
    carried by the field wrapper; `classes` are the entries chosen by the rounds. -/
theorem c07_value (cfg : Cfg) (st : RState) (argv : List (Str × Str)) (res : Res)
    (h : finishParse cfg st argv = .ok res) :
    res.classes = st.classes ∧ res.hidden = st.hidden ∧
    ∀ q ∈ res.leaves, ∃ r ∈ st.recs, r.isSub = false ∧ q.1 = r.dest ∧
      ∃ a ∈ mainTable cfg st, a.dest = r.dest ∧ q.2 = actValue true (mainTable cfg st) argv a := by
  unfold finishParse at h
  simp only at h
  split at h
  · cases h
  · split at h
    · cases h
    · cases h
    · rename_i ns hp
      injection h with h
      subst h
      refine ⟨rfl, rfl, ?_⟩
      intro q hq
      simp only [List.mem_map, List.mem_filter] at hq
      obtain ⟨r, ⟨hr, hsub⟩, rfl⟩ := hq
      refine ⟨r, hr, by simpa using hsub, rfl, ?_⟩
      obtain ⟨hns, _, _, _⟩ := parseOut_ok _ _ _ _ _ hp
      have hmem : r.toAct cfg ∈ mainTable cfg st := List.mem_map.mpr ⟨r, hr, rfl⟩
      have hdest : (r.toAct cfg).dest = r.dest := by
        unfold SRec.toAct; cases r.kind <;> rfl
      cases hl : ns.lookup r.dest with
      | some v =>
        rw [hns] at hl
        obtain ⟨a, ha, hd, hv⟩ := lookup_map_mem _ (·.dest) (actValue true (mainTable cfg st) argv) _ _ hl
        exact ⟨a, ha, hd, by simp [hv]⟩
      | none =>
        exfalso
        rw [hns] at hl
        have : ∀ (l : List Act), r.toAct cfg ∈ l →
            (l.map (fun a => (a.dest, actValue true (mainTable cfg st) argv a))).lookup r.dest ≠ none := by
          intro l hl
          induction l with
          | nil => cases hl
          | cons x xs ih =>
            simp only [List.map_cons, List.lookup]
            by_cases hx : r.dest == x.dest
            · simp [hx]
            · simp only [hx]
              rcases List.mem_cons.mp hl with rfl | hl
              · simp [hdest] at hx
              · exact ih hl
        exact this _ hmem hl

/-! ### 5. options of unchosen alternatives -/

/-- **c07_foreign.** The main parser knows exactly the options of the active field wrappers
    (`mainTable` = one action per field wrapper of the root and of the entries chosen so far; the
    wrappers of an unchosen alternative are never created: `expandOne` adds `recsOf` of the found
    entry only).  A well-shaped command line with an option that addresses none of them — neither
    exactly nor as an abbreviation, e.g. one that exists only in an unchosen alternative — is rejected
    with status 2. -/
theorem c07_foreign (cfg : Cfg) (st : RState) (argv : List (Str × Str))
    (htbl : tableOk (mainTable cfg st) = true) (hshape : argv.all pairOk = true)
    (p : Str × Str) (hp : p ∈ argv) (hnone : findOpt true (mainTable cfg st) p.1 = .none) :
    finishParse cfg st argv = .exit2 := by
  have hbad : pairBad true true (mainTable cfg st) p = true := by simp [pairBad, hnone]
  have := parseOut_bad true true _ argv hshape p hp hbad
  unfold finishParse
  simp [htbl, this]

theorem c07_foreign_run (cfg : Cfg) (mode : CR) (dest : Str) (root : Cls) (st : RState)
    (argv : List (Str × Str)) (hres : resolveSubgroups cfg mode dest root argv = .ok st)
    (htbl : tableOk (mainTable cfg st) = true) (hshape : argv.all pairOk = true)
    (p : Str × Str) (hp : p ∈ argv) (hnone : findOpt true (mainTable cfg st) p.1 = .none) :
    Subgroups.run cfg mode dest root argv = .exit2 := by
  simp [Subgroups.run, hres, c07_foreign cfg st argv htbl hshape p hp hnone]

/-! ### 6. concrete trees: witnesses of the named gaps and non-vacuity of the hypotheses -/

def cfg0 : Cfg := ⟨.underscore, .flat, .default⟩
def clsA : Cls := .mk "A".toList (.leaf "lr".toList .int (some (.int 1)) .nil)
def clsB : Cls := .mk "B".toList
  (.leaf "lr".toList .int (some (.int 2)) (.leaf "wd".toList .int (some (.int 0)) .nil))
/-- `model = subgroups({"ka": A, "kb": partial(B, lr=22)}, default="ka")` -/
def demoRoot : Cls := .mk "Root".toList
  (.sub "model".toList (some "ka".toList)
    (.cons "ka".toList .cls [] clsA (.cons "kb".toList .part [("lr".toList, .int 22)] clsB .nil)) .nil)

/-- the key given selects the entry; its partial keyword is the default; a passed option overrides -/
example : Subgroups.run cfg0 .auto "config".toList demoRoot
    [("--model".toList, "kb".toList), ("--wd".toList, "7".toList)] =
    .ok { leaves := [("config.model.lr".toList, .sc (.int 22)), ("config.model.wd".toList, .sc (.int 7))],
          classes := [("config.model".toList, "B".toList)],
          subgroups := [("config.model".toList, .sc (.str "kb".toList))] } := by decide

/-- an option of the unchosen alternative is rejected; an unknown key is rejected -/
example : Subgroups.run cfg0 .auto "config".toList demoRoot [("--wd".toList, "7".toList)] = .exit2 := by decide
example : Subgroups.run cfg0 .auto "config".toList demoRoot [("--model".toList, "zz".toList)] = .exit2 := by decide

/-! ### 7. `namespace.subgroups` -/

/-- does option string `o` address destination `d`? -/
def addresses (ab : Bool) (tbl : List Act) (d : Str) (o : Str) : Bool :=
  match findOpt ab tbl o with
  | .act a => decide (a.dest = d)
  | _ => false

/-- the choice parser (at stage `tbl`, abbreviations off) and the main parser (abbreviations on) read
    every option of the command line alike as far as destination `d` is concerned — false exactly
    when an abbreviation of `d`'s option is used, or when `d`'s option was renamed after registration -/
def SameReading (tbl main : List Act) (argv : List (Str × Str)) (d : Str) : Prop :=
  ∀ p ∈ argv, addresses false tbl d p.1 = addresses true main d p.1

instance (tbl main : List Act) (argv : List (Str × Str)) (d : Str) : Decidable (SameReading tbl main argv d) := by
  unfold SameReading; exact inferInstance

/-- the two parsers were given the same `arg_options` for `d` (they come from the same cached
    `FieldWrapper.arg_options`) -/
def SameOptions (tbl main : List Act) (d : Str) : Prop :=
  ∀ a ∈ tbl, a.dest = d → ∀ a' ∈ main, a'.dest = d →
    a.default = a'.default ∧ a'.conv = .base .str ∧ a.choices = a'.choices

theorem lastFor_congr (tbl main : List Act) (d : Str) (argv : List (Str × Str))
    (h : SameReading tbl main argv d) : lastFor false tbl d argv = lastFor true main d argv := by
  induction argv with
  | nil => rfl
  | cons p rest ih =>
    have hrest : SameReading tbl main rest d := fun q hq => h q (by simp [hq])
    have hp := h p (by simp)
    simp only [lastFor, ih hrest]
    cases lastFor true main d rest with
    | some x => rfl
    | none =>
      simp only [addresses] at hp
      cases h1 : findOpt false tbl p.1 with
      | act a =>
        cases h2 : findOpt true main p.1 with
        | act a' =>
          simp only [h1, h2] at hp ⊢
          by_cases e1 : a.dest = d <;> by_cases e2 : a'.dest = d <;> simp [e1, e2] at hp ⊢
        | none => simp only [h1, h2] at hp ⊢; by_cases e1 : a.dest = d <;> simp [e1] at hp ⊢
        | ambiguous => simp only [h1, h2] at hp ⊢; by_cases e1 : a.dest = d <;> simp [e1] at hp ⊢
      | none =>
        cases h2 : findOpt true main p.1 with
        | act a' => simp only [h1, h2] at hp ⊢; by_cases e2 : a'.dest = d <;> simp [e2] at hp ⊢
        | none => rfl
        | ambiguous => rfl
      | ambiguous =>
        cases h2 : findOpt true main p.1 with
        | act a' => simp only [h1, h2] at hp ⊢; by_cases e2 : a'.dest = d <;> simp [e2] at hp ⊢
        | none => rfl
        | ambiguous => rfl

/-- the full statement: `namespace.subgroups` reports the chosen key of every subgroup -/
def ReportsStatement : Prop :=
  ∀ (cfg : Cfg) (mode : CR) (dest : Str) (root : Cls) (argv : List (Str × Str)) (st : RState) (res : Res),
    resolveSubgroups cfg mode dest root argv = .ok st →
    Subgroups.run cfg mode dest root argv = .ok res →
    ∀ p ∈ st.resolved, (p.1, Val.sc (.str p.2)) ∈ res.subgroups

/-- **witness (open finding C07-abbrev-key).** `--mod kb`: the choice parser (allow_abbrev=False)
    ignores it and the default entry `A` is instantiated, the main parser accepts it as `--model`:
    `namespace.subgroups` says `kb`. -/
theorem c07_reports_witness : ¬ ReportsStatement := by
  intro H
  have hrun : Subgroups.run cfg0 .auto "config".toList demoRoot [("--mod".toList, "kb".toList)] =
      .ok { leaves := [("config.model.lr".toList, .sc (.int 1))],
            classes := [("config.model".toList, "A".toList)],
            subgroups := [("config.model".toList, .sc (.str "kb".toList))] } := by decide
  have hres : (match resolveSubgroups cfg0 .auto "config".toList demoRoot [("--mod".toList, "kb".toList)] with
      | .ok st => st.resolved
      | _ => []) = [("config.model".toList, "ka".toList)] := by decide
  cases hr : resolveSubgroups cfg0 .auto "config".toList demoRoot [("--mod".toList, "kb".toList)] with
  | ok st =>
    rw [hr] at hres
    simp only at hres
    have := H _ _ _ _ _ st _ hr hrun ("config.model".toList, "ka".toList) (by rw [hres]; simp)
    revert this
    decide
  | exit2 => rw [hr] at hres; cases hres
  | raise e => rw [hr] at hres; cases hres
  | unmodelled => rw [hr] at hres; cases hres

/-- **c07_reports (partial).** When the two parsers read the command line alike for a subgroup's
    destination (`SameReading`: no abbreviation of its option, no renaming after registration),
    `namespace.subgroups` reports exactly the key the rounds selected and recorded for it.  (When the
    main parser sees no option for the destination at all, the reported key is the recorded one
    unconditionally: the choice parser's result is already in the namespace.) -/
theorem c07_reports_partial (cfg : Cfg) (st : RState) (argv : List (Str × Str)) (res : Res)
    (h : finishParse cfg st argv = .ok res) (tbl : List Act) (d k : Str)
    (hres : st.resolved.lookup d = some k)
    (hsel : Sel cfg tbl argv d k) (hsame : SameReading tbl (mainTable cfg st) argv d)
    (hopt : SameOptions tbl (mainTable cfg st) d)
    (r : SRec) (hr : r ∈ st.recs) (hsub : r.isSub = true) (hd : r.dest = d) :
    (d, Val.sc (.str k)) ∈ res.subgroups := by
  subst hd
  unfold finishParse at h
  simp only at h
  split at h
  · cases h
  · split at h
    · cases h
    · cases h
    · rename_i ns hp
      injection h with h
      subst h
      simp only [List.mem_map, List.mem_filter]
      refine ⟨r, ⟨hr, hsub⟩, ?_⟩
      simp only [Prod.mk.injEq, true_and]
      cases hlt : lastFor true (mainTable cfg st) r.dest argv with
      | none => simp only [hres]
      | some v0 =>
        simp only
        obtain ⟨hns, _, _, _⟩ := parseOut_ok _ _ _ _ _ hp
        have hmem : r.toAct cfg ∈ mainTable cfg st := List.mem_map.mpr ⟨r, hr, rfl⟩
        have hdest : (r.toAct cfg).dest = r.dest := by
          unfold SRec.toAct; cases r.kind <;> rfl
        have hne : ∀ (l : List Act), r.toAct cfg ∈ l →
            ∃ v, (l.map (fun a => (a.dest, actValue true (mainTable cfg st) argv a))).lookup r.dest = some v := by
          intro l hl
          induction l with
          | nil => cases hl
          | cons x xs ih =>
            simp only [List.map_cons, List.lookup]
            by_cases hx : r.dest == x.dest
            · simp [hx]
            · simp only [hx]
              rcases List.mem_cons.mp hl with rfl | hl
              · simp [hdest] at hx
              · exact ih hl
        obtain ⟨v, hl⟩ := hne _ hmem
        obtain ⟨a', ha', hd', hv⟩ := lookup_map_mem _ (·.dest) (actValue true (mainTable cfg st) argv) _ _ hl
        rw [hns, hl]
        simp only [Option.getD_some]
        rw [← hv]
        obtain ⟨a, ha, had, hcases⟩ := hsel.toAct
        obtain ⟨hdef, hconv, hch⟩ := hopt a ha had a' ha' hd'
        have hlast := lastFor_congr tbl (mainTable cfg st) r.dest argv hsame
        unfold actValue
        rw [hd', ← hlast]
        rcases hcases with ⟨hl1, hin⟩ | ⟨hl1, hdf⟩
        · simp only [hl1, convOk, hconv, Conv.apply, BConv.apply]
          cases hc : a'.choices with
          | none => rfl
          | some ch =>
            have hin' := hin ch (by rw [hch, hc])
            have hmem' : k ∈ ch := by simpa using hin'
            simp [hmem']
        · simp only [hl1, ← hdef, hdf, Option.getD_some]

/-! ### 8. the crash on instance entries -/

/-- the full statement: resolution never raises on a subgroup tree -/
def NoCrashStatement : Prop :=
  ∀ (dest : Str) (root : Cls) (argv : List (Str × Str)),
    Subgroups.run cfg0 .auto dest root argv ≠ .raise .assertionError

def clsL : Cls := .mk "L".toList (.leaf "eps".toList .int (some (.int 5)) .nil)
/-- a frozen class with a subgroup field that declares a default key -/
def clsF : Cls := .mk "F".toList (.leaf "wd".toList .int (some (.int 3))
  (.sub "opt".toList (some "ka".toList) (.cons "ka".toList .cls [] clsL .nil) .nil))
/-- `model = subgroups({"ka": A, "kf": F(wd=6)}, default="ka")` -/
def instRoot : Cls := .mk "Root".toList
  (.sub "model".toList (some "ka".toList)
    (.cons "ka".toList .cls [] clsA (.cons "kf".toList .inst [("wd".toList, .int 6)] clsF .nil)) .nil)

/-- **witness (open finding C07-instance-with-subgroup).** Choosing the instance entry pushes the
    instance's `opt` attribute as the default of the nested subgroup option, which trips the assertion
    at parsing.py:692 in the next round. -/
theorem c07_instance_witness : ¬ NoCrashStatement := by
  intro H
  exact H "config".toList instRoot [("--model".toList, "kf".toList)] (by decide)

/-- the same tree is fine as long as the instance entry is not chosen -/
example : Subgroups.run cfg0 .auto "config".toList instRoot [] =
    .ok { leaves := [("config.model.lr".toList, .sc (.int 1))],
          classes := [("config.model".toList, "A".toList)],
          subgroups := [("config.model".toList, .sc (.str "ka".toList))] } := by decide

/-! ### 9. depth 2: the hypotheses of the loop theorems are satisfiable -/

def clsL2 : Cls := .mk "L2".toList
  (.leaf "eps".toList .int (some (.int 7)) (.leaf "beta".toList .int (some (.int 1)) .nil))
/-- `opt = subgroups({"ka": L, "kb": partial(L2, eps=9)}, default="ka")`, `wd: int = 5` -/
def clsM : Cls := .mk "M".toList
  (.sub "opt".toList (some "ka".toList)
    (.cons "ka".toList .cls [] clsL (.cons "kb".toList .part [("eps".toList, .int 9)] clsL2 .nil))
    (.leaf "wd".toList .int (some (.int 5)) .nil))
def deepRoot : Cls := .mk "Root".toList
  (.sub "model".toList (some "ka".toList)
    (.cons "ka".toList .cls [] clsA (.cons "km".toList .cls [] clsM .nil)) .nil)
def deepSt0 : RState :=
  { recs := recsOf "config".toList 1 [] false deepRoot.fields, resolved := [], classes := [], hidden := [],
    ctbl := [] }
def deepArgv : List (Str × Str) :=
  [("--model".toList, "km".toList), ("--opt".toList, "kb".toList), ("--beta".toList, "4".toList)]

/-- two rounds: both keys are the given ones (hypothesis `loop … = .ok st'` of `c07_select`) -/
example : (match loop cfg0 .auto 3 deepSt0 deepArgv with
    | .ok st => st.resolved
    | _ => []) =
    [("config.model".toList, "km".toList), ("config.model.opt".toList, "kb".toList)] := by decide

/-- the whole parse at depth 2: defaults of the chosen entries (`eps=9` from the partial), the
    passed option, and the reported keys -/
example : Subgroups.run cfg0 .auto "config".toList deepRoot deepArgv =
    .ok { leaves := [("config.model.wd".toList, .sc (.int 5)), ("config.model.opt.eps".toList, .sc (.int 9)),
                     ("config.model.opt.beta".toList, .sc (.int 4))],
          classes := [("config.model".toList, "M".toList), ("config.model.opt".toList, "L2".toList)],
          subgroups := [("config.model".toList, .sc (.str "km".toList)),
                        ("config.model.opt".toList, .sc (.str "kb".toList))] } := by decide

/-- a state reached after one successful round with something left to resolve
    (hypothesis `Reach … 1` of `c07_unknown_key` / `loop_reach`) -/
example : ∃ st1, Reach cfg0 .auto deepArgv deepSt0 st1 1 := by
  have h : (match round cfg0 .auto deepSt0 deepArgv with
      | .ok st1 => !(unresolved st1).isEmpty
      | _ => false) = true := by decide
  cases hr : round cfg0 .auto deepSt0 deepArgv with
  | ok st1 =>
    rw [hr] at h
    exact ⟨st1, .step _ st1 st1 0 hr (by simpa using h) (.refl st1)⟩
  | exit2 => rw [hr] at h; cases h
  | raise e => rw [hr] at h; cases h
  | unmodelled => rw [hr] at h; cases h

/-- the unknown key met in the second round ends everything with status 2 -/
example : (match loop cfg0 .auto 3 deepSt0 [("--model".toList, "km".toList), ("--opt".toList, "zz".toList)] with
    | .exit2 => true
    | _ => false) = true := by decide

/-- `--beta` exists only in the entry `kb` of `opt`: with the default entry chosen it is foreign -/
example : Subgroups.run cfg0 .auto "config".toList deepRoot
    [("--model".toList, "km".toList), ("--beta".toList, "4".toList)] = .exit2 := by decide

/-- `SameReading` holds for exact options and fails for the abbreviation of the witness -/
example : (match resolveSubgroups cfg0 .auto "config".toList demoRoot [("--model".toList, "kb".toList)] with
    | .ok st => decide (SameReading st.ctbl (mainTable cfg0 st) [("--model".toList, "kb".toList)] "config.model".toList)
    | _ => false) = true := by decide
example : (match resolveSubgroups cfg0 .auto "config".toList demoRoot [("--mod".toList, "kb".toList)] with
    | .ok st => decide (SameReading st.ctbl (mainTable cfg0 st) [("--mod".toList, "kb".toList)] "config.model".toList)
    | _ => true) = false := by decide

/-! ### 10. EXPLICIT mode: an option registered in the choice parser is renamed, then its old name reused -/

def clsK0 : Cls := .mk "K0".toList .nil
def chain1 : Cls := .mk "K1".toList
  (.sub "lrs".toList (some "ka".toList) (.cons "ka".toList .cls [] clsK0 .nil) .nil)
def chain2 : Cls := .mk "K2".toList
  (.sub "lrs".toList (some "ka".toList) (.cons "ka".toList .cls [] chain1 .nil) .nil)
/-- `lrs` → `lrs` → `lrs`: the same subgroup field name at three nesting levels -/
def chainRoot : Cls := .mk "Root".toList
  (.sub "lrs".toList (some "ka".toList) (.cons "ka".toList .cls [] chain2 .nil) .nil)

/-- **witness (open finding C07-explicit-reregister).** Under EXPLICIT resolution the first two
    `lrs` options are renamed to their explicit names after round 1, so the third one keeps the bare
    `--lrs` — which the choice parser already holds from round 0: `add_argument` raises ArgumentError. -/
theorem c07_explicit_witness :
    ¬ (∀ (dest : Str) (root : Cls) (argv : List (Str × Str)),
        Subgroups.run cfg0 .explicit dest root argv ≠ .raise .argumentError) := by
  intro H
  exact H "config".toList chainRoot [] (by decide)

/-- AUTO resolves the same tree (the deeper fields get the longer prefixes) -/
example : Subgroups.run cfg0 .auto "config".toList chainRoot [] =
    .ok { leaves := [],
          classes := [("config.lrs".toList, "K2".toList), ("config.lrs.lrs".toList, "K1".toList),
                      ("config.lrs.lrs.lrs".toList, "K0".toList)],
          subgroups := [("config.lrs".toList, .sc (.str "ka".toList)), ("config.lrs.lrs".toList, .sc (.str "ka".toList)),
                        ("config.lrs.lrs.lrs".toList, .sc (.str "ka".toList))] } := by decide

/-! ### 11. `cmd=False` attributes of the chosen entry -/

/-- membership of a `cmd=False` field in a class body -/
def HasHidden (n : Str) (d : Scalar) : Flds → Prop
  | .nil => False
  | .leaf _ _ _ rest => HasHidden n d rest
  | .sub _ _ _ rest => HasHidden n d rest
  | .hidden n' d' rest => (n' = n ∧ d' = d) ∨ HasHidden n d rest

/-- **c07_value (attributes without an option).** A `cmd=False` field of a chosen entry has no option
    and is never passed to the entry: its value is the partial keyword / the frozen instance's own
    attribute when the entry has one, else the class default. -/
theorem c07_value_hidden (dest : Str) (kw : Kw) :
    (fs : Flds) → (q : Str × Val) → q ∈ hiddenOf dest kw fs →
    ∃ n d0, HasHidden n d0 fs ∧ q.1 = dest ++ '.' :: n ∧
      q.2 = .sc (match kw.lookup n with | some v => v | none => d0)
  | .nil, q, hq => by simp [hiddenOf] at hq
  | .leaf _ _ _ rest, q, hq => by
    simp only [hiddenOf] at hq
    obtain ⟨n, d0, h1, h2, h3⟩ := c07_value_hidden dest kw rest q hq
    exact ⟨n, d0, h1, h2, h3⟩
  | .sub _ _ _ rest, q, hq => by
    simp only [hiddenOf] at hq
    obtain ⟨n, d0, h1, h2, h3⟩ := c07_value_hidden dest kw rest q hq
    exact ⟨n, d0, h1, h2, h3⟩
  | .hidden n' d' rest, q, hq => by
    simp only [hiddenOf, List.mem_cons] at hq
    rcases hq with rfl | hq
    · exact ⟨n', d', Or.inl ⟨rfl, rfl⟩, rfl, rfl⟩
    · obtain ⟨n, d0, h1, h2, h3⟩ := c07_value_hidden dest kw rest q hq
      exact ⟨n, d0, Or.inr h1, h2, h3⟩

/-- `Preset(width=1, url="" cmd=False)`; entries: the frozen instances `tiny`/`large` -/
def clsPreset : Cls := .mk "Preset".toList
  (.leaf "width".toList .int (some (.int 1)) (.hidden "url".toList (.str []) .nil))
def presetRoot : Cls := .mk "Root".toList
  (.sub "preset".toList (some "tiny".toList)
    (.cons "tiny".toList .inst [("width".toList, .int 8), ("url".toList, .str "t.pt".toList)] clsPreset
      (.cons "large".toList .inst [("width".toList, .int 512), ("url".toList, .str "l.pt".toList)] clsPreset .nil)) .nil)

/-- `--preset large --width 100`: the option overrides `width`, `url` stays the large preset's -/
example : Subgroups.run cfg0 .auto "config".toList presetRoot
    [("--preset".toList, "large".toList), ("--width".toList, "100".toList)] =
    .ok { leaves := [("config.preset.width".toList, .sc (.int 100))],
          classes := [("config.preset".toList, "Preset".toList)],
          subgroups := [("config.preset".toList, .sc (.str "large".toList))],
          hidden := [("config.preset.url".toList, .sc (.str "l.pt".toList))] } := by decide

/-! ### 12. the state after the rounds is tied to the tree -/

/-- a field wrapper with its conflict prefix forgotten (the only thing the resolver changes) -/
def stripRec (r : SRec) : SRec := { r with fr := { r.fr with pref := [] } }

@[simp] theorem strip_kind (r : SRec) : (stripRec r).kind = r.kind := rfl
@[simp] theorem strip_name (r : SRec) : (stripRec r).fr.name = r.fr.name := rfl
@[simp] theorem strip_pd (r : SRec) : (stripRec r).fr.parentDest = r.fr.parentDest := rfl
@[simp] theorem strip_level (r : SRec) : (stripRec r).fr.level = r.fr.level := rfl
@[simp] theorem strip_dest (r : SRec) : (stripRec r).dest = r.dest := rfl
@[simp] theorem strip_isSub (r : SRec) : (stripRec r).isSub = r.isSub := rfl

theorem strip_eq_facts (r r0 : SRec) (h : stripRec r = stripRec r0) :
    r.kind = r0.kind ∧ r.fr.name = r0.fr.name ∧ r.fr.parentDest = r0.fr.parentDest ∧
    r.fr.level = r0.fr.level ∧ r.dest = r0.dest ∧ r.isSub = r0.isSub := by
  refine ⟨?_, ?_, ?_, ?_, ?_, ?_⟩
  · simpa using congrArg SRec.kind h
  · simpa using congrArg (fun x => x.fr.name) h
  · simpa using congrArg (fun x => x.fr.parentDest) h
  · simpa using congrArg (fun x => x.fr.level) h
  · simpa using congrArg SRec.dest h
  · simpa using congrArg SRec.isSub h

theorem applyPrefs_strip (recs : List SRec) (frs : List FieldRec) :
    (applyPrefs recs frs).map stripRec = recs.map stripRec := by
  induction recs generalizing frs with
  | nil => rfl
  | cons r rs ih =>
    cases frs with
    | nil => rfl
    | cons f fs =>
      simp only [applyPrefs, List.map_cons, ih fs]
      rfl

/-- re-running the conflict resolver changes prefixes only: same wrappers, same order -/
theorem reResolve_strip (cfg : Cfg) (mode : CR) (recs recs' : List SRec)
    (h : reResolve cfg mode recs = .ok recs') : recs'.map stripRec = recs.map stripRec := by
  unfold reResolve at h
  split at h
  · injection h with h
    subst h
    exact applyPrefs_strip _ _
  · cases h
  · cases h

theorem mem_of_map_strip (l l' : List SRec) (h : l'.map stripRec = l.map stripRec) (x : SRec)
    (hx : x ∈ l') : ∃ r ∈ l, stripRec x = stripRec r := by
  have : stripRec x ∈ l'.map stripRec := List.mem_map.mpr ⟨x, hx, rfl⟩
  rw [h] at this
  obtain ⟨r, hr, he⟩ := List.mem_map.mp this
  exact ⟨r, hr, he.symm⟩

theorem map_dest_of_map_strip (l l' : List SRec) (h : l'.map stripRec = l.map stripRec) :
    l'.map SRec.dest = l.map SRec.dest := by
  have e : ∀ (m : List SRec), m.map SRec.dest = (m.map stripRec).map SRec.dest := by
    intro m; simp [List.map_map, Function.comp_def]
  rw [e l', e l, h]

theorem mem_insertChild (p : Str) (new : List SRec) (x : SRec) (l : List SRec) :
    x ∈ insertChild p new l ↔ x ∈ new ∨ x ∈ l := by
  induction l with
  | nil => simp [insertChild]
  | cons r rs ih =>
    unfold insertChild
    split
    · simp only [List.mem_cons, ih]
      constructor
      · rintro (h | h | h)
        · exact Or.inr (Or.inl h)
        · exact Or.inl h
        · exact Or.inr (Or.inr h)
      · rintro (h | h | h)
        · exact Or.inr (Or.inl h)
        · exact Or.inl h
        · exact Or.inr (Or.inr h)
    · simp only [List.mem_cons, List.mem_append]
      constructor
      · rintro (h | h | h)
        · exact Or.inr (Or.inl h)
        · exact Or.inl h
        · exact Or.inr (Or.inr h)
      · rintro (h | h | h)
        · exact Or.inr (Or.inl h)
        · exact Or.inl h
        · exact Or.inr (Or.inr h)

/-- the new wrappers are spliced into the list; nothing is dropped or reordered -/
theorem insertChild_split (p : Str) (new : List SRec) (l : List SRec) :
    ∃ l₁ l₂, l = l₁ ++ l₂ ∧ insertChild p new l = l₁ ++ (new ++ l₂) := by
  induction l with
  | nil => exact ⟨[], [], rfl, by simp [insertChild]⟩
  | cons r rs ih =>
    unfold insertChild
    split
    · obtain ⟨l₁, l₂, h1, h2⟩ := ih
      exact ⟨r :: l₁, l₂, by simp [h1], by simp [h2]⟩
    · exact ⟨[r], rs, rfl, rfl⟩

/-- membership of a subgroup field in a class body -/
def HasSub (n : Str) (d : Option Str) (alts : Alts) : Flds → Prop
  | .nil => False
  | .leaf _ _ _ rest => HasSub n d alts rest
  | .hidden _ _ rest => HasSub n d alts rest
  | .sub n' d' alts' rest => (n' = n ∧ d' = d ∧ alts' = alts) ∨ HasSub n d alts rest

/-- **the active part of the tree.** `Active dest0 root resolved pd lvl kw forced fs`: the class body
    `fs` is wrapped at destination `pd` (nesting level `lvl`, overrides `kw`, `forced` = it is a frozen
    instance) — because it is the root's, or because it is the body of the entry that `resolved` records
    for a subgroup field of an active body.  Bodies of unchosen alternatives are not active. -/
inductive Active (dest0 : Str) (root : Cls) (resolved : List (Str × Str)) :
    Str → Nat → Kw → Bool → Flds → Prop
  | root : Active dest0 root resolved dest0 1 [] false root.fields
  | chosen (pd : Str) (lvl : Nat) (kw : Kw) (forced : Bool) (fs : Flds)
      (n : Str) (d : Option Str) (alts : Alts) (k : Str) (kind : AltKind) (kw' : Kw) (cls : Cls) :
      Active dest0 root resolved pd lvl kw forced fs → HasSub n d alts fs →
      (pd ++ '.' :: n, k) ∈ resolved → alts.find k = some (kind, kw', cls) →
      Active dest0 root resolved (pd ++ '.' :: n) (lvl + 1) kw' (kind == .inst) cls.fields

theorem Active.mono {dest0 : Str} {root : Cls} {res res' : List (Str × Str)}
    (hsub : ∀ p ∈ res, p ∈ res') {pd : Str} {lvl : Nat} {kw : Kw} {forced : Bool} {fs : Flds}
    (h : Active dest0 root res pd lvl kw forced fs) : Active dest0 root res' pd lvl kw forced fs := by
  induction h with
  | root => exact .root
  | chosen pd lvl kw forced fs n d alts k kind kw' cls _ hs hm hf ih =>
    exact .chosen pd lvl kw forced fs n d alts k kind kw' cls ih hs (hsub _ hm) hf

/-- an active body sits at the root destination or at a destination recorded in `resolved` -/
theorem Active.parent {dest0 : Str} {root : Cls} {res : List (Str × Str)}
    {pd : Str} {lvl : Nat} {kw : Kw} {forced : Bool} {fs : Flds}
    (h : Active dest0 root res pd lvl kw forced fs) : pd = dest0 ∨ ∃ k, (pd, k) ∈ res := by
  cases h with
  | root => exact Or.inl rfl
  | chosen pd lvl kw forced fs n d alts k kind kw' cls _ _ hm _ => exact Or.inr ⟨k, hm⟩

/-- where a field wrapper comes from: it is (up to its conflict prefix) one of the wrappers that
    `DataclassWrapper.__init__` creates for an **active** class body -/
def Origin (dest0 : Str) (root : Cls) (resolved : List (Str × Str)) (r : SRec) : Prop :=
  ∃ pd lvl kw forced fs, Active dest0 root resolved pd lvl kw forced fs ∧
    ∃ r0 ∈ recsOf pd lvl kw forced fs, stripRec r = stripRec r0

theorem Origin.mono {dest0 : Str} {root : Cls} {res res' : List (Str × Str)}
    (hsub : ∀ p ∈ res, p ∈ res') {r : SRec} (h : Origin dest0 root res r) : Origin dest0 root res' r := by
  obtain ⟨pd, lvl, kw, forced, fs, ha, r0, h0, he⟩ := h
  exact ⟨pd, lvl, kw, forced, fs, ha.mono hsub, r0, h0, he⟩

theorem Origin.of_strip {dest0 : Str} {root : Cls} {res : List (Str × Str)} {r r' : SRec}
    (he : stripRec r' = stripRec r) (h : Origin dest0 root res r) : Origin dest0 root res r' := by
  obtain ⟨pd, lvl, kw, forced, fs, ha, r0, h0, he0⟩ := h
  exact ⟨pd, lvl, kw, forced, fs, ha, r0, h0, he.trans he0⟩

/-- what `recsOf` creates for a class body -/
theorem recsOf_mem (pd : Str) (lvl : Nat) (kw : Kw) (forced : Bool) :
    (fs : Flds) → (r0 : SRec) → r0 ∈ recsOf pd lvl kw forced fs →
    r0.fr.parentDest = pd ∧ r0.fr.level = lvl ∧
    ∀ d f alts, r0.kind = .sub d f alts → f = forced ∧ HasSub r0.fr.name d alts fs
  | .nil, r0, h => by simp [recsOf] at h
  | .leaf n c d rest, r0, h => by
    simp only [recsOf, List.mem_cons] at h
    rcases h with rfl | h
    · exact ⟨rfl, rfl, by intro d f alts hk; simp at hk⟩
    · obtain ⟨h1, h2, h3⟩ := recsOf_mem pd lvl kw forced rest r0 h
      exact ⟨h1, h2, fun d f alts hk => h3 d f alts hk⟩
  | .hidden n d rest, r0, h => by
    simp only [recsOf] at h
    obtain ⟨h1, h2, h3⟩ := recsOf_mem pd lvl kw forced rest r0 h
    exact ⟨h1, h2, fun d f alts hk => h3 d f alts hk⟩
  | .sub n d' alts' rest, r0, h => by
    simp only [recsOf, List.mem_cons] at h
    rcases h with rfl | h
    · refine ⟨rfl, rfl, ?_⟩
      intro d f alts hk
      simp only [RKind.sub.injEq] at hk
      exact ⟨hk.2.1.symm, Or.inl ⟨rfl, hk.1, hk.2.2⟩⟩
    · obtain ⟨h1, h2, h3⟩ := recsOf_mem pd lvl kw forced rest r0 h
      exact ⟨h1, h2, fun d f alts hk => ⟨(h3 d f alts hk).1, Or.inr (h3 d f alts hk).2⟩⟩

/-- a resolved subgroup: its field wrapper is there, the key is a key of its dict, and the class
    wrapped at its destination is the class of that entry — **the key selects the type** -/
def Chosen (recs : List SRec) (classes : List (Str × Str)) (d k : Str) : Prop :=
  ∃ r ∈ recs, r.dest = d ∧ ∃ dflt forced alts kind kw cls, r.kind = .sub dflt forced alts ∧
    alts.find k = some (kind, kw, cls) ∧ (d, cls.name) ∈ classes

theorem Chosen.mono {recs recs' : List SRec} {classes classes' : List (Str × Str)} {d k : Str}
    (hr : ∀ x ∈ recs, ∃ x' ∈ recs', stripRec x' = stripRec x) (hc : ∀ p ∈ classes, p ∈ classes')
    (h : Chosen recs classes d k) : Chosen recs' classes' d k := by
  obtain ⟨r, hm, hd, dflt, forced, alts, kind, kw, cls, hk, hf, hcl⟩ := h
  obtain ⟨r', hm', he⟩ := hr r hm
  obtain ⟨e1, _, _, _, e5, _⟩ := strip_eq_facts r' r he
  exact ⟨r', hm', by rw [e5, hd], dflt, forced, alts, kind, kw, cls, by rw [e1, hk], hf, hc _ hcl⟩

/-- the three facts carried through a round -/
structure AccGood (dest0 : Str) (root : Cls)
    (acc : List SRec × List (Str × Str) × List (Str × Str) × List (Str × Val)) : Prop where
  origin : ∀ x ∈ acc.1, Origin dest0 root acc.2.1 x
  chosen : ∀ p ∈ acc.2.1, Chosen acc.1 acc.2.2.1 p.1 p.2

theorem expandOne_good (dest0 : Str) (root : Cls) (ns : List (Str × Val)) (r : SRec)
    (acc acc' : List SRec × List (Str × Str) × List (Str × Str) × List (Str × Val))
    (hg : AccGood dest0 root acc) (hr : r ∈ acc.1)
    (h : expandOne ns r acc = .ok acc') :
    AccGood dest0 root acc' ∧ (∀ x ∈ acc.1, x ∈ acc'.1) ∧ (∀ p ∈ acc.2.1, p ∈ acc'.2.1) ∧
    (∀ p ∈ acc'.2.1, p ∈ acc.2.1 ∨ p.1 = r.dest) := by
  unfold expandOne at h
  split at h
  · injection h with h
    subst h
    exact ⟨hg, fun x hx => hx, fun p hp => hp, fun p hp => Or.inl hp⟩
  · rename_i dflt forced alts hk
    split at h
    · rename_i k hl
      split at h
      · cases h
      · rename_i kind kw cls hf
        injection h with h
        subst h
        have hres : ∀ p ∈ acc.2.1, p ∈ acc.2.1 ++ [(r.dest, k)] := fun p hp => by simp [hp]
        have hrecs : ∀ x ∈ acc.1, x ∈ insertChild r.fr.parentDest
            (recsOf r.dest (r.fr.level + 1) kw (kind == .inst) cls.fields) acc.1 :=
          fun x hx => (mem_insertChild _ _ _ _).mpr (Or.inr hx)
        refine ⟨⟨?_, ?_⟩, hrecs, hres, ?_⟩
        · intro x hx
          rcases (mem_insertChild _ _ _ _).mp hx with hnew | hold
          · -- a wrapper of the chosen entry
            obtain ⟨pd, lvl, kw0, f0, fs, ha, r0, h0, he⟩ := hg.origin r hr
            obtain ⟨e1, e2, e3, e4, _, _⟩ := strip_eq_facts r r0 he
            obtain ⟨p1, p2, p3⟩ := recsOf_mem pd lvl kw0 f0 fs r0 h0
            obtain ⟨_, hs⟩ := p3 dflt forced alts (by rw [← e1, hk])
            have hdest : r.dest = pd ++ '.' :: r0.fr.name := by
              unfold SRec.dest; rw [e3, p1, e2]
            have hlvl : r.fr.level + 1 = lvl + 1 := by rw [e4, p2]
            refine ⟨r.dest, r.fr.level + 1, kw, kind == .inst, cls.fields, ?_, x, hnew, rfl⟩
            have hact : Active dest0 root (acc.2.1 ++ [(r.dest, k)]) (pd ++ '.' :: r0.fr.name) (lvl + 1) kw
                (kind == .inst) cls.fields :=
              .chosen pd lvl kw0 f0 fs r0.fr.name dflt alts k kind kw cls (ha.mono hres) hs
                (by rw [← hdest]; simp) hf
            rw [← hdest, ← hlvl] at hact
            exact hact
          · exact (hg.origin x hold).mono hres
        · intro p hp
          rcases List.mem_append.mp hp with hp | hp
          · exact (hg.chosen p hp).mono (fun x hx => ⟨x, hrecs x hx, rfl⟩) (fun q hq => by simp [hq])
          · simp only [List.mem_singleton] at hp
            subst hp
            exact ⟨r, hrecs r hr, rfl, dflt, forced, alts, kind, kw, cls, hk, hf, by simp⟩
        · intro p hp
          rcases List.mem_append.mp hp with hp | hp
          · exact Or.inl hp
          · simp only [List.mem_singleton] at hp
            exact Or.inr (by rw [hp])
    · cases h

theorem expandAll_good (dest0 : Str) (root : Cls) (ns : List (Str × Val)) (rs : List SRec)
    (acc acc' : List SRec × List (Str × Str) × List (Str × Str) × List (Str × Val))
    (hg : AccGood dest0 root acc) (hrs : ∀ r ∈ rs, r ∈ acc.1)
    (h : expandAll ns rs acc = .ok acc') :
    AccGood dest0 root acc' ∧ (∀ x ∈ acc.1, x ∈ acc'.1) ∧ (∀ p ∈ acc.2.1, p ∈ acc'.2.1) ∧
    (∀ p ∈ acc'.2.1, p ∈ acc.2.1 ∨ ∃ r ∈ rs, p.1 = r.dest) := by
  induction rs generalizing acc with
  | nil =>
    simp only [expandAll, Except.ok.injEq] at h
    subst h
    exact ⟨hg, fun x hx => hx, fun p hp => hp, fun p hp => Or.inl hp⟩
  | cons r rs ih =>
    unfold expandAll at h
    split at h
    · cases h
    · rename_i acc1 h1
      obtain ⟨g1, s1, t1, u1⟩ := expandOne_good dest0 root ns r acc acc1 hg (hrs r (by simp)) h1
      obtain ⟨g2, s2, t2, u2⟩ := ih acc1 g1 (fun x hx => s1 x (hrs x (by simp [hx]))) h
      refine ⟨g2, fun x hx => s2 x (s1 x hx), fun p hp => t2 p (t1 p hp), ?_⟩
      intro p hp
      rcases u2 p hp with hp | ⟨r', hr', he⟩
      · rcases u1 p hp with hp | he
        · exact Or.inl hp
        · exact Or.inr ⟨r, by simp, he⟩
      · exact Or.inr ⟨r', by simp [hr'], he⟩

/-- the invariant of the rounds -/
structure Good (dest0 : Str) (root : Cls) (st : RState) : Prop where
  origin : ∀ x ∈ st.recs, Origin dest0 root st.resolved x
  chosen : ∀ p ∈ st.resolved, Chosen st.recs st.classes p.1 p.2

theorem unresolved_mem (st : RState) (r : SRec) (h : r ∈ unresolved st) :
    r ∈ st.recs ∧ r.isSub = true ∧ ∀ k, (r.dest, k) ∉ st.resolved := by
  unfold unresolved at h
  simp only [List.mem_filter, Bool.and_eq_true, Bool.not_eq_true', List.any_eq_false,
    decide_eq_true_eq] at h
  exact ⟨h.1, h.2.1, fun k hk => h.2.2 (r.dest, k) hk rfl⟩

/-- **one round preserves the tie to the tree** -/
theorem round_good (cfg : Cfg) (mode : CR) (dest0 : Str) (root : Cls) (st st' : RState)
    (argv : List (Str × Str)) (hg : Good dest0 root st) (h : round cfg mode st argv = .ok st') :
    Good dest0 root st' := by
  obtain ⟨ns, recs, _, _, hex, hre⟩ := round_ok cfg mode st st' argv h
  obtain ⟨g, _, _, _⟩ := expandAll_good dest0 root ns (unresolved st) _ _
    ⟨hg.origin, hg.chosen⟩ (fun r hr => (unresolved_mem st r hr).1) hex
  have hs := reResolve_strip cfg mode recs st'.recs hre
  refine ⟨?_, ?_⟩
  · intro x hx
    obtain ⟨r, hr, he⟩ := mem_of_map_strip recs st'.recs hs x hx
    exact (g.origin r hr).of_strip he
  · intro p hp
    refine (g.chosen p hp).mono ?_ (fun q hq => hq)
    intro x hx
    obtain ⟨x', hx', he⟩ := mem_of_map_strip st'.recs recs hs.symm x hx
    exact ⟨x', hx', he.symm⟩

theorem loop_good (cfg : Cfg) (mode : CR) (dest0 : Str) (root : Cls) (n : Nat) (st st' : RState)
    (argv : List (Str × Str)) (hg : Good dest0 root st) (h : loop cfg mode n st argv = .ok st') :
    Good dest0 root st' := by
  induction n generalizing st with
  | zero => simp [loop] at h
  | succ n ih =>
    unfold loop at h
    split at h
    · rename_i st1 hr
      have g1 := round_good cfg mode dest0 root st st1 argv hg hr
      split at h
      · injection h with h; subst h; exact g1
      · exact ih st1 g1 h
    · cases h
    · cases h
    · cases h

theorem initState_good (cfg : Cfg) (mode : CR) (dest : Str) (root : Cls) (st0 : RState)
    (h : initState cfg mode dest root = .ok st0) :
    Good dest root st0 ∧ st0.resolved = [] ∧ st0.ctbl = [] := by
  unfold initState at h
  split at h
  · cases h
  · rename_i recs hre
    injection h with h
    subst h
    have hs := reResolve_strip cfg mode _ recs hre
    refine ⟨⟨?_, by intro p hp; cases hp⟩, rfl, rfl⟩
    intro x hx
    obtain ⟨r0, h0, he⟩ := mem_of_map_strip _ recs hs x hx
    exact ⟨dest, 1, [], false, root.fields, .root, r0, h0, he⟩

/-- **c07_origin.** After `_resolve_subgroups` (any depth): every field wrapper is — up to its conflict
    prefix — a wrapper of the root's class body or of the body of an entry that was **chosen** (recorded
    in `resolved`) for a subgroup field of an active body, with that entry's keywords as overrides
    (`c07_value_defaults` says what they do to the defaults).  So a wrapper of an unchosen alternative
    is never created.  And every resolved subgroup's key is a key of its dict whose entry's class is the
    one wrapped at its destination (`Chosen`): the key selects the type. -/
theorem c07_origin (cfg : Cfg) (mode : CR) (dest : Str) (root : Cls) (argv : List (Str × Str))
    (st : RState) (h : resolveSubgroups cfg mode dest root argv = .ok st) : Good dest root st := by
  unfold resolveSubgroups at h
  split at h
  · cases h
  · rename_i st0 h0
    obtain ⟨g0, _, _⟩ := initState_good cfg mode dest root st0 h0
    split at h
    · injection h with h; subst h; exact g0
    · exact loop_good cfg mode dest root _ st0 st argv g0 h

/-! ### 13. destinations are unique (well-formed trees), hence every value is read off its own action -/

/-- names of the fields that get a field wrapper -/
def fldNames : Flds → List Str
  | .nil => []
  | .leaf n _ _ rest => n :: fldNames rest
  | .hidden _ _ rest => fldNames rest
  | .sub n _ _ rest => n :: fldNames rest

mutual
  /-- a well-formed tree: within every class the field names are distinct and dot-free
      (they are Python identifiers of one dataclass) -/
  def wfCls : Cls → Prop
    | .mk _ f => wfFlds f
  def wfFlds : Flds → Prop
    | .nil => True
    | .leaf n _ _ rest => '.' ∉ n ∧ n ∉ fldNames rest ∧ wfFlds rest
    | .hidden _ _ rest => wfFlds rest
    | .sub n _ alts rest => '.' ∉ n ∧ n ∉ fldNames rest ∧ wfAlts alts ∧ wfFlds rest
  def wfAlts : Alts → Prop
    | .nil => True
    | .cons _ _ _ cls rest => wfCls cls ∧ wfAlts rest
end

theorem wfCls_fields (c : Cls) (h : wfCls c) : wfFlds c.fields := by
  cases c with
  | mk n f => simpa [wfCls, Cls.fields] using h

theorem wfFlds_names : (fs : Flds) → wfFlds fs → (fldNames fs).Nodup ∧ ∀ n ∈ fldNames fs, '.' ∉ n
  | .nil, _ => by simp [fldNames]
  | .leaf n _ _ rest, h => by
    simp only [wfFlds] at h
    obtain ⟨h1, h2⟩ := wfFlds_names rest h.2.2
    refine ⟨by simp only [fldNames]; exact List.nodup_cons.mpr ⟨h.2.1, h1⟩, ?_⟩
    intro m hm
    simp only [fldNames, List.mem_cons] at hm
    rcases hm with rfl | hm
    · exact h.1
    · exact h2 m hm
  | .hidden _ _ rest, h => by
    simp only [wfFlds] at h
    simpa [fldNames] using wfFlds_names rest h
  | .sub n _ _ rest, h => by
    simp only [wfFlds] at h
    obtain ⟨h1, h2⟩ := wfFlds_names rest h.2.2.2
    refine ⟨by simp only [fldNames]; exact List.nodup_cons.mpr ⟨h.2.1, h1⟩, ?_⟩
    intro m hm
    simp only [fldNames, List.mem_cons] at hm
    rcases hm with rfl | hm
    · exact h.1
    · exact h2 m hm

theorem wfFlds_hasSub (n : Str) (d : Option Str) (alts : Alts) :
    (fs : Flds) → wfFlds fs → HasSub n d alts fs → wfAlts alts
  | .nil, _, hs => by simp [HasSub] at hs
  | .leaf _ _ _ rest, h, hs => by
    simp only [wfFlds] at h; simp only [HasSub] at hs
    exact wfFlds_hasSub n d alts rest h.2.2 hs
  | .hidden _ _ rest, h, hs => by
    simp only [wfFlds] at h; simp only [HasSub] at hs
    exact wfFlds_hasSub n d alts rest h hs
  | .sub _ _ alts' rest, h, hs => by
    simp only [wfFlds] at h; simp only [HasSub] at hs
    rcases hs with ⟨_, _, rfl⟩ | hs
    · exact h.2.2.1
    · exact wfFlds_hasSub n d alts rest h.2.2.2 hs

theorem wfAlts_find (k : Str) (kind : AltKind) (kw : Kw) (cls : Cls) :
    (alts : Alts) → wfAlts alts → alts.find k = some (kind, kw, cls) → wfCls cls
  | .nil, _, hf => by simp [Alts.find] at hf
  | .cons k' kind' kw' cls' rest, h, hf => by
    simp only [wfAlts] at h
    simp only [Alts.find] at hf
    split at hf
    · simp only [Option.some.injEq, Prod.mk.injEq] at hf
      rw [← hf.2.2]; exact h.1
    · exact wfAlts_find k kind kw cls rest h.2 hf

theorem Active.wf {dest0 : Str} {root : Cls} {res : List (Str × Str)} (hwf : wfCls root)
    {pd : Str} {lvl : Nat} {kw : Kw} {forced : Bool} {fs : Flds}
    (h : Active dest0 root res pd lvl kw forced fs) : wfFlds fs := by
  induction h with
  | root => exact wfCls_fields root hwf
  | chosen pd lvl kw forced fs n d alts k kind kw' cls _ hs _ hf ih =>
    exact wfCls_fields cls (wfAlts_find k kind kw' cls alts (wfFlds_hasSub n d alts fs ih hs) hf)

theorem recsOf_name_mem (pd : Str) (lvl : Nat) (kw : Kw) (forced : Bool) :
    (fs : Flds) → (r0 : SRec) → r0 ∈ recsOf pd lvl kw forced fs → r0.fr.name ∈ fldNames fs
  | .nil, r0, h => by simp [recsOf] at h
  | .leaf n c d rest, r0, h => by
    simp only [recsOf, List.mem_cons] at h
    rcases h with rfl | h
    · simp [fldNames]
    · simp [fldNames, recsOf_name_mem pd lvl kw forced rest r0 h]
  | .hidden n d rest, r0, h => by
    simp only [recsOf] at h
    simp [fldNames, recsOf_name_mem pd lvl kw forced rest r0 h]
  | .sub n d alts rest, r0, h => by
    simp only [recsOf, List.mem_cons] at h
    rcases h with rfl | h
    · simp [fldNames]
    · simp [fldNames, recsOf_name_mem pd lvl kw forced rest r0 h]

theorem recsOf_dests (pd : Str) (lvl : Nat) (kw : Kw) (forced : Bool) :
    (fs : Flds) → (recsOf pd lvl kw forced fs).map SRec.dest = (fldNames fs).map (fun n => pd ++ '.' :: n)
  | .nil => rfl
  | .leaf n c d rest => by
    simp only [recsOf, fldNames, List.map_cons, recsOf_dests pd lvl kw forced rest]; rfl
  | .hidden n d rest => by
    simp only [recsOf, fldNames, recsOf_dests pd lvl kw forced rest]
  | .sub n d alts rest => by
    simp only [recsOf, fldNames, List.map_cons, recsOf_dests pd lvl kw forced rest]; rfl

theorem nodup_map_prefix (pd : Str) (l : List Str) (h : l.Nodup) :
    (l.map (fun n => pd ++ '.' :: n)).Nodup := by
  induction l with
  | nil => simp
  | cons n ns ih =>
    obtain ⟨h1, h2⟩ := List.nodup_cons.mp h
    simp only [List.map_cons]
    refine List.nodup_cons.mpr ⟨?_, ih h2⟩
    intro hm
    obtain ⟨m, hm1, hm2⟩ := List.mem_map.mp hm
    have := List.append_cancel_left hm2
    simp only [List.cons.injEq, true_and] at this
    exact h1 (this ▸ hm1)

/-- a dotted destination splits uniquely into parent destination and (dot-free) field name -/
theorem dest_split_inj (pd pd' n n' : Str) (hn : '.' ∉ n) (hn' : '.' ∉ n')
    (h : pd ++ '.' :: n = pd' ++ '.' :: n') : pd = pd' ∧ n = n' := by
  induction pd generalizing pd' with
  | nil =>
    cases pd' with
    | nil => simpa using h
    | cons c t =>
      simp only [List.nil_append, List.cons_append, List.cons.injEq] at h
      exact absurd (by rw [h.2]; simp) hn
  | cons a s ih =>
    cases pd' with
    | nil =>
      simp only [List.nil_append, List.cons_append, List.cons.injEq] at h
      exact absurd (by rw [← h.2]; simp) hn'
    | cons c t =>
      simp only [List.cons_append, List.cons.injEq] at h
      obtain ⟨e1, e2⟩ := ih t h.2
      exact ⟨by rw [h.1, e1], e2⟩

theorem nodup_map_inj {α β : Type} (f : α → β) (l : List α) (h : (l.map f).Nodup) (x y : α)
    (hx : x ∈ l) (hy : y ∈ l) (he : f x = f y) : x = y := by
  induction l with
  | nil => cases hx
  | cons a as ih =>
    simp only [List.map_cons] at h
    obtain ⟨h1, h2⟩ := List.nodup_cons.mp h
    rcases List.mem_cons.mp hx with hxa | hxs
    · rcases List.mem_cons.mp hy with hya | hys
      · rw [hxa, hya]
      · exact absurd (List.mem_map.mpr ⟨y, hys, by rw [← he, hxa]⟩) h1
    · rcases List.mem_cons.mp hy with hya | hys
      · exact absurd (List.mem_map.mpr ⟨x, hxs, by rw [he, hya]⟩) h1
      · exact ih h2 hxs hys

/-- what `Origin` says about a wrapper's name and parent (well-formed trees) -/
theorem Origin.facts {dest0 : Str} {root : Cls} {res : List (Str × Str)} (hwf : wfCls root)
    {x : SRec} (h : Origin dest0 root res x) :
    '.' ∉ x.fr.name ∧ (x.fr.parentDest = dest0 ∨ ∃ k, (x.fr.parentDest, k) ∈ res) := by
  obtain ⟨pd, lvl, kw, forced, fs, ha, r0, h0, he⟩ := h
  obtain ⟨_, e2, e3, _, _, _⟩ := strip_eq_facts x r0 he
  obtain ⟨p1, _, _⟩ := recsOf_mem pd lvl kw forced fs r0 h0
  refine ⟨?_, ?_⟩
  · rw [e2]
    exact (wfFlds_names fs (ha.wf hwf)).2 _ (recsOf_name_mem pd lvl kw forced fs r0 h0)
  · rw [e3, p1]; exact ha.parent

theorem expandOne_nodup (dest0 : Str) (root : Cls) (hwf : wfCls root) (hd0 : '.' ∉ dest0)
    (ns : List (Str × Val)) (r : SRec)
    (acc acc' : List SRec × List (Str × Str) × List (Str × Str) × List (Str × Val))
    (hg : AccGood dest0 root acc) (hr : r ∈ acc.1) (hnd : (acc.1.map SRec.dest).Nodup)
    (hun : ∀ k, (r.dest, k) ∉ acc.2.1) (h : expandOne ns r acc = .ok acc') :
    (acc'.1.map SRec.dest).Nodup := by
  unfold expandOne at h
  split at h
  · injection h with h; subst h; exact hnd
  · rename_i dflt forced alts hk
    split at h
    · rename_i k hl
      split at h
      · cases h
      · rename_i kind kw cls hf
        injection h with h
        subst h
        simp only
        -- the chosen entry's class body is well-formed
        obtain ⟨pd, lvl, kw0, f0, fs, ha, r0, h0, he⟩ := hg.origin r hr
        obtain ⟨e1, _, _, _, _, _⟩ := strip_eq_facts r r0 he
        obtain ⟨_, _, p3⟩ := recsOf_mem pd lvl kw0 f0 fs r0 h0
        obtain ⟨_, hs⟩ := p3 dflt forced alts (by rw [← e1, hk])
        have hwc : wfFlds cls.fields :=
          wfCls_fields cls (wfAlts_find k kind kw cls alts (wfFlds_hasSub _ _ _ fs (ha.wf hwf) hs) hf)
        obtain ⟨hnn, hdot⟩ := wfFlds_names cls.fields hwc
        -- no existing wrapper sits at a destination of the new ones
        have hfresh : ∀ x ∈ acc.1, ∀ y ∈ recsOf r.dest (r.fr.level + 1) kw (kind == .inst) cls.fields,
            x.dest ≠ y.dest := by
          intro x hx y hy heq
          obtain ⟨q1, _, _⟩ := recsOf_mem _ _ _ _ cls.fields y hy
          have hyn := hdot _ (recsOf_name_mem _ _ _ _ cls.fields y hy)
          obtain ⟨hxn, hxp⟩ := (hg.origin x hx).facts hwf
          unfold SRec.dest at heq
          rw [q1] at heq
          obtain ⟨hpd, _⟩ := dest_split_inj _ _ _ _ hxn hyn heq
          rcases hxp with hxp | ⟨k', hk'⟩
          · rw [hpd] at hxp
            have : '.' ∈ r.dest := by unfold SRec.dest; simp
            rw [hxp] at this
            exact hd0 this
          · rw [hpd] at hk'
            exact hun k' hk'
        obtain ⟨l₁, l₂, hsplit, hins⟩ := insertChild_split r.fr.parentDest
          (recsOf r.dest (r.fr.level + 1) kw (kind == .inst) cls.fields) acc.1
        rw [hins]
        rw [hsplit] at hnd hfresh
        simp only [List.map_append] at hnd ⊢
        obtain ⟨n1, n2, n3⟩ := List.nodup_append.mp hnd
        have hnew : ((recsOf r.dest (r.fr.level + 1) kw (kind == .inst) cls.fields).map SRec.dest).Nodup := by
          rw [recsOf_dests]; exact nodup_map_prefix _ _ hnn
        refine List.nodup_append.mpr ⟨n1, List.nodup_append.mpr ⟨hnew, n2, ?_⟩, ?_⟩
        · intro a ha' b hb hab
          obtain ⟨y, hy, rfl⟩ := List.mem_map.mp ha'
          obtain ⟨x, hx, rfl⟩ := List.mem_map.mp hb
          exact hfresh x (List.mem_append.mpr (Or.inr hx)) y hy hab.symm
        · intro a ha' b hb hab
          obtain ⟨x, hx, rfl⟩ := List.mem_map.mp ha'
          rcases List.mem_append.mp hb with hb | hb
          · obtain ⟨y, hy, rfl⟩ := List.mem_map.mp hb
            exact hfresh x (List.mem_append.mpr (Or.inl hx)) y hy hab
          · exact n3 _ ha' _ hb hab
    · cases h

theorem expandAll_nodup (dest0 : Str) (root : Cls) (hwf : wfCls root) (hd0 : '.' ∉ dest0)
    (ns : List (Str × Val)) (rs : List SRec)
    (acc acc' : List SRec × List (Str × Str) × List (Str × Str) × List (Str × Val))
    (hg : AccGood dest0 root acc) (hrs : ∀ r ∈ rs, r ∈ acc.1) (hnd : (acc.1.map SRec.dest).Nodup)
    (hun : ∀ r ∈ rs, ∀ k, (r.dest, k) ∉ acc.2.1) (hrn : (rs.map SRec.dest).Nodup)
    (h : expandAll ns rs acc = .ok acc') : (acc'.1.map SRec.dest).Nodup := by
  induction rs generalizing acc with
  | nil =>
    simp only [expandAll, Except.ok.injEq] at h
    subst h; exact hnd
  | cons r rs ih =>
    unfold expandAll at h
    split at h
    · cases h
    · rename_i acc1 h1
      obtain ⟨g1, s1, _, u1⟩ := expandOne_good dest0 root ns r acc acc1 hg (hrs r (by simp)) h1
      have n1 := expandOne_nodup dest0 root hwf hd0 ns r acc acc1 hg (hrs r (by simp)) hnd
        (hun r (by simp)) h1
      simp only [List.map_cons] at hrn
      obtain ⟨hr1, hr2⟩ := List.nodup_cons.mp hrn
      refine ih acc1 g1 (fun x hx => s1 x (hrs x (by simp [hx]))) n1 ?_ hr2 h
      intro r2 hr2m k hk
      rcases u1 _ hk with hk | hk
      · exact hun r2 (by simp [hr2m]) k hk
      · exact hr1 (List.mem_map.mpr ⟨r2, hr2m, hk⟩)

theorem round_nodup (cfg : Cfg) (mode : CR) (dest0 : Str) (root : Cls) (hwf : wfCls root)
    (hd0 : '.' ∉ dest0) (st st' : RState) (argv : List (Str × Str)) (hg : Good dest0 root st)
    (hnd : (st.recs.map SRec.dest).Nodup) (h : round cfg mode st argv = .ok st') :
    (st'.recs.map SRec.dest).Nodup := by
  obtain ⟨ns, recs, _, _, hex, hre⟩ := round_ok cfg mode st st' argv h
  have hsub : ((unresolved st).map SRec.dest).Nodup := by
    unfold unresolved
    exact List.Nodup.sublist (List.Sublist.map _ List.filter_sublist) hnd
  have := expandAll_nodup dest0 root hwf hd0 ns (unresolved st) _ _ ⟨hg.origin, hg.chosen⟩
    (fun r hr => (unresolved_mem st r hr).1) hnd (fun r hr => (unresolved_mem st r hr).2.2) hsub hex
  rw [map_dest_of_map_strip recs st'.recs (reResolve_strip cfg mode recs st'.recs hre)]
  exact this

theorem loop_nodup (cfg : Cfg) (mode : CR) (dest0 : Str) (root : Cls) (hwf : wfCls root)
    (hd0 : '.' ∉ dest0) (n : Nat) (st st' : RState) (argv : List (Str × Str)) (hg : Good dest0 root st)
    (hnd : (st.recs.map SRec.dest).Nodup) (h : loop cfg mode n st argv = .ok st') :
    (st'.recs.map SRec.dest).Nodup := by
  induction n generalizing st with
  | zero => simp [loop] at h
  | succ n ih =>
    unfold loop at h
    split at h
    · rename_i st1 hr
      have g1 := round_good cfg mode dest0 root st st1 argv hg hr
      have n1 := round_nodup cfg mode dest0 root hwf hd0 st st1 argv hg hnd hr
      split at h
      · injection h with h; subst h; exact n1
      · exact ih st1 g1 n1 h
    · cases h
    · cases h
    · cases h

/-- **destinations are unique.** For a well-formed tree (distinct dot-free field names per class)
    registered at a dot-free destination, no two field wrappers of the final wrapper list share a
    destination — at any depth. -/
theorem c07_dests_nodup (cfg : Cfg) (mode : CR) (dest : Str) (root : Cls) (argv : List (Str × Str))
    (hwf : wfCls root) (hd0 : '.' ∉ dest) (st : RState)
    (h : resolveSubgroups cfg mode dest root argv = .ok st) : (st.recs.map SRec.dest).Nodup := by
  unfold resolveSubgroups at h
  split at h
  · cases h
  · rename_i st0 h0
    obtain ⟨g0, _, _⟩ := initState_good cfg mode dest root st0 h0
    have n0 : (st0.recs.map SRec.dest).Nodup := by
      unfold initState at h0
      split at h0
      · cases h0
      · rename_i recs hre
        injection h0 with h0
        subst h0
        simp only
        rw [map_dest_of_map_strip _ recs (reResolve_strip cfg mode _ recs hre), recsOf_dests]
        exact nodup_map_prefix _ _ (wfFlds_names _ (wfCls_fields root hwf)).1
    split at h
    · injection h with h; subst h; exact n0
    · exact loop_nodup cfg mode dest root hwf hd0 _ st0 st argv g0 n0 h

/-! ### 14. every value is read off the wrapper's own action; lifting to `parse_args` -/

theorem toAct_dest (cfg : Cfg) (r : SRec) : (r.toAct cfg).dest = r.dest := by
  unfold SRec.toAct; cases r.kind <;> rfl

theorem lookup_map_nodup (recs : List SRec) (f : SRec → Val) (hnd : (recs.map SRec.dest).Nodup)
    (r : SRec) (hr : r ∈ recs) : (recs.map (fun x => (x.dest, f x))).lookup r.dest = some (f r) := by
  induction recs with
  | nil => cases hr
  | cons x xs ih =>
    simp only [List.map_cons, List.lookup]
    by_cases hx : r.dest == x.dest
    · simp only [hx]
      have : r = x := nodup_map_inj SRec.dest (x :: xs) hnd r x hr (by simp) (eq_of_beq hx)
      rw [this]
    · simp only [hx]
      simp only [List.map_cons] at hnd
      rcases List.mem_cons.mp hr with rfl | hr'
      · simp at hx
      · exact ih (List.nodup_cons.mp hnd).2 hr'

theorem findExact_mem (tbl : List Act) (o : Str) (a : Act) (h : findExact tbl o = some a) : a ∈ tbl := by
  induction tbl with
  | nil => simp [findExact] at h
  | cons x xs ih =>
    simp only [findExact] at h
    split at h
    · injection h with h; simp [h]
    · simp [ih h]

theorem findOpt_mem (ab : Bool) (tbl : List Act) (o : Str) (a : Act) (h : findOpt ab tbl o = .act a) :
    a ∈ tbl := by
  unfold findOpt at h
  split at h
  · rename_i a' hf
    injection h with h
    exact h ▸ findExact_mem tbl o a' hf
  · split at h
    · split at h
      · cases h
      · rename_i s a' hm
        injection h with h
        have : (s, a') ∈ prefixMatches tbl o := by rw [hm]; simp
        unfold prefixMatches at this
        obtain ⟨b, hb, hin⟩ := List.mem_flatMap.mp this
        obtain ⟨_, _, he⟩ := List.mem_map.mp hin
        simp only [Prod.mk.injEq] at he
        rw [← h, ← he.2]; exact hb
      · cases h
    · cases h

theorem lastFor_some (ab : Bool) (tbl : List Act) (d : Str) (argv : List (Str × Str)) (v : Str)
    (h : lastFor ab tbl d argv = some v) :
    ∃ p ∈ argv, p.2 = v ∧ ∃ a, findOpt ab tbl p.1 = .act a ∧ a.dest = d := by
  induction argv with
  | nil => simp [lastFor] at h
  | cons q rest ih =>
    simp only [lastFor] at h
    cases hr : lastFor ab tbl d rest with
    | some x =>
      simp only [hr, Option.some.injEq] at h
      obtain ⟨p, hp, h1, h2⟩ := ih (by rw [hr, h])
      exact ⟨p, by simp [hp], h1, h2⟩
    | none =>
      simp only [hr] at h
      cases hf : findOpt ab tbl q.1 with
      | act a =>
        simp only [hf] at h
        by_cases hd : a.dest = d
        · simp only [hd, ↓reduceIte, Option.some.injEq] at h
          exact ⟨q, by simp, h, a, hf, hd⟩
        · simp [hd] at h
      | none => simp [hf] at h
      | ambiguous => simp [hf] at h

/-- **c07_value (exact).** With unique destinations (`c07_dests_nodup`), the leaves of an accepted
    parse are exactly the active plain fields — one entry per non-subgroup field wrapper and no
    other — each with the namespace value of **its own** action. -/
theorem c07_value_exact (cfg : Cfg) (st : RState) (argv : List (Str × Str)) (res : Res)
    (hnd : (st.recs.map SRec.dest).Nodup) (h : finishParse cfg st argv = .ok res) :
    res.leaves = (st.recs.filter (fun r => !r.isSub)).map
      (fun r => (r.dest, actValue true (mainTable cfg st) argv (r.toAct cfg))) := by
  unfold finishParse at h
  simp only at h
  split at h
  · cases h
  · split at h
    · cases h
    · cases h
    · rename_i ns hp
      injection h with h
      subst h
      simp only
      obtain ⟨hns, _, _, _⟩ := parseOut_ok _ _ _ _ _ hp
      have hns' : ns = st.recs.map
          (fun x => (x.dest, actValue true (mainTable cfg st) argv (x.toAct cfg))) := by
        rw [hns]
        conv => lhs; arg 2; unfold mainTable
        rw [List.map_map]
        apply List.map_congr_left
        intro x _
        simp [toAct_dest]
      apply List.map_congr_left
      intro r hr
      have hr' : r ∈ st.recs := (List.mem_filter.mp hr).1
      rw [hns', lookup_map_nodup st.recs _ hnd r hr']
      rfl

/-- **c07_value (one leaf).** The value of an active plain field `r` in an accepted parse: the last
    pair whose option addresses `r`'s own action (exactly or as its unique abbreviation) converted by
    its `type=`, else the default its wrapper carries (`c07_origin` + `c07_value_defaults`: the chosen
    entry's keyword / attribute, else the class default). -/
theorem c07_leaf_value (cfg : Cfg) (st : RState) (argv : List (Str × Str)) (res : Res)
    (hnd : (st.recs.map SRec.dest).Nodup) (h : finishParse cfg st argv = .ok res)
    (r : SRec) (hr : r ∈ st.recs) (c : BConv) (d : Option Scalar) (hk : r.kind = .leaf c d) :
    ∃ v, (r.dest, v) ∈ res.leaves ∧
      ((∃ p ∈ argv, ∃ s, lastFor true (mainTable cfg st) r.dest argv = some p.2 ∧
          findOpt true (mainTable cfg st) p.1 = .act (r.toAct cfg) ∧
          convOk (r.toAct cfg) p.2 = some s ∧ v = .sc s) ∨
       (lastFor true (mainTable cfg st) r.dest argv = none ∧ ∃ s, d = some s ∧ v = .sc s)) := by
  have hleaves := c07_value_exact cfg st argv res hnd h
  have hns : ∃ ns, parseOut true true (mainTable cfg st) argv = .ok ns := by
    unfold finishParse at h
    simp only at h
    split at h
    · cases h
    · split at h
      · cases h
      · cases h
      · rename_i ns hp; exact ⟨ns, hp⟩
  obtain ⟨ns, hp⟩ := hns
  obtain ⟨_, _, _, hreq⟩ := parseOut_ok _ _ _ _ _ hp
  have hsub : r.isSub = false := by simp [SRec.isSub, hk]
  refine ⟨actValue true (mainTable cfg st) argv (r.toAct cfg), ?_, ?_⟩
  · rw [hleaves]
    exact List.mem_map.mpr ⟨r, List.mem_filter.mpr ⟨hr, by simp [hsub]⟩, rfl⟩
  · have hmem : r.toAct cfg ∈ mainTable cfg st := List.mem_map.mpr ⟨r, hr, rfl⟩
    have hreqf : (r.toAct cfg).required = d.isNone := by unfold SRec.toAct; rw [hk]
    have hdef : (r.toAct cfg).default = d.map (fun s => Val.sc s) := by unfold SRec.toAct; rw [hk]
    rcases actValue_leaf true (mainTable cfg st) argv (r.toAct cfg) with ⟨v, hl, hv⟩ | ⟨hl, hv⟩
    · left
      rw [toAct_dest] at hl
      obtain ⟨p, hpm, hp2, a, hf, had⟩ := lastFor_some true _ _ _ _ hl
      have ha := findOpt_mem true _ _ _ hf
      obtain ⟨r', hr', hra⟩ := List.mem_map.mp ha
      have : r' = r := nodup_map_inj SRec.dest st.recs hnd r' r hr' hr (by
        rw [← toAct_dest cfg r', hra, had])
      rw [this] at hra
      rw [← hra] at hf
      obtain ⟨s, hs⟩ := accepted_converts true true _ argv ns hp p hpm _ hf
      refine ⟨p, hpm, s, by rw [hl, hp2], hf, hs, ?_⟩
      rw [hv, ← hp2, hs]
    · right
      rw [toAct_dest] at hl
      refine ⟨hl, ?_⟩
      have := (List.any_eq_false.mp hreq) _ hmem
      rw [toAct_dest, hl, hreqf] at this
      rw [hv, hdef]
      cases d with
      | none => simp at this
      | some s => exact ⟨s, rfl, rfl⟩

theorem run_ok (cfg : Cfg) (mode : CR) (dest : Str) (root : Cls) (argv : List (Str × Str)) (res : Res)
    (h : Subgroups.run cfg mode dest root argv = .ok res) :
    ∃ st, resolveSubgroups cfg mode dest root argv = .ok st ∧ finishParse cfg st argv = .ok res := by
  unfold Subgroups.run at h
  split at h
  · cases h
  · cases h
  · cases h
  · rename_i st hs; exact ⟨st, hs, h⟩

theorem resolve_select (cfg : Cfg) (mode : CR) (dest : Str) (root : Cls) (argv : List (Str × Str))
    (st : RState) (h : resolveSubgroups cfg mode dest root argv = .ok st) :
    ∀ p ∈ st.resolved, SelAt cfg st.ctbl argv p.1 p.2 := by
  unfold resolveSubgroups at h
  split at h
  · cases h
  · rename_i st0 h0
    obtain ⟨_, hres, htbl⟩ := initState_good cfg mode dest root st0 h0
    split at h
    · injection h with h; subst h
      intro p hp; rw [hres] at hp; cases hp
    · obtain ⟨_, hsel⟩ := c07_select cfg mode _ st0 st argv (by intro a ha; rw [htbl] at ha; cases ha) h
      intro p hp
      rcases hsel p hp with hin | hs
      · rw [hres] at hin; cases hin
      · exact hs

/-- **c07_select for `parse_args`.** When `parse_args` returns: every subgroup resolved on the way
    (any depth) got the key given for it — one of its keys — else its declared default key
    (`SelAt`/`Sel`); that key's entry is the one whose class is wrapped and instantiated at the
    subgroup's destination (`Chosen`, `res.classes`); every field wrapper belongs to the root or to a
    chosen entry (`Good.origin`). -/
theorem c07_select_run (cfg : Cfg) (mode : CR) (dest : Str) (root : Cls) (argv : List (Str × Str))
    (res : Res) (h : Subgroups.run cfg mode dest root argv = .ok res) :
    ∃ st, resolveSubgroups cfg mode dest root argv = .ok st ∧ Good dest root st ∧
      ∀ p ∈ st.resolved, SelAt cfg st.ctbl argv p.1 p.2 ∧ Chosen st.recs res.classes p.1 p.2 := by
  obtain ⟨st, hs, hf⟩ := run_ok cfg mode dest root argv res h
  have hg := c07_origin cfg mode dest root argv st hs
  obtain ⟨hcl, _, _⟩ := c07_value cfg st argv res hf
  refine ⟨st, hs, hg, fun p hp => ⟨resolve_select cfg mode dest root argv st hs p hp, ?_⟩⟩
  rw [hcl]; exact hg.chosen p hp

/-- **c07_unknown_key for `parse_args`.** An unknown key met by the choice parser after `k` successful
    rounds (`k` at most the depth of the tree) makes `parse_args` exit with status 2. -/
theorem c07_unknown_key_run (cfg : Cfg) (mode : CR) (dest : Str) (root : Cls) (st0 st : RState) (k : Nat)
    (argv : List (Str × Str)) (h0 : initState cfg mode dest root = .ok st0)
    (hne : (unresolved st0).isEmpty = false) (hr : Reach cfg mode argv st0 st k) (hk : k ≤ root.depth)
    (ctbl : List Act) (hreg : register cfg st.ctbl (unresolved st) = .ok ctbl)
    (htbl : tableOk ctbl = true) (hshape : argv.all pairOk = true)
    (p : Str × Str) (hp : p ∈ argv) (a : Act) (ch : List Str)
    (hfind : findExact ctbl p.1 = some a) (hconv : a.conv = .base .str)
    (hch : a.choices = some ch) (hnot : ch.contains p.2 = false) :
    Subgroups.run cfg mode dest root argv = .exit2 := by
  apply run_exit_of_resolve
  unfold resolveSubgroups
  simp only [h0, hne, Bool.false_eq_true, ↓reduceIte]
  have : root.depth + 1 = k + ((root.depth - k) + 1) := by omega
  rw [this]
  exact c07_unknown_key cfg mode st0 st k (root.depth - k) argv hr ctbl hreg htbl hshape p hp a ch
    hfind hconv hch hnot

/-- **c07_unknown_key, main parser.** A value that is not a key, passed under an option that only the
    main parser reads as a subgroup's option (an abbreviation, or a renamed option), is rejected there. -/
theorem c07_unknown_key_main (cfg : Cfg) (st : RState) (argv : List (Str × Str))
    (htbl : tableOk (mainTable cfg st) = true) (hshape : argv.all pairOk = true)
    (p : Str × Str) (hp : p ∈ argv) (a : Act) (ch : List Str)
    (hfind : findOpt true (mainTable cfg st) p.1 = .act a) (hconv : a.conv = .base .str)
    (hch : a.choices = some ch) (hnot : ch.contains p.2 = false) :
    finishParse cfg st argv = .exit2 := by
  have hbad : pairBad true true (mainTable cfg st) p = true := by
    simp only [pairBad, hfind, convOk, hconv, Conv.apply, BConv.apply, hch, hnot,
      Bool.false_eq_true, ↓reduceIte, Option.isNone_none]
  have := parseOut_bad true true _ argv hshape p hp hbad
  unfold finishParse
  simp [htbl, this]

theorem c07_unknown_key_main_run (cfg : Cfg) (mode : CR) (dest : Str) (root : Cls) (st : RState)
    (argv : List (Str × Str)) (hres : resolveSubgroups cfg mode dest root argv = .ok st)
    (htbl : tableOk (mainTable cfg st) = true) (hshape : argv.all pairOk = true)
    (p : Str × Str) (hp : p ∈ argv) (a : Act) (ch : List Str)
    (hfind : findOpt true (mainTable cfg st) p.1 = .act a) (hconv : a.conv = .base .str)
    (hch : a.choices = some ch) (hnot : ch.contains p.2 = false) :
    Subgroups.run cfg mode dest root argv = .exit2 := by
  simp [Subgroups.run, hres,
    c07_unknown_key_main cfg st argv htbl hshape p hp a ch hfind hconv hch hnot]

/-- the demo trees are well-formed, `config` is dot-free: the hypotheses of `c07_dests_nodup` hold -/
example : wfCls deepRoot ∧ '.' ∉ "config".toList := by
  refine ⟨?_, by decide⟩
  simp only [deepRoot, clsA, clsM, clsL, clsL2, wfCls, wfFlds, wfAlts, fldNames]
  decide

/-- `--mod zz`: only the main parser reads it (as `--model`), and rejects the unknown key -/
example : Subgroups.run cfg0 .auto "config".toList demoRoot [("--mod".toList, "zz".toList)] = .exit2 := by
  decide

end SpVerif.C07
