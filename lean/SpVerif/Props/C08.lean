/-
  C08 — a parser's result depends only on its own definition and the argv of that call.

  Model: `SpVerif.Model.History` (a pool of parsers + the FieldWrapper class attributes `G` as a state machine; /repo
  at c681aea).  `fresh env spec known argv` is the answer of a freshly built, identically configured parser.

  * `FullStatement` — every parse call of every history returns the fresh answer — is kept visible and is REFUTED on
    the current code in three independent ways, each by concrete witness histories: D9 (`d9_witness`,
    `d9_help_witness`, `d9_errkind_witness`), D10 (`d10_witness`, `d10_later_witness`, `d10_help_witness`), late
    `add_arguments` (`lateAdd_witness`)  ⇒ `c08_full_false`.  Repaired defects are regression examples
    (`d5_regression`, `d6_regression`, `d8_regression`, `helpCtor_regression`, and — found in round 2 of this check,
    repaired by 2abd945 — `rootless_regression`, `rootless_argv_regression`).
  * `c08_partial` (hypothesis `env.reassert = true`, i.e. the tree WITH the D5 repair) — for EVERY history, no bound
    on its length, no hypothesis on it: every parse call that is `safe` in the state it is made in, on a parser all of
    whose earlier calls since its construction kept its state (`keeps`), returns exactly the fresh answer — whatever
    the class attributes are at that moment.  `safe = safeState ∧ safeAnswer`: `safeState` (`d10Safe`, and two PROOF
    GAPS that are not defects: `cfgSetupSafe` — a `--config_path` parser whose set-up was not made by a completed parse
    call has its actions in another order than a fresh parser, no permutation lemma is proved; `ctorReloadSafe` —
    for a set-up parser with constructor `config_path=` files the theorem CHECKS on the state that re-applying the
    files changes nothing and that a fresh parser reads the same defaults, instead of proving `loadFiles` idempotent;
    the implied `add_config_path_arg` form is outside the model) protects the invariant; `safeAnswer` (`d9Safe`,
    `lateSafe`) only concerns the answer of that call: a call violating it is excluded but does NOT taint the parser.
  * The clauses "construction or use of other parsers with different settings" / "keeps generating the option spelling
    it was configured with" are NOT true by construction of the model: `Model/History.preprocess` receives the class
    attributes, WRITES the parser's own settings (only if `env.reassert`) and generates the option strings from what
    it then READS.  `preprocess_fst` is the one lemma that uses the repair; `parse_out_indep_of_globals` states the
    clause; `d5_old_witness` shows the same safe history violating the statement on the tree before 7b430cf.  The
    trajectory of the class attributes themselves is tied to the code by the `g` observable of the plug-in.
  * The `parse_tuple` closure counters are not part of the state (see the header of `Model/History`): alignment after
    an accepted command line is `C04.c04_counters_aligned`, conversion from an aligned counter is
    `C02.c02_tuple_occurrence`; the reset after a rejected value is observed on the real closures after every call.
  * `c08_partial_safeHist` — the plain form: if every call of a history is `safe`, every parse agrees.
-/
import SpVerif.Model.History
namespace SpVerif.C08
open SpVerif SpVerif.History

/-! ### the full statement -/

/-- what the property demands of one call made in state `s` that returned `out` -/
def agrees (env : Env) (s : State) (op : Op) (out : Out) : Bool :=
  match op with
  | .parse i known argv =>
    (match s.pool i with
     | some p => decide (out = fresh env p.spec known argv)
     | none => true)
  | _ => true

def allAgree (env : Env) : State → List Op → Bool
  | _, [] => true
  | s, op :: ops => agrees env s op (step env s op).2 && allAgree env (step env s op).1 ops

/-- the property at full strength: EVERY parse of EVERY history returns what a fresh parser returns -/
def FullStatement : Prop := ∀ (env : Env) (ops : List Op), allAgree env init ops = true

/-! ### the named exclusions -/

/-- D9: on an already set-up parser, this argv selects the subgroup alternatives that were frozen.  An argv the
    subgroup-choice parser would REJECT is excluded as well: the frozen parser may then fail for another reason than a
    fresh one (`d9_errkind_witness`) -/
def d9Safe (env : Env) (p : PState) (argv : List Str) : Bool :=
  !p.preDone ||
  (match cfgScan env p.spec.cfgPath argv with
   | .error _ => true
   | .ok sc =>
     (match chooseAll env p.spec.cfg p.spec.regs sc.rest with
      | .ok fregs => decide (fregs = p.frozen)
      | .error _ => false))

/-- D10 / root-less-after-set-up: no default pushed by an earlier call is still in the wrappers or in argparse's
    parser-level defaults, and a parser that is already set up is not given config files (they would be read but
    ignored by the frozen actions, or mis-read) -/
def d10Safe (env : Env) (p : PState) (argv : List Str) : Bool :=
  decide (p.fileDefs = []) && decide (p.stray = []) &&
  (!p.preDone ||
   (match cfgScan env p.spec.cfgPath argv with
    | .error _ => true
    | .ok sc => sc.names.isEmpty))

/-- late `add_arguments`: nothing was registered after the set-up -/
def lateSafe (p : PState) : Bool := p.late.isEmpty

/-- PROOF GAP (not a known defect): a `--config_path` parser is set up exactly when the option is registered,
    i.e. its set-up was made by a parse call that got through `_preprocessing` (not by `print_help`, and no
    parse stopped between registration and set-up) -/
def cfgSetupSafe (p : PState) : Bool := !p.spec.cfgPath || (p.preDone == p.cfgDefault.isSome)

/-- constructor `config_path=` files are re-applied by every call (parsing.py:306-312): reading them again changes
    nothing, and a fresh parser reads exactly the same defaults from them.  (A decidable check of the state, not a
    proved property of `loadFiles`: idempotence of `unionDefs` is not proved.  Before 2abd945 it failed for the
    `rootless_regression` history: after the set-up the root-less file was mis-read.) -/
def ctorReloadSafe (env : Env) (p : PState) : Bool :=
  decide (loadFiles env (loadCtx p) p.fileDefs p.stray p.spec.cfgFiles = .ok p.fileDefs p.stray) &&
  decide (loadFiles env (loadCtx (newP p.spec)) [] [] p.spec.cfgFiles = .ok p.fileDefs p.stray)

/-- the part of `safe` that protects the STATE of the parser: a call violating it may leave the parser in a state
    the invariant does not describe, and the theorem stops speaking about that parser -/
def safeState (env : Env) (p : PState) (argv : List Str) : Bool :=
  !p.broken &&
  (if p.spec.cfgFiles.isEmpty then d10Safe env p argv && cfgSetupSafe p
   else
     -- constructor `config_path=` files (without the `--config_path` argument): pristine, or set up with
     -- `ctorReloadSafe`
     !p.spec.cfgPath && (decide (p = newP p.spec) || (p.preDone && ctorReloadSafe env p)))

/-- the part of `safe` that only concerns THIS call's answer: a call violating it gets a wrong answer (D9, late add)
    but leaves the parser as the invariant describes it — later calls are covered again -/
def safeAnswer (env : Env) (p : PState) (argv : List Str) : Bool := d9Safe env p argv && lateSafe p

def safeParse (env : Env) (p : PState) (argv : List Str) : Bool := safeState env p argv && safeAnswer env p argv

/-- `safe` for one call in state `s`: only parse calls can be unsafe -/
def safe (env : Env) (s : State) : Op → Bool
  | .parse i _ argv => (match s.pool i with | some p => safeParse env p argv | none => true)
  | _ => true

/-- does this call keep the parser it addresses inside the invariant? -/
def keeps (env : Env) (s : State) : Op → Bool
  | .parse i _ argv => (match s.pool i with | some p => safeState env p argv | none => true)
  | _ => true

/-! ### the invariant -/

/-- the actions a parser has before `_preprocessing`: help, and `--config_path` once registered -/
def preTbl : Option Val → List Act
  | none => [helpAct]
  | some v => [helpAct, cfgAct v]

/-- the state of a parser that is not set up: nothing but its definition, the pushed defaults and the
    registration of `--config_path` -/
def basePre (p : PState) : PState :=
  { spec := p.spec, table := preTbl p.cfgDefault, fileDefs := p.fileDefs, cfgDefault := p.cfgDefault,
    stray := p.stray }

/-- per parser: once set up, its action table is the table of ITS OWN settings for the frozen wrappers -/
def Core (p : PState) : Prop :=
  (p.preDone = false ∧ p = basePre p) ∨
  (p.preDone = true ∧ tableFor p.spec.cfg p.fileDefs (preTbl p.cfgDefault) p.frozen = some p.table ∧
    p.frozen.map (·.reg) ++ p.late = p.spec.regs)

def InvP (p : PState) : Prop :=
  (p.spec.cfgFiles ≠ [] ∧ p.spec.cfgPath = true) ∨ p.broken = true ∨
  (Core p ∧ (p.spec.cfgPath = false → p.cfgDefault = none))

/-- pool invariant; `t i = true` marks parser `i` as having received an unsafe call since its construction -/
def InvT (s : State) (t : Nat → Bool) : Prop := ∀ i p, s.pool i = some p → t i = false → InvP p

def taintStep (env : Env) (s : State) (t : Nat → Bool) (op : Op) : Nat → Bool :=
  match op with
  | .construct i _ _ _ => fun j => if j = i then false else t j
  | op => if keeps env s op then t else fun j => if j = op.idx then true else t j

/-- every call that is safe, on a parser that only ever received state-keeping calls, agrees with the fresh answer -/
def Monitored (env : Env) : State → (Nat → Bool) → List Op → Prop
  | _, _, [] => True
  | s, t, op :: ops =>
    (safe env s op = true → t op.idx = false → agrees env s op (step env s op).2 = true) ∧
    Monitored env (step env s op).1 (taintStep env s t op) ops

/-! ### small lemmas about the model -/

def _root_.SpVerif.History.PreOut.st : PreOut → PState
  | .ok p => p
  | .stop p _ => p

def _root_.SpVerif.History.CfgOut.st : CfgOut → PState
  | .go p _ => p
  | .stop p _ => p

/-! ### the pipeline with the class attributes eliminated

  `preprocess` WRITES the parser's own settings and then READS them (`Env.reassert`, the D5 repair): under that
  hypothesis the incoming class attributes are irrelevant and the pipeline equals the `G`-free one below — this is
  where the repair is load-bearing (`preprocess_fst`; `d5_old_witness` shows it fails without). -/

def preOwn (env : Env) (p : PState) (args : List Str) : PreOut := preprocessAt env p.spec.cfg p args

def finishOwn (env : Env) (p1 : PState) (known : Bool) (rest : List Str) : PState × Out :=
  finishCore env (preOwn env p1 rest) known rest

def parseOwn (env : Env) (p : PState) (known : Bool) (argv : List Str) : PState × Out :=
  if p.broken then (p, .unmodelled "parser left the fragment earlier")
  else
    match cfgPhase env p argv with
    | .stop p1 o => (p1, o)
    | .go p1 rest => finishOwn env p1 known rest

def helpOwn (env : Env) (p : PState) : PState × Out :=
  if p.broken then (p, .unmodelled "parser left the fragment earlier")
  else if p.preDone then (p, .unit)
  else
    match loadFiles env (loadCtx p) p.fileDefs p.stray p.spec.cfgFiles with
    | .foreign => ({ p with broken := true }, .unmodelled "constructor config file does not fit the layout")
    | .missing defs st => ({ p with fileDefs := defs, stray := st }, .raise "FileNotFoundError".toList)
    | .ok defs st => helpCore (preOwn env { p with fileDefs := defs, stray := st } [])

def freshOwn (env : Env) (spec : Spec) (known : Bool) (argv : List Str) : Out :=
  (parseOwn env (newP spec) known argv).2

/-- THE place where the D5 repair is used: whatever the class attributes are when `_preprocessing` starts, the
    option strings are generated from the parser's own settings -/
theorem preprocess_fst (env : Env) (hr : env.reassert = true) (G : Cfg) (p : PState) (args : List Str) :
    (preprocess env G p args).1 = preOwn env p args := by
  unfold preprocess preOwn
  split
  · rename_i hpre
    unfold preprocessAt
    simp [hpre]
  · simp [hr]

theorem parseP_own (env : Env) (hr : env.reassert = true) (G : Cfg) (p : PState) (known : Bool) (argv : List Str) :
    (parseP env G p known argv).1 = (parseOwn env p known argv).1 ∧
      (parseP env G p known argv).2.1 = (parseOwn env p known argv).2 := by
  unfold parseP parseOwn
  cases hb : p.broken
  · simp only [Bool.false_eq_true, ↓reduceIte]
    cases hc : cfgPhase env p argv with
    | stop p1 o => exact ⟨rfl, rfl⟩
    | go p1 rest =>
      unfold finishP finishOwn
      simp [preprocess_fst env hr]
  · exact ⟨rfl, rfl⟩

theorem helpP_own (env : Env) (hr : env.reassert = true) (G : Cfg) (p : PState) :
    (helpP env G p).1 = (helpOwn env p).1 := by
  unfold helpP helpOwn
  cases hb : p.broken
  · cases hpre : p.preDone
    · simp only [Bool.false_eq_true, ↓reduceIte]
      cases hl : loadFiles env (loadCtx p) p.fileDefs p.stray p.spec.cfgFiles with
      | foreign => rfl
      | missing defs st => rfl
      | ok defs st => simp only [preprocess_fst env hr]
    · rfl
  · rfl

theorem fresh_own (env : Env) (hr : env.reassert = true) (spec : Spec) (known : Bool) (argv : List Str) :
    fresh env spec known argv = freshOwn env spec known argv := by
  unfold fresh freshOwn
  exact (parseP_own env hr spec.cfg (newP spec) known argv).2

theorem chooseAll_regs {env : Env} {G : Cfg} {regs : List Reg} {args : List Str} {fregs : List FReg}
    (h : chooseAll env G regs args = .ok fregs) : fregs.map (·.reg) = regs := by
  have key : ∀ (f : Reg → FReg), (∀ r, (f r).reg = r) → (regs.map f).map (·.reg) = regs := by
    intro f hf
    rw [List.map_map]
    conv => rhs; rw [← List.map_id regs]
    apply List.map_congr_left
    intro r _
    exact hf r
  unfold chooseAll at h
  dsimp only at h
  split at h
  · injection h with h; subst h; exact key _ (fun _ => rfl)
  · split at h
    · cases h
    · split at h
      · cases h
      · cases h
      · cases h
      · injection h with h
        subst h
        apply key
        intro r
        cases r.cls.sub <;> rfl

theorem tableFor_append {G : Cfg} {defs : FileC} {pre : List Act} {fregs : List FReg} {tbl : List Act}
    (h : tableFor G defs pre fregs = some tbl) : ∃ acts, tbl = pre ++ acts := by
  unfold tableFor at h
  split at h
  · cases h
  · rename_i acts _
    split at h
    · injection h with h; exact ⟨acts, h.symm⟩
    · cases h

/-- the default shown for `--config_path` plays no role in building the table -/
theorem tableFor_cfgDefault {G : Cfg} {defs : FileC} {fregs : List FReg} {tbl : List Act} (d v : Val)
    (h : tableFor G defs [helpAct, cfgAct d] fregs = some tbl) :
    ∃ acts, tbl = [helpAct, cfgAct d] ++ acts ∧
      tableFor G defs [helpAct, cfgAct v] fregs = some ([helpAct, cfgAct v] ++ acts) := by
  unfold tableFor at h ⊢
  split at h
  · cases h
  · rename_i acts hacts
    split at h
    · rename_i hok
      injection h with h
      refine ⟨acts, h.symm, ?_⟩
      have : tableOk ([helpAct, cfgAct v] ++ acts) = true := by
        simpa [tableOk, cfgAct] using hok
      simpa [hacts] using this
    · cases h

theorem setCfgDefault_pre (d v : Val) (acts : List Act) :
    setCfgDefault v ([helpAct, cfgAct d] ++ acts) = [helpAct, cfgAct v] ++ acts := by
  have h1 : (helpAct.dest = cfgDest) = False := by decide
  simp [setCfgDefault, h1, cfgAct]

theorem preprocess_spec (env : Env) (p : PState) (args : List Str) :
    (preOwn env p args).st.spec = p.spec := by
  unfold preOwn preprocessAt
  split
  · rfl
  · split
    · rfl
    · rfl
    · split <;> rfl

theorem preprocess_done {env : Env} {p : PState} (h : p.preDone = true) (args : List Str) :
    preOwn env p args = .ok p := by
  unfold preOwn preprocessAt; simp [h]

theorem finishP_spec (env : Env) (p : PState) (known : Bool) (rest : List Str) :
    (finishOwn env p known rest).1.spec = p.spec := by
  unfold finishOwn finishCore
  have h2 := preprocess_spec env p rest
  split
  · rename_i p2 o heq2; rw [heq2] at h2; exact h2
  · rename_i p2 heq2
    rw [heq2] at h2
    split <;> exact h2

theorem cfgPhase_spec (env : Env) (p : PState) (argv : List Str) :
    (cfgPhase env p argv).st.spec = p.spec := by
  unfold cfgPhase
  split
  · rfl
  · rfl
  · dsimp only
    split
    · rfl
    · split
      · rfl
      · split
        · rfl
        · rfl
        · split
          · rfl
          · rfl
          · split <;> rfl

theorem parseP_spec (env : Env) (p : PState) (known : Bool) (argv : List Str) :
    (parseOwn env p known argv).1.spec = p.spec := by
  unfold parseOwn
  split
  · rfl
  · have h1 := cfgPhase_spec env p argv
    split
    · rename_i p1 o heq; rw [heq] at h1; exact h1
    · rename_i p1 rest heq
      rw [heq] at h1
      exact (finishP_spec env p1 known rest).trans h1

theorem helpP_spec (env : Env) (p : PState) : (helpOwn env p).1.spec = p.spec := by
  unfold helpOwn
  split
  · rfl
  · split
    · rfl
    · split
      · rfl
      · rfl
      · rename_i defs st _
        have h2 := preprocess_spec env { p with fileDefs := defs, stray := st } []
        unfold helpCore
        split
        · rename_i p2 o heq2; rw [heq2] at h2; exact h2
        · rename_i p2 heq2; rw [heq2] at h2; exact h2

/-- without constructor files and without `add_config_path_arg` the prologue does nothing -/
theorem cfgPhase_plain {env : Env} {p : PState} (hf : p.spec.cfgFiles = []) (hc : p.spec.cfgPath = false)
    (argv : List Str) : cfgPhase env p argv = .go p argv := by
  unfold cfgPhase
  simp [hf, hc, loadFiles]

/-- `_preprocessing` of a parser that is not set up latched: the frozen table is the table of its own settings -/
theorem preprocess_base_ok (env : Env) (p : PState) (args : List Str) (q : PState)
    (hb : p = basePre p) (hpre : p.preDone = false) (h : preOwn env p args = .ok q) :
    q.broken = false ∧ q.preDone = true ∧ Core q ∧ q.spec = p.spec ∧ q.cfgDefault = p.cfgDefault ∧
      q.fileDefs = p.fileDefs ∧ q.stray = p.stray := by
  have hbr : p.broken = false := by rw [hb]; rfl
  have htab : p.table = preTbl p.cfgDefault := by rw [hb]; rfl
  have hlate : p.late = [] := by rw [hb]; rfl
  unfold preOwn preprocessAt at h
  simp only [hpre, Bool.false_eq_true, ↓reduceIte] at h
  split at h
  · cases h
  · cases h
  · rename_i fregs hch
    split at h
    · cases h
    · rename_i tbl htbl
      injection h with h
      subst h
      rw [htab] at htbl
      refine ⟨hbr, rfl, Or.inr ⟨rfl, htbl, ?_⟩, rfl, rfl, rfl, rfl⟩
      show fregs.map (·.reg) ++ p.late = p.spec.regs
      rw [hlate, List.append_nil]
      exact chooseAll_regs hch

/-- … or it stopped (subgroup choice rejected / outside the fragment): nothing was latched -/
theorem preprocess_base_stop (env : Env) (p : PState) (args : List Str) (q : PState) (o : Out)
    (hpre : p.preDone = false) (h : preOwn env p args = .stop q o) :
    q = p ∨ q = { p with broken := true } := by
  unfold preOwn preprocessAt at h
  rw [if_neg (by rw [hpre]; decide)] at h
  split at h
  · injection h with h _; exact Or.inr h.symm
  · injection h with h _; exact Or.inl h.symm
  · split at h
    · injection h with h _; exact Or.inr h.symm
    · cases h

/-- from a parser that is not set up, `_preprocessing` + parse + `_postprocessing` keep the invariant -/
theorem finishP_base_inv (env : Env) (p : PState) (known : Bool) (rest : List Str)
    (hb : p = basePre p) (hpre : p.preDone = false)
    (hconj : p.spec.cfgPath = false → p.cfgDefault = none) :
    InvP (finishOwn env p known rest).1 := by
  unfold finishOwn finishCore
  split
  · rename_i q o heq
    rcases preprocess_base_stop env p rest q o hpre heq with h | h
    · subst h; exact Or.inr (Or.inr ⟨Or.inl ⟨hpre, hb⟩, hconj⟩)
    · subst h; exact Or.inr (Or.inl rfl)
  · rename_i q heq
    have key := preprocess_base_ok env p rest q hb hpre heq
    split
    · exact Or.inr (Or.inl rfl)
    · refine Or.inr (Or.inr ⟨key.2.2.1, fun hc => ?_⟩)
      exact key.2.2.2.2.1.trans (hconj (by rw [← key.2.2.2.1]; exact hc))

/-- the prologue on a pristine parser stops (file missing / scan rejected / outside the fragment) … -/
theorem cfgPhase_new_stop (env : Env) (spec : Spec) (hok : spec.cfgFiles = [] ∨ spec.cfgPath = false)
    (argv : List Str) (q : PState) (o : Out)
    (h : cfgPhase env (newP spec) argv = .stop q o) : InvP q := by
  cases hcp : spec.cfgPath
  · -- no `--config_path` argument: only the constructor files can stop the prologue
    unfold cfgPhase at h
    cases hl : loadFiles env (loadCtx (newP spec)) (newP spec).fileDefs (newP spec).stray (newP spec).spec.cfgFiles with
    | foreign => rw [hl] at h; injection h with h _; subst h; exact Or.inr (Or.inl rfl)
    | missing d st =>
      rw [hl] at h; injection h with h _; subst h
      exact Or.inr (Or.inr ⟨Or.inl ⟨rfl, rfl⟩, fun _ => rfl⟩)
    | ok d st => rw [hl] at h; simp [newP, hcp] at h
  · have hf : spec.cfgFiles = [] := by
      rcases hok with h' | h'
      · exact h'
      · rw [hcp] at h'; cases h'
    unfold cfgPhase at h
    simp only [newP, hf, loadFiles, hcp, List.isEmpty_nil, Bool.not_true, Bool.false_eq_true, ↓reduceIte] at h
    have vac : ∀ {P : Prop}, spec.cfgPath = false → P := fun h' => by rw [hcp] at h'; cases h'
    split at h
    · injection h with h _; subst h; exact Or.inr (Or.inl rfl)
    · injection h with h _; subst h
      exact Or.inr (Or.inr ⟨Or.inl ⟨rfl, rfl⟩, fun hc' => vac hc'⟩)
    · split at h
      · injection h with h _; subst h; exact Or.inr (Or.inl rfl)
      · injection h with h _; subst h
        exact Or.inr (Or.inr ⟨Or.inl ⟨rfl, rfl⟩, fun hc' => vac hc'⟩)
      · cases h

/-- … or goes on with a parser that is still not set up (constructor files applied, `--config_path` registered) -/
theorem cfgPhase_new_go (env : Env) (spec : Spec) (hok : spec.cfgFiles = [] ∨ spec.cfgPath = false)
    (argv : List Str) (q : PState)
    (rest : List Str) (h : cfgPhase env (newP spec) argv = .go q rest) :
    q = basePre q ∧ q.preDone = false ∧ (q.spec.cfgPath = false → q.cfgDefault = none) := by
  cases hcp : spec.cfgPath
  · unfold cfgPhase at h
    cases hl : loadFiles env (loadCtx (newP spec)) (newP spec).fileDefs (newP spec).stray (newP spec).spec.cfgFiles with
    | foreign => rw [hl] at h; cases h
    | missing d st => rw [hl] at h; cases h
    | ok d st =>
      rw [hl] at h
      simp only [newP, hcp, Bool.not_false, ↓reduceIte] at h
      injection h with h _; subst h
      exact ⟨rfl, rfl, fun _ => rfl⟩
  · have hf : spec.cfgFiles = [] := by
      rcases hok with h' | h'
      · exact h'
      · rw [hcp] at h'; cases h'
    unfold cfgPhase at h
    simp only [newP, hf, loadFiles, hcp, List.isEmpty_nil, Bool.not_true, Bool.false_eq_true, ↓reduceIte] at h
    have vac : ∀ {P : Prop}, spec.cfgPath = false → P := fun h' => by rw [hcp] at h'; cases h'
    split at h
    · cases h
    · cases h
    · split at h
      · cases h
      · cases h
      · injection h with h _; subst h
        exact ⟨rfl, rfl, fun hc' => vac hc'⟩

/-- a parse on a pristine parser keeps the invariant -/
theorem parseP_new_inv (env : Env) (spec : Spec) (hok : spec.cfgFiles = [] ∨ spec.cfgPath = false) (known : Bool)
    (argv : List Str) : InvP (parseOwn env (newP spec) known argv).1 := by
  unfold parseOwn
  have hb : (newP spec).broken = false := rfl
  simp only [hb, Bool.false_eq_true, ↓reduceIte]
  split
  · rename_i q o heq; exact cfgPhase_new_stop env spec hok argv q o heq
  · rename_i q rest heq
    obtain ⟨h1, h2, h3⟩ := cfgPhase_new_go env spec hok argv q rest heq
    exact finishP_base_inv env q known rest h1 h2 h3


/-! ### the step lemmas -/

theorem addP_inv (p : PState) (r : Reg) (h : InvP p) : InvP (addP p r).1 := by
  unfold addP
  split
  · exact Or.inr (Or.inl rfl)
  · split
    · exact Or.inr (Or.inl rfl)
    · rcases h with h | h | ⟨h, hconj⟩
      · left; split <;> exact h
      · right; left; split <;> exact h
      · rcases h with ⟨h1, h2⟩ | ⟨h1, h2, h3⟩
        · right; right
          simp only [h1, Bool.false_eq_true, ↓reduceIte]
          refine ⟨Or.inl ⟨by first | exact h1 | rfl, ?_⟩, hconj⟩
          obtain ⟨q, rfl⟩ : ∃ q, p = basePre q := ⟨p, h2⟩
          rfl
        · right; right
          simp only [h1, ↓reduceIte]
          refine ⟨Or.inr ⟨by first | exact h1 | rfl, h2, ?_⟩, hconj⟩
          show p.frozen.map (·.reg) ++ (p.late ++ [r]) = p.spec.regs ++ [r]
          rw [← List.append_assoc, h3]

theorem helpP_inv (env : Env) (p : PState) (h : InvP p) : InvP (helpOwn env p).1 := by
  rcases h with h | h | ⟨h, hconj⟩
  · left; rw [helpP_spec]; exact h
  · unfold helpOwn; simp only [h, ↓reduceIte]; exact Or.inr (Or.inl h)
  · cases hb : p.broken
    · rcases h with ⟨h1, h2⟩ | ⟨h1, h2, h3⟩
      · obtain ⟨q0, rfl⟩ : ∃ q0, p = basePre q0 := ⟨p, h2⟩
        unfold helpOwn
        simp only [hb, h1, Bool.false_eq_true, ↓reduceIte]
        cases hl : loadFiles env (loadCtx (basePre q0)) (basePre q0).fileDefs (basePre q0).stray
            (basePre q0).spec.cfgFiles with
        | foreign => exact Or.inr (Or.inl rfl)
        | missing d st => exact Or.inr (Or.inr ⟨Or.inl ⟨rfl, rfl⟩, hconj⟩)
        | ok d st =>
          dsimp only
          unfold helpCore
          split
          · rename_i q o heq
            rcases preprocess_base_stop env { basePre q0 with fileDefs := d, stray := st } [] q o rfl heq with e | e
            · subst e; exact Or.inr (Or.inr ⟨Or.inl ⟨rfl, rfl⟩, hconj⟩)
            · subst e; exact Or.inr (Or.inl rfl)
          · rename_i q heq
            have key := preprocess_base_ok env { basePre q0 with fileDefs := d, stray := st } [] q rfl rfl heq
            refine Or.inr (Or.inr ⟨key.2.2.1, fun hc => ?_⟩)
            exact key.2.2.2.2.1.trans (hconj (by rw [← key.2.2.2.1]; exact hc))
      · unfold helpOwn
        simp only [hb, h1, Bool.false_eq_true, ↓reduceIte]
        exact Or.inr (Or.inr ⟨Or.inr ⟨h1, h2, h3⟩, hconj⟩)
    · unfold helpOwn; simp only [hb, ↓reduceIte]; exact Or.inr (Or.inl hb)

/-- what a parse does on a set-up parser whose prologue changes nothing -/
theorem parseP_done_go (env : Env) (p : PState) (known : Bool) (argv : List Str)
    (hgo : cfgPhase env p argv = .go p argv) (hb : p.broken = false) (hpre : p.preDone = true) :
    (parseOwn env p known argv).2 = finishOut env p.table p.frozen p.late p.fileDefs p.stray known argv ∧
      ((parseOwn env p known argv).1 = p ∨ (parseOwn env p known argv).1 = { p with broken := true }) := by
  unfold parseOwn
  rw [if_neg (by rw [hb]; decide)]
  rw [hgo]
  dsimp only
  unfold finishOwn finishCore
  rw [preprocess_done hpre]
  dsimp only
  generalize finishOut env p.table p.frozen p.late p.fileDefs p.stray known argv = o
  cases o
  all_goals first | exact ⟨rfl, Or.inl rfl⟩ | exact ⟨rfl, Or.inr rfl⟩

/-- what a parse does on a set-up parser without `--config_path` and without constructor files -/
theorem parseP_done_plain (env : Env) (p : PState) (known : Bool) (argv : List Str)
    (hf : p.spec.cfgFiles = []) (hc : p.spec.cfgPath = false) (hb : p.broken = false) (hpre : p.preDone = true) :
    (parseOwn env p known argv).2 = finishOut env p.table p.frozen p.late p.fileDefs p.stray known argv ∧
      ((parseOwn env p known argv).1 = p ∨ (parseOwn env p known argv).1 = { p with broken := true }) :=
  parseP_done_go env p known argv (cfgPhase_plain hf hc argv) hb hpre

/-- re-applying the constructor files to a parser on which that changes nothing -/
theorem cfgPhase_reload (env : Env) (p : PState) (argv : List Str) (hc : p.spec.cfgPath = false)
    (hre : loadFiles env (loadCtx p) p.fileDefs p.stray p.spec.cfgFiles = .ok p.fileDefs p.stray) :
    cfgPhase env p argv = .go p argv := by
  unfold cfgPhase
  rw [hre]
  simp [hc]

/-- the prologue of a pristine parser with constructor files that load -/
theorem cfgPhase_new_load (env : Env) (spec : Spec) (argv : List Str) (d : FileC) (st : List (Str × Val))
    (hc : spec.cfgPath = false)
    (hl : loadFiles env (loadCtx (newP spec)) [] [] spec.cfgFiles = .ok d st) :
    cfgPhase env (newP spec) argv = .go { newP spec with fileDefs := d, stray := st } argv := by
  unfold cfgPhase
  have : loadFiles env (loadCtx (newP spec)) (newP spec).fileDefs (newP spec).stray (newP spec).spec.cfgFiles = .ok d st := hl
  rw [this]
  simp [newP, hc]

/-- the prologue on a set-up `--config_path` parser whose argv names no file: only the shown default changes -/
theorem cfgPhase_reuse (env : Env) (p : PState) (argv : List Str) (sc : Scan) (d : Val)
    (hf : p.spec.cfgFiles = []) (hc : p.spec.cfgPath = true) (hd : p.cfgDefault = some d)
    (hs : cfgScan env true argv = .ok sc) (hn : sc.names = []) :
    cfgPhase env p argv =
      .go { p with cfgDefault := some sc.v, table := setCfgDefault sc.v p.table } sc.rest := by
  unfold cfgPhase
  simp [hf, hc, hs, hn, hd, loadFiles]

theorem cfgPhase_new_reg (env : Env) (spec : Spec) (argv : List Str) (sc : Scan)
    (hf : spec.cfgFiles = []) (hc : spec.cfgPath = true)
    (hs : cfgScan env true argv = .ok sc) (hn : sc.names = []) :
    cfgPhase env (newP spec) argv =
      .go { newP spec with cfgDefault := some sc.v, table := [helpAct, cfgAct sc.v] } sc.rest := by
  unfold cfgPhase
  simp [newP, hf, hc, hs, hn, loadFiles]

/-- the scan of the temporary parser rejected argv: same answer whatever the state -/
theorem cfgPhase_scan_err (env : Env) (p : PState) (argv : List Str) (o : Out)
    (hf : p.spec.cfgFiles = []) (hc : p.spec.cfgPath = true) (hs : cfgScan env true argv = .error o) :
    cfgPhase env p argv =
      .stop (match o with | .unmodelled _ => { p with broken := true } | _ => p) o := by
  unfold cfgPhase
  simp only [hf, hc, hs, loadFiles, List.isEmpty_nil, Bool.false_eq_true, ↓reduceIte, Bool.not_true]
  cases o <;> rfl

theorem parseP_scan_err (env : Env) (p : PState) (known : Bool) (argv : List Str) (o : Out)
    (hf : p.spec.cfgFiles = []) (hc : p.spec.cfgPath = true) (hb : p.broken = false)
    (hs : cfgScan env true argv = .error o) :
    (parseOwn env p known argv).2 = o ∧
      ((parseOwn env p known argv).1 = p ∨ (parseOwn env p known argv).1 = { p with broken := true }) := by
  unfold parseOwn
  simp only [hb, Bool.false_eq_true, ↓reduceIte]
  rw [cfgPhase_scan_err env p argv o hf hc hs]
  dsimp only
  cases o
  all_goals first | exact ⟨rfl, Or.inl rfl⟩ | exact ⟨rfl, Or.inr rfl⟩

/-- what a parse does on a set-up `--config_path` parser whose argv names no file -/
theorem parseP_done_cfg (env : Env) (p : PState) (known : Bool) (argv : List Str) (sc : Scan) (d : Val)
    (hf : p.spec.cfgFiles = []) (hc : p.spec.cfgPath = true) (hb : p.broken = false) (hpre : p.preDone = true)
    (hd : p.cfgDefault = some d) (hs : cfgScan env true argv = .ok sc) (hn : sc.names = []) :
    (parseOwn env p known argv).2 =
        finishOut env (setCfgDefault sc.v p.table) p.frozen p.late p.fileDefs p.stray known sc.rest ∧
      ((parseOwn env p known argv).1 = { p with cfgDefault := some sc.v, table := setCfgDefault sc.v p.table } ∨
       (parseOwn env p known argv).1 =
          { p with cfgDefault := some sc.v, table := setCfgDefault sc.v p.table, broken := true }) := by
  unfold parseOwn
  rw [if_neg (by rw [hb]; decide)]
  rw [cfgPhase_reuse env p argv sc d hf hc hd hs hn]
  dsimp only
  unfold finishOwn finishCore
  rw [preprocess_done (p := { p with cfgDefault := some sc.v, table := setCfgDefault sc.v p.table }) hpre]
  dsimp only
  generalize finishOut env (setCfgDefault sc.v p.table) p.frozen p.late p.fileDefs p.stray known sc.rest = o
  cases o
  all_goals first | exact ⟨rfl, Or.inl rfl⟩ | exact ⟨rfl, Or.inr rfl⟩

/-- the fresh answer, computed: apply the constructor files, resolve the subgroups, build the table of the parser's
    own settings, run -/
theorem fresh_load (env : Env) (spec : Spec) (known : Bool) (argv : List Str) (fregs : List FReg) (tbl : List Act)
    (d : FileC) (st : List (Str × Val)) (hc : spec.cfgPath = false)
    (hl : loadFiles env (loadCtx (newP spec)) [] [] spec.cfgFiles = .ok d st)
    (hch : chooseAll env spec.cfg spec.regs argv = .ok fregs)
    (htbl : tableFor spec.cfg d [helpAct] fregs = some tbl) :
    freshOwn env spec known argv = finishOut env tbl fregs [] d st known argv := by
  unfold freshOwn parseOwn
  have hb' : (newP spec).broken = false := rfl
  simp only [hb', Bool.false_eq_true, ↓reduceIte]
  rw [cfgPhase_new_load env spec argv d st hc hl]
  dsimp only
  unfold finishOwn finishCore
  have : preOwn env { newP spec with fileDefs := d, stray := st } argv =
      .ok { newP spec with fileDefs := d, stray := st, preDone := true, table := tbl, frozen := fregs } := by
    unfold preOwn preprocessAt
    simp only [newP, Bool.false_eq_true, ↓reduceIte, hch, htbl]
  rw [this]
  dsimp only [newP]
  generalize finishOut env tbl fregs [] d st known argv = o
  cases o <;> rfl

theorem fresh_plain (env : Env) (spec : Spec) (known : Bool) (argv : List Str) (fregs : List FReg) (tbl : List Act)
    (hf : spec.cfgFiles = []) (hc : spec.cfgPath = false)
    (hch : chooseAll env spec.cfg spec.regs argv = .ok fregs)
    (htbl : tableFor spec.cfg [] [helpAct] fregs = some tbl) :
    freshOwn env spec known argv = finishOut env tbl fregs [] [] [] known argv :=
  fresh_load env spec known argv fregs tbl [] [] hc (by rw [hf]; rfl) hch htbl

theorem fresh_cfg (env : Env) (spec : Spec) (known : Bool) (argv : List Str) (sc : Scan) (fregs : List FReg)
    (tbl : List Act) (hf : spec.cfgFiles = []) (hc : spec.cfgPath = true)
    (hs : cfgScan env true argv = .ok sc) (hn : sc.names = [])
    (hch : chooseAll env spec.cfg spec.regs sc.rest = .ok fregs)
    (htbl : tableFor spec.cfg [] [helpAct, cfgAct sc.v] fregs = some tbl) :
    freshOwn env spec known argv = finishOut env tbl fregs [] [] [] known sc.rest := by
  unfold freshOwn parseOwn
  have hb' : (newP spec).broken = false := rfl
  simp only [hb', Bool.false_eq_true, ↓reduceIte]
  rw [cfgPhase_new_reg env spec argv sc hf hc hs hn]
  dsimp only
  unfold finishOwn finishCore
  have : preOwn env { newP spec with cfgDefault := some sc.v, table := [helpAct, cfgAct sc.v] } sc.rest =
      .ok { newP spec with cfgDefault := some sc.v, preDone := true, table := tbl, frozen := fregs } := by
    unfold preOwn preprocessAt
    simp only [newP, Bool.false_eq_true, ↓reduceIte, hch, htbl]
  rw [this]
  dsimp only [newP]
  generalize finishOut env tbl fregs [] [] [] known sc.rest = o
  cases o <;> rfl

/-- the three facts `d10Safe` carries -/
theorem d10_facts {env : Env} {p : PState} {argv : List Str} (h10 : d10Safe env p argv = true) :
    p.fileDefs = [] ∧ p.stray = [] := by
  simp only [d10Safe, Bool.and_eq_true, decide_eq_true_eq] at h10
  exact ⟨h10.1.1, h10.1.2⟩

/-- what the safety clauses say about a parser (without constructor files) that is not set up: it is pristine -/
theorem pristine_of_safe {env : Env} {p : PState} {argv : List Str}
    (hpre : p.preDone = false) (hb : p = basePre p)
    (hconj : p.spec.cfgPath = false → p.cfgDefault = none)
    (h10 : d10Safe env p argv = true) (hset : cfgSetupSafe p = true) : p = newP p.spec := by
  obtain ⟨hdefs, hstray⟩ := d10_facts h10
  have hnone : p.cfgDefault = none := by
    cases hc : p.spec.cfgPath
    · exact hconj hc
    · simp only [cfgSetupSafe, hc, hpre, Bool.not_true, Bool.false_or, beq_iff_eq] at hset
      cases hd : p.cfgDefault
      · rfl
      · rw [hd] at hset; cases hset
  calc p = basePre p := hb
    _ = newP p.spec := by unfold basePre newP; simp [hnone, hdefs, hstray, preTbl]

theorem scan_plain (env : Env) (argv : List Str) :
    cfgScan env false argv = .ok { rest := argv, v := .sc .none, names := [] } := rfl

/-- unpack `safeState` for a parser without constructor files -/
theorem safeState_facts {env : Env} {p : PState} {argv : List Str} (hf : p.spec.cfgFiles = [])
    (hst : safeState env p argv = true) :
    p.broken = false ∧ d10Safe env p argv = true ∧ cfgSetupSafe p = true := by
  simp only [safeState, hf, List.isEmpty_nil, ↓reduceIte, Bool.and_eq_true, Bool.not_eq_eq_eq_not, Bool.not_true] at hst
  exact ⟨hst.1, hst.2.1, hst.2.2⟩

/-- unpack `safeState` for a parser with constructor files -/
theorem ctor_facts {env : Env} {p : PState} {argv : List Str} (hfe : p.spec.cfgFiles.isEmpty = false)
    (hst : safeState env p argv = true) :
    p.broken = false ∧ p.spec.cfgPath = false ∧
      (p = newP p.spec ∨
        (p.preDone = true ∧
          loadFiles env (loadCtx p) p.fileDefs p.stray p.spec.cfgFiles = .ok p.fileDefs p.stray ∧
          loadFiles env (loadCtx (newP p.spec)) [] [] p.spec.cfgFiles = .ok p.fileDefs p.stray)) := by
  simp only [safeState, hfe, Bool.false_eq_true, ↓reduceIte, Bool.and_eq_true, Bool.or_eq_true, decide_eq_true_eq,
    Bool.not_eq_eq_eq_not, Bool.not_true, ctorReloadSafe] at hst
  refine ⟨hst.1, hst.2.1, ?_⟩
  rcases hst.2.2 with h | h
  · exact Or.inl h
  · exact Or.inr ⟨h.1, h.2.1, h.2.2⟩

theorem parseP_agrees (env : Env) (p : PState) (known : Bool) (argv : List Str)
    (hst : safeState env p argv = true) (han : safeAnswer env p argv = true) (h : InvP p) :
    (parseOwn env p known argv).2 = freshOwn env p.spec known argv := by
  simp only [safeAnswer, Bool.and_eq_true] at han
  obtain ⟨h9, hl⟩ := han
  cases hfe : p.spec.cfgFiles.isEmpty
  · -- constructor `config_path=` files, no `--config_path` argument
    obtain ⟨hb, hc, hcase⟩ := ctor_facts hfe hst
    rcases hcase with hp | ⟨h1, hre1, hre2⟩
    · unfold freshOwn
      rw [← hp]
    · rcases h with h | h | ⟨h, hconj⟩
      · rw [hc] at h; cases h.2
      · rw [hb] at h; cases h
      · rcases h with ⟨h0, _⟩ | ⟨_, h2, _⟩
        · rw [h1] at h0; cases h0
        · have hlate : p.late = [] := by simpa [lateSafe] using hl
          rw [hconj hc] at h2
          have hch : chooseAll env p.spec.cfg p.spec.regs argv = .ok p.frozen := by
            simp only [d9Safe, h1, Bool.not_true, Bool.false_or, hc, scan_plain] at h9
            split at h9
            · rename_i fregs heq
              rw [heq]
              have : fregs = p.frozen := by simpa using h9
              rw [this]
            · cases h9
          rw [(parseP_done_go env p known argv (cfgPhase_reload env p argv hc hre1) hb h1).1,
              fresh_load env p.spec known argv p.frozen p.table p.fileDefs p.stray hc hre2 hch h2, hlate]
  · have hf : p.spec.cfgFiles = [] := List.isEmpty_iff.mp hfe
    obtain ⟨hb, h10, hset⟩ := safeState_facts hf hst
    rcases h with h | h | ⟨h, hconj⟩
    · exact absurd hf h.1
    · rw [hb] at h; cases h
    · rcases h with ⟨h1, h2⟩ | ⟨h1, h2, _⟩
      · have hp := pristine_of_safe h1 h2 hconj h10 hset
        unfold freshOwn
        rw [← hp]
      · have hlate : p.late = [] := by simpa [lateSafe] using hl
        obtain ⟨hdefs, hstray⟩ := d10_facts h10
        cases hc : p.spec.cfgPath
        · -- no --config_path
          have hnone := hconj hc
          rw [hdefs, hnone] at h2
          have hch : chooseAll env p.spec.cfg p.spec.regs argv = .ok p.frozen := by
            simp only [d9Safe, h1, Bool.not_true, Bool.false_or, hc, scan_plain] at h9
            split at h9
            · rename_i fregs heq
              rw [heq]
              have : fregs = p.frozen := by simpa using h9
              rw [this]
            · cases h9
          rw [(parseP_done_plain env p known argv hf hc hb h1).1,
              fresh_plain env p.spec known argv p.frozen p.table hf hc hch h2, hlate, hdefs, hstray]
        · -- --config_path parser, set up by an earlier parse
          have hsome : p.cfgDefault.isSome = true := by
            simpa [cfgSetupSafe, hc, h1] using hset
          obtain ⟨d, hd⟩ := Option.isSome_iff_exists.mp hsome
          cases hsc : cfgScan env true argv with
          | error o =>
            rw [(parseP_scan_err env p known argv o hf hc hb hsc).1]
            unfold freshOwn
            rw [(parseP_scan_err env (newP p.spec) known argv o hf hc rfl hsc).1]
          | ok sc =>
            have hn : sc.names = [] := by
              simp only [d10Safe, h1, hc, hsc, Bool.not_true, Bool.false_or, Bool.and_eq_true] at h10
              exact List.isEmpty_iff.mp h10.2
            have hch : chooseAll env p.spec.cfg p.spec.regs sc.rest = .ok p.frozen := by
              simp only [d9Safe, h1, Bool.not_true, Bool.false_or, hc, hsc] at h9
              split at h9
              · rename_i fregs heq
                rw [heq]
                have : fregs = p.frozen := by simpa using h9
                rw [this]
              · cases h9
            rw [hdefs, hd] at h2
            obtain ⟨acts, htab, htbl⟩ := tableFor_cfgDefault d sc.v h2
            rw [(parseP_done_cfg env p known argv sc d hf hc hb h1 hd hsc hn).1,
                fresh_cfg env p.spec known argv sc p.frozen _ hf hc hsc hn hch htbl, hlate, hdefs, hstray, htab,
                setCfgDefault_pre]

/-- a state-keeping parse keeps the invariant — whatever THIS call's answer is worth (D9 / late add included) -/
theorem parseP_inv (env : Env) (p : PState) (known : Bool) (argv : List Str)
    (hst : safeState env p argv = true) (h : InvP p) : InvP (parseOwn env p known argv).1 := by
  cases hfe : p.spec.cfgFiles.isEmpty
  · obtain ⟨hb, hc, hcase⟩ := ctor_facts hfe hst
    rcases hcase with hp | ⟨h1, hre1, _⟩
    · rw [hp]
      exact parseP_new_inv env p.spec (Or.inr hc) known argv
    · rcases h with h | h | ⟨h, hconj⟩
      · rw [hc] at h; cases h.2
      · rw [hb] at h; cases h
      · rcases (parseP_done_go env p known argv (cfgPhase_reload env p argv hc hre1) hb h1).2 with e | e
        · rw [e]; exact Or.inr (Or.inr ⟨h, hconj⟩)
        · rw [e]; exact Or.inr (Or.inl rfl)
  · have hf : p.spec.cfgFiles = [] := List.isEmpty_iff.mp hfe
    obtain ⟨hb, h10, hset⟩ := safeState_facts hf hst
    rcases h with h | h | ⟨h, hconj⟩
    · exact absurd hf h.1
    · rw [hb] at h; cases h
    · rcases h with ⟨h1, h2⟩ | ⟨h1, h2, h3⟩
      · have hp := pristine_of_safe h1 h2 hconj h10 hset
        rw [hp]
        exact parseP_new_inv env p.spec (Or.inl hf) known argv
      · cases hc : p.spec.cfgPath
        · rcases (parseP_done_plain env p known argv hf hc hb h1).2 with e | e
          · rw [e]; exact Or.inr (Or.inr ⟨Or.inr ⟨h1, h2, h3⟩, hconj⟩)
          · rw [e]; exact Or.inr (Or.inl rfl)
        · have hsome : p.cfgDefault.isSome = true := by
            simpa [cfgSetupSafe, hc, h1] using hset
          obtain ⟨d, hd⟩ := Option.isSome_iff_exists.mp hsome
          cases hsc : cfgScan env true argv with
          | error o =>
            rcases (parseP_scan_err env p known argv o hf hc hb hsc).2 with e | e
            · rw [e]; exact Or.inr (Or.inr ⟨Or.inr ⟨h1, h2, h3⟩, hconj⟩)
            · rw [e]; exact Or.inr (Or.inl rfl)
          | ok sc =>
            have hn : sc.names = [] := by
              simp only [d10Safe, h1, hc, hsc, Bool.not_true, Bool.false_or, Bool.and_eq_true] at h10
              exact List.isEmpty_iff.mp h10.2
            rw [hd] at h2
            obtain ⟨acts, htab, htbl⟩ := tableFor_cfgDefault d sc.v h2
            rcases (parseP_done_cfg env p known argv sc d hf hc hb h1 hd hsc hn).2 with e | e
            · rw [e]
              refine Or.inr (Or.inr ⟨Or.inr ⟨h1, ?_, h3⟩, fun hc' => ?_⟩)
              · show tableFor p.spec.cfg p.fileDefs (preTbl (some sc.v)) p.frozen = some (setCfgDefault sc.v p.table)
                rw [htab, setCfgDefault_pre]
                exact htbl
              · exact absurd (show p.spec.cfgPath = false from hc') (by rw [hc]; decide)
            · rw [e]; exact Or.inr (Or.inl rfl)

/-! ### lifting to the pool and to all histories -/

theorem setPool_same (pool : Nat → Option PState) (i : Nat) (p : PState) : setPool pool i p i = some p := by
  simp [setPool]

theorem setPool_other (pool : Nat → Option PState) {i j : Nat} (p : PState) (h : j ≠ i) :
    setPool pool i p j = pool j := by
  simp [setPool, h]

/-- one call keeps the pool invariant (a call that does not keep the state only taints the parser it was made on) -/
theorem step_inv (env : Env) (hr : env.reassert = true) (s : State) (t : Nat → Bool) (op : Op) (h : InvT s t) :
    InvT (step env s op).1 (taintStep env s t op) := by
  intro j q hq ht
  cases op with
  | construct i cfg cp fs =>
    simp only [step] at hq
    by_cases hji : j = i
    · subst hji
      rw [setPool_same] at hq
      injection hq with hq
      subst hq
      exact Or.inr (Or.inr ⟨Or.inl ⟨rfl, rfl⟩, fun _ => rfl⟩)
    · rw [setPool_other _ _ hji] at hq
      simp only [taintStep, hji, ↓reduceIte] at ht
      exact h j q hq ht
  | add i r =>
    simp only [step] at hq
    simp only [taintStep, keeps, ↓reduceIte] at ht
    cases hp : s.pool i with
    | none => simp only [hp] at hq; exact h j q hq ht
    | some p =>
      simp only [hp] at hq
      by_cases hji : j = i
      · subst hji
        rw [setPool_same] at hq
        injection hq with hq
        subst hq
        exact addP_inv p r (h j p hp ht)
      · rw [setPool_other _ _ hji] at hq
        exact h j q hq ht
  | parse i known argv =>
    simp only [step] at hq
    cases hp : s.pool i with
    | none =>
      simp only [hp] at hq
      simp only [taintStep, keeps, hp, ↓reduceIte] at ht
      exact h j q hq ht
    | some p =>
      simp only [hp] at hq
      by_cases hji : j = i
      · subst hji
        rw [setPool_same] at hq
        injection hq with hq
        subst hq
        cases hkeep : safeState env p argv with
        | false => simp [taintStep, keeps, hp, hkeep, Op.idx] at ht
        | true =>
          simp only [taintStep, keeps, hp, hkeep, ↓reduceIte] at ht
          rw [(parseP_own env hr s.G p known argv).1]
          exact parseP_inv env p known argv hkeep (h j p hp ht)
      · rw [setPool_other _ _ hji] at hq
        have ht' : t j = false := by
          simp only [taintStep] at ht
          split at ht
          · exact ht
          · simpa [Op.idx, hji] using ht
        exact h j q hq ht'
  | printHelp i =>
    simp only [step] at hq
    simp only [taintStep, keeps, ↓reduceIte] at ht
    cases hp : s.pool i with
    | none => simp only [hp] at hq; exact h j q hq ht
    | some p =>
      simp only [hp] at hq
      by_cases hji : j = i
      · subst hji
        rw [setPool_same] at hq
        injection hq with hq
        subst hq
        rw [helpP_own env hr s.G p]
        exact helpP_inv env p (h j p hp ht)
      · rw [setPool_other _ _ hji] at hq
        exact h j q hq ht
  | formatHelp i =>
    simp only [taintStep, keeps, ↓reduceIte] at ht
    simp only [step] at hq
    cases hp : s.pool i with
    | none => simp only [hp] at hq; exact h j q hq ht
    | some p => simp only [hp] at hq; exact h j q hq ht

/-- one safe call on an untainted parser agrees with the fresh answer -/
theorem step_agrees (env : Env) (hr : env.reassert = true) (s : State) (t : Nat → Bool) (op : Op) (h : InvT s t)
    (hs : safe env s op = true) (ht : t op.idx = false) : agrees env s op (step env s op).2 = true := by
  cases op with
  | parse i known argv =>
    cases hp : s.pool i with
    | none => simp only [agrees, hp]
    | some p =>
      simp only [safe, hp, safeParse, Bool.and_eq_true] at hs
      simp only [agrees, step, hp, decide_eq_true_eq]
      rw [(parseP_own env hr s.G p known argv).2, fresh_own env hr]
      exact parseP_agrees env p known argv hs.1 hs.2 (h i p hp ht)
  | construct i cfg cp fs => rfl
  | add i r => rfl
  | printHelp i => rfl
  | formatHelp i => rfl

/-- **C08 (partial)**: in EVERY history, every safe parse call on a parser that only received state-keeping calls
    since its construction returns exactly what a freshly built, identically configured parser returns — whatever
    the class attributes are at that moment, i.e. whatever other parsers were constructed or used in between
    (hypothesis `env.reassert`: the current tree; without it the statement is false, `d5_old_witness`). -/
theorem c08_partial (env : Env) (hr : env.reassert = true) :
    ∀ (ops : List Op) (s : State) (t : Nat → Bool), InvT s t → Monitored env s t ops
  | [], _, _, _ => trivial
  | op :: ops, s, t, h =>
    ⟨fun hs ht => step_agrees env hr s t op h hs ht, c08_partial env hr ops _ _ (step_inv env hr s t op h)⟩

theorem inv_init : InvT init (fun _ => false) := by
  intro i p hp _
  simp [init] at hp

/-- from process start, for all histories -/
theorem c08_partial_init (env : Env) (hr : env.reassert = true) (ops : List Op) :
    Monitored env init (fun _ => false) ops :=
  c08_partial env hr ops init _ inv_init

/-- every call of the history is safe in the state it is made in -/
def safeHist (env : Env) : State → List Op → Bool
  | _, [] => true
  | s, op :: ops => safe env s op && safeHist env (step env s op).1 ops

theorem keeps_of_safe {env : Env} {s : State} {op : Op} (hs : safe env s op = true) : keeps env s op = true := by
  cases op with
  | parse i known argv =>
    simp only [safe, keeps] at hs ⊢
    cases hp : s.pool i with
    | none => rfl
    | some p =>
      simp only [hp, safeParse, Bool.and_eq_true] at hs
      simp only [hs.1]
  | construct i cfg cp fs => rfl
  | add i r => rfl
  | printHelp i => rfl
  | formatHelp i => rfl

theorem taintStep_safe {env : Env} {s : State} {op : Op} (hs : safe env s op = true) :
    taintStep env s (fun _ => false) op = fun _ => false := by
  have hk := keeps_of_safe hs
  cases op <;> simp_all [taintStep]

/-- plain form: a history all of whose calls avoid the named exclusions satisfies the full statement -/
theorem c08_partial_safeHist (env : Env) (hr : env.reassert = true) :
    ∀ (ops : List Op) (s : State), InvT s (fun _ => false) → safeHist env s ops = true → allAgree env s ops = true
  | [], _, _, _ => rfl
  | op :: ops, s, h, hs => by
    simp only [safeHist, Bool.and_eq_true] at hs
    simp only [allAgree, Bool.and_eq_true]
    refine ⟨step_agrees env hr s _ op h hs.1 rfl, ?_⟩
    have := step_inv env hr s _ op h
    rw [taintStep_safe hs.1] at this
    exact c08_partial_safeHist env hr ops _ this hs.2

/-- "construction or use of other parsers with different settings": a parse answers the same whatever the class
    attributes are when it is made — BECAUSE `_preprocessing` writes the parser's own settings before reading them
    (`preprocess_fst`); false for the tree before 7b430cf (`d5_old_witness`) -/
theorem parse_out_indep_of_globals (env : Env) (hr : env.reassert = true) (G G' : Cfg) (p : PState) (known : Bool)
    (argv : List Str) : (parseP env G p known argv).2.1 = (parseP env G' p known argv).2.1 := by
  rw [(parseP_own env hr G p known argv).2, (parseP_own env hr G' p known argv).2]

/-! ### witnesses: the full statement is still false on the current code -/

def cU : Cfg := { dash := .underscore, gen := .flat, nest := .default }
def cD : Cfg := { dash := .dashOnly, gen := .flat, nest := .default }
def cW : Cfg := { dash := .underscore, gen := .flat, nest := .withoutRoot }

def fInt (n : String) (d : Int) : FieldSpec :=
  { name := n.toList, ty := { inner := .sc (.base .int), optional := false }, default := .value (.sc (.int d)) }

/-- `class A: a_b: int = 1` -/
def clsA : ClassSpec := { name := "A".toList, fields := [fInt "a_b" 1], sub := none }
/-- `class B: lr: int` (required) -/
def clsB : ClassSpec :=
  { name := "B".toList, sub := none,
    fields := [{ name := "lr".toList, ty := { inner := .sc (.base .int), optional := false }, default := .missing }] }
/-- `class T: tup: Tuple[int, str, float] = (1, "a", 2.0)` -/
def clsT : ClassSpec :=
  { name := "T".toList, sub := none,
    fields := [{ name := "tup".toList,
                 ty := { inner := .tuple [.base .int, .base .str, .base .float], optional := false },
                 default := .value (.tuple [.int 1, .str "a".toList, .float "2.0".toList]) }] }
/-- `class S: mod: X | Y = subgroups({"x": X, "y": Y}, default="x")` with `X: xv: int = 1`, `Y: yv: int = 2` -/
def clsS : ClassSpec :=
  { name := "S".toList, fields := [],
    sub := some { name := "mod".toList, default := "x".toList,
                  alts := [{ key := "x".toList, cls := "X".toList, fields := [fInt "xv" 1] },
                           { key := "y".toList, cls := "Y".toList, fields := [fInt "yv" 2] }] } }
/-- `class K: tag: str = field(default="0", type=int)` -/
def clsK : ClassSpec :=
  { name := "K".toList, sub := none, custom := [("tag".toList, .int)],
    fields := [{ name := "tag".toList, ty := { inner := .sc (.base .str), optional := false },
                 default := .value (.sc (.str "0".toList)) }] }

def env0 : Env :=
  { fenv := [("2.5".toList, some "2.5".toList)],
    files := [("f0.json".toList, some (.rooted [("a".toList, [("a_b".toList, .sc (.int 7))])])),
              ("r0.json".toList, some (.rootless [("a_b".toList, .sc (.int 13))])),
              ("rs.json".toList, some (.rootless [("k".toList, .sc (.int 5))]))] }

/-- the same world with the tree BEFORE the D5 repair 7b430cf (`_preprocessing` reads whatever the class holds) -/
def env0Old : Env := { env0 with reassert := false }

/-- `class SK: k: int = 0; mod: X | Y = subgroups(…)` -/
def clsSK : ClassSpec := { clsS with name := "SK".toList, fields := [fInt "k" 0] }

def mkP (i : Nat) (c : Cfg) (cls : ClassSpec) (dest : String) (cp := false) (fs : List String := []) : List Op :=
  [.construct i c cp (fs.map String.toList), .add i { dest := dest.toList, cls := cls }]

def argvOf (l : List String) : List Str := l.map String.toList

/-- D9: `--mod y` first, `--mod x` afterwards still yields the `y` alternative -/
def d9Hist : List Op :=
  mkP 0 cU clsS "s" ++ [.parse 0 false (argvOf ["--mod", "y"]), .parse 0 false (argvOf ["--mod", "x"])]
/-- D9 through `print_help`: the default alternative is frozen -/
def d9HelpHist : List Op := mkP 0 cU clsS "s" ++ [.printHelp 0, .parse 0 false (argvOf ["--mod", "y"])]
/-- D10 (reachable since D6 is repaired): the file of the first call persists into the second -/
def d10Hist : List Op :=
  mkP 0 cU clsA "a" (cp := true) ++ [.parse 0 false (argvOf ["--config_path", "f0.json"]), .parse 0 false []]
/-- D10, the other way round: a file given to a parser that is already set up is read but ignored -/
def d10LaterHist : List Op :=
  mkP 0 cU clsA "a" (cp := true) ++ [.parse 0 false [], .parse 0 false (argvOf ["--config_path", "f0.json"])]
/-- D10 through `print_help`: the actions are frozen before the file is read -/
def d10HelpHist : List Op :=
  mkP 0 cU clsA "a" (cp := true) ++ [.printHelp 0, .parse 0 false (argvOf ["--config_path", "f0.json"])]
/-- `add_arguments` after the first parse: accepted, never turned into options -/
def lateAddHist : List Op :=
  mkP 0 cU clsA "a" ++ [.parse 0 false [], .add 0 { dest := "b".toList, cls := clsB }, .parse 0 false (argvOf ["--lr", "2"])]

/-- D9, the facet with FAILED parses: after `--mod y`, the command line `--yv q --mod z` stops at the bad int on the
    frozen parser (which knows `--yv`), at the invalid choice on a fresh one — another kind of exit 2.  This is why
    `d9Safe` also excludes an argv the choice parser rejects. -/
def d9ErrHist : List Op :=
  mkP 0 cU clsS "s" ++ [.parse 0 false (argvOf ["--mod", "y"]), .parse 0 false (argvOf ["--yv", "q", "--mod", "z"])]
/-- … while a rejected choice alone, between two agreeing parses, does no harm at all: `safe` is sufficient, not
    necessary -/
def d9RejectedHist : List Op :=
  mkP 0 cU clsS "s" ++ [.parse 0 false (argvOf ["--mod", "y"]), .parse 0 false (argvOf ["--mod", "z"]),
    .parse 0 false (argvOf ["--mod", "y"])]
/-- found in round 2, repaired by 2abd945: a WITHOUT_ROOT parser with a root-less constructor file over a class with
    a subgroups field.  `set_defaults` tested `len(self._wrappers) == 1` after `_preprocessing` had flattened the child
    wrapper into `_wrappers`, so from the 2nd call on the file's keys became parser-level defaults (a stray top-level
    attribute `k`); now only the top-level wrappers count (parsing.py:412-422) -/
def rootlessHist : List Op := mkP 0 cW clsSK "s" (fs := ["rs.json"]) ++ [.parse 0 false [], .parse 0 false []]
/-- the same through `--config_path` on the command line -/
def rootlessArgvHist : List Op :=
  mkP 0 cW clsSK "s" (cp := true) ++ [.parse 0 false (argvOf ["--config_path", "rs.json"]),
    .parse 0 false (argvOf ["--config_path", "rs.json"])]

theorem d9_witness : allAgree env0 init d9Hist = false := by decide
theorem d9_errkind_witness : allAgree env0 init d9ErrHist = false := by decide
theorem rootless_regression : allAgree env0 init rootlessHist = true ∧ safeHist env0 init rootlessHist = true := by
  decide
/-- the same through `--config_path` on the command line: every call agrees now (the second call is still outside
    `safe` — a file given to a parser that is already set up, D10's exclusion — although harmless here: the same file) -/
theorem rootless_argv_regression :
    allAgree env0 init rootlessArgvHist = true ∧ safeHist env0 init rootlessArgvHist = false := by decide
theorem d9_help_witness : allAgree env0 init d9HelpHist = false := by decide
theorem d10_witness : allAgree env0 init d10Hist = false := by decide
theorem d10_later_witness : allAgree env0 init d10LaterHist = false := by decide
theorem d10_help_witness : allAgree env0 init d10HelpHist = false := by decide
theorem lateAdd_witness : allAgree env0 init lateAddHist = false := by decide

/-- the model reproduces the observed wrong answers, not just "some difference" -/
example : (runHist env0 init d9Hist).getLast? =
    some (.ok [{ dest := "s".toList, cls := "S".toList, fields := [],
                 sub := some ("mod".toList, "Y".toList, [("yv".toList, .sc (.int 2))]) }]
              [("s.mod".toList, .sc (.str "x".toList))] none [] []) := by decide
example : (runHist env0 init d10Hist).getLast? =
    some (.ok [{ dest := "a".toList, cls := "A".toList, fields := [("a_b".toList, .sc (.int 7))], sub := none }]
              [] (some (.sc .none)) [] []) := by decide
example : (runHist env0 init d10LaterHist).getLast? =
    some (.ok [{ dest := "a".toList, cls := "A".toList, fields := [("a_b".toList, .sc (.int 1))], sub := none }]
              [] (some (.list [.path "f0.json".toList])) [] []) := by decide

example : (runHist env0 init d9ErrHist).getLast? = some (.exit 2 .type) := by decide
example : fresh env0 { cfg := cU, cfgPath := false, cfgFiles := [], regs := [{ dest := "s".toList, cls := clsS }] }
    false (argvOf ["--yv", "q", "--mod", "z"]) = .exit 2 .choice := by decide
example : allAgree env0 init d9RejectedHist = true ∧ safeHist env0 init d9RejectedHist = false := by decide
example : (runHist env0 init rootlessHist).getLast? =
    some (.ok [{ dest := "s".toList, cls := "SK".toList, fields := [("k".toList, .sc (.int 5))],
                 sub := some ("mod".toList, "X".toList, [("xv".toList, .sc (.int 1))]) }]
              [("s.mod".toList, .sc (.str "x".toList))] none [] []) := by decide

/-- **the full statement does not hold for the current code** -/
theorem c08_full_false : ¬ FullStatement := by
  intro h
  have := h env0 d9Hist
  rw [d9_witness] at this
  cases this

/-- each witness history contains a call that `safe` excludes — the exclusions are where the failures are -/
example : safeHist env0 init d9Hist = false := by decide
example : safeHist env0 init d9ErrHist = false := by decide
example : safeHist env0 init d9HelpHist = false := by decide
example : safeHist env0 init d10Hist = false := by decide
example : safeHist env0 init d10LaterHist = false := by decide
example : safeHist env0 init d10HelpHist = false := by decide
example : safeHist env0 init lateAddHist = false := by decide

/-! ### regression examples: the repaired D5 / D6 / D8 histories now satisfy the statement, and are `safe` -/

/-- D8 (repaired by b1a5942): a heterogeneous tuple parsed twice on the same parser, after a rejected value, and
    with the option given twice on one command line -/
def d8Hist : List Op :=
  mkP 0 cU clsT "t" ++ [.parse 0 false (argvOf ["--tup", "4", "b", "2.5"]), .parse 0 false (argvOf ["--tup", "x", "b", "2.5"]),
    .parse 0 false (argvOf ["--tup", "4", "b", "2.5", "--tup", "5", "c", "2.5"]), .parse 0 false (argvOf ["--tup", "4", "b", "2.5"])]
theorem d8_regression : allAgree env0 init d8Hist = true ∧ safeHist env0 init d8Hist = true := by decide
example : (runHist env0 init d8Hist).getLast? =
    some (.ok [{ dest := "t".toList, cls := "T".toList,
                 fields := [("tup".toList, .tuple [.int 4, .str "b".toList, .float "2.5".toList])], sub := none }] [] none [] []) := by
  decide

/-- D5 (repaired by 7b430cf): `p0 = ArgumentParser(DASH)`, `p1 = ArgumentParser(UNDERSCORE)`, then
    `p0.parse_args(["--a-b","3"])` is accepted: p0 spells its options its own way -/
def d5Hist : List Op := mkP 0 cD clsA "a" ++ [.construct 1 cU false [], .parse 0 false (argvOf ["--a-b", "3"])]
/-- D6 (repaired by 1720e54): `add_config_path_arg=True`, two `parse_args([])` -/
def d6Hist : List Op := mkP 0 cU clsA "a" (cp := true) ++ [.parse 0 false [], .parse 0 false []]

theorem d5_regression : allAgree env0 init d5Hist = true ∧ safeHist env0 init d5Hist = true := by decide
/-- … and the SAME history on the tree before the repair violates the statement although every call is `safe`:
    `c08_partial` really needs `env.reassert`, the clause "keeps generating the option spelling it was configured
    with" is not true by construction of the model -/
theorem d5_old_witness : allAgree env0Old init d5Hist = false ∧ safeHist env0Old init d5Hist = true := by decide
example : (runHist env0Old init d5Hist).getLast? = some (.exit 2 .unrecognized) := by decide
theorem d6_regression : allAgree env0 init d6Hist = true ∧ safeHist env0 init d6Hist = true := by decide

example : (runHist env0 init d5Hist).getLast? =
    some (.ok [{ dest := "a".toList, cls := "A".toList, fields := [("a_b".toList, .sc (.int 3))], sub := none }] [] none [] []) := by
  decide
example : (runHist env0 init d6Hist).getLast? =
    some (.ok [{ dest := "a".toList, cls := "A".toList, fields := [("a_b".toList, .sc (.int 1))], sub := none }]
              [] (some (.sc .none)) [] []) := by decide
/-- `print_help` before the first parse of a parser with a constructor `config_path=` file (repaired by e83a7f8:
    the file is applied before the arguments are generated): the later parse sees the file's defaults -/
def helpCtorHist : List Op := mkP 0 cU clsA "a" (fs := ["f0.json"]) ++ [.printHelp 0, .parse 0 false []]
theorem helpCtor_regression : allAgree env0 init helpCtorHist = true := by decide
example : (runHist env0 init helpCtorHist).getLast? =
    some (.ok [{ dest := "a".toList, cls := "A".toList, fields := [("a_b".toList, .sc (.int 7))], sub := none }] [] none [] []) := by
  decide
/-- the class attributes follow the constructors and — since the repair — the set-up of a parser -/
example : runG env0 init d5Hist = [cD, cD, cU, cD] := by decide

/-! ### the hypotheses of `c08_partial_safeHist` are satisfiable by non-trivial histories -/

/-- three parsers with three different spellings, interleaved; re-parses (valid, invalid, help) on set-up parsers; a
    subgroup parser whose first parse is rejected by the choice parser, then re-parsed twice with the same choice; a
    tuple parser parsed once; a `--config_path` parser parsed three times (no files); two parsers over the same
    dataclass with a custom `type=`; a constructor-file parser in the root-less layout parsed once -/
def demoHist : List Op :=
  mkP 0 cD clsA "a" ++ [.parse 0 false (argvOf ["--a-b", "3"])] ++
  mkP 1 cU clsS "s" ++ [.parse 1 false (argvOf ["--mod", "z"]), .parse 1 false (argvOf ["--mod", "y", "--yv", "5"]),
    .parse 0 false (argvOf ["--a-b", "4"]), .printHelp 0, .parse 1 true (argvOf ["--mod", "y", "--zzz"]),
    .parse 0 false (argvOf ["--a_b", "4"]), .parse 0 false (argvOf ["-h"]), .formatHelp 1] ++
  mkP 2 cU clsT "t" ++ [.parse 2 false (argvOf ["--tup", "4", "b", "2.5"]), .parse 2 false (argvOf ["--tup", "x", "b", "2.5"]),
    .parse 2 false (argvOf ["--tup", "5", "c", "2.5"]), .parse 0 false []] ++
  mkP 1 cU clsA "a" (cp := true) ++ [.parse 1 false (argvOf ["--a_b", "2"]), .parse 1 false [],
    .parse 1 false (argvOf ["--a_b=9"])] ++
  mkP 2 cU clsK "k" ++ [.parse 2 false (argvOf ["--tag", "12"])] ++
  mkP 1 cD clsK "k" ++ [.parse 1 false (argvOf ["--tag", "12"]), .parse 2 false (argvOf ["--tag", "abc"])] ++
  mkP 2 cW clsA "a" (fs := ["r0.json"]) ++ [.parse 2 false [], .parse 0 false (argvOf ["--a-b=9"])]

/-- constructor `config_path=` parsers beyond their first call: rooted file, and root-less file of a WITHOUT_ROOT
    parser over a class WITHOUT subgroups; valid, rejected and help calls in between; `ctorReloadSafe` holds throughout -/
def ctorReparseHist : List Op :=
  mkP 0 cU clsA "a" (fs := ["f0.json"]) ++ [.parse 0 false [], .parse 0 false (argvOf ["--a_b", "3"]),
    .parse 0 false (argvOf ["--a_b", "x"]), .printHelp 0, .parse 0 false []] ++
  mkP 1 cW clsA "a" (fs := ["r0.json"]) ++ [.printHelp 1, .parse 1 false [], .parse 0 true (argvOf ["--zz"]),
    .parse 1 false (argvOf ["--a_b=4"]), .parse 1 false []]
example : safeHist env0 init ctorReparseHist = true := by decide
example : allAgree env0 init ctorReparseHist = true :=
  c08_partial_safeHist env0 rfl ctorReparseHist init inv_init (by decide)
example : (runHist env0 init ctorReparseHist).getLast? =
    some (.ok [{ dest := "a".toList, cls := "A".toList, fields := [("a_b".toList, .sc (.int 13))], sub := none }] [] none [] []) := by
  decide

example : safeHist env0 init demoHist = true := by decide
example : allAgree env0 init demoHist = true :=
  c08_partial_safeHist env0 rfl demoHist init inv_init (by decide)
example : (runHist env0 init demoHist).getLast? =
    some (.ok [{ dest := "a".toList, cls := "A".toList, fields := [("a_b".toList, .sc (.int 9))], sub := none }] [] none [] []) := by
  decide

/-- an answer-only violation does not taint: `--mod y`, `--mod x` (wrong answer, excluded), `--mod y` again — the
    third call is `safe`, its parser never left the invariant, so `c08_partial` covers it -/
def d9ThenFineHist : List Op := d9Hist ++ [.parse 0 false (argvOf ["--mod", "y", "--yv", "4"])]
example : (d9ThenFineHist.foldl (fun (st : State × (Nat → Bool)) op => ((step env0 st.1 op).1, taintStep env0 st.1 st.2 op))
    (init, fun _ => false)).2 0 = false := by decide

/-- the monitored form also speaks about histories that DO contain unsafe calls: here parser 0 is abused (D9) and
    the theorem still covers every call on parser 1 — and the later calls on parser 0 as well -/
example : Monitored env0 init (fun _ => false) (d9Hist ++ mkP 1 cD clsA "a" ++ [.parse 1 false (argvOf ["--a-b", "3"])]) :=
  c08_partial_init env0 rfl _


end SpVerif.C08
