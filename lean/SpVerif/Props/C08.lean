/-
  C08 — a parser's result depends only on its own definition and the argv of that call.

  Model: `SpVerif.Model.History` (a pool of parsers + the process-global spelling settings as a state
  machine).  `fresh env spec known argv` is the answer of a freshly built, identically configured parser.

  * `FullStatement` — every parse call of every history returns the fresh answer — is kept visible and is
    REFUTED on the current code in six independent ways, each by a concrete witness history:
    `d5_witness`, `d6_witness`, `d8_witness`, `d9_witness`, `d9_help_witness`, `d10_witness`,
    `d10_help_witness`, `lateAdd_witness`  (⇒ `c08_full_false`).
  * `c08_partial` — for EVERY history (no bound on its length, no hypothesis on it): every parse call that is
    `Safe` in the state it is made in, on a parser all of whose earlier calls since its construction were
    `Safe`, returns exactly the fresh answer.  `Safe` is a decidable predicate made of one named clause per
    open finding.  Proved from the step invariant `InvP` by induction on the list of calls.
  * `c08_partial_safeHist` — the plain form: if every call of a history is `Safe`, every parse agrees.
-/
import SpVerif.Model.History
namespace SpVerif.C08
open SpVerif SpVerif.History

/-! ### the full statement -/

/-- what the property demands of one call made in state `s` that returned `out` -/
def agrees (env : Env) (s : State) (op : Op) (out : Out) : Bool :=
  match op with
  | .parse i known argv =>
    (match s.pool i with
     | some p => decide (out = fresh env p.spec known argv)
     | none => true)
  | _ => true

def allAgree (env : Env) : State → List Op → Bool
  | _, [] => true
  | s, op :: ops => agrees env s op (step env s op).2 && allAgree env (step env s op).1 ops

/-- the property at full strength: EVERY parse of EVERY history returns what a fresh parser returns -/
def FullStatement : Prop := ∀ (env : Env) (ops : List Op), allAgree env init ops = true

/-! ### the named exclusions (one clause per open finding) -/

/-- D5: the first `_preprocessing` of a parser must happen while the process-global spelling settings are
    its own (no other constructor ran in between) -/
def d5Safe (G : Cfg) (p : PState) : Bool := p.preDone || decide (G = p.spec.cfg)

/-- D6 / D10: a parser with `add_config_path_arg` is only used while pristine (no earlier parse, print_help
    or failed file load on it) -/
def cfgPristine (G : Cfg) (p : PState) : Bool := decide (p = newP p.spec) && decide (G = p.spec.cfg)

/-- D8: no `parse_tuple` closure of this parser has been advanced -/
def d8Safe (p : PState) : Bool := decide (p.counters = some (p.table.map (fun _ => 0)))

/-- D9: on an already set-up parser, this argv selects the subgroup alternatives that were frozen -/
def d9Safe (env : Env) (p : PState) (argv : List Str) : Bool :=
  !p.preDone ||
  (match chooseAll env p.spec.cfg p.spec.regs argv with
   | .ok fregs => decide (fregs = p.frozen)
   | .error _ => false)

/-- late `add_arguments`: nothing was registered after the set-up -/
def lateSafe (p : PState) : Bool := p.late.isEmpty

def safeParse (env : Env) (G : Cfg) (p : PState) (argv : List Str) : Bool :=
  !p.broken &&
  (if p.spec.cfgPath then cfgPristine G p
   else d5Safe G p && d8Safe p && d9Safe env p argv && lateSafe p)

def safeHelp (G : Cfg) (p : PState) : Bool := !p.broken && d5Safe G p

/-- `Safe` for one call in state `s` -/
def safe (env : Env) (s : State) : Op → Bool
  | .parse i _ argv => (match s.pool i with | some p => safeParse env s.G p argv | none => true)
  | .printHelp i => (match s.pool i with | some p => safeHelp s.G p | none => true)
  | _ => true

/-! ### the invariant -/

/-- per parser: once set up, its action table is the table OF ITS OWN settings for the frozen wrappers -/
def Core (p : PState) : Prop :=
  (p.preDone = false ∧ p = newP p.spec) ∨
  (p.preDone = true ∧ tableFor p.spec.cfg [] [helpAct] p.frozen = some p.table ∧
    p.frozen.map (·.reg) ++ p.late = p.spec.regs ∧ p.fileDefs = [] ∧ p.cfgRegistered = false)

def InvP (p : PState) : Prop := p.spec.cfgPath = true ∨ p.broken = true ∨ Core p

/-- pool invariant; `t i = true` marks parser `i` as having received an unsafe call since its construction -/
def InvT (s : State) (t : Nat → Bool) : Prop := ∀ i p, s.pool i = some p → t i = false → InvP p

def taintStep (env : Env) (s : State) (t : Nat → Bool) (op : Op) : Nat → Bool :=
  match op with
  | .construct i _ _ _ => fun j => if j = i then false else t j
  | op => if safe env s op then t else fun j => if j = op.idx then true else t j

/-- every call that is safe, on a parser that only ever received safe calls, agrees with the fresh answer -/
def Monitored (env : Env) : State → (Nat → Bool) → List Op → Prop
  | _, _, [] => True
  | s, t, op :: ops =>
    (safe env s op = true → t op.idx = false → agrees env s op (step env s op).2 = true) ∧
    Monitored env (step env s op).1 (taintStep env s t op) ops

/-! ### small lemmas about the model -/

def _root_.SpVerif.History.PreOut.st : PreOut → PState
  | .ok p => p
  | .stop p _ => p

def _root_.SpVerif.History.CfgOut.st : CfgOut → PState
  | .go p _ => p
  | .stop p _ => p

theorem chooseAll_regs {env : Env} {G : Cfg} {regs : List Reg} {args : List Str} {fregs : List FReg}
    (h : chooseAll env G regs args = .ok fregs) : fregs.map (·.reg) = regs := by
  have key : ∀ (f : Reg → FReg), (∀ r, (f r).reg = r) → (regs.map f).map (·.reg) = regs := by
    intro f hf
    rw [List.map_map]
    conv => rhs; rw [← List.map_id regs]
    apply List.map_congr_left
    intro r _
    exact hf r
  unfold chooseAll at h
  dsimp only at h
  split at h
  · injection h with h; subst h; exact key _ (fun _ => rfl)
  · split at h
    · cases h
    · split at h
      · cases h
      · cases h
      · cases h
      · injection h with h
        subst h
        apply key
        intro r
        cases r.cls.sub <;> rfl

theorem tableFor_append {G : Cfg} {defs : FileC} {pre : List Act} {fregs : List FReg} {tbl : List Act}
    (h : tableFor G defs pre fregs = some tbl) : ∃ acts, tbl = pre ++ acts := by
  unfold tableFor at h
  split at h
  · cases h
  · rename_i acts _
    split at h
    · injection h with h; exact ⟨acts, h.symm⟩
    · cases h

theorem preprocess_spec (env : Env) (G : Cfg) (p : PState) (args : List Str) :
    (preprocess env G p args).st.spec = p.spec := by
  unfold preprocess
  split
  · rfl
  · split
    · rfl
    · rfl
    · split <;> rfl

theorem cfgPhase_spec (env : Env) (p : PState) (argv : List Str) :
    (cfgPhase env p argv).st.spec = p.spec := by
  unfold cfgPhase
  split
  · rfl
  · split
    · rfl
    · split
      · rfl
      · rfl
      · rfl
      · dsimp only
        split
        · rfl
        · rfl
        · split
          · rfl
          · split
            · split <;> rfl
            · rfl

theorem parseP_spec (env : Env) (G : Cfg) (p : PState) (known : Bool) (argv : List Str) :
    (parseP env G p known argv).1.spec = p.spec := by
  unfold parseP
  split
  · rfl
  · have h1 := cfgPhase_spec env p argv
    split
    · rename_i p1 o heq; rw [heq] at h1; exact h1
    · rename_i p1 rest heq
      rw [heq] at h1
      have h2 := preprocess_spec env G p1 rest
      split
      · rename_i p2 o heq2; rw [heq2] at h2; exact h2.trans h1
      · rename_i p2 heq2
        rw [heq2] at h2
        split <;> exact h2.trans h1

theorem helpP_spec (env : Env) (G : Cfg) (p : PState) : (helpP env G p).1.spec = p.spec := by
  unfold helpP
  split
  · rfl
  · have h2 := preprocess_spec env G p []
    split
    · rename_i p2 o heq2; rw [heq2] at h2; exact h2
    · rename_i p2 heq2; rw [heq2] at h2; exact h2

theorem cfgPhase_noCfg {env : Env} {p : PState} (h : p.spec.cfgPath = false) (argv : List Str) :
    cfgPhase env p argv = .go p argv := by
  unfold cfgPhase
  simp [h]

/-- `_preprocessing` of a pristine parser under its own settings latched: the frozen table is the table of
    the parser's own settings -/
theorem preprocess_new_ok (env : Env) (spec : Spec) (args : List Str) (q : PState)
    (h : preprocess env spec.cfg (newP spec) args = .ok q) :
    q.broken = false ∧ q.preDone = true ∧ Core q ∧ q.spec = spec := by
  unfold preprocess at h
  simp only [newP, Bool.false_eq_true, ↓reduceIte] at h
  split at h
  · cases h
  · cases h
  · rename_i fregs hch
    split at h
    · cases h
    · rename_i tbl htbl
      injection h with h
      subst h
      refine ⟨rfl, rfl, Or.inr ⟨rfl, htbl, ?_, rfl, rfl⟩, rfl⟩
      simp only [List.append_nil]
      exact chooseAll_regs hch

/-- … or it stopped (subgroup choice rejected / outside the fragment): nothing was latched -/
theorem preprocess_new_stop (env : Env) (spec : Spec) (args : List Str) (q : PState) (o : Out)
    (h : preprocess env spec.cfg (newP spec) args = .stop q o) : InvP q := by
  unfold preprocess at h
  simp only [newP, Bool.false_eq_true, ↓reduceIte] at h
  split at h
  · injection h with h _; subst h; exact Or.inr (Or.inl rfl)
  · injection h with h _; subst h; exact Or.inr (Or.inr (Or.inl ⟨rfl, rfl⟩))
  · split at h
    · injection h with h _; subst h; exact Or.inr (Or.inl rfl)
    · cases h

theorem core_of_counters {p : PState} (cs : Option (List Nat)) (h : Core p) (hpre : p.preDone = true) :
    Core { p with counters := cs } := by
  rcases h with ⟨h1, _⟩ | ⟨h1, h2, h3, h4, h5⟩
  · rw [hpre] at h1; cases h1
  · exact Or.inr ⟨h1, h2, h3, h4, h5⟩

/-! ### the step lemmas -/

theorem addP_inv (p : PState) (r : Reg) (h : InvP p) : InvP (addP p r).1 := by
  unfold addP
  split
  · exact Or.inr (Or.inl rfl)
  · rcases h with h | h | h
    · left; split <;> exact h
    · right; left; split <;> exact h
    · rcases h with ⟨h1, h2⟩ | ⟨h1, h2, h3, h4, h5⟩
      · right; right; left
        obtain ⟨sp, rfl⟩ : ∃ sp, p = newP sp := ⟨_, h2⟩
        exact ⟨rfl, rfl⟩
      · right; right; right
        split
        · refine ⟨h1, h2, ?_, h4, h5⟩
          show p.frozen.map (·.reg) ++ (p.late ++ [r]) = p.spec.regs ++ [r]
          rw [← List.append_assoc, h3]
        · rename_i hp; exact absurd h1 hp

theorem helpP_inv (env : Env) (G : Cfg) (p : PState) (hs : safeHelp G p = true) (h : InvP p) :
    InvP (helpP env G p).1 := by
  rcases h with h | h | h
  · left; rw [helpP_spec]; exact h
  · simp [safeHelp, h] at hs
  · unfold helpP
    simp only [safeHelp, Bool.and_eq_true, Bool.not_eq_eq_eq_not, Bool.not_true] at hs
    simp only [hs.1, Bool.false_eq_true, ↓reduceIte]
    rcases h with ⟨h1, h2⟩ | ⟨h1, h2, h3, h4, h5⟩
    · -- pristine: set-up happens now, under G = own settings
      have hG : G = p.spec.cfg := by simpa [d5Safe, h1] using hs.2
      rw [hG, h2]
      split
      · rename_i q o heq; exact preprocess_new_stop env p.spec [] q o heq
      · rename_i q heq; exact Or.inr (Or.inr (preprocess_new_ok env p.spec [] q heq).2.2.1)
    · have : preprocess env G p [] = .ok p := by unfold preprocess; simp [h1]
      rw [this]
      exact Or.inr (Or.inr (Or.inr ⟨h1, h2, h3, h4, h5⟩))

/-- a parse on a pristine parser under its own settings keeps the invariant -/
theorem parseP_new_inv (env : Env) (spec : Spec) (hc : spec.cfgPath = false) (known : Bool) (argv : List Str) :
    InvP (parseP env spec.cfg (newP spec) known argv).1 := by
  unfold parseP
  have hb : (newP spec).broken = false := rfl
  simp only [hb, Bool.false_eq_true, ↓reduceIte]
  rw [cfgPhase_noCfg (p := newP spec) hc argv]
  dsimp only
  split
  · rename_i q o heq; exact preprocess_new_stop env spec argv q o heq
  · rename_i q heq
    have key := preprocess_new_ok env spec argv q heq
    split
    · exact Or.inr (Or.inl rfl)
    · exact Or.inr (Or.inr (core_of_counters _ key.2.2.1 key.2.1))

/-- THE computation: on a set-up parser satisfying the invariant, a safe parse is the fresh parse -/
theorem parseP_done_fresh (env : Env) (G : Cfg) (p : PState) (known : Bool) (argv : List Str)
    (hc : p.spec.cfgPath = false) (hb : p.broken = false) (hpre : p.preDone = true)
    (htbl : tableFor p.spec.cfg [] [helpAct] p.frozen = some p.table)
    (hdefs : p.fileDefs = []) (hlate : p.late = [])
    (hcs : p.counters = some (p.table.map (fun _ => 0)))
    (hch : chooseAll env p.spec.cfg p.spec.regs argv = .ok p.frozen) :
    (parseP env G p known argv).2 = fresh env p.spec known argv := by
  have lhs : (parseP env G p known argv).2 =
      (finishOut env p.table (p.table.map (fun _ => 0)) p.frozen [] [] known argv).1 := by
    unfold parseP
    simp only [hb, Bool.false_eq_true, ↓reduceIte]
    rw [cfgPhase_noCfg hc argv]
    dsimp only
    have : preprocess env G p argv = .ok p := by unfold preprocess; simp [hpre]
    rw [this]
    dsimp only
    simp only [hcs, hlate, hdefs]
  have rhs : fresh env p.spec known argv =
      (finishOut env p.table (p.table.map (fun _ => 0)) p.frozen [] [] known argv).1 := by
    obtain ⟨acts, hacts⟩ := tableFor_append htbl
    unfold fresh parseP
    have hb' : (newP p.spec).broken = false := rfl
    simp only [hb', Bool.false_eq_true, ↓reduceIte]
    rw [cfgPhase_noCfg (p := newP p.spec) hc argv]
    dsimp only
    have : preprocess env p.spec.cfg (newP p.spec) argv =
        .ok { newP p.spec with preDone := true, table := p.table, frozen := p.frozen,
                               counters := some (p.table.map (fun _ => 0)) } := by
      unfold preprocess
      simp only [newP, Bool.false_eq_true, ↓reduceIte, hch, htbl, Option.map_some]
      rw [hacts]
      simp
    rw [this]
    rfl
  rw [lhs, rhs]

theorem parseP_agrees (env : Env) (G : Cfg) (p : PState) (known : Bool) (argv : List Str)
    (hs : safeParse env G p argv = true) (h : InvP p) :
    (parseP env G p known argv).2 = fresh env p.spec known argv := by
  simp only [safeParse, Bool.and_eq_true, Bool.not_eq_eq_eq_not, Bool.not_true] at hs
  obtain ⟨hb, hs⟩ := hs
  by_cases hc : p.spec.cfgPath = true
  · -- config-path parser: only the pristine state is safe
    simp only [hc, ↓reduceIte, cfgPristine, Bool.and_eq_true, decide_eq_true_eq] at hs
    obtain ⟨hp, hG⟩ := hs
    rw [hG]
    unfold fresh
    rw [← hp]
  · have hc' : p.spec.cfgPath = false := by simpa using hc
    simp only [hc', Bool.false_eq_true, ↓reduceIte, Bool.and_eq_true] at hs
    obtain ⟨⟨⟨h5, h8⟩, h9⟩, hl⟩ := hs
    rcases h with h | h | h
    · exact absurd h hc
    · rw [hb] at h; cases h
    · rcases h with ⟨h1, h2⟩ | ⟨h1, h2, _, h4, _⟩
      · have hG : G = p.spec.cfg := by simpa [d5Safe, h1] using h5
        rw [hG]
        unfold fresh
        rw [← h2]
      · have hcs : p.counters = some (p.table.map (fun _ => 0)) := by simpa [d8Safe] using h8
        have hlate : p.late = [] := by simpa [lateSafe] using hl
        have hch : chooseAll env p.spec.cfg p.spec.regs argv = .ok p.frozen := by
          simp only [d9Safe, h1, Bool.not_true, Bool.false_or] at h9
          split at h9
          · rename_i fregs heq
            rw [heq]
            have : fregs = p.frozen := by simpa using h9
            rw [this]
          · cases h9
        exact parseP_done_fresh env G p known argv hc' hb h1 h2 h4 hlate hcs hch

theorem parseP_inv (env : Env) (G : Cfg) (p : PState) (known : Bool) (argv : List Str)
    (hs : safeParse env G p argv = true) (h : InvP p) : InvP (parseP env G p known argv).1 := by
  rcases h with h | h | h
  · left; rw [parseP_spec]; exact h
  · simp [safeParse, h] at hs
  · simp only [safeParse, Bool.and_eq_true, Bool.not_eq_eq_eq_not, Bool.not_true] at hs
    obtain ⟨hb, hs⟩ := hs
    by_cases hc : p.spec.cfgPath = true
    · left; rw [parseP_spec]; exact hc
    · have hc' : p.spec.cfgPath = false := by simpa using hc
      simp only [hc', Bool.false_eq_true, ↓reduceIte, Bool.and_eq_true] at hs
      obtain ⟨⟨⟨h5, _⟩, _⟩, _⟩ := hs
      rcases h with ⟨h1, h2⟩ | ⟨h1, h2, h3, h4, h5'⟩
      · have hG : G = p.spec.cfg := by simpa [d5Safe, h1] using h5
        have key := parseP_new_inv env p.spec hc' known argv
        rw [hG, h2]
        exact key
      · unfold parseP
        simp only [hb, Bool.false_eq_true, ↓reduceIte]
        rw [cfgPhase_noCfg hc' argv]
        dsimp only
        have : preprocess env G p argv = .ok p := by unfold preprocess; simp [h1]
        rw [this]
        dsimp only
        split
        · exact Or.inr (Or.inl rfl)
        · exact Or.inr (Or.inr (core_of_counters _ (Or.inr ⟨h1, h2, h3, h4, h5'⟩) h1))

/-! ### lifting to the pool and to all histories -/

theorem setPool_same (pool : Nat → Option PState) (i : Nat) (p : PState) : setPool pool i p i = some p := by
  simp [setPool]

theorem setPool_other (pool : Nat → Option PState) {i j : Nat} (p : PState) (h : j ≠ i) :
    setPool pool i p j = pool j := by
  simp [setPool, h]

/-- one call keeps the pool invariant (an unsafe call only taints the parser it was made on) -/
theorem step_inv (env : Env) (s : State) (t : Nat → Bool) (op : Op) (h : InvT s t) :
    InvT (step env s op).1 (taintStep env s t op) := by
  intro j q hq ht
  cases op with
  | construct i cfg cp rs =>
    simp only [step] at hq
    by_cases hji : j = i
    · subst hji
      rw [setPool_same] at hq
      injection hq with hq
      subst hq
      exact Or.inr (Or.inr (Or.inl ⟨rfl, rfl⟩))
    · rw [setPool_other _ _ hji] at hq
      simp only [taintStep, hji, ↓reduceIte] at ht
      exact h j q hq ht
  | add i r =>
    simp only [step] at hq
    simp only [taintStep, safe, ↓reduceIte] at ht
    cases hp : s.pool i with
    | none => simp only [hp] at hq; exact h j q hq ht
    | some p =>
      simp only [hp] at hq
      by_cases hji : j = i
      · subst hji
        rw [setPool_same] at hq
        injection hq with hq
        subst hq
        exact addP_inv p r (h j p hp ht)
      · rw [setPool_other _ _ hji] at hq
        exact h j q hq ht
  | parse i known argv =>
    simp only [step] at hq
    cases hp : s.pool i with
    | none =>
      simp only [hp] at hq
      simp only [taintStep, safe, hp, ↓reduceIte] at ht
      exact h j q hq ht
    | some p =>
      simp only [hp] at hq
      by_cases hji : j = i
      · subst hji
        rw [setPool_same] at hq
        injection hq with hq
        subst hq
        cases hsafe : safeParse env s.G p argv with
        | false => simp [taintStep, safe, hp, hsafe, Op.idx] at ht
        | true =>
          simp only [taintStep, safe, hp, hsafe, ↓reduceIte] at ht
          exact parseP_inv env s.G p known argv hsafe (h j p hp ht)
      · rw [setPool_other _ _ hji] at hq
        have ht' : t j = false := by
          simp only [taintStep] at ht
          split at ht
          · exact ht
          · simpa [Op.idx, hji] using ht
        exact h j q hq ht'
  | printHelp i =>
    simp only [step] at hq
    cases hp : s.pool i with
    | none =>
      simp only [hp] at hq
      simp only [taintStep, safe, hp, ↓reduceIte] at ht
      exact h j q hq ht
    | some p =>
      simp only [hp] at hq
      by_cases hji : j = i
      · subst hji
        rw [setPool_same] at hq
        injection hq with hq
        subst hq
        cases hsafe : safeHelp s.G p with
        | false => simp [taintStep, safe, hp, hsafe, Op.idx] at ht
        | true =>
          simp only [taintStep, safe, hp, hsafe, ↓reduceIte] at ht
          exact helpP_inv env s.G p hsafe (h j p hp ht)
      · rw [setPool_other _ _ hji] at hq
        have ht' : t j = false := by
          simp only [taintStep] at ht
          split at ht
          · exact ht
          · simpa [Op.idx, hji] using ht
        exact h j q hq ht'
  | formatHelp i =>
    simp only [taintStep, safe, ↓reduceIte] at ht
    simp only [step] at hq
    cases hp : s.pool i with
    | none => simp only [hp] at hq; exact h j q hq ht
    | some p => simp only [hp] at hq; exact h j q hq ht

/-- one safe call on an untainted parser agrees with the fresh answer -/
theorem step_agrees (env : Env) (s : State) (t : Nat → Bool) (op : Op) (h : InvT s t)
    (hs : safe env s op = true) (ht : t op.idx = false) : agrees env s op (step env s op).2 = true := by
  cases op with
  | parse i known argv =>
    cases hp : s.pool i with
    | none => simp only [agrees, hp]
    | some p =>
      simp only [safe, hp] at hs
      simp only [agrees, step, hp, decide_eq_true_eq]
      exact parseP_agrees env s.G p known argv hs (h i p hp ht)
  | construct i cfg cp rs => rfl
  | add i r => rfl
  | printHelp i => rfl
  | formatHelp i => rfl

/-- **C08 (partial)**: in EVERY history, every safe parse call on a parser that only received safe calls since
    its construction returns exactly what a freshly built, identically configured parser returns. -/
theorem c08_partial (env : Env) : ∀ (ops : List Op) (s : State) (t : Nat → Bool), InvT s t → Monitored env s t ops
  | [], _, _, _ => trivial
  | op :: ops, s, t, h =>
    ⟨fun hs ht => step_agrees env s t op h hs ht, c08_partial env ops _ _ (step_inv env s t op h)⟩

theorem inv_init : InvT init (fun _ => false) := by
  intro i p hp _
  simp [init] at hp

/-- from process start, for all histories -/
theorem c08_partial_init (env : Env) (ops : List Op) : Monitored env init (fun _ => false) ops :=
  c08_partial env ops init _ inv_init

/-- every call of the history is safe in the state it is made in -/
def safeHist (env : Env) : State → List Op → Bool
  | _, [] => true
  | s, op :: ops => safe env s op && safeHist env (step env s op).1 ops

theorem taintStep_safe {env : Env} {s : State} {op : Op} (hs : safe env s op = true) :
    taintStep env s (fun _ => false) op = fun _ => false := by
  cases op <;> simp_all [taintStep]

/-- plain form: a history all of whose calls avoid the named exclusions satisfies the full statement -/
theorem c08_partial_safeHist (env : Env) : ∀ (ops : List Op) (s : State), InvT s (fun _ => false) →
    safeHist env s ops = true → allAgree env s ops = true
  | [], _, _, _ => rfl
  | op :: ops, s, h, hs => by
    simp only [safeHist, Bool.and_eq_true] at hs
    simp only [allAgree, Bool.and_eq_true]
    refine ⟨step_agrees env s _ op h hs.1 rfl, ?_⟩
    have := step_inv env s _ op h
    rw [taintStep_safe hs.1] at this
    exact c08_partial_safeHist env ops _ this hs.2

/-! ### witnesses: the full statement is false on the current code, in six independent ways -/

def cU : Cfg := { dash := .underscore, gen := .flat, nest := .default }
def cD : Cfg := { dash := .dashOnly, gen := .flat, nest := .default }

def fInt (n : String) (d : Int) : FieldSpec :=
  { name := n.toList, ty := { inner := .sc (.base .int), optional := false }, default := .value (.sc (.int d)) }

/-- `class A: a_b: int = 1` -/
def clsA : ClassSpec := { name := "A".toList, fields := [fInt "a_b" 1], sub := none }
/-- `class B: lr: int` (required) -/
def clsB : ClassSpec :=
  { name := "B".toList, sub := none,
    fields := [{ name := "lr".toList, ty := { inner := .sc (.base .int), optional := false }, default := .missing }] }
/-- `class T: tup: Tuple[int, str, float] = (1, "a", 2.0)` -/
def clsT : ClassSpec :=
  { name := "T".toList, sub := none,
    fields := [{ name := "tup".toList,
                 ty := { inner := .tuple [.base .int, .base .str, .base .float], optional := false },
                 default := .value (.tuple [.int 1, .str "a".toList, .float "2.0".toList]) }] }
/-- `class S: mod: X | Y = subgroups({"x": X, "y": Y}, default="x")` with `X: xv: int = 1`, `Y: yv: int = 2` -/
def clsS : ClassSpec :=
  { name := "S".toList, fields := [],
    sub := some { name := "mod".toList, default := "x".toList,
                  alts := [{ key := "x".toList, cls := "X".toList, fields := [fInt "xv" 1] },
                           { key := "y".toList, cls := "Y".toList, fields := [fInt "yv" 2] }] } }

def env0 : Env :=
  { fenv := [("2.5".toList, some "2.5".toList)],
    files := [("f0.json".toList, some [("a".toList, [("a_b".toList, .sc (.int 7))])])] }

def mkP (i : Nat) (c : Cfg) (cls : ClassSpec) (dest : String) (cp := false) (rs := false) : List Op :=
  [.construct i c cp rs, .add i { dest := dest.toList, cls := cls }]

def argvOf (l : List String) : List Str := l.map String.toList

/-- D5: `p0 = ArgumentParser(DASH)`, `p1 = ArgumentParser(UNDERSCORE)`, then `p0.parse_args(["--a-b","3"])` -/
def d5Hist : List Op := mkP 0 cD clsA "a" ++ [.construct 1 cU false false, .parse 0 false (argvOf ["--a-b", "3"])]
/-- D6: `add_config_path_arg=True`, two `parse_args([])` -/
def d6Hist : List Op := mkP 0 cU clsA "a" (cp := true) ++ [.parse 0 false [], .parse 0 false []]
/-- D8: heterogeneous tuple parsed twice on the same parser -/
def d8Hist : List Op :=
  mkP 0 cU clsT "t" ++ [.parse 0 false (argvOf ["--tup", "4", "b", "2.5"]), .parse 0 false (argvOf ["--tup", "4", "b", "2.5"])]
/-- D9: `--mod y` first, `--mod x` afterwards still yields the `y` alternative -/
def d9Hist : List Op :=
  mkP 0 cU clsS "s" ++ [.parse 0 false (argvOf ["--mod", "y"]), .parse 0 false (argvOf ["--mod", "x"])]
/-- D9 through `print_help`: the default alternative is frozen -/
def d9HelpHist : List Op := mkP 0 cU clsS "s" ++ [.printHelp 0, .parse 0 false (argvOf ["--mod", "y"])]
/-- D10 (with `conflict_handler="resolve"`, which keeps D6 out of the way): the first call's file persists -/
def d10Hist : List Op :=
  mkP 0 cU clsA "a" (cp := true) (rs := true) ++
    [.parse 0 false (argvOf ["--config_path", "f0.json"]), .parse 0 false []]
/-- D10 through `print_help`: the actions are frozen before the file is read, the file is ignored -/
def d10HelpHist : List Op :=
  mkP 0 cU clsA "a" (cp := true) ++ [.printHelp 0, .parse 0 false (argvOf ["--config_path", "f0.json"])]
/-- `add_arguments` after the first parse: accepted, never turned into options -/
def lateAddHist : List Op :=
  mkP 0 cU clsA "a" ++ [.parse 0 false [], .add 0 { dest := "b".toList, cls := clsB }, .parse 0 false (argvOf ["--lr", "2"])]

theorem d5_witness : allAgree env0 init d5Hist = false := by decide
theorem d6_witness : allAgree env0 init d6Hist = false := by decide
theorem d8_witness : allAgree env0 init d8Hist = false := by decide
theorem d9_witness : allAgree env0 init d9Hist = false := by decide
theorem d9_help_witness : allAgree env0 init d9HelpHist = false := by decide
theorem d10_witness : allAgree env0 init d10Hist = false := by decide
theorem d10_help_witness : allAgree env0 init d10HelpHist = false := by decide
theorem lateAdd_witness : allAgree env0 init lateAddHist = false := by decide

/-- the model reproduces the observed wrong answers, not just "some difference" -/
example : (runHist env0 init d5Hist).getLast? = some (.exit 2 .unrecognized) := by decide
example : fresh env0 { cfg := cD, cfgPath := false, resolve := false, regs := [{ dest := "a".toList, cls := clsA }] }
    false (argvOf ["--a-b", "3"]) =
    .ok [{ dest := "a".toList, cls := "A".toList, fields := [("a_b".toList, .sc (.int 3))], sub := none }] [] none [] := by
  decide
example : (runHist env0 init d6Hist).getLast? = some (.raise "ArgumentError".toList) := by decide
example : (runHist env0 init d8Hist).getLast? = some (.raise "IndexError".toList) := by decide
example : (runHist env0 init d9Hist).getLast? =
    some (.ok [{ dest := "s".toList, cls := "S".toList, fields := [],
                 sub := some ("mod".toList, "Y".toList, [("yv".toList, .sc (.int 2))]) }]
              [("s.mod".toList, .sc (.str "x".toList))] none []) := by decide
example : (runHist env0 init d10Hist).getLast? =
    some (.ok [{ dest := "a".toList, cls := "A".toList, fields := [("a_b".toList, .sc (.int 7))], sub := none }]
              [] (some (.sc .none)) []) := by decide

/-- **the full statement does not hold for the current code** -/
theorem c08_full_false : ¬ FullStatement := by
  intro h
  have := h env0 d5Hist
  rw [d5_witness] at this
  cases this

/-- each witness history contains a call that `Safe` excludes — the exclusions are exactly where the failures are -/
example : safeHist env0 init d5Hist = false := by decide
example : safeHist env0 init d6Hist = false := by decide
example : safeHist env0 init d8Hist = false := by decide
example : safeHist env0 init d9Hist = false := by decide
example : safeHist env0 init d9HelpHist = false := by decide
example : safeHist env0 init d10Hist = false := by decide
example : safeHist env0 init d10HelpHist = false := by decide
example : safeHist env0 init lateAddHist = false := by decide

/-! ### the hypotheses of `c08_partial_safeHist` are satisfiable by non-trivial histories -/

/-- three parsers with three different spellings, interleaved; re-parses (valid, invalid, help) on set-up parsers; a
    subgroup parser re-parsed with the same choice; a tuple parser parsed once; a config-path parser parsed once -/
def demoHist : List Op :=
  mkP 0 cD clsA "a" ++ [.parse 0 false (argvOf ["--a-b", "3"])] ++
  mkP 1 cU clsS "s" ++ [.parse 1 false (argvOf ["--mod", "y", "--yv", "5"]), .parse 0 false (argvOf ["--a-b", "4"]),
    .printHelp 0, .parse 1 true (argvOf ["--mod", "y", "--zzz"]), .parse 0 false (argvOf ["--a_b", "4"]),
    .parse 0 false (argvOf ["-h"]), .formatHelp 1] ++
  mkP 2 cU clsT "t" ++ [.parse 2 false (argvOf ["--tup", "4", "b", "2.5"]), .parse 0 false []] ++
  mkP 1 cU clsA "a" (cp := true) ++ [.parse 1 false (argvOf ["--config_path", "f0.json"]), .parse 0 false (argvOf ["--a-b=9"])]

example : safeHist env0 init demoHist = true := by decide
example : allAgree env0 init demoHist = true :=
  c08_partial_safeHist env0 demoHist init inv_init (by decide)
example : (runHist env0 init demoHist).getLast? =
    some (.ok [{ dest := "a".toList, cls := "A".toList, fields := [("a_b".toList, .sc (.int 9))], sub := none }] [] none []) := by
  decide

/-- the monitored form also speaks about histories that DO contain unsafe calls: here parser 1 is abused (D8) and
    the theorem still covers every call on parser 0 -/
example : Monitored env0 init (fun _ => false) (d8Hist ++ mkP 1 cD clsA "a" ++ [.parse 1 false (argvOf ["--a-b", "3"])]) :=
  c08_partial_init env0 _

end SpVerif.C08
