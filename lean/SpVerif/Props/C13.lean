/-
  C13 — serialization is pure, emits only primitives and honours per-field hooks.
  Theorems about `SpVerif.Model.Serial` (encoding.py:61-141, serializable.py:707-908, fields.py:111-120).
  Object identity (freshness / aliasing) is not part of this model: those clauses are checked on the real
  code by harness/props/c13.py (id()-based alias walk and mutation probes).
-/
import SpVerif.Model.Serial
import SpVerif.Lemmas.Serial
namespace SpVerif.C13
open SpVerif SpVerif.Serial

variable (henv : HEnv)

/-! ### the field loop of `to_dict` -/

/-- what `to_dict` stores for one included field (serializable.py:752-773) -/
def fieldEnc (m : FMeta) (v : Val) : Out Val :=
  match m.enc with
  | some h => henv h v
  | none =>
    match v with
    | .inst _ _ fs' => (toDictL henv fs').bind fun ps => .ok (.dict false ps)
    | v => match encode henv v with
      | .raise _ => .ok v
      | r => r

theorem toDictL_cons (n : Str) (m : FMeta) (v : Val) (fs : List (Str × FMeta × Val)) :
    toDictL henv ((n, m, v) :: fs) =
      if !m.toDict then toDictL henv fs
      else (fieldEnc henv m v).bind fun e => (toDictL henv fs).bind fun qs => .ok ((.str n, e) :: qs) := by
  cases hme : m.enc with
  | some h => cases v <;> simp only [toDictL, fieldEnc, hme]
  | none =>
    cases v with
    | inst c r fs' => simp only [toDictL, fieldEnc, hme]
    | _ =>
      simp only [toDictL, fieldEnc, hme]
      generalize encode henv _ = r
      cases r <;> rfl

/-- **exactly the fields not marked `to_dict=False`, in field order** — for every field list, every value and
    every hook environment -/
theorem c13_omit (fs : List (Str × FMeta × Val)) (ps : List (Val × Val)) (h : toDictL henv fs = .ok ps) :
    ps.map Prod.fst = (fs.filter fun f => f.2.1.toDict).map fun f => Val.str f.1 := by
  induction fs generalizing ps with
  | nil => simp [toDictL] at h; subst h; rfl
  | cons f fs ih =>
    obtain ⟨n, m, v⟩ := f
    rw [toDictL_cons] at h
    by_cases hm : m.toDict = true
    · simp only [hm, Bool.not_true, Bool.false_eq_true, ↓reduceIte] at h
      obtain ⟨e, _, h2⟩ := Out.bind_eq_ok h
      obtain ⟨qs, h3, h4⟩ := Out.bind_eq_ok h2
      cases h4
      simp [List.filter, hm, ih qs h3]
    · have hm' : m.toDict = false := by simpa using hm
      simp only [hm', Bool.not_false, ↓reduceIte] at h
      simp [List.filter, hm', ih ps h]

/-- **a field's `encoding_fn` produces that field's entry** (the value is handed to the hook as it is) -/
theorem c13_encoding_hook (n : Str) (m : FMeta) (v : Val) (fs : List (Str × FMeta × Val)) (h : Nat)
    (hm : m.toDict = true) (he : m.enc = some h) :
    toDictL henv ((n, m, v) :: fs) =
      (henv h v).bind fun e => (toDictL henv fs).bind fun qs => .ok ((.str n, e) :: qs) := by
  rw [toDictL_cons]
  simp [hm, fieldEnc, he]

/-- the hooked field may hold anything — in particular a dataclass instance (directly, or inside Optional / List /
    Dict): the hook wins over the recursive `to_dict` of the nested instance (serializable.py:752-756 precedes 760-763) -/
theorem c13_encoding_hook_on_instance (n : Str) (m : FMeta) (c : Str) (reg : Bool) (ifs : List (Str × FMeta × Val))
    (fs : List (Str × FMeta × Val)) (h : Nat) (hm : m.toDict = true) (he : m.enc = some h) :
    toDictL henv ((n, m, .inst c reg ifs) :: fs) =
      (henv h (.inst c reg ifs)).bind fun e => (toDictL henv fs).bind fun qs => .ok ((.str n, e) :: qs) :=
  c13_encoding_hook henv n m _ fs h hm he

/-- **… and only that entry**: the entries of the other fields are `to_dict`'s own loop on the other fields —
    neither the hook nor the hooked value occurs in them -/
theorem c13_hook_local (n : Str) (m : FMeta) (v : Val) (fs : List (Str × FMeta × Val)) (ps : List (Val × Val))
    (hm : m.toDict = true) (h : toDictL henv ((n, m, v) :: fs) = .ok ps) :
    ∃ e qs, ps = (.str n, e) :: qs ∧ fieldEnc henv m v = .ok e ∧ toDictL henv fs = .ok qs := by
  rw [toDictL_cons] at h
  simp only [hm, Bool.not_true, Bool.false_eq_true, ↓reduceIte] at h
  obtain ⟨e, h1, h2⟩ := Out.bind_eq_ok h
  obtain ⟨qs, h3, h4⟩ := Out.bind_eq_ok h2
  cases h4
  exact ⟨e, qs, rfl, h1, h3⟩

/-- a field marked `to_dict=False` contributes nothing, whatever it holds -/
theorem c13_hidden_skipped (n : Str) (m : FMeta) (v : Val) (fs : List (Str × FMeta × Val)) (hm : m.toDict = false) :
    toDictL henv ((n, m, v) :: fs) = toDictL henv fs := by
  rw [toDictL_cons]; simp [hm]

/-- **a field's `decoding_fn` is what decodes it**: the annotation's own decoder is not consulted -/
theorem c13_decoding_hook (d : List (Val × Val)) (n : Str) (m : FMeta) (dflt : Option Val) (t : FTy)
    (fs : List (Str × FMeta × Option Val × FTy)) (missing : Bool) (raw : Val) (h : Nat)
    (hl : lookupKey (.str n) d = some raw) (hd : m.dec = some h) :
    decodeFields henv d ((n, m, dflt, t) :: fs) missing =
      (henv h raw).bind fun v => (decodeFields henv d fs missing).bind fun rest => .ok ((n, m, v) :: rest) := by
  simp only [decodeFields, hl, hd]

/-- … whatever the raw value is — in particular a raw `None` is handed to the field's `decoding_fn` like any other -/
theorem c13_decoding_hook_none (d : List (Val × Val)) (n : Str) (m : FMeta) (dflt : Option Val) (t : FTy)
    (fs : List (Str × FMeta × Option Val × FTy)) (missing : Bool) (h : Nat)
    (hl : lookupKey (.str n) d = some .none) (hd : m.dec = some h) :
    decodeFields henv d ((n, m, dflt, t) :: fs) missing =
      (henv h .none).bind fun v => (decodeFields henv d fs missing).bind fun rest => .ok ((n, m, v) :: rest) :=
  c13_decoding_hook henv d n m dflt t fs missing .none h hl hd

/-- a field whose key is absent (e.g. it was marked `to_dict=False`) comes from its default -/
theorem c13_absent_default (d : List (Val × Val)) (n : Str) (m : FMeta) (dv : Val) (t : FTy)
    (fs : List (Str × FMeta × Option Val × FTy)) (missing : Bool) (hl : lookupKey (.str n) d = none) :
    decodeFields henv d ((n, m, some dv, t) :: fs) missing =
      (decodeFields henv d fs missing).bind fun rest => .ok ((n, m, dv) :: rest) := by
  simp only [decodeFields, hl]

/-! ### "to that field only": entries of hook-free fields do not depend on the hook environment -/

mutual
/-- no field of any instance inside carries an `encoding_fn` -/
def hookFree : Val → Bool
  | .list xs => hookFreeL xs
  | .tuple xs => hookFreeL xs
  | .set xs => hookFreeL xs
  | .dict _ ps => hookFreeP ps
  | .inst _ _ fs => hookFreeF fs
  | _ => true
def hookFreeL : List Val → Bool
  | [] => true
  | x :: xs => hookFree x && hookFreeL xs
def hookFreeP : List (Val × Val) → Bool
  | [] => true
  | (k, v) :: ps => hookFree k && hookFree v && hookFreeP ps
def hookFreeF : List (Str × FMeta × Val) → Bool
  | [] => true
  | (_, m, v) :: fs => m.enc.isNone && hookFree v && hookFreeF fs
end

variable (henv' : HEnv)

mutual
theorem encode_env (v : Val) (h : hookFree v = true) : encode henv v = encode henv' v := by
  match v, h with
  | .list xs, h => simp only [hookFree] at h; simp only [encode, encodeL_env xs h]
  | .tuple xs, h => simp only [hookFree] at h; simp only [encode, encodeL_env xs h]
  | .set xs, h => simp only [hookFree] at h; simp only [encode, encodeL_env xs h]
  | .dict o ps, h => simp only [hookFree] at h; simp only [encode, encodeP_env ps h]
  | .inst _ _ fs, h => simp only [hookFree] at h; simp only [encode, toDictL_env fs h]
  | .none, _ | .bool _, _ | .int _, _ | .float _, _ | .str _, _ | .path _, _ | .enum _ _, _ => simp only [encode]
theorem encodeL_env (xs : List Val) (h : hookFreeL xs = true) : encodeL henv xs = encodeL henv' xs := by
  match xs, h with
  | [], _ => simp only [encodeL]
  | x :: xs, h =>
    simp only [hookFreeL, Bool.and_eq_true] at h
    simp only [encodeL, encode_env x h.1, encodeL_env xs h.2]
theorem encodeP_env (ps : List (Val × Val)) (h : hookFreeP ps = true) : encodeP henv ps = encodeP henv' ps := by
  match ps, h with
  | [], _ => simp only [encodeP]
  | (k, v) :: ps, h =>
    simp only [hookFreeP, Bool.and_eq_true] at h
    simp only [encodeP, encode_env k h.1.1, encode_env v h.1.2, encodeP_env ps h.2]
theorem toDictL_env (fs : List (Str × FMeta × Val)) (h : hookFreeF fs = true) : toDictL henv fs = toDictL henv' fs := by
  match fs, h with
  | [], _ => simp only [toDictL]
  | (n, m, v) :: fs, h =>
    simp only [hookFreeF, Bool.and_eq_true] at h
    have hme : m.enc = none := by simpa using h.1.1
    have hfe : fieldEnc henv m v = fieldEnc henv' m v := by
      match v, h.1.2 with
      | .inst _ _ fs', hv =>
        simp only [hookFree] at hv
        simp only [fieldEnc, hme, toDictL_env fs' hv]
      | .none, hv | .bool _, hv | .int _, hv | .float _, hv | .str _, hv | .path _, hv
      | .enum _ _, hv | .list _, hv | .tuple _, hv | .set _, hv | .dict _ _, hv =>
        simp only [fieldEnc, hme, encode_env _ hv]
    rw [toDictL_cons, toDictL_cons, hfe, toDictL_env fs h.2]
end

theorem Out.bind_ok_right {α : Type} (x : Out α) : (x.bind fun a => Out.ok a) = x := by cases x <;> rfl

theorem toDictL_append (pre post : List (Str × FMeta × Val)) :
    toDictL henv (pre ++ post) =
      (toDictL henv pre).bind fun a => (toDictL henv post).bind fun b => .ok (a ++ b) := by
  induction pre with
  | nil => simp [toDictL, Out.bind_ok_right]
  | cons f pre ih =>
    obtain ⟨n, m, v⟩ := f
    rw [List.cons_append, toDictL_cons, toDictL_cons, ih]
    by_cases hm : m.toDict = true
    · simp only [hm, Bool.not_true, Bool.false_eq_true, ↓reduceIte]
      cases fieldEnc henv m v <;> simp only [Out.ok_bind, Out.raise_bind, Out.unmodelled_bind]
      cases toDictL henv pre <;> simp only [Out.ok_bind, Out.raise_bind, Out.unmodelled_bind]
      cases toDictL henv post <;> simp [Out.ok_bind, Out.raise_bind, Out.unmodelled_bind]
    · simp [hm]

/-- **a field's `encoding_fn` touches that field's entry only.**  Take any class whose other fields carry no hook
    (at any depth) and one written field `n` with a hook; serialize the same instance under two hook environments
    (e.g. two different functions for that hook): both outputs have the same entries before and after `n` — only the
    entry of `n` may differ.  Any number of fields, any values. -/
theorem c13_hook_only_its_field (pre post : List (Str × FMeta × Val)) (n : Str) (m : FMeta) (v : Val)
    (ps ps' : List (Val × Val)) (hpre : hookFreeF pre = true) (hpost : hookFreeF post = true) (hm : m.toDict = true)
    (h1 : toDictL henv (pre ++ (n, m, v) :: post) = .ok ps) (h2 : toDictL henv' (pre ++ (n, m, v) :: post) = .ok ps') :
    ∃ a e e' b, ps = a ++ (.str n, e) :: b ∧ ps' = a ++ (.str n, e') :: b := by
  rw [toDictL_append, toDictL_cons] at h1 h2
  rw [← toDictL_env henv henv' pre hpre, ← toDictL_env henv henv' post hpost] at h2
  simp only [hm, Bool.not_true, Bool.false_eq_true, ↓reduceIte] at h1 h2
  obtain ⟨a, ha, h1⟩ := Out.bind_eq_ok h1
  obtain ⟨r, hr, h1⟩ := Out.bind_eq_ok h1
  obtain ⟨e, _, hr⟩ := Out.bind_eq_ok hr
  obtain ⟨b, hb, hr⟩ := Out.bind_eq_ok hr
  rw [ha] at h2
  simp only [Out.ok_bind] at h2
  obtain ⟨r', hr', h2⟩ := Out.bind_eq_ok h2
  obtain ⟨e', _, hr'⟩ := Out.bind_eq_ok hr'
  rw [hb] at hr'
  simp only [Out.ok_bind, Out.ok.injEq] at hr hr' h1 h2
  subst hr hr' h1 h2
  exact ⟨a, e, e', b, rfl, rfl⟩

mutual
/-- no class reachable from the annotation has a field with a `decoding_fn` -/
def decHookFree : FTy → Bool
  | .list t => decHookFree t
  | .set t => decHookFree t
  | .vtuple t => decHookFree t
  | .tuple ts => decHookFreeL ts
  | .dict k v => decHookFree k && decHookFree v
  | .union alts => decHookFreeL alts
  | .dc _ _ fs => decHookFreeF fs
  | _ => true
def decHookFreeL : List FTy → Bool
  | [] => true
  | t :: ts => decHookFree t && decHookFreeL ts
def decHookFreeF : List (Str × FMeta × Option Val × FTy) → Bool
  | [] => true
  | (_, m, _, t) :: fs => m.dec.isNone && decHookFree t && decHookFreeF fs
end

mutual
theorem decode_env (t : FTy) (h : decHookFree t = true) (raw : Val) : decode henv t raw = decode henv' t raw := by
  match t, h with
  | .list t, h =>
    simp only [decHookFree] at h
    rw [decode_list, decode_list, funext (decode_env t h)]
  | .set t, h =>
    simp only [decHookFree] at h
    rw [decode_set, decode_set, funext (decode_env t h)]
  | .vtuple t, h =>
    simp only [decHookFree] at h
    rw [decode_vtuple, decode_vtuple, funext (decode_env t h)]
  | .tuple ts, h =>
    simp only [decHookFree] at h
    rw [decode_tuple, decode_tuple]
    simp only [decodeT_env ts h]
  | .dict k v, h =>
    simp only [decHookFree, Bool.and_eq_true] at h
    rw [decode_dict, decode_dict, funext (decode_env k h.1), funext (decode_env v h.2)]
  | .union alts, h =>
    simp only [decHookFree] at h
    rw [decode_union, decode_union, decodeU_env _ alts h]
  | .dc c reg fs, h =>
    simp only [decHookFree] at h
    rw [decode_dc, decode_dc]
    have : (fun d => decodeFields henv d fs false) = (fun d => decodeFields henv' d fs false) :=
      funext fun d => decodeFields_env d fs false h
    rw [this]
  | .int, _ => rw [decode_int, decode_int]
  | .float, _ => rw [decode_float, decode_float]
  | .str, _ => rw [decode_str, decode_str]
  | .bool, _ => rw [decode_bool, decode_bool]
  | .path, _ => rw [decode_path, decode_path]
  | .enum _ _, _ => rw [decode_enum, decode_enum]
  | .literal _, _ => rw [decode_literal, decode_literal]
  | .any, _ => simp only [decode]
  | .noneT, _ => simp only [decode]
theorem decodeT_env (ts : List FTy) (h : decHookFreeL ts = true) (xs : List Val) :
    decodeT henv ts xs = decodeT henv' ts xs := by
  match ts, xs, h with
  | _, [], _ => simp only [decodeT]
  | [], _ :: _, _ => simp only [decodeT]
  | t :: ts, x :: xs, h =>
    simp only [decHookFreeL, Bool.and_eq_true] at h
    simp only [decodeT, decode_env t h.1 x, decodeT_env ts h.2 xs]
theorem decodeU_env (optional : Bool) (alts : List FTy) (h : decHookFreeL alts = true) (raw : Val) :
    decodeU henv optional alts raw = decodeU henv' optional alts raw := by
  match alts, h with
  | [], _ => simp only [decodeU]
  | t :: ts, h =>
    simp only [decHookFreeL, Bool.and_eq_true] at h
    simp only [decodeU, funext (decode_env t h.1), decodeU_env optional ts h.2 raw]
theorem decodeFields_env (d : List (Val × Val)) (fs : List (Str × FMeta × Option Val × FTy)) (missing : Bool)
    (h : decHookFreeF fs = true) : decodeFields henv d fs missing = decodeFields henv' d fs missing := by
  match fs, h with
  | [], _ => simp only [decodeFields]
  | (n, m, dflt, t) :: fs, h =>
    simp only [decHookFreeF, Bool.and_eq_true] at h
    have hmd : m.dec = none := by simpa using h.1.1
    simp only [decodeFields, hmd, decode_env t h.1.2, decodeFields_env d fs missing h.2, decodeFields_env d fs true h.2]
end

/-- **a `decoding_fn` touches its own field only**: decoding along an annotation that reaches no hooked field does not
    look at the hook environment -/
theorem c13_decoding_env_independent (t : FTy) (h : decHookFree t = true) (raw : Val) :
    decode henv t raw = decode henv' t raw := decode_env henv henv' t h raw

/-! ### primitives only -/

/-- keys whose encoding is a primitive leaf -/
def keyOk : Val → Bool
  | .none | .bool _ | .int _ | .float _ | .str _ | .path _ | .enum _ _ => true
  | _ => false

/-- what a field's `encoding_fn` returns is accepted when it is made of primitives (the hook's own business otherwise) -/
def hookPrim (h : Nat) (v : Val) : Bool :=
  match henv h v with
  | .ok e => isPrim e
  | _ => false

mutual
/-- **InGrammar** on values, with hooks (`primOkH henv`): dicts of any Mapping type (an OrderedDict too), dict keys are leaves
    (str/int/float/bool/None/Path/Enum); a WRITTEN field that carries an `encoding_fn` is accepted when the hook
    answers primitives on the value it is given (`hookPrim`); a field marked `to_dict=False` is accepted whatever it
    holds and whatever hook it carries (it is never looked at) -/
def primOkH : Val → Bool
  | .list xs => primOkHL xs
  | .tuple xs => primOkHL xs
  | .set xs => primOkHL xs
  | .dict _ ps => primOkHP ps
  | .inst _ _ fs => primOkHF fs
  | _ => true
def primOkHL : List Val → Bool
  | [] => true
  | x :: xs => primOkH x && primOkHL xs
def primOkHP : List (Val × Val) → Bool
  | [] => true
  | (k, v) :: ps => keyOk k && primOkH v && primOkHP ps
def primOkHF : List (Str × FMeta × Val) → Bool
  | [] => true
  | (_, m, v) :: fs =>
    (if m.toDict then (match m.enc with | some h => hookPrim henv h v | none => primOkH v) else true) && primOkHF fs
end

mutual
/-- the hook-free grammar: as `primOkH`, but no written field carries an `encoding_fn` -/
def primOk : Val → Bool
  | .list xs => primOkL xs
  | .tuple xs => primOkL xs
  | .set xs => primOkL xs
  | .dict _ ps => primOkP ps
  | .inst _ _ fs => primOkF fs
  | _ => true
def primOkL : List Val → Bool
  | [] => true
  | x :: xs => primOk x && primOkL xs
def primOkP : List (Val × Val) → Bool
  | [] => true
  | (k, v) :: ps => keyOk k && primOk v && primOkP ps
def primOkF : List (Str × FMeta × Val) → Bool
  | [] => true
  | (_, m, v) :: fs => (if m.toDict then m.enc.isNone && primOk v else true) && primOkF fs
end

mutual
theorem primOkH_of_primOk (v : Val) (h : primOk v = true) : primOkH henv v = true := by
  match v, h with
  | .list xs, h => simp only [primOk] at h; simp only [primOkH]; exact primOkHL_of xs h
  | .tuple xs, h => simp only [primOk] at h; simp only [primOkH]; exact primOkHL_of xs h
  | .set xs, h => simp only [primOk] at h; simp only [primOkH]; exact primOkHL_of xs h
  | .dict o ps, h =>
    simp only [primOk] at h
    simp only [primOkH]; exact primOkHP_of ps h
  | .inst _ _ fs, h => simp only [primOk] at h; simp only [primOkH]; exact primOkHF_of fs h
  | .none, _ | .bool _, _ | .int _, _ | .float _, _ | .str _, _ | .path _, _ | .enum _ _, _ => simp [primOkH]
theorem primOkHL_of (xs : List Val) (h : primOkL xs = true) : primOkHL henv xs = true := by
  match xs, h with
  | [], _ => rfl
  | x :: xs, h =>
    simp only [primOkL, Bool.and_eq_true] at h
    simp only [primOkHL, Bool.and_eq_true]; exact ⟨primOkH_of_primOk x h.1, primOkHL_of xs h.2⟩
theorem primOkHP_of (ps : List (Val × Val)) (h : primOkP ps = true) : primOkHP henv ps = true := by
  match ps, h with
  | [], _ => rfl
  | (k, v) :: ps, h =>
    simp only [primOkP, Bool.and_eq_true] at h
    simp only [primOkHP, Bool.and_eq_true]; exact ⟨⟨h.1.1, primOkH_of_primOk v h.1.2⟩, primOkHP_of ps h.2⟩
theorem primOkHF_of (fs : List (Str × FMeta × Val)) (h : primOkF fs = true) : primOkHF henv fs = true := by
  match fs, h with
  | [], _ => rfl
  | (n, m, v) :: fs, h =>
    simp only [primOkF, Bool.and_eq_true] at h
    simp only [primOkHF, Bool.and_eq_true]
    refine ⟨?_, primOkHF_of fs h.2⟩
    by_cases hm : m.toDict = true
    · have h1 := h.1
      simp only [hm, ↓reduceIte, Bool.and_eq_true] at h1
      have hme : m.enc = none := by simpa using h1.1
      simp only [hm, ↓reduceIte, hme]
      exact primOkH_of_primOk v h1.2
    · simp [hm]
end

theorem key_prim (k : Val) (h : keyOk k = true) :
    ∃ k', encode henv k = .ok k' ∧ isPrimLeaf k' = true ∧ hashable k' = true := by
  cases k <;> simp [keyOk] at h <;> simp [encode, isPrimLeaf, hashable]

theorem isPrimP_insert (k v : Val) (acc : List (Val × Val)) (hk : isPrimLeaf k = true) (hv : isPrim v = true)
    (ha : isPrimP acc = true) : isPrimP (dictInsert k v acc) = true := by
  induction acc with
  | nil => simp [dictInsert, isPrimP, hk, hv]
  | cons p ps ih =>
    obtain ⟨k', v'⟩ := p
    simp only [isPrimP, Bool.and_eq_true] at ha
    simp only [dictInsert]
    split
    · simp [isPrimP, ha.1.1, hv, ha.2]
    · simp [isPrimP, ha.1.1, ha.1.2, ih ha.2]

theorem fold_prim (qs acc : List (Val × Val)) (ha : isPrimP acc = true) (hq : isPrimP qs = true)
    (hh : ∀ q ∈ qs, hashable q.1 = true) :
    ∃ acc', encDictFold (.dict acc) qs = .ok (.dict acc') ∧ isPrimP acc' = true := by
  induction qs generalizing acc with
  | nil => exact ⟨acc, rfl, ha⟩
  | cons q qs ih =>
    obtain ⟨k, v⟩ := q
    simp only [isPrimP, Bool.and_eq_true] at hq
    simp only [encDictFold, encDictStep, hh (k, v) (by simp), ↓reduceIte, Out.ok_bind]
    exact ih _ (isPrimP_insert k v acc hq.1.1 hq.1.2 ha) hq.2 (fun q hq' => hh q (by simp [hq']))

mutual
theorem prim_enc (v : Val) (h : primOkH henv v = true) : ∃ e, encode henv v = .ok e ∧ isPrim e = true := by
  match v, h with
  | .none, _ => exact ⟨.none, by simp [encode], rfl⟩
  | .bool b, _ => exact ⟨.bool b, by simp [encode], rfl⟩
  | .int n, _ => exact ⟨.int n, by simp [encode], rfl⟩
  | .float r, _ => exact ⟨.float r, by simp [encode], rfl⟩
  | .str s, _ => exact ⟨.str s, by simp [encode], rfl⟩
  | .path s, _ => exact ⟨.str s, by simp [encode], rfl⟩
  | .enum _ n, _ => exact ⟨.str n, by simp [encode], rfl⟩
  | .list xs, h =>
    simp only [primOkH] at h
    obtain ⟨es, h1, h2⟩ := prim_encL xs h
    exact ⟨.list es, by simp [encode, h1], by simp [isPrim, h2]⟩
  | .tuple xs, h =>
    simp only [primOkH] at h
    obtain ⟨es, h1, h2⟩ := prim_encL xs h
    exact ⟨.list es, by simp [encode, h1], by simp [isPrim, h2]⟩
  | .set xs, h =>
    simp only [primOkH] at h
    obtain ⟨es, h1, h2⟩ := prim_encL xs h
    exact ⟨.list es, by simp [encode, h1], by simp [isPrim, h2]⟩
  | .dict ordered ps, h =>
    simp only [primOkH] at h
    obtain ⟨qs, h1, h2, h3⟩ := prim_encP ps h
    obtain ⟨acc', h4, h5⟩ := fold_prim qs [] rfl h2 h3
    exact ⟨.dict false acc', by simp [encode, h1, h4, DAcc.toVal], by simp [isPrim, h5]⟩
  | .inst _ reg fs, h =>
    simp only [primOkH] at h
    obtain ⟨qs, h1, h2⟩ := prim_encF fs h
    exact ⟨.dict false qs, by simp [encode, h1], by simp [isPrim, h2]⟩
theorem prim_encL (xs : List Val) (h : primOkHL henv xs = true) : ∃ es, encodeL henv xs = .ok es ∧ isPrimL es = true := by
  match xs, h with
  | [], _ => exact ⟨[], by simp [encodeL], rfl⟩
  | x :: xs, h =>
    simp only [primOkHL, Bool.and_eq_true] at h
    obtain ⟨e, h1, h2⟩ := prim_enc x h.1
    obtain ⟨es, h3, h4⟩ := prim_encL xs h.2
    exact ⟨e :: es, by simp [encodeL, h1, h3], by simp [isPrimL, h2, h4]⟩
theorem prim_encP (ps : List (Val × Val)) (h : primOkHP henv ps = true) :
    ∃ qs, encodeP henv ps = .ok qs ∧ isPrimP qs = true ∧ ∀ q ∈ qs, hashable q.1 = true := by
  match ps, h with
  | [], _ => exact ⟨[], by simp [encodeP], rfl, fun _ hq => nomatch hq⟩
  | (k, v) :: ps, h =>
    simp only [primOkHP, Bool.and_eq_true] at h
    obtain ⟨k', hk1, hk2, hk3⟩ := key_prim henv k h.1.1
    obtain ⟨e, h1, h2⟩ := prim_enc v h.1.2
    obtain ⟨qs, h3, h4, h5⟩ := prim_encP ps h.2
    refine ⟨(k', e) :: qs, by simp [encodeP, hk1, h1, h3], by simp [isPrimP, hk2, h2, h4], ?_⟩
    intro q hq
    rcases List.mem_cons.mp hq with rfl | hq
    · exact hk3
    · exact h5 q hq
theorem prim_encF (fs : List (Str × FMeta × Val)) (h : primOkHF henv fs = true) :
    ∃ qs, toDictL henv fs = .ok qs ∧ isPrimP qs = true := by
  match fs, h with
  | [], _ => exact ⟨[], by simp [toDictL], rfl⟩
  | (n, m, v) :: fs, h =>
    simp only [primOkHF, Bool.and_eq_true] at h
    obtain ⟨qs, h1, h2⟩ := prim_encF fs h.2
    by_cases hm : m.toDict = true
    · have hv := h.1
      simp only [hm, ↓reduceIte] at hv
      -- what is written for this field: the hook's answer, the nested `to_dict`, or `encode`
      have hfe : ∃ e', fieldEnc henv m v = .ok e' ∧ isPrim e' = true := by
        cases hme : m.enc with
        | some hk =>
          simp only [hme, hookPrim] at hv
          cases hh : henv hk v with
          | ok e => rw [hh] at hv; exact ⟨e, by simp [fieldEnc, hme, hh], hv⟩
          | raise _ => rw [hh] at hv; simp at hv
          | unmodelled _ => rw [hh] at hv; simp at hv
        | none =>
          simp only [hme] at hv
          match v, hv with
          | .inst _ _ fs', hv =>
            simp only [primOkH] at hv
            obtain ⟨q2, g1, g2⟩ := prim_encF fs' hv
            exact ⟨.dict false q2, by simp [fieldEnc, hme, g1], by simp [isPrim, g2]⟩
          | .none, hv | .bool _, hv | .int _, hv | .float _, hv | .str _, hv | .path _, hv
          | .enum _ _, hv | .list _, hv | .tuple _, hv | .set _, hv | .dict _ _, hv =>
            obtain ⟨e, he1, he2⟩ := prim_enc _ hv
            exact ⟨e, by simp [fieldEnc, hme, he1], he2⟩
      obtain ⟨e', hf1, hf2⟩ := hfe
      exact ⟨(.str n, e') :: qs, by rw [toDictL_cons]; simp [hm, hf1, h1], by simp [isPrimP, isPrimLeaf, hf2, h2]⟩
    · have hm' : m.toDict = false := by simpa using hm
      exact ⟨qs, by rw [toDictL_cons]; simp [hm', h1], h2⟩
end

/-- **C13 primitives-only, with hooks**: `to_dict(x)` of every instance of the grammar (any nesting depth;
    Serializable or plain at every level; any subset of fields hidden; any subset of written fields given an
    `encoding_fn` whose answer is made of primitives) succeeds and is made only of dict / list / str / int / float /
    bool / None — no tuple, set, Path, Enum or OrderedDict survives anywhere inside. -/
theorem c13_prim_hooks (x : Val) (c : Str) (reg : Bool) (fs : List (Str × FMeta × Val)) (hx : x = .inst c reg fs)
    (h : primOkH henv x = true) : ∃ d, toDict henv x = .ok d ∧ isPrim d = true := by
  subst hx
  simp only [primOkH] at h
  obtain ⟨qs, h1, h2⟩ := prim_encF henv fs h
  exact ⟨.dict false qs, by simp [toDict, toDictF, h1], by simp [isPrim, h2]⟩

/-- the hook-free corollary, for every hook environment -/
theorem c13_prim (x : Val) (c : Str) (reg : Bool) (fs : List (Str × FMeta × Val)) (hx : x = .inst c reg fs)
    (h : primOk x = true) : ∃ d, toDict henv x = .ok d ∧ isPrim d = true :=
  c13_prim_hooks henv x c reg fs hx (primOkH_of_primOk henv x h)

/-- **omits exactly the marked fields — total form**: on the grammar (with hooks) `to_dict`'s loop succeeds and its keys
    are the fields not marked `to_dict=False`, in field order -/
theorem c13_omit_total (fs : List (Str × FMeta × Val)) (h : primOkHF henv fs = true) :
    ∃ ps, toDictL henv fs = .ok ps ∧
      ps.map Prod.fst = (fs.filter fun f => f.2.1.toDict).map fun f => Val.str f.1 := by
  obtain ⟨ps, h1, _⟩ := prim_encF henv fs h
  exact ⟨ps, h1, c13_omit henv fs ps h1⟩

/-! ### "so json.dumps and yaml.safe_dump accept it unaided" -/

theorem yaml_accepts (d : Val) (h : isPrim d = true) : yamlTr d = .ok d := by simp [yamlTr, h]

mutual
theorem json_accepts (d : Val) (h : isPrim d = true) : ∃ j, jsonTr d = .ok j := by
  match d, h with
  | .none, _ => exact ⟨.none, by simp [jsonTr]⟩
  | .bool b, _ => exact ⟨.bool b, by simp [jsonTr]⟩
  | .int n, _ => exact ⟨.int n, by simp [jsonTr]⟩
  | .float r, _ => exact ⟨.float r, by simp [jsonTr]⟩
  | .str r, _ => exact ⟨.str r, by simp [jsonTr]⟩
  | .list xs, h =>
    simp only [isPrim] at h
    obtain ⟨ys, hy⟩ := json_acceptsL xs h
    exact ⟨.list ys, by simp [jsonTr, hy]⟩
  | .dict o ps, h =>
    simp only [isPrim, Bool.and_eq_true] at h
    obtain ⟨qs, hq⟩ := json_acceptsP ps h.2
    exact ⟨.dict false (qs.foldl (fun acc (k, v) => dictInsert k v acc) []), by simp [jsonTr, hq]⟩
  | .path _, h | .enum _ _, h | .tuple _, h | .set _, h | .inst _ _ _, h => simp [isPrim] at h
theorem json_acceptsL (xs : List Val) (h : isPrimL xs = true) : ∃ ys, jsonTrL xs = .ok ys := by
  match xs, h with
  | [], _ => exact ⟨[], by simp [jsonTrL]⟩
  | x :: xs, h =>
    simp only [isPrimL, Bool.and_eq_true] at h
    obtain ⟨y, hy⟩ := json_accepts x h.1
    obtain ⟨ys, hys⟩ := json_acceptsL xs h.2
    exact ⟨y :: ys, by simp [jsonTrL, hy, hys]⟩
theorem json_acceptsP (ps : List (Val × Val)) (h : isPrimP ps = true) : ∃ qs, jsonTrP ps = .ok qs := by
  match ps, h with
  | [], _ => exact ⟨[], by simp [jsonTrP]⟩
  | (k, v) :: ps, h =>
    simp only [isPrimP, Bool.and_eq_true] at h
    obtain ⟨y, hy⟩ := json_accepts v h.1.2
    obtain ⟨qs, hq⟩ := json_acceptsP ps h.2
    have hk : ∃ s, jsonKey k = .ok s := by
      cases k <;> simp [isPrimLeaf] at h <;> simp [jsonKey]
    obtain ⟨s, hs⟩ := hk
    exact ⟨(.str s, y) :: qs, by simp [jsonTrP, hs, hy, hq]⟩
end

/-- **writers accept**: on the grammar (with hooks) the output of `to_dict` is taken by `yaml.safe_dump` /
    `yaml.dump`+`safe_load` unchanged and by `json.dumps` (model: `yamlTr`, `jsonTr`) -/
theorem c13_writers_accept (x : Val) (c : Str) (reg : Bool) (fs : List (Str × FMeta × Val)) (hx : x = .inst c reg fs)
    (h : primOkH henv x = true) :
    ∃ d, toDict henv x = .ok d ∧ yamlTr d = .ok d ∧ ∃ j, jsonTr d = .ok j := by
  obtain ⟨d, h1, h2⟩ := c13_prim_hooks henv x c reg fs hx h
  exact ⟨d, h1, yaml_accepts d h2, json_accepts d h2⟩

/-- the statement for every Python value (no grammar restriction) -/
def PrimFullStatement : Prop :=
  ∀ (henv : HEnv) (x d : Val), toDict henv x = .ok d → isPrim d = true

def h0 : HEnv := fun _ v => .ok v

/-- open finding: a dict with tuple keys is emitted as a list of `(key, value)` *tuples* -/
theorem c13_tuple_key_witness :
    toDict h0 (.inst ['K'] true [(['d'], FMeta.plain, .dict false [(.tuple [.int 1, .int 2], .str ['a'])])]) =
      .ok (.dict false [(.str ['d'], .list [.tuple [.list [.int 1, .int 2], .str ['a']]])]) := by rfl

/-- repaired by 36b622d (was the open finding C13-ordereddict-survives): an OrderedDict held by a Dict field, or sitting
    inside a list, is written as a plain dict — the output is made of exact primitives -/
def exOdict : Val :=
  .inst ['K'] true [(['d'], FMeta.plain, .dict true [(.str ['a'], .int 1)]),
                    (['l'], FMeta.plain, .list [.dict true [(.int 1, .str ['x'])]])]
example : toDict h0 exOdict =
    .ok (.dict false [(.str ['d'], .dict false [(.str ['a'], .int 1)]),
                      (.str ['l'], .list [.dict false [(.int 1, .str ['x'])]])]) := by rfl
example : primOk exOdict = true := by rfl
example : ∃ d, toDict h0 exOdict = .ok d ∧ yamlTr d = .ok d ∧ ∃ j, jsonTr d = .ok j :=
  c13_writers_accept h0 exOdict _ _ _ rfl (by rfl)

theorem c13_prim_full_witness : ¬ PrimFullStatement := by
  intro h
  have := h h0 _ _ c13_tuple_key_witness
  simp [isPrim, isPrimP, isPrimL, isPrimLeaf] at this

/-- regression (repaired by b7617dd): a non-Serializable dataclass inside a list honours `to_dict=False` — the
    hidden field `h` is omitted, exactly as when the instance is held directly by a field -/
example :
    toDict h0 (.inst ['Q'] true [(['l'], FMeta.plain,
        .list [.inst ['P'] false [(['a'], FMeta.plain, .int 1), (['h'], { toDict := false, enc := none, dec := none }, .int 2)]])]) =
      .ok (.dict false [(.str ['l'], .list [.dict false [(.str ['a'], .int 1)]])]) := by rfl
example :
    toDict h0 (.inst ['Q'] true [(['p'], FMeta.plain,
        .inst ['P'] false [(['a'], FMeta.plain, .int 1), (['h'], { toDict := false, enc := none, dec := none }, .int 2)])]) =
      .ok (.dict false [(.str ['p'], .dict false [(.str ['a'], .int 1)])]) := by rfl

/-- `encode` of an instance is `to_dict` of it, Serializable or not (so hooks are honoured inside containers) -/
theorem c13_encode_is_to_dict (c : Str) (reg : Bool) (fs : List (Str × FMeta × Val)) :
    encode henv (.inst c reg fs) = toDict henv (.inst c reg fs) := by
  simp [encode, toDict, toDictF]

/-! ### functionality -/

/-- D15: two enumerations of the same set — equal as Python sets — give different lists -/
theorem c13_set_order_witness :
    encode h0 (.set [.int 0, .int 8]) = .ok (.list [.int 0, .int 8]) ∧
    encode h0 (.set [.int 8, .int 0]) = .ok (.list [.int 8, .int 0]) ∧
    (Val.list [.int 0, .int 8] ≠ Val.list [.int 8, .int 0]) := by
  refine ⟨rfl, rfl, ?_⟩
  intro h
  injection h with h
  injection h with h1 _
  injection h1 with h1
  cases h1

/-- a constant hook on a field that holds an instance: the hook's answer is written, not the nested dict -/
example :
    toDict (fun _ _ => .ok (.str ['H'])) (.inst ['Q'] true [(['p'], { toDict := true, enc := some 12, dec := none },
        .inst ['P'] true [(['a'], FMeta.plain, .int 1)]), (['z'], FMeta.plain, .int 2)]) =
      .ok (.dict false [(.str ['p'], .str ['H']), (.str ['z'], .int 2)]) := by rfl

/-- an Optional[int] field whose `decoding_fn` answers 7: a raw None is given to the function, the result is 7, not None -/
example :
    decode (fun _ _ => .ok (.int 7)) (.dc ['K'] true [(['o'], { toDict := true, enc := none, dec := some 22 }, none, .union [.int, .noneT])])
      (.dict false [(.str ['o'], .none)]) =
      .ok (.inst ['K'] true [(['o'], { toDict := true, enc := none, dec := some 22 }, .int 7)]) := by rfl

/-! non-vacuity of `primOkH`: a written field with the constant hook 12 on an instance value, a written field whose
    hook answers None (hook 14), a hidden field carrying a hook that would answer a non-primitive -/
def exHooks : HEnv
  | 12, _ => .ok (.str ['H'])
  | 14, _ => .ok .none
  | _, v => .ok (.tuple [v])       -- answers a non-primitive

def exHooked : Val :=
  .inst ['K'] false
    [(['a'], { toDict := true, enc := some 12, dec := none }, .inst ['P'] true [(['z'], FMeta.plain, .path ['p'])]),
     (['b'], { toDict := true, enc := some 14, dec := none }, .set [.int 1]),
     (['c'], { toDict := false, enc := some 99, dec := none }, .tuple [.int 1]),
     (['d'], FMeta.plain, .dict false [(.enum ['C'] ['R'], .tuple [.path ['q']])])]

example : primOkH exHooks exHooked = true := by rfl
example : primOk exHooked = false := by rfl
example : toDict exHooks exHooked =
    .ok (.dict false [(.str ['a'], .str ['H']), (.str ['b'], .none), (.str ['d'], .dict false [(.str ['R'], .list [.str ['q']])])]) := by rfl
example : hookFreeF [(['x'], FMeta.plain, .list [.inst ['P'] true [(['z'], FMeta.plain, .int 1)]])] = true := by rfl
example : decHookFree (.dc ['K'] true [(['o'], FMeta.plain, none, .union [.list .int, .noneT])]) = true := by rfl

/-! non-vacuity -/
example : primOk (.inst ['K'] false [(['a'], FMeta.plain, .tuple [.set [.path ['p']], .enum ['C'] ['R']]),
    (['b'], { toDict := false, enc := none, dec := none }, .dict false [(.int 3, .inst ['N'] true [(['z'], FMeta.plain, .none)])])]) = true := by
  rfl
example : toDictL h0 [(['a'], FMeta.plain, .int 1), (['b'], { toDict := false, enc := none, dec := none }, .int 2)] =
    .ok [(.str ['a'], .int 1)] := by rfl

end SpVerif.C13
