/-
  C13 — serialization is pure, emits only primitives and honours per-field hooks.
  Theorems about `SpVerif.Model.Serial` (encoding.py:61-141, serializable.py:707-908, fields.py:111-120).
  Object identity (freshness / aliasing) is not part of this model: those clauses are checked on the real
  code by harness/props/c13.py (id()-based alias walk and mutation probes).
-/
import SpVerif.Model.Serial
import SpVerif.Lemmas.Serial
namespace SpVerif.C13
open SpVerif SpVerif.Serial

variable (henv : HEnv)

/-! ### the field loop of `to_dict` -/

/-- what `to_dict` stores for one included field (serializable.py:752-773) -/
def fieldEnc (m : FMeta) (v : Val) : Out Val :=
  match m.enc with
  | some h => henv h v
  | none =>
    match v with
    | .inst _ _ fs' => (toDictL henv fs').bind fun ps => .ok (.dict false ps)
    | v => match encode henv v with
      | .raise _ => .ok v
      | r => r

theorem toDictL_cons (n : Str) (m : FMeta) (v : Val) (fs : List (Str × FMeta × Val)) :
    toDictL henv ((n, m, v) :: fs) =
      if !m.toDict then toDictL henv fs
      else (fieldEnc henv m v).bind fun e => (toDictL henv fs).bind fun qs => .ok ((.str n, e) :: qs) := by
  cases hme : m.enc with
  | some h => cases v <;> simp only [toDictL, fieldEnc, hme]
  | none =>
    cases v with
    | inst c r fs' => simp only [toDictL, fieldEnc, hme]
    | _ =>
      simp only [toDictL, fieldEnc, hme]
      generalize encode henv _ = r
      cases r <;> rfl

/-- **exactly the fields not marked `to_dict=False`, in field order** — for every field list, every value and
    every hook environment -/
theorem c13_omit (fs : List (Str × FMeta × Val)) (ps : List (Val × Val)) (h : toDictL henv fs = .ok ps) :
    ps.map Prod.fst = (fs.filter fun f => f.2.1.toDict).map fun f => Val.str f.1 := by
  induction fs generalizing ps with
  | nil => simp [toDictL] at h; subst h; rfl
  | cons f fs ih =>
    obtain ⟨n, m, v⟩ := f
    rw [toDictL_cons] at h
    by_cases hm : m.toDict = true
    · simp only [hm, Bool.not_true, Bool.false_eq_true, ↓reduceIte] at h
      obtain ⟨e, _, h2⟩ := Out.bind_eq_ok h
      obtain ⟨qs, h3, h4⟩ := Out.bind_eq_ok h2
      cases h4
      simp [List.filter, hm, ih qs h3]
    · have hm' : m.toDict = false := by simpa using hm
      simp only [hm', Bool.not_false, ↓reduceIte] at h
      simp [List.filter, hm', ih ps h]

/-- **a field's `encoding_fn` produces that field's entry** (the value is handed to the hook as it is) -/
theorem c13_encoding_hook (n : Str) (m : FMeta) (v : Val) (fs : List (Str × FMeta × Val)) (h : Nat)
    (hm : m.toDict = true) (he : m.enc = some h) :
    toDictL henv ((n, m, v) :: fs) =
      (henv h v).bind fun e => (toDictL henv fs).bind fun qs => .ok ((.str n, e) :: qs) := by
  rw [toDictL_cons]
  simp [hm, fieldEnc, he]

/-- the hooked field may hold anything — in particular a dataclass instance (directly, or inside Optional / List /
    Dict): the hook wins over the recursive `to_dict` of the nested instance (serializable.py:752-756 precedes 760-763) -/
theorem c13_encoding_hook_on_instance (n : Str) (m : FMeta) (c : Str) (reg : Bool) (ifs : List (Str × FMeta × Val))
    (fs : List (Str × FMeta × Val)) (h : Nat) (hm : m.toDict = true) (he : m.enc = some h) :
    toDictL henv ((n, m, .inst c reg ifs) :: fs) =
      (henv h (.inst c reg ifs)).bind fun e => (toDictL henv fs).bind fun qs => .ok ((.str n, e) :: qs) :=
  c13_encoding_hook henv n m _ fs h hm he

/-- **… and only that entry**: the entries of the other fields are `to_dict`'s own loop on the other fields —
    neither the hook nor the hooked value occurs in them -/
theorem c13_hook_local (n : Str) (m : FMeta) (v : Val) (fs : List (Str × FMeta × Val)) (ps : List (Val × Val))
    (hm : m.toDict = true) (h : toDictL henv ((n, m, v) :: fs) = .ok ps) :
    ∃ e qs, ps = (.str n, e) :: qs ∧ fieldEnc henv m v = .ok e ∧ toDictL henv fs = .ok qs := by
  rw [toDictL_cons] at h
  simp only [hm, Bool.not_true, Bool.false_eq_true, ↓reduceIte] at h
  obtain ⟨e, h1, h2⟩ := Out.bind_eq_ok h
  obtain ⟨qs, h3, h4⟩ := Out.bind_eq_ok h2
  cases h4
  exact ⟨e, qs, rfl, h1, h3⟩

/-- a field marked `to_dict=False` contributes nothing, whatever it holds -/
theorem c13_hidden_skipped (n : Str) (m : FMeta) (v : Val) (fs : List (Str × FMeta × Val)) (hm : m.toDict = false) :
    toDictL henv ((n, m, v) :: fs) = toDictL henv fs := by
  rw [toDictL_cons]; simp [hm]

/-- **a field's `decoding_fn` is what decodes it**: the annotation's own decoder is not consulted -/
theorem c13_decoding_hook (d : List (Val × Val)) (n : Str) (m : FMeta) (dflt : Option Val) (t : FTy)
    (fs : List (Str × FMeta × Option Val × FTy)) (missing : Bool) (raw : Val) (h : Nat)
    (hl : lookupKey (.str n) d = some raw) (hd : m.dec = some h) :
    decodeFields henv d ((n, m, dflt, t) :: fs) missing =
      (henv h raw).bind fun v => (decodeFields henv d fs missing).bind fun rest => .ok ((n, m, v) :: rest) := by
  simp only [decodeFields, hl, hd]

/-- … whatever the raw value is — in particular a raw `None` is handed to the field's `decoding_fn` like any other -/
theorem c13_decoding_hook_none (d : List (Val × Val)) (n : Str) (m : FMeta) (dflt : Option Val) (t : FTy)
    (fs : List (Str × FMeta × Option Val × FTy)) (missing : Bool) (h : Nat)
    (hl : lookupKey (.str n) d = some .none) (hd : m.dec = some h) :
    decodeFields henv d ((n, m, dflt, t) :: fs) missing =
      (henv h .none).bind fun v => (decodeFields henv d fs missing).bind fun rest => .ok ((n, m, v) :: rest) :=
  c13_decoding_hook henv d n m dflt t fs missing .none h hl hd

/-- a field whose key is absent (e.g. it was marked `to_dict=False`) comes from its default -/
theorem c13_absent_default (d : List (Val × Val)) (n : Str) (m : FMeta) (dv : Val) (t : FTy)
    (fs : List (Str × FMeta × Option Val × FTy)) (missing : Bool) (hl : lookupKey (.str n) d = none) :
    decodeFields henv d ((n, m, some dv, t) :: fs) missing =
      (decodeFields henv d fs missing).bind fun rest => .ok ((n, m, dv) :: rest) := by
  simp only [decodeFields, hl]

/-! ### primitives only -/

/-- keys whose encoding is a primitive leaf -/
def keyOk : Val → Bool
  | .none | .bool _ | .int _ | .float _ | .str _ | .path _ | .enum _ _ => true
  | _ => false

mutual
/-- **InGrammar** on values: no OrderedDict, dict keys are leaves (str/int/float/bool/None/Path/Enum), no field
    carries an `encoding_fn` (what a user hook returns is the user's business) -/
def primOk : Val → Bool
  | .list xs => primOkL xs
  | .tuple xs => primOkL xs
  | .set xs => primOkL xs
  | .dict ordered ps => !ordered && primOkP ps
  | .inst _ _ fs => primOkF fs
  | _ => true
def primOkL : List Val → Bool
  | [] => true
  | x :: xs => primOk x && primOkL xs
def primOkP : List (Val × Val) → Bool
  | [] => true
  | (k, v) :: ps => keyOk k && primOk v && primOkP ps
def primOkF : List (Str × FMeta × Val) → Bool
  | [] => true
  | (_, m, v) :: fs => m.enc.isNone && primOk v && primOkF fs
end

theorem key_prim (k : Val) (h : keyOk k = true) :
    ∃ k', encode henv k = .ok k' ∧ isPrimLeaf k' = true ∧ hashable k' = true := by
  cases k <;> simp [keyOk] at h <;> simp [encode, isPrimLeaf, hashable]

theorem isPrimP_insert (k v : Val) (acc : List (Val × Val)) (hk : isPrimLeaf k = true) (hv : isPrim v = true)
    (ha : isPrimP acc = true) : isPrimP (dictInsert k v acc) = true := by
  induction acc with
  | nil => simp [dictInsert, isPrimP, hk, hv]
  | cons p ps ih =>
    obtain ⟨k', v'⟩ := p
    simp only [isPrimP, Bool.and_eq_true] at ha
    simp only [dictInsert]
    split
    · simp [isPrimP, ha.1.1, hv, ha.2]
    · simp [isPrimP, ha.1.1, ha.1.2, ih ha.2]

theorem fold_prim (qs acc : List (Val × Val)) (ha : isPrimP acc = true) (hq : isPrimP qs = true)
    (hh : ∀ q ∈ qs, hashable q.1 = true) :
    ∃ acc', encDictFold (.dict acc) qs = .ok (.dict acc') ∧ isPrimP acc' = true := by
  induction qs generalizing acc with
  | nil => exact ⟨acc, rfl, ha⟩
  | cons q qs ih =>
    obtain ⟨k, v⟩ := q
    simp only [isPrimP, Bool.and_eq_true] at hq
    simp only [encDictFold, encDictStep, hh (k, v) (by simp), ↓reduceIte, Out.ok_bind]
    exact ih _ (isPrimP_insert k v acc hq.1.1 hq.1.2 ha) hq.2 (fun q hq' => hh q (by simp [hq']))

mutual
theorem prim_enc (v : Val) (h : primOk v = true) : ∃ e, encode henv v = .ok e ∧ isPrim e = true := by
  match v, h with
  | .none, _ => exact ⟨.none, by simp [encode], rfl⟩
  | .bool b, _ => exact ⟨.bool b, by simp [encode], rfl⟩
  | .int n, _ => exact ⟨.int n, by simp [encode], rfl⟩
  | .float r, _ => exact ⟨.float r, by simp [encode], rfl⟩
  | .str s, _ => exact ⟨.str s, by simp [encode], rfl⟩
  | .path s, _ => exact ⟨.str s, by simp [encode], rfl⟩
  | .enum _ n, _ => exact ⟨.str n, by simp [encode], rfl⟩
  | .list xs, h =>
    simp only [primOk] at h
    obtain ⟨es, h1, h2⟩ := prim_encL xs h
    exact ⟨.list es, by simp [encode, h1], by simp [isPrim, h2]⟩
  | .tuple xs, h =>
    simp only [primOk] at h
    obtain ⟨es, h1, h2⟩ := prim_encL xs h
    exact ⟨.list es, by simp [encode, h1], by simp [isPrim, h2]⟩
  | .set xs, h =>
    simp only [primOk] at h
    obtain ⟨es, h1, h2⟩ := prim_encL xs h
    exact ⟨.list es, by simp [encode, h1], by simp [isPrim, h2]⟩
  | .dict ordered ps, h =>
    simp only [primOk, Bool.and_eq_true, Bool.not_eq_eq_eq_not, Bool.not_true] at h
    obtain ⟨qs, h1, h2, h3⟩ := prim_encP ps h.2
    obtain ⟨acc', h4, h5⟩ := fold_prim qs [] rfl h2 h3
    exact ⟨.dict false acc', by simp [encode, h.1, h1, h4, DAcc.toVal], by simp [isPrim, h5]⟩
  | .inst _ reg fs, h =>
    simp only [primOk] at h
    obtain ⟨qs, h1, h2⟩ := prim_encF fs h
    exact ⟨.dict false qs, by simp [encode, h1], by simp [isPrim, h2]⟩
theorem prim_encL (xs : List Val) (h : primOkL xs = true) : ∃ es, encodeL henv xs = .ok es ∧ isPrimL es = true := by
  match xs, h with
  | [], _ => exact ⟨[], by simp [encodeL], rfl⟩
  | x :: xs, h =>
    simp only [primOkL, Bool.and_eq_true] at h
    obtain ⟨e, h1, h2⟩ := prim_enc x h.1
    obtain ⟨es, h3, h4⟩ := prim_encL xs h.2
    exact ⟨e :: es, by simp [encodeL, h1, h3], by simp [isPrimL, h2, h4]⟩
theorem prim_encP (ps : List (Val × Val)) (h : primOkP ps = true) :
    ∃ qs, encodeP henv ps = .ok qs ∧ isPrimP qs = true ∧ ∀ q ∈ qs, hashable q.1 = true := by
  match ps, h with
  | [], _ => exact ⟨[], by simp [encodeP], rfl, fun _ hq => nomatch hq⟩
  | (k, v) :: ps, h =>
    simp only [primOkP, Bool.and_eq_true] at h
    obtain ⟨k', hk1, hk2, hk3⟩ := key_prim henv k h.1.1
    obtain ⟨e, h1, h2⟩ := prim_enc v h.1.2
    obtain ⟨qs, h3, h4, h5⟩ := prim_encP ps h.2
    refine ⟨(k', e) :: qs, by simp [encodeP, hk1, h1, h3], by simp [isPrimP, hk2, h2, h4], ?_⟩
    intro q hq
    rcases List.mem_cons.mp hq with rfl | hq
    · exact hk3
    · exact h5 q hq
theorem prim_encF (fs : List (Str × FMeta × Val)) (h : primOkF fs = true) :
    ∃ qs, toDictL henv fs = .ok qs ∧ isPrimP qs = true := by
  match fs, h with
  | [], _ => exact ⟨[], by simp [toDictL], rfl⟩
  | (n, m, v) :: fs, h =>
    simp only [primOkF, Bool.and_eq_true] at h
    obtain ⟨qs, h1, h2⟩ := prim_encF fs h.2
    obtain ⟨e, he1, he2⟩ := prim_enc v h.1.2
    have hme : m.enc = none := by simpa using h.1.1
    -- the `to_dict` loop: a nested instance goes through `to_dict` again, anything else through `encode`
    have hfe : ∃ e', fieldEnc henv m v = .ok e' ∧ isPrim e' = true := by
      match v, h.1.2, he1 with
      | .inst _ _ fs', hv, _ =>
        simp only [primOk] at hv
        obtain ⟨q2, g1, g2⟩ := prim_encF fs' hv
        exact ⟨.dict false q2, by simp [fieldEnc, hme, g1], by simp [isPrim, g2]⟩
      | .none, _, he1 | .bool _, _, he1 | .int _, _, he1 | .float _, _, he1 | .str _, _, he1 | .path _, _, he1
      | .enum _ _, _, he1 | .list _, _, he1 | .tuple _, _, he1 | .set _, _, he1 | .dict _ _, _, he1 =>
        exact ⟨e, by simp [fieldEnc, hme, he1], he2⟩
    obtain ⟨e', hf1, hf2⟩ := hfe
    by_cases hm : m.toDict = true
    · exact ⟨(.str n, e') :: qs, by rw [toDictL_cons]; simp [hm, hf1, h1], by simp [isPrimP, isPrimLeaf, hf2, h2]⟩
    · have hm' : m.toDict = false := by simpa using hm
      exact ⟨qs, by rw [toDictL_cons]; simp [hm', h1], h2⟩
end

/-- **C13 primitives-only**: `to_dict(x)` of every instance of the grammar (any nesting depth; Serializable or
    plain at every level; any subset of fields hidden) succeeds and is made only of dict / list / str / int /
    float / bool / None — so no tuple, set, Path, Enum or OrderedDict survives anywhere inside. -/
theorem c13_prim (x : Val) (c : Str) (reg : Bool) (fs : List (Str × FMeta × Val)) (hx : x = .inst c reg fs)
    (h : primOk x = true) : ∃ d, toDict henv x = .ok d ∧ isPrim d = true := by
  subst hx
  simp only [primOk] at h
  obtain ⟨qs, h1, h2⟩ := prim_encF henv fs h
  exact ⟨.dict false qs, by simp [toDict, toDictF, h1], by simp [isPrim, h2]⟩

/-- the statement for every Python value (no grammar restriction) -/
def PrimFullStatement : Prop :=
  ∀ (henv : HEnv) (x d : Val), toDict henv x = .ok d → isPrim d = true

def h0 : HEnv := fun _ v => .ok v

/-- open finding: a dict with tuple keys is emitted as a list of `(key, value)` *tuples* -/
theorem c13_tuple_key_witness :
    toDict h0 (.inst ['K'] true [(['d'], FMeta.plain, .dict false [(.tuple [.int 1, .int 2], .str ['a'])])]) =
      .ok (.dict false [(.str ['d'], .list [.tuple [.list [.int 1, .int 2], .str ['a']]])]) := by rfl

theorem c13_prim_full_witness : ¬ PrimFullStatement := by
  intro h
  have := h h0 _ _ c13_tuple_key_witness
  simp [isPrim, isPrimP, isPrimL, isPrimLeaf] at this

/-- regression (repaired by b7617dd): a non-Serializable dataclass inside a list honours `to_dict=False` — the
    hidden field `h` is omitted, exactly as when the instance is held directly by a field -/
example :
    toDict h0 (.inst ['Q'] true [(['l'], FMeta.plain,
        .list [.inst ['P'] false [(['a'], FMeta.plain, .int 1), (['h'], { toDict := false, enc := none, dec := none }, .int 2)]])]) =
      .ok (.dict false [(.str ['l'], .list [.dict false [(.str ['a'], .int 1)]])]) := by rfl
example :
    toDict h0 (.inst ['Q'] true [(['p'], FMeta.plain,
        .inst ['P'] false [(['a'], FMeta.plain, .int 1), (['h'], { toDict := false, enc := none, dec := none }, .int 2)])]) =
      .ok (.dict false [(.str ['p'], .dict false [(.str ['a'], .int 1)])]) := by rfl

/-- `encode` of an instance is `to_dict` of it, Serializable or not (so hooks are honoured inside containers) -/
theorem c13_encode_is_to_dict (c : Str) (reg : Bool) (fs : List (Str × FMeta × Val)) :
    encode henv (.inst c reg fs) = toDict henv (.inst c reg fs) := by
  simp [encode, toDict, toDictF]

/-! ### functionality -/

/-- equal values serialize to equal output (the model's functions are functions; hooks are functions) -/
theorem c13_functional_partial (x y : Val) (h : x = y) : toDict henv x = toDict henv y := by rw [h]

/-- D15: two enumerations of the same set — equal as Python sets — give different lists -/
theorem c13_set_order_witness :
    encode h0 (.set [.int 0, .int 8]) = .ok (.list [.int 0, .int 8]) ∧
    encode h0 (.set [.int 8, .int 0]) = .ok (.list [.int 8, .int 0]) ∧
    (Val.list [.int 0, .int 8] ≠ Val.list [.int 8, .int 0]) := by
  refine ⟨rfl, rfl, ?_⟩
  intro h
  injection h with h
  injection h with h1 _
  injection h1 with h1
  cases h1

/-- a constant hook on a field that holds an instance: the hook's answer is written, not the nested dict -/
example :
    toDict (fun _ _ => .ok (.str ['H'])) (.inst ['Q'] true [(['p'], { toDict := true, enc := some 12, dec := none },
        .inst ['P'] true [(['a'], FMeta.plain, .int 1)]), (['z'], FMeta.plain, .int 2)]) =
      .ok (.dict false [(.str ['p'], .str ['H']), (.str ['z'], .int 2)]) := by rfl

/-- an Optional[int] field whose `decoding_fn` answers 7: a raw None is given to the function, the result is 7, not None -/
example :
    decode (fun _ _ => .ok (.int 7)) (.dc ['K'] true [(['o'], { toDict := true, enc := none, dec := some 22 }, none, .union [.int, .noneT])])
      (.dict false [(.str ['o'], .none)]) =
      .ok (.inst ['K'] true [(['o'], { toDict := true, enc := none, dec := some 22 }, .int 7)]) := by rfl

/-! non-vacuity -/
example : primOk (.inst ['K'] false [(['a'], FMeta.plain, .tuple [.set [.path ['p']], .enum ['C'] ['R']]),
    (['b'], { toDict := false, enc := none, dec := none }, .dict false [(.int 3, .inst ['N'] true [(['z'], FMeta.plain, .none)])])]) = true := by
  rfl
example : toDictL h0 [(['a'], FMeta.plain, .int 1), (['b'], { toDict := false, enc := none, dec := none }, .int 2)] =
    .ok [(.str ['a'], .int 1)] := by rfl

end SpVerif.C13
