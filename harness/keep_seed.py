#!/venv/bin/python
"""keep_seed.py <PID> <n> <detected: yes|no|partial> <how>  — copies /tmp/seedout_<PID>/<n> to /verif/seeded/<PID>-<n>/"""
import json, shutil, sys
from pathlib import Path
pid, n, detected, how = sys.argv[1], sys.argv[2], sys.argv[3], sys.argv[4]
src = Path(f"/tmp/seedout_{pid}/{n}")
dst = Path(f"/verif/seeded/{pid}-{n}")
dst.mkdir(parents=True, exist_ok=True)
for f in ("patch.diff", "demo.py"):
    shutil.copy(src / f, dst / f)
meta = json.loads((src / "meta.json").read_text())
conf = json.loads((src / "confirm.json").read_text())
meta["confirmed_by_me"] = {
    "ran": ["PYTHONPATH=<worktree> python demo.py on the clean worktree (exit %d)" % conf["demo_exit_clean"],
            "git apply patch.diff; PYTHONPATH=<worktree> python demo.py (exit %d)" % conf["demo_exit_changed"],
            "full unedited suite with the change: " + conf["suite_with_change"],
            "harness/seedtest.sh <worktree> patch.diff %s quick (check run with VERIF_REPO=<worktree>)" % pid],
}
meta["detected_by_check"] = detected
meta["how_detected"] = how
(dst / "meta.json").write_text(json.dumps(meta, indent=1))
print("kept", dst)
