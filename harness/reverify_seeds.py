#!/venv/bin/python
"""reverify_seeds.py [<seed-id> ...]  — for every kept seeded change (seeded/<id>-<n>/): in a scratch worktree of /repo's
current HEAD apply patch.diff (3-way when the plain apply fails), run demo.py (must FAIL: the change still breaks the
property), run the property's quick check against that tree (VERIF_REPO; must print VIOLATION), undo. Writes
seeded/<id>-<n>/reverify.json and prints one line per seed. Nothing is ever applied to /repo itself."""
import json
import os
import subprocess
import sys
import time
from pathlib import Path

V = Path(__file__).resolve().parents[1]
WT = Path(os.environ.get("VERIF_SEED_WT", "/tmp/wt_reverify"))


def sh(cmd, **kw):
    return subprocess.run(cmd, shell=True, capture_output=True, text=True, **kw)


def main():
    want = set(sys.argv[1:])
    head = sh("git -C /repo rev-parse --short HEAD").stdout.strip()
    if not WT.exists():
        r = sh(f"git -C /repo worktree add -q --detach {WT} HEAD")
        assert r.returncode == 0, r.stderr
    sh(f"git -C {WT} reset -q --hard && git -C {WT} checkout -q --detach {head}")
    rows = []
    try:
        for d in sorted((V / "seeded").iterdir()):
            if not (d / "patch.diff").exists() or (want and d.name not in want):
                continue
            pid = d.name.split("-")[0]
            t0 = time.time()
            sh(f"git -C {WT} reset -q --hard")
            how = "apply"
            r = sh(f"git -C {WT} apply {d / 'patch.diff'}")
            if r.returncode != 0:
                how = "3way"
                r = sh(f"git -C {WT} apply --3way {d / 'patch.diff'}")
            rec = {"head": head, "applies": how if r.returncode == 0 else "no"}
            if r.returncode == 0:
                dm = sh(f"PYTHONPATH={WT} /venv/bin/python {d / 'demo.py'}", timeout=600)
                rec["demo_exit_changed"] = dm.returncode
                ck = sh(f"cd {V} && VERIF_REPO={WT} ./check {pid} quick", timeout=3600)
                lines = [l for l in ck.stdout.splitlines() if l.startswith("VIOLATION")]
                rec["check_exit"] = ck.returncode
                rec["violation_line"] = lines[0] if lines else None
            rec["wall_s"] = round(time.time() - t0, 1)
            (d / "reverify.json").write_text(json.dumps(rec, indent=1))
            rows.append((d.name, rec))
            print(d.name, json.dumps(rec), flush=True)
    finally:
        sh(f"git -C {WT} reset -q --hard")
        sh(f"git -C /repo worktree remove --force {WT}")
    bad = [n for n, r in rows if r.get("applies") == "no" or r.get("demo_exit_changed") == 0 or r.get("check_exit") != 1]
    print("needs attention:", bad)


if __name__ == "__main__":
    main()
