#!/usr/bin/env python3
"""python3-vt harness/validate.py — validates MANIFEST.json and evidence/*.json against the schemas."""
import json, sys, glob
import jsonschema
ok = True
def val(path, schema):
    global ok
    try:
        jsonschema.validate(json.load(open(path)), json.load(open(schema)))
        print("ok   ", path)
    except Exception as e:
        ok = False
        print("FAIL ", path, str(e)[:400])
val("/verif/MANIFEST.json", "/root/.vp/MANIFEST.schema.json")
for p in sorted(glob.glob("/verif/evidence/*.json")):
    val(p, "/root/.vp/EVIDENCE.schema.json")
sys.exit(0 if ok else 1)
