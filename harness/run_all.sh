#!/bin/bash
# usage: harness/run_all.sh [quick|thorough] [ids...] — runs every claimed check (or the given ids), prints one line each
cd "$(dirname "$0")/.." || exit 2
tier="${1:-quick}"; shift
ids="$@"
if [ -z "$ids" ]; then ids=$(/venv/bin/python -c "import json;print(' '.join(c['property_id'] for c in json.load(open('MANIFEST.json'))['checks']))"); fi
rc=0
for id in $ids; do
  t0=$(date +%s)
  out=$(./check "$id" "$tier" 2>&1); st=$?
  t1=$(date +%s)
  echo "$id exit=$st $((t1-t0))s :: $(echo "$out" | grep -v KNOWN-FINDING | tail -1 | cut -c1-200)"
  [ $st -ne 0 ] && rc=1
done
exit $rc
