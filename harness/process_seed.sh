#!/bin/bash
# usage: process_seed.sh <PID> <n> — confirm a freshly authored seed (/tmp/seedout_<PID>/<n>) independently and run the check on it
pid="$1"; n="$2"; wt=/tmp/seed_$pid; d=/tmp/seedout_$pid/$n
[ -f "$d/patch.diff" ] || { echo "no $d/patch.diff"; exit 3; }
git -C $wt reset -q --hard; git -C $wt checkout -q --detach main
cd /verif
./harness/confirm_seed.sh $wt $d | cut -c1-220
./harness/seedtest.sh $wt $d/patch.diff $pid 2>&1 | tail -2
/venv/bin/python - "$pid" <<'PY'
import json, sys, os, time
f = f'/verif/replays/{sys.argv[1]}/violation_quick_0.json'
if os.path.exists(f) and time.time() - os.path.getmtime(f) < 600:
    r = json.load(open(f))
    print("replay:", r.get('kind'), json.dumps(r.get('failed_clause') or r.get('broken') or r.get('smallest_disagreement'))[:700])
PY
