"""Lean side of every check: build (proof obligations), audit (axioms / forbidden tokens), driver."""
from __future__ import annotations

import fcntl
import hashlib
import json
import os
import re
import subprocess
import time
from pathlib import Path

VERIF = Path(__file__).resolve().parents[2]
LEAN = VERIF / "lean"
ALLOWED_AXIOMS = {"propext", "Classical.choice", "Quot.sound"}
FORBIDDEN = re.compile(
    r"sorry|\badmit\b|^\s*axiom\s|native_decide|bv_decide|implemented_by|\bunsafe\s|maxHeartbeats\s+0\b",
    re.M,
)


def _strip_comments(src: str) -> str:
    # remove block comments (nested) and line comments
    out = []
    i, depth, n = 0, 0, len(src)
    while i < n:
        if src.startswith("/-", i):
            depth += 1
            i += 2
        elif depth and src.startswith("-/", i):
            depth -= 1
            i += 2
        elif depth:
            if src[i] == "\n":
                out.append("\n")
            i += 1
        elif src.startswith("--", i):
            while i < n and src[i] != "\n":
                i += 1
        else:
            out.append(src[i])
            i += 1
    return "".join(out)


def source_hash() -> str:
    h = hashlib.sha256()
    files = sorted(
        p for p in LEAN.rglob("*") if p.is_file() and ".lake" not in p.parts and p.suffix in (".lean", ".toml")
    )
    for p in files:
        h.update(str(p.relative_to(LEAN)).encode())
        h.update(p.read_bytes())
    return h.hexdigest()[:24]


class Lock:
    def __enter__(self):
        (LEAN / ".lake").mkdir(exist_ok=True)
        self.f = open(LEAN / ".lake" / "verif.lock", "w")
        fcntl.flock(self.f, fcntl.LOCK_EX)
        return self

    def __exit__(self, *a):
        fcntl.flock(self.f, fcntl.LOCK_UN)
        self.f.close()


def build(timeout: int = 1500) -> dict:
    """`lake build` (serialised). Returns {ok, log, wall_s}. A no-op build takes ≈0.3 s."""
    t0 = time.time()
    with Lock():
        h = source_hash()
        try:
            p = subprocess.run(
                ["lake", "build"], cwd=LEAN, capture_output=True, text=True, timeout=timeout
            )
            ok = p.returncode == 0 and (LEAN / ".lake/build/bin/driver").exists()
            log = (p.stdout + p.stderr)[-20000:]
        except subprocess.TimeoutExpired:
            ok, log = False, f"lake build timed out after {timeout}s"
    return {"ok": ok, "log": log, "wall_s": time.time() - t0, "hash": h}


THEOREM_RE = re.compile(r"^\s*(?:@\[[^\]]*\]\s*)?theorem\s+([A-Za-z_][A-Za-z0-9_'.]*)", re.M)
NAMESPACE_RE = re.compile(r"^\s*namespace\s+(\S+)", re.M)


def props_file(pid: str) -> Path:
    return LEAN / "SpVerif" / "Props" / f"{pid}.lean"


def theorems_of(pid: str) -> list[str]:
    """Fully-qualified names of all theorems declared in Props/<pid>.lean (single namespace)."""
    src = _strip_comments(props_file(pid).read_text())
    ns = NAMESPACE_RE.findall(src)
    prefix = ns[0] + "." if ns else ""
    return [prefix + t for t in THEOREM_RE.findall(src)]


def forbidden_hits() -> list[str]:
    hits = []
    for p in sorted(LEAN.rglob("*.lean")):
        if ".lake" in p.parts:
            continue
        src = _strip_comments(p.read_text())
        for m in FORBIDDEN.finditer(src):
            line = src.count("\n", 0, m.start()) + 1
            hits.append(f"{p.relative_to(LEAN)}:{line}: {m.group(0).strip()}")
    return hits


def audit(pid: str, timeout: int = 900) -> dict:
    """#print axioms on every theorem of Props/<pid>.lean. Cached per source hash under .lake/audit."""
    t0 = time.time()
    h = source_hash()
    cache_dir = LEAN / ".lake" / "audit"
    cache_dir.mkdir(parents=True, exist_ok=True)
    cache = cache_dir / f"{pid}.{h}.json"
    if cache.exists():
        res = json.loads(cache.read_text())
        res["cached"] = True
        res["wall_s"] = time.time() - t0
        return res
    thms = theorems_of(pid)
    res: dict = {"ok": False, "theorems": {}, "problems": [], "cached": False}
    if not thms:
        res["problems"].append(f"no theorems found in {props_file(pid)}")
        res["wall_s"] = time.time() - t0
        return res
    audit_src = f"import SpVerif.Props.{pid}\n" + "".join(f"#print axioms {t}\n" for t in thms)
    audit_file = cache_dir / f"Audit_{pid}_{os.getpid()}.lean"
    audit_file.write_text(audit_src)
    try:
        p = subprocess.run(
            ["lake", "env", "lean", str(audit_file)], cwd=LEAN, capture_output=True, text=True, timeout=timeout
        )
        out = p.stdout + p.stderr
    except subprocess.TimeoutExpired:
        out, p = "audit timed out", None
    finally:
        audit_file.unlink(missing_ok=True)
    # parse "'<name>' depends on axioms: [a, b]" / "'<name>' does not depend on any axioms"
    flat = re.sub(r"\s+", " ", out)
    for t in thms:
        m = re.search(r"'" + re.escape(t) + r"' depends on axioms: \[([^\]]*)\]", flat)
        if m:
            axs = [a.strip() for a in m.group(1).split(",") if a.strip()]
        elif re.search(r"'" + re.escape(t) + r"' does not depend on any axioms", flat):
            axs = []
        else:
            res["problems"].append(f"no axiom report for {t}")
            continue
        res["theorems"][t] = axs
        bad = [a for a in axs if a not in ALLOWED_AXIOMS]
        if bad:
            res["problems"].append(f"{t} depends on non-standard axioms {bad}")
    if p is None or p.returncode != 0:
        res["problems"].append("audit lean run failed: " + out[-2000:])
    hits = forbidden_hits()
    if hits:
        res["problems"].append("forbidden tokens: " + "; ".join(hits[:10]))
    res["ok"] = not res["problems"]
    res["wall_s"] = time.time() - t0
    if res["ok"]:
        cache.write_text(json.dumps(res))
    return res


def run_driver(requests: list[dict], timeout: int = 1200) -> dict[int, dict]:
    """Feed requests ({"id","op","case"}) to the native model driver; returns id -> response."""
    exe = LEAN / ".lake" / "build" / "bin" / "driver"
    data = "".join(json.dumps(r, ensure_ascii=False) + "\n" for r in requests)
    p = subprocess.run([str(exe)], input=data, capture_output=True, text=True, timeout=timeout)
    out: dict[int, dict] = {}
    for line in p.stdout.split("\n"):
        line = line.strip()
        if not line:
            continue
        try:
            j = json.loads(line)
        except json.JSONDecodeError:
            continue
        if "id" in j and j["id"] is not None:
            out[j["id"]] = j
    if p.returncode != 0:
        out[-1] = {"err": f"driver exit {p.returncode}: {p.stderr[-2000:]}"}
    return out
