"""Build REAL dataclasses / enums / values from the JSON vocabulary of DESIGN.md Appendix A."""
from __future__ import annotations

import dataclasses
import enum
import pathlib
import typing
from typing import Any, Dict, List, Optional, Set, Tuple, Union

from typing_extensions import Literal

import simple_parsing
from simple_parsing.helpers import field as sp_field


ENUM_MIXINS = {"Level": str, "Prio": int, "Toggle": str}
POSTPONED_MODULE = "verif_postponed_ns"


class Universe:
    """Classes and enums of one case (fresh objects per case: no cross-case registry leakage)."""

    def __init__(self, postponed: bool = False):
        self.classes: dict[str, type] = {}
        self.enums: dict[str, type] = {}
        # postponed=True: the classes are declared the way a module with `from __future__ import annotations` declares
        # them - every annotation is a STRING (builtin generics, `X | None`), resolved by simple-parsing against the
        # defining module's globals; that module is the synthetic POSTPONED_MODULE, emptied for each universe.
        self.postponed = postponed
        if postponed:
            import sys, types
            mod = sys.modules.get(POSTPONED_MODULE)
            if mod is None:
                mod = sys.modules[POSTPONED_MODULE] = types.ModuleType(POSTPONED_MODULE)
            for k in [k for k in vars(mod) if not k.startswith("__")]:
                delattr(mod, k)
            mod.Path = pathlib.Path
            mod.Literal = Literal
            mod.Optional = Optional
            mod.Union = Union
            self.module = mod

    def ty_src(self, t: dict) -> str:
        """the annotation of `t` as source text (PEP 585 generics, PEP 604 unions)"""
        k = t["k"]
        if k in ("int", "float", "str", "bool"):
            return k
        if k == "path":
            return "Path"
        if k == "enum":
            self.enum(t["cls"], t["members"], t.get("values"))
            return t["cls"]
        if k == "literal":
            return "Literal[" + ", ".join(repr(self.val(v)) for v in t["vals"]) + "]"
        if k == "list":
            return f"list[{self.ty_src(t['item'])}]"
        if k == "tuple":
            return "tuple[" + ", ".join(self.ty_src(x) for x in t["items"]) + "]"
        if k == "vtuple":
            return f"tuple[{self.ty_src(t['item'])}, ...]"
        if k == "set":
            return f"set[{self.ty_src(t['item'])}]"
        if k == "dict":
            return f"dict[{self.ty_src(t['key'])}, {self.ty_src(t['val'])}]"
        if k == "opt":
            return f"{self.ty_src(t['inner'])} | None"
        if k == "union":
            return " | ".join(self.ty_src(x) for x in t["alts"])
        if k == "dc":
            return t["cls"]
        raise ValueError(k)

    # -- types ---------------------------------------------------------------------------------
    def enum(self, name: str, members: list[str], values: list | None = None):
        if name not in self.enums:
            vals = values if values is not None else list(range(len(members)))
            # mixed-in enums (class X(str, Enum) / IntEnum): members ARE str / int instances as well
            self.enums[name] = enum.Enum(name, dict(zip(members, vals)), type=ENUM_MIXINS.get(name))
            if self.postponed:
                setattr(self.module, name, self.enums[name])
        return self.enums[name]

    def ty(self, t: dict):
        k = t["k"]
        if k == "int":
            return int
        if k == "float":
            return float
        if k == "str":
            return str
        if k == "bool":
            return bool
        if k == "path":
            return pathlib.Path
        if k == "enum":
            return self.enum(t["cls"], t["members"], t.get("values"))
        if k == "literal":
            return Literal[tuple(self.val(v) for v in t["vals"])]
        if k == "list":
            return List[self.ty(t["item"])]
        if k == "tuple":
            return Tuple[tuple(self.ty(x) for x in t["items"])]
        if k == "vtuple":
            return Tuple[self.ty(t["item"]), ...]
        if k == "set":
            return Set[self.ty(t["item"])]
        if k == "dict":
            return Dict[self.ty(t["key"]), self.ty(t["val"])]
        if k == "opt":
            if t["inner"]["k"] == "union":
                # NOT Optional[Union[a, b]]: typing caches Optional[X] by X's *equality*, and Union[a, b] == Union[b, a],
                # so the member order would depend on which order the process happened to see first.
                return Union[tuple(self.ty(x) for x in t["inner"]["alts"]) + (type(None),)]
            return Optional[self.ty(t["inner"])]
        if k == "union":
            return Union[tuple(self.ty(x) for x in t["alts"])]
        if k == "dc":
            return self.classes[t["cls"]]
        raise ValueError(k)

    # -- values --------------------------------------------------------------------------------
    def val(self, v: dict | None):
        if v is None:
            return None
        t = v["t"]
        if t == "none":
            return None
        if t == "int":
            return int(v["v"])
        if t == "float":
            return float(v["v"])
        if t in ("str",):
            return v["v"]
        if t == "bool":
            return bool(v["v"])
        if t == "path":
            return pathlib.Path(v["v"])
        if t == "enum":
            return self.enums[v["cls"]][v["v"]]
        if t == "list":
            return [self.val(x) for x in v["v"]]
        if t == "tuple":
            return tuple(self.val(x) for x in v["v"])
        if t == "set":
            return {self.val(x) for x in v["v"]}
        if t == "dict":
            return {self.val(k): self.val(x) for k, x in v["v"]}
        if t == "inst":
            cls = self.classes[v["cls"]]
            return cls(**{n: self.val(x) for n, x in v["v"]})
        raise ValueError(t)

    # -- classes -------------------------------------------------------------------------------
    def add_class(self, name: str, spec: dict):
        """spec: {"fields":[{name, ty, default:{kind,v}, alias, cmd, init, positional, help}], "bases":[…], "frozen":bool}"""
        fields = []
        for f in spec["fields"]:
            d = f.get("default", {"kind": "missing"})
            kw: dict[str, Any] = {}
            if d["kind"] == "value":
                v = self.val(d["v"])
                if isinstance(v, (list, dict, set)):
                    kw["default_factory"] = (lambda vv: (lambda: type(vv)(vv)))(v)
                else:
                    kw["default"] = v
            elif d["kind"] == "factory":
                if f["ty"]["k"] == "dc" and d.get("v") is None:
                    kw["default_factory"] = self.classes[f["ty"]["cls"]]
                else:
                    dv = d["v"]
                    kw["default_factory"] = (lambda dv_: (lambda: self.val(dv_)))(dv)
            extra = {}
            if f.get("alias"):
                extra["alias"] = list(f["alias"])
            if f.get("cmd") is False:
                extra["cmd"] = False
            if f.get("positional"):
                extra["positional"] = True
            if f.get("help"):
                extra["help"] = f["help"]
            if f.get("metavar"):
                extra["metavar"] = f["metavar"]
            if f.get("init") is False:
                kw["init"] = False
            if f.get("decl") == "flag":
                # the documented helper for bool fields (simple_parsing.helpers.flag): same field, other declaration
                from simple_parsing.helpers import flag as sp_flag
                fld = sp_flag(**kw, **extra)
            elif extra:
                fld = sp_field(**kw, **extra)
            else:
                fld = dataclasses.field(**kw)
            fields.append((f["name"], self.ty_src(f["ty"]) if self.postponed else self.ty(f["ty"]), fld))
        bases = tuple(self.classes[b] for b in spec.get("bases", []))
        if self.postponed:
            cls = dataclasses.make_dataclass(name, fields, bases=bases, frozen=spec.get("frozen", False), module=POSTPONED_MODULE)
            setattr(self.module, name, cls)
        else:
            cls = dataclasses.make_dataclass(name, fields, bases=bases, frozen=spec.get("frozen", False))
        self.classes[name] = cls
        return cls

    def add_classes(self, specs: list[dict]):
        """specs in dependency order: [{"name":…, …}]"""
        for s in specs:
            if s.get("enum"):
                self.enum(s["name"], s["members"], s.get("values"))
            else:
                self.add_class(s["name"], s)
        return self


def get_path(obj, dotted: str):
    cur = obj
    for part in dotted.split("."):
        cur = getattr(cur, part)
    return cur
