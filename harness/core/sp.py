"""Adapters that drive the REAL simple_parsing code in-process and canonicalise what it returns."""
from __future__ import annotations

import contextlib
import dataclasses
import enum
import io
import pathlib
import sys
from typing import Any

import simple_parsing
from simple_parsing import ArgumentGenerationMode, ConflictResolution, DashVariant, NestedMode
from simple_parsing.wrappers.field_wrapper import FieldWrapper

DASH = {"UNDERSCORE": DashVariant.UNDERSCORE, "UNDERSCORE_AND_DASH": DashVariant.UNDERSCORE_AND_DASH,
        "DASH": DashVariant.DASH, "AUTO": DashVariant.AUTO}
GEN = {"FLAT": ArgumentGenerationMode.FLAT, "NESTED": ArgumentGenerationMode.NESTED, "BOTH": ArgumentGenerationMode.BOTH}
NEST = {"DEFAULT": NestedMode.DEFAULT, "WITHOUT_ROOT": NestedMode.WITHOUT_ROOT}
CR = {"AUTO": ConflictResolution.AUTO, "EXPLICIT": ConflictResolution.EXPLICIT, "NONE": ConflictResolution.NONE,
      "ALWAYS_MERGE": ConflictResolution.ALWAYS_MERGE}
ALL_DASH = ["UNDERSCORE", "UNDERSCORE_AND_DASH", "DASH"]
ALL_GEN = ["FLAT", "NESTED", "BOTH"]
ALL_NEST = ["DEFAULT", "WITHOUT_ROOT"]


def reset_globals():
    """Put the class-level settings back to their import-time values (isolation between cases)."""
    FieldWrapper.add_dash_variants = DashVariant.AUTO
    FieldWrapper.argument_generation_mode = ArgumentGenerationMode.FLAT
    FieldWrapper.nested_mode = NestedMode.DEFAULT


def make_parser(cfg: dict | None = None, **kw) -> simple_parsing.ArgumentParser:
    cfg = cfg or {}
    return simple_parsing.ArgumentParser(
        conflict_resolution=CR[cfg.get("cr", "AUTO")],
        add_option_string_dash_variants=DASH[cfg.get("dash", "AUTO")],
        argument_generation_mode=GEN[cfg.get("gen", "FLAT")],
        nested_mode=NEST[cfg.get("nest", "DEFAULT")],
        **kw,
    )


def decoy(cfg: dict | None = None) -> None:
    """Construct (and drop) another ArgumentParser whose naming settings ALL differ from `cfg`'s. The class-level
    FieldWrapper settings are last-writer-wins; a parser must spell and resolve its options with its own settings
    whatever parsers were constructed after it (it re-asserts them in _preprocessing), so on correct code this is a no-op."""
    cfg = cfg or {}
    dash = cfg.get("dash", "UNDERSCORE")
    dash = dash if dash in ALL_DASH else "UNDERSCORE"
    other = {
        "dash": ALL_DASH[(ALL_DASH.index(dash) + 1) % len(ALL_DASH)],
        "gen": ALL_GEN[(ALL_GEN.index(cfg.get("gen", "FLAT")) + 1) % len(ALL_GEN)],
        "nest": ALL_NEST[(ALL_NEST.index(cfg.get("nest", "DEFAULT")) + 1) % len(ALL_NEST)],
    }
    make_parser(other)


class Captured:
    def __init__(self):
        self.out = ""
        self.err = ""


@contextlib.contextmanager
def capture():
    cap = Captured()
    o, e = io.StringIO(), io.StringIO()
    with contextlib.redirect_stdout(o), contextlib.redirect_stderr(e):
        try:
            yield cap
        finally:
            cap.out, cap.err = o.getvalue(), e.getvalue()


def classify_exit_message(msg: str) -> str:
    m = msg
    if "the following arguments are required" in m or "is required" in m:
        return "required"
    if "invalid choice" in m:
        return "choice"
    if "unrecognized arguments" in m:
        return "unrecognized"
    if "ambiguous option" in m:
        return "ambiguous"
    if "expected" in m and "argument" in m:
        return "nargs"
    if "invalid" in m and "value" in m:
        return "type"
    if "Boolean value expected" in m:
        return "type"
    if "Negative flags cannot be passed a value" in m:
        return "negflag"
    if "ignored explicit argument" in m:
        return "explicit"
    return "other"


def run_outcome(fn) -> dict:
    """Run fn() (a parse on the real code). Maps: return value -> ok, SystemExit -> exit, else raise."""
    with capture() as cap:
        try:
            v = fn()
            res = {"o": "ok", "value": v}
        except SystemExit as e:
            code = e.code if isinstance(e.code, int) else (0 if e.code is None else 1)
            res = {"o": "exit", "code": code}
        except BaseException as e:  # noqa: BLE001
            res = {"o": "raise", "exc": type(e).__name__, "msg": str(e)[:300]}
    if res["o"] == "exit":
        res["kind"] = classify_exit_message(cap.err)
        res["stderr_nonempty"] = bool(cap.err.strip())
        res["stdout_nonempty"] = bool(cap.out.strip())
    return res


def cv(v: Any) -> Any:
    """Canonical value tree with explicit type tags (DESIGN Appendix A)."""
    if v is None:
        return {"t": "none"}
    if isinstance(v, bool):
        return {"t": "bool", "v": v}
    if isinstance(v, enum.Enum):
        return {"t": "enum", "cls": type(v).__name__, "v": v.name}
    if isinstance(v, int):
        return {"t": "int", "v": str(v)}
    if isinstance(v, float):
        return {"t": "float", "v": repr(v)}
    if isinstance(v, str):
        return {"t": "str", "v": v}
    if isinstance(v, pathlib.PurePath):
        return {"t": "path", "v": str(v)}
    if isinstance(v, list):
        return {"t": "list", "v": [cv(x) for x in v]}
    if isinstance(v, tuple):
        return {"t": "tuple", "v": [cv(x) for x in v]}
    if isinstance(v, (set, frozenset)):
        import json

        return {"t": "set", "v": sorted((cv(x) for x in v), key=lambda j: json.dumps(j, sort_keys=True))}
    if isinstance(v, dict):
        return {"t": "dict", "v": [[cv(k), cv(x)] for k, x in v.items()]}
    if dataclasses.is_dataclass(v) and not isinstance(v, type):
        return {"t": "inst", "cls": type(v).__name__,
                "v": [[f.name, cv(getattr(v, f.name, None))] for f in dataclasses.fields(v)]}
    return {"t": "raw", "py": type(v).__name__}


def action_for_dest(parser, dest: str):
    for a in parser._actions:
        if a.dest == dest:
            return a
    return None


def all_option_strings(parser) -> list[list[str]]:
    return [list(a.option_strings) for a in parser._actions if a.option_strings]
