"""Type-directed generators over the command-line type grammar (DESIGN.md Appendix A): field types, values,
canonical argv rendering. Shared by C02 / C04 / C01 / C15."""
from __future__ import annotations

import math
import pathlib

ENUMS = [
    {"k": "enum", "cls": "Color", "members": ["RED", "GREEN", "BLUE"]},
    {"k": "enum", "cls": "Mode", "members": ["fast", "slow", "Off"]},
    # member *names* that collide with other members' values / vocabulary words
    {"k": "enum", "cls": "Heading", "members": ["NORTH", "SOUTH", "true", "0"]},
    # member *values* that are other members' names (a by-value lookup would return the wrong member)
    {"k": "enum", "cls": "Swap", "members": ["UP", "DOWN", "LEFT", "RIGHT"], "values": ["DOWN", "UP", "RIGHT", "LEFT"]},
    # class Level(str, Enum) and an IntEnum (trees.ENUM_MIXINS): members that are also str / int instances
    {"k": "enum", "cls": "Level", "members": ["LOW", "MID", "HIGH", "NONE"], "values": ["low", "mid", "high", ""]},   # NONE is falsy
    {"k": "enum", "cls": "Prio", "members": ["P0", "P1", "P2"], "values": [0, 1, 2]},
    # a class NAME that is also a name of the typing module (matters where annotations are strings, fix 2754edb)
    {"k": "enum", "cls": "Counter", "members": ["ONE", "TWO", "MANY"]},
    # class Toggle(str, Enum) whose VALUES are the other member's NAME: a member that is looked up again by name (it is a
    # str) silently becomes the other member (fix 69d4809)
    {"k": "enum", "cls": "Toggle", "members": ["ON", "OFF"], "values": ["OFF", "ON"]},
]
BASES = ["int", "float", "str", "bool", "path", "enum"]
INTS = [0, 1, -1, 7, -5, 42, 10**30, -(10**18), 1000000, 3]
FLOATS = [0.0, 1.0, -1.5, 0.1, 1e-07, 3.14, 1e30, 2.5, -0.25, 100.0, float("inf"), 1e16]
STRS = ["", "a", "hello", "two words", "k=v", "x=", "ünï", "None", "1", "true", "[1,2]", "a,b", "0", "with'quote", "UP"]
PATHS = ["a", "a/b", "/tmp/x", "file.txt", ".", "dir/sub/f.py", "x y"]
NAMES = ["a", "b", "lr", "size", "name", "flag", "items", "tup", "opt", "mode", "w", "path", "n_items", "q"]


def base_ty(rng, allow=BASES):
    k = rng.choice(allow)
    if k == "enum":
        return dict(rng.choice(ENUMS))
    return {"k": k}


def gen_ty(rng, p_opt=0.25, p_union=0.06):
    r = rng.random()
    if r < 0.40:
        t = base_ty(rng)
    elif r < 0.50:
        kind = rng.choice(["int", "str", "bool", "mixed", "mixed", "collide"])
        if kind == "int":
            vals = [{"t": "int", "v": str(i)} for i in rng.sample([0, 1, 2, 3, 10], rng.randint(2, 3))]
        elif kind == "str":
            vals = [{"t": "str", "v": s} for s in rng.sample(["a", "b", "bob", "x_y", "0"], rng.randint(2, 3))]
        elif kind == "bool":
            vals = [{"t": "bool", "v": True}, {"t": "bool", "v": False}]
        elif kind == "collide":
            # two values with the same str(): the name -> value table keeps the last one (field_wrapper.py:891)
            vals = rng.choice([[{"t": "str", "v": "0"}, {"t": "int", "v": "0"}], [{"t": "int", "v": "0"}, {"t": "str", "v": "0"}],
                               [{"t": "str", "v": "True"}, {"t": "bool", "v": True}], [{"t": "int", "v": "1"}, {"t": "str", "v": "1"}, {"t": "int", "v": "2"}]])
        else:
            vals = [{"t": "int", "v": "0"}, {"t": "str", "v": "zero"}, {"t": "int", "v": "1"}]
        return {"k": "literal", "vals": vals}  # Literal is never wrapped in Optional here
    elif r < 0.66:
        t = {"k": "list", "item": base_ty(rng)}
    elif r < 0.80:
        n = rng.choice([1, 2, 2, 3, 3, 4])
        if rng.random() < 0.4:
            b = base_ty(rng)
            t = {"k": "tuple", "items": [dict(b) for _ in range(n)]}
        else:
            t = {"k": "tuple", "items": [base_ty(rng, ["int", "float", "str", "bool", "path", "enum"]) for _ in range(n)]}
    elif r < 0.88:
        t = {"k": "vtuple", "item": base_ty(rng)}
    elif r < 0.88 + p_union:
        alts = rng.choice([["int", "str"], ["float", "str"], ["int", "float"], ["bool", "str"], ["float", "int"], ["str", "int"]])
        t = {"k": "union", "alts": [{"k": a} for a in alts]}
    else:
        t = base_ty(rng)
    if rng.random() < p_opt:
        return {"k": "opt", "inner": t}
    return t


def gen_scalar(rng, b):
    k = b["k"]
    if k == "int":
        return {"t": "int", "v": str(rng.choice(INTS))}
    if k == "float":
        return {"t": "float", "v": repr(rng.choice(FLOATS))}
    if k == "str":
        return {"t": "str", "v": rng.choice(STRS)}
    if k == "bool":
        return {"t": "bool", "v": rng.random() < 0.5}
    if k == "path":
        return {"t": "path", "v": rng.choice(PATHS)}
    if k == "enum":
        return {"t": "enum", "cls": b["cls"], "v": rng.choice(b["members"])}
    if k == "union":
        return gen_scalar(rng, rng.choice(b["alts"]))
    raise ValueError(k)


def gen_value(rng, t, allow_none=True):
    k = t["k"]
    if k == "opt":
        if allow_none and rng.random() < 0.15:
            return {"t": "none"}
        return gen_value(rng, t["inner"])
    if k == "literal":
        return dict(rng.choice(t["vals"]))
    if k == "list":
        return {"t": "list", "v": [gen_scalar(rng, t["item"]) for _ in range(rng.choice([0, 1, 2, 3, 5]))]}
    if k == "tuple":
        return {"t": "tuple", "v": [gen_scalar(rng, it) for it in t["items"]]}
    if k == "vtuple":
        return {"t": "tuple", "v": [gen_scalar(rng, t["item"]) for _ in range(rng.choice([0, 1, 2, 4]))]}
    return gen_scalar(rng, t)


def literal_expressible(t, v):
    """For a Literal value: the value its command-line token actually denotes. The library's name -> value table
    ({str(v): v}, field_wrapper.py:891) keeps the LAST value among those with the same str(): an earlier one
    (`"0"` in Literal["0", 0]) has no token of its own."""
    if t.get("k") != "literal" or v.get("t") not in ("int", "str", "bool"):
        return v
    out = v
    for w in t["vals"]:
        if w.get("t") in ("int", "str", "bool") and token(w) == token(v):
            out = w
    return dict(out)


def token(v) -> str:
    """canonical command-line token of a scalar (str(v); enum by name)"""
    t = v["t"]
    if t == "int":
        return v["v"]
    if t == "float":
        return v["v"]
    if t == "str":
        return v["v"]
    if t == "bool":
        return "True" if v["v"] else "False"
    if t == "path":
        return v["v"]
    if t == "enum":
        return v["v"]
    raise ValueError(t)


def tokens(v) -> list[str] | None:
    """tokens of a value; None if the value has no token form (None)"""
    if v["t"] == "none":
        return None
    if v["t"] in ("list", "tuple"):
        return [token(x) for x in v["v"]]
    return [token(v)]


def is_plain_negative_number(tok: str) -> bool:
    import re

    return bool(re.match(r"^-\d+$|^-\d*\.\d+$", tok))


def expressible_token(tok: str) -> bool:
    """the property's exclusion: tokens argparse itself lexes as options"""
    if tok.startswith("-"):
        return is_plain_negative_number(tok)
    return True


def union_safe(t, v) -> bool:
    """For Union-typed fields the first member that parses the token wins; only values whose token the earlier members
    reject (or parse to the same value) are 'canonical'."""
    return True


def floats_table(tokens_: list[str]) -> list[list]:
    out = []
    for tok in sorted(set(tokens_)):
        try:
            x = float(tok)
            out.append([tok, repr(x)])
        except (ValueError, OverflowError):
            out.append([tok, None])
    return out


def value_type_ok(v, t) -> bool:
    """Conforms(value, annotation) on canonical value trees — an independent transcription of `typing` semantics."""
    k = t["k"]
    if k == "opt":
        return v["t"] == "none" or value_type_ok(v, t["inner"])
    if k == "union":
        return any(value_type_ok(v, a) for a in t["alts"])
    if k == "literal":
        return any(v == x for x in t["vals"])
    if k == "list":
        return v["t"] == "list" and all(value_type_ok(x, t["item"]) for x in v["v"])
    if k == "tuple":
        return v["t"] == "tuple" and len(v["v"]) == len(t["items"]) and all(value_type_ok(x, it) for x, it in zip(v["v"], t["items"]))
    if k == "vtuple":
        return v["t"] == "tuple" and all(value_type_ok(x, t["item"]) for x in v["v"])
    if k == "any":
        return True
    if k == "enum":
        return v["t"] == "enum" and v.get("cls") == t["cls"] and v["v"] in t["members"]
    if k == "float":
        return v["t"] == "float"
    return v["t"] == k
