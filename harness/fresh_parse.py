"""One parse in a FRESH interpreter (run as `/venv/bin/python -I harness/fresh_parse.py`).

stdin : {"repo": path, "verif": path, "spec": parser spec, "known": bool, "argv": [...], "files": [[name, content|null]...]}
stdout: one JSON line {"obs": canonical outcome, "sp_file": simple_parsing.__file__}

Nothing else has happened in this process: the library was imported, ONE parser was built from the spec
(constructor + add_arguments calls) and ONE parse call was made.
"""
import json
import sys


def main():
    req = json.loads(sys.stdin.read())
    sys.path.insert(0, req["verif"])
    sys.path.insert(0, req["repo"])
    import os

    os.environ.setdefault("COLUMNS", "100")
    import simple_parsing

    from harness.props import c08

    obs = c08.fresh_in_this_process(req["spec"], req["known"], req["argv"], req["files"])
    sys.stdout.write(json.dumps({"obs": obs, "sp_file": simple_parsing.__file__}) + "\n")


if __name__ == "__main__":
    main()
