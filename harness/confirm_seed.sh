#!/bin/bash
# usage: confirm_seed.sh <worktree> <seed dir containing patch.diff demo.py meta.json>
# Confirms independently: demo passes on the clean tree, fails with the change; full suite still passes with the change.
wt="$1"; d="$2"
git -C "$wt" reset -q --hard
PYTHONPATH="$wt" /venv/bin/python "$d/demo.py" >/dev/null 2>&1; clean=$?
git -C "$wt" apply "$d/patch.diff" 2>/dev/null || git -C "$wt" apply --3way "$d/patch.diff" || { echo "{\"applies\": false}" > "$d/confirm.json"; exit 3; }
PYTHONPATH="$wt" /venv/bin/python "$d/demo.py" >/dev/null 2>&1; mut=$?
summary=$(cd "$wt" && PYTHONPATH="$wt" /venv/bin/python -m pytest -q -p no:cacheprovider --benchmark-disable 2>&1 | grep -E "passed|failed|error" | tail -1)
git -C "$wt" reset -q --hard
echo "{\"applies\": true, \"demo_exit_clean\": $clean, \"demo_exit_changed\": $mut, \"suite_with_change\": \"$summary\"}" | tee "$d/confirm.json"
