"""C06 — value sources are layered: definition < default instance / set_defaults < constructor config files (in order)
< --config_path files (in order) < explicit command-line options; merged leaf by leaf; unknown keys are errors."""
from __future__ import annotations

import atexit
import dataclasses
import itertools
import json
import os
import pathlib
import shutil
import tempfile
import typing
from typing import List, Optional

from harness.core import sp

PID = "C06"
RULE = ("cases: (a) layers.e2e — a generated tree of nested dataclasses (depth <= 3, leaves int/str/float/bool/List[int], nested "
        "fields with or without default_factory), every leaf assigned to a random subset of the five layers with a distinct "
        "marker per (leaf, source); for each leaf at most one source carries the type's FALSY value (0, '', 0.0, False, []) "
        "so a falsy value always differs from the other layers; 0-3 json/yaml/yml files per file layer in a per-process "
        "temp dir, with random distinct base names unrelated to the order in which they are listed (so listed order != "
        "sorted order in most multi-file cases), in 25% of the layers one file listed twice, paths given as str, Path, list, "
        "tuple or a str/Path mix; parse() (root-less file layout) and ArgumentParser (dest-keyed or root-less, 1-2 destinations); default "
        "layer given as default instance, set_defaults(**kw) before or after add_arguments; --config_path anywhere in argv; "
        "separate malformed streams: unknown key at a random depth (root, nested and Optional members) of a random source "
        "(ctor / --config_path file, set_defaults kwargs), its name drawn from: plain, a field of another class, leading "
        "underscore(s), near the one exempted key `_type_` (_type, type_, _type_x, __type__, _TYPE_), prefix / suffix / case "
        "/ blank variants of a real field, dotted, empty string, the dest; explicit null, scalar for a nested "
        "section, _type_, stray top-level key, --config_path without the option being enabled; plus an enumerated slice "
        "(every subset of the five layers for a target leaf of small trees). (b) layers.set_default — "
        "DataclassWrapper.set_default sequences on a real wrapper, slots and FieldWrapper.default read back. (c) "
        "layers.dict_union — utils.dict_union on 0-4 random nested dicts with dict/scalar clashes. (d) layers.history "
        "(oracle only) — 2-3 parses in one process, fresh parser / parse() per round, the SAME file paths rewritten with "
        "new contents in between; every round must follow that round's contents. (e) Optional members (oracle only, "
        "outside the modelled fragment) — e2e scenarios over classes with members declared Optional[K] = None at depth 1 "
        "and 2, in 60% of them no command-line option inside any optional group; the member must be an instance iff some "
        "layer mentions one of its leaves (leaves then follow the priority rule, definition defaults otherwise), else None; a "
        "dedicated sub-stream builds the regression shape of 3f531df / f635f07 (a group mentioned only by one command-line "
        "option for a field of a nested member, Optional or plain, required or default_factory). (f) layers.collapse "
        "(modelled) — the same classes with NO file / set_defaults / default instance, command-line options for one deep "
        "leaf, a random set of leaves or none (some repeating a default while that finding is open): the model's collapse "
        "rule decides instance vs None for every Optional member. "
        "Non-trivial = an e2e case whose leaves "
        "use >= 2 different layers or has a nested leaf mentioned in a file, a history with >= 2 rounds, or a unit case "
        "with >= 2 sources; distinct by canonical JSON of the case.")
ASSUMPTIONS = [
    "json / yaml (PyYAML) loaders return the dict that was dumped (stdlib / PyYAML)",
    "dataclass construction semantics (keyword arguments, defaults, default_factory) are those of the stdlib",
    "argparse converts the command-line tokens of an int/str/float/bool/List[int] option back to the value they were rendered from (property C02); "
    "leaf values in sources have the leaf's type, so argparse's conversion of string defaults is the identity",
    "'mentions' is read as 'assigns a non-None value': the code cannot tell an explicit null from absence",
    "field names are not prefixes of 'config_path' (the temporary --config_path parser would take them as abbreviations)",
]
TRUSTED = ["stdlib argparse, json, PyYAML, dataclasses"]
EXHAUSTIVE = {"quick": False, "thorough": False}
THOROUGH_ROUNDS = 8   # thorough tier: this many generator passes with derived PRNG states (vcheck); the per-pass sizes
                      # in gen() are chosen so that 8 passes (~75 000 cases) stay within the time and memory budget
SERIAL = False

LEAF_NAMES = ["a", "b", "x", "y", "lr", "seed", "name", "n_it", "w_d", "tag", "k", "depth"]
NEST_NAMES = ["sub", "opt", "m", "inner", "enc", "net", "blk", "g"]
DESTS = ["r", "main", "job"]
FMTS = ["json", "yaml", "yml"]


# ------------------------------------------------------------------------------------------------
# small tree helpers (plain JSON: dict / int / str / None)


def get_path(tree, path):
    cur = tree
    for p in path:
        if not isinstance(cur, dict) or p not in cur:
            return None, False
        cur = cur[p]
    return cur, True


def set_path(tree, path, value):
    cur = tree
    for p in path[:-1]:
        cur = cur.setdefault(p, {})
    cur[path[-1]] = value


def leaf_paths(cls, prefix=()):
    for f in cls:
        if f["k"] == "leaf":
            yield prefix + (f["name"],), f
        else:
            yield from leaf_paths(f["cls"], prefix + (f["name"],))


def class_at(cls, path):
    """class spec reached by following nested field names; None if the path leaves the tree"""
    cur = cls
    for p in path:
        nxt = None
        for f in cur:
            if f["k"] == "nested" and f["name"] == p:
                nxt = f["cls"]
        if nxt is None:
            return None
        cur = nxt
    return cur


TYPES = ["int", "str", "int", "str", "float", "bool", "list"]
FALSY = {"int": 0, "str": "", "float": 0.0, "bool": False, "list": []}


class Mk:
    """distinct marker values; with a key (one leaf) at most one of the leaf's sources gets the type's FALSY value,
    so a falsy value always differs from what the other layers say about that leaf"""

    def __init__(self, rng=None, start=100):
        self.n = start
        self.rng = rng
        self.falsy_used = set()

    def __call__(self, ty, key=None, p_falsy=0.3):
        self.n += 1
        if self.rng is not None and key is not None and key not in self.falsy_used and self.rng.random() < p_falsy:
            self.falsy_used.add(key)
            return type(FALSY[ty])(FALSY[ty])
        if ty == "int":
            return self.n
        if ty == "str":
            return f"v{self.n}"
        if ty == "float":
            return self.n + 0.5
        if ty == "bool":
            return True if self.rng is None else self.rng.random() < 0.5
        return [self.n, self.n + 1]


def same(a, b):
    """equal as typed values (0 == False == 0.0 in Python)"""
    if type(a) is not type(b):
        return False
    if isinstance(a, list):
        return len(a) == len(b) and all(same(x, y) for x, y in zip(a, b))
    return a == b


def is_leaf_value(v, ty=None):
    if type(v) in (int, str, float, bool):
        return True
    return type(v) is list and all(type(x) is int for x in v)


# ------------------------------------------------------------------------------------------------
# real classes / instances (stdlib dataclasses only)


def build_inst(spec, pycls, kw):
    kwargs = {}
    for f in spec:
        if f["name"] in kw:
            v = kw[f["name"]]
            if f["k"] == "nested":
                sub = pycls.__dataclass_fields__[f["name"]].type
                if f.get("opt"):
                    sub = typing.get_args(sub)[0]
                kwargs[f["name"]] = None if v is None else build_inst(f["cls"], sub, v)
            else:
                kwargs[f["name"]] = v
    return pycls(**kwargs)


def build_cls(spec, name):
    fields = []
    for f in spec:
        if f["k"] == "leaf":
            ty = {"int": int, "str": str, "float": float, "bool": bool, "list": List[int]}[f["ty"]]
            if f["dflt"] is None:
                fld = dataclasses.field()
            elif isinstance(f["dflt"], list):
                fld = dataclasses.field(default_factory=(lambda v: (lambda: list(v)))(f["dflt"]))
            else:
                fld = dataclasses.field(default=f["dflt"])
        else:
            ty = build_cls(f["cls"], name + "_" + f["name"])
            if f.get("opt"):
                ty, fld = Optional[ty], dataclasses.field(default=None)     # `inner: Optional[Inner] = None`
            elif f["fac"] is None:
                fld = dataclasses.field()
            else:
                fld = dataclasses.field(default_factory=(lambda s, t, kw: (lambda: build_inst(s, t, kw)))(f["cls"], ty, f["fac"]))
        fields.append((f["name"], ty, fld))
    # a module name that is not importable: the library's docstring lookup (inspect.getsource) then fails fast
    # instead of re-parsing this plugin's source for every field
    return dataclasses.make_dataclass(name, fields, kw_only=True, module="spverif_c06_dynamic")


def inst_tree(spec, obj):
    out = {}
    for f in spec:
        v = getattr(obj, f["name"], None)
        if f["k"] == "nested":
            out[f["name"]] = (inst_tree(f["cls"], v) if dataclasses.is_dataclass(v)
                              else None if (v is None and f.get("opt")) else {"raw": type(v).__name__})
        elif v is None or is_leaf_value(v):
            out[f["name"]] = v
        else:
            out[f["name"]] = {"raw": type(v).__name__}
    return out


# ------------------------------------------------------------------------------------------------
# generators


def constructible(cls):
    return all((f["dflt"] is not None) if f["k"] == "leaf" else (f["fac"] is not None) for f in cls)


def gen_kw(rng, cls, mk, p_extra):
    """keyword tree giving a value to everything that has no default (plus random extras)"""
    kw = {}
    for f in cls:
        if f["k"] == "leaf":
            if f["dflt"] is None or rng.random() < p_extra:
                kw[f["name"]] = mk(f["ty"])
        elif f["fac"] is None or rng.random() < p_extra * 0.5:
            kw[f["name"]] = gen_kw(rng, f["cls"], mk, p_extra)
    return kw


def gen_cls(rng, depth, mk, p_def=0.6):
    n_leaf = rng.choice([0, 1, 1, 2, 2, 3]) if depth > 0 else rng.choice([1, 1, 2, 3])
    n_nest = 0 if depth == 0 else rng.choice([0, 1, 1, 2])
    if n_leaf + n_nest == 0:
        n_leaf = 1
    fields = []
    for n in rng.sample(LEAF_NAMES, n_leaf):
        ty = rng.choice(TYPES)
        # bool leaves always have a definition default (a bool option without one is C12's business); list leaves never
        # (a default_factory is called eagerly by the wrapper and would occupy the slot this check observes)
        has = ty == "bool" or (ty != "list" and rng.random() < p_def)
        fields.append({"k": "leaf", "name": n, "ty": ty, "dflt": mk(ty, key=("defn", mk.n), p_falsy=0.15) if has else None})
    for n in rng.sample(NEST_NAMES, n_nest):
        sub = gen_cls(rng, depth - 1, mk, p_def)
        r = rng.random()
        fac = None if r < 0.4 else gen_kw(rng, sub, mk, 0.0 if r < 0.65 else 0.4)
        fields.append({"k": "nested", "name": n, "fac": fac, "cls": sub})
    rng.shuffle(fields)
    return fields


def gen_cls_opt(rng, depth, mk, under_opt=False, top=True):
    """like gen_cls, with nested members declared `Optional[K] = None` (at least one, at depth 1 and/or 2).  Below an
    optional member every leaf has a (truthy) definition default and nested members are optional or required"""
    n_leaf = rng.choice([1, 1, 2, 2]) if depth > 0 else rng.choice([1, 2, 3])
    n_nest = 0 if depth == 0 else (rng.choice([1, 1, 2]) if top else rng.choice([0, 1, 1, 2]))
    fields = []
    for n in rng.sample(LEAF_NAMES, n_leaf):
        ty = rng.choice([t for t in TYPES if t != "list"] if under_opt else TYPES)
        has = under_opt or ty == "bool" or (ty != "list" and rng.random() < 0.6)
        fields.append({"k": "leaf", "name": n, "ty": ty,
                       "dflt": mk(ty, key=None if under_opt else ("defn", mk.n), p_falsy=0.15) if has else None})
    for j, n in enumerate(rng.sample(NEST_NAMES, n_nest)):
        opt = (top and j == 0 and rng.random() < 0.7) or rng.random() < 0.55
        sub = gen_cls_opt(rng, depth - 1, mk, under_opt or opt, top=False)
        # a plain (non-Optional) nested member below an Optional one: required, or `field(default_factory=K)`
        plain_ok = all((g["dflt"] is not None) if g["k"] == "leaf" else (g.get("opt") or g["fac"] is not None) for g in sub)
        fac = {} if (not opt and under_opt and plain_ok and rng.random() < 0.6) else None
        fields.append({"k": "nested", "name": n, "fac": fac, "opt": opt, "cls": sub})
    rng.shuffle(fields)
    return fields


def opt_nodes(cls, pre=()):
    """paths of the members declared Optional, outermost first"""
    for f in cls:
        if f["k"] == "nested":
            if f.get("opt"):
                yield pre + (f["name"],)
            yield from opt_nodes(f["cls"], pre + (f["name"],))


def _finding_open(fid):
    try:
        txt = (pathlib.Path(__file__).resolve().parents[2] / "known_findings.txt").read_text()
    except OSError:
        return False
    return any(l.startswith("open:") and f"id={fid} " in l for l in txt.splitlines())


def opt_case(rng, mk):
    """a scenario over a class with Optional members; in most cases NO command-line option lies inside an optional group,
    so that the group exists only because a file / set_defaults / default instance mentions it"""
    while True:
        cls = gen_cls_opt(rng, rng.choice([1, 2, 2]), mk)
        if any(True for _ in opt_nodes(cls)):
            break
    case = e2e_case(rng, mk, cls_list=[cls], no_rl=True)
    c = case["case"]
    nodes = list(opt_nodes(cls))
    dest = c["regs"][0]["dest"]
    def drop_cmd(node):
        cur = c["cmd"]
        for q in (dest,) + node[:-1]:
            cur = cur.get(q, {})
        cur.pop(node[-1], None)
    if rng.random() < 0.6:
        for n in nodes:
            drop_cmd(n)
    elif _finding_open("C06-optional-cmd-repeats-default"):
        # the shape of that open finding — a group nobody mentions except command-line options that REPEAT the definition
        # default of the field they address — is produced on purpose only while the finding is listed as open
        free = [n for n in nodes if not group_mentions(c, 0, n)]
        if free and rng.random() < 0.3:
            n = rng.choice(free)
            below = [pth for pth, _f in leaf_paths(cls) if pth[:len(n)] == n]
            for pth in rng.sample(below, rng.choice([1, 1, min(2, len(below))])):
                set_path(c["cmd"], (dest,) + pth, defn_value(cls, pth))
    else:
        for n in nodes:
            if _cmd_lost_shape(c, 0, n):
                drop_cmd(n)
    if rng.random() < 0.25:
        # deeper-only shape (regression 3f531df): a group nobody mentions except ONE command-line option for a field of a
        # member nested inside it, with a value different from that field's default
        deep = [(n, pth, f) for n in nodes if not group_mentions(c, 0, n)
                for pth, f in leaf_paths(cls) if pth[:len(n)] == n and len(pth) > len(n) + 1
                ]   # through an Optional child (regression 3f531df) or a plain nested member (regression f635f07)
        if deep:
            n, pth, f = rng.choice(deep)
            v = mk(f["ty"])
            if f["ty"] == "bool":
                v = not defn_value(cls, pth)
            set_path(c["cmd"], (dest,) + pth, v)
    if rng.random() < 0.12:
        inject(rng, c, "unknown", mk)        # incl. the sections of Optional members
    case["model"] = False     # Optional members are outside the modelled fragment
    return case


def deeper_only_case(rng, mk):
    """regression shape of 3f531df / f635f07, built on purpose: an Optional member `n` with a nested member `m` (Optional
    or plain); NO layer mentions
    anything below `n` except one command-line option (non-default value) for a field below `m`"""
    while True:
        cls = gen_cls_opt(rng, 2, mk)
        nodes = list(opt_nodes(cls))
        pairs = [(n, n + (f["name"],)) for n in nodes for f in class_at(cls, n) if f["k"] == "nested"]
        if pairs:
            break
    n, m = rng.choice(pairs)
    case = e2e_case(rng, mk, cls_list=[cls], no_rl=True)
    c = case["case"]
    reg = c["regs"][0]
    def strip(tree, path):
        cur = tree
        for q in path[:-1]:
            cur = cur.get(q) if isinstance(cur, dict) else None
            if cur is None:
                return
        if isinstance(cur, dict):
            cur.pop(path[-1], None)
    for _name, _i, data, rootless in sources_of(c):
        strip(data, n if rootless else (reg["dest"],) + n)
    strip(c["cmd"], (reg["dest"],) + n)
    if reg["inst"] is not None:
        strip(reg["inst"], n)
    pth, f = rng.choice([(pth, f) for pth, f in leaf_paths(cls) if pth[:len(m)] == m])
    v = (not defn_value(cls, pth)) if f["ty"] == "bool" else mk(f["ty"])
    set_path(c["cmd"], (reg["dest"],) + pth, v)
    case["model"] = False
    return case


def collapse_case(rng, mk):
    """modelled (op layers.collapse): a class with Optional members that NO file / set_defaults / default instance
    mentions — only command-line options do, for a random set of leaves (one deep leaf, several, or none)"""
    while True:
        cls = gen_cls_opt(rng, rng.choice([1, 2, 2]), mk)
        nodes = list(opt_nodes(cls))
        if nodes:
            break
    api = rng.choice(["parse", "parser"])
    dest = "config" if api == "parse" else rng.choice(DESTS)
    under = lambda pth: any(pth[:len(n)] == n for n in nodes)
    leaves = list(leaf_paths(cls))
    cmd = {}
    mode = rng.choice(["one-deep", "one-deep", "random", "random", "none"])
    chosen = set()
    if mode == "one-deep":
        deep = [pth for pth, _f in leaves if under(pth)]
        chosen = {rng.choice(deep)} if deep else set()
    elif mode == "random":
        chosen = {pth for pth, _f in leaves if rng.random() < 0.25}
    repeat_ok = _finding_open("C06-optional-cmd-repeats-default")
    for pth, f in leaves:
        d = defn_value(cls, pth)
        if d is None or pth in chosen:
            if d is not None and under(pth) and repeat_ok and rng.random() < 0.15:
                v = d                                   # repeats the default: the open finding's shape
            else:
                v = (not d) if (f["ty"] == "bool" and d is not None) else mk(f["ty"])
            set_path(cmd, (dest,) + pth, v)
    case = {"api": api, "nest": rng.choice(["WITHOUT_ROOT", "DEFAULT"]), "regs": [{"dest": dest, "cls": cls, "inst": None}],
            "kw_before_rl": [], "kw_before": [], "kw_after": [], "ctor_files": [], "ctor_form": "list_str", "add_arg": None,
            "cli_files": None, "cli_pos": "front", "cmd": cmd}
    return {"op": "layers.collapse", "case": case}


def e2e_case(rng, mk, cls_list=None, api=None, force=None, malformed=None, fmt=None, no_rl=False):
    """force: {(reg index, path): set of layer names} overrides the random layer assignment of those leaves"""
    api = api or rng.choice(["parse", "parser"])
    n_regs = 1 if api == "parse" else rng.choice([1, 1, 1, 2])
    if cls_list is not None:
        n_regs = len(cls_list)
    nest = "WITHOUT_ROOT" if (api == "parse" and rng.random() < 0.85) else rng.choice(["DEFAULT", "WITHOUT_ROOT"])
    dests = ["config"] if api == "parse" and rng.random() < 0.7 else rng.sample(DESTS, n_regs)
    rootless = nest == "WITHOUT_ROOT" and n_regs == 1
    n_ctor = rng.choice([0, 1, 1, 2, 3])
    n_cli = rng.choice([None, None, 0, 1, 1, 2, 3])
    if force:
        need = set().union(*force.values())
        if "ctor" in need and n_ctor == 0:
            n_ctor = rng.choice([1, 2])
        if "cli" in need and not n_cli:
            n_cli = rng.choice([1, 2])
    add_arg = rng.choice([None, True, "cfg_file"]) if n_cli is not None else rng.choice([None, None, True, False])
    if n_cli is not None and add_arg is None and n_ctor == 0:
        add_arg = True
    ctor = [{"fmt": fmt or rng.choice(FMTS), "data": {}} for _ in range(n_ctor)]
    cli = None if n_cli is None else [{"fmt": fmt or rng.choice(FMTS), "data": {}} for _ in range(n_cli)]
    regs, kw_before, kw_after, cmd, kw_before_rl = [], {}, {}, {}, {}
    for ri in range(n_regs):
        cls = cls_list[ri] if cls_list is not None else gen_cls(rng, rng.choice([0, 1, 1, 2, 2]), mk)
        dest = dests[ri]
        modes = ["none", "inst"] if api == "parse" else ["none", "inst", "kw_after", "kw_after", "kw_before", "inst+kw_after"]
        if api == "parser" and rootless and not no_rl:
            modes.append("kw_before_rl")   # set_defaults(a=5) with root-less keywords before add_arguments
        if force and any("default" in ls for (i, _p), ls in force.items() if i == ri):
            modes = [m for m in modes if m not in ("none", "kw_before_rl")]   # a forced default layer must have a carrier
        mode = rng.choice(modes)
        inst_kw = {} if "inst" in mode else None
        for path, f in leaf_paths(cls):
            layers = force.get((ri, path)) if force and (ri, path) in force else {
                l for l in ("default", "ctor", "cli", "cmd") if rng.random() < 0.45}
            full = (dest,) + path
            if "default" in layers and mode != "none":
                sub = rng.choice(["inst", "kw_after"]) if mode == "inst+kw_after" else mode
                if sub == "inst":
                    set_path(inst_kw, path, mk(f["ty"], key=(ri, path)))
                elif sub == "kw_after":
                    set_path(kw_after, full, mk(f["ty"], key=(ri, path)))
                elif sub == "kw_before_rl":
                    set_path(kw_before_rl, path, mk(f["ty"], key=(ri, path)))
                else:
                    set_path(kw_before, full, mk(f["ty"], key=(ri, path)))
            for name, files in (("ctor", ctor), ("cli", cli)):
                if name in layers and files:
                    idx = [i for i in range(len(files)) if rng.random() < 0.5] or [rng.randrange(len(files))]
                    for i in idx:
                        set_path(files[i]["data"], path if rootless else full, mk(f["ty"], key=(ri, path)))
            if "cmd" in layers:
                set_path(cmd, full, mk(f["ty"], key=(ri, path)))
        if inst_kw is not None:
            # the user's own constructor call must succeed: give a value to everything without a default
            def complete(spec, kw):
                for f in spec:
                    if f["k"] == "leaf":
                        if f["dflt"] is None and f["name"] not in kw:
                            kw[f["name"]] = mk(f["ty"])
                    elif f["name"] in kw or (f["fac"] is None and not f.get("opt")):
                        complete(f["cls"], kw.setdefault(f["name"], {}))
            complete(cls, inst_kw)
        if mode == "kw_before_rl" and rng.random() < 0.6:
            # the code only looks at root-less pending keywords when EVERY direct leaf of the class is among them
            for f in cls:
                if f["k"] == "leaf" and f["name"] not in kw_before_rl:
                    kw_before_rl[f["name"]] = mk(f["ty"], key=(ri, (f["name"],)))
        regs.append({"dest": dest, "cls": cls, "inst": inst_kw})
    # file names are random and distinct, unrelated to the order in which the files are listed; sometimes a file is listed twice
    for f, tok in zip(ctor + (cli or []), rng.sample(FILE_TOKENS, len(ctor) + len(cli or []))):
        f["name"] = tok
    def order_of(n):
        o = list(range(n))
        if n >= 1 and rng.random() < 0.25:
            o.insert(rng.randrange(len(o) + 1), rng.randrange(n))
        return o
    ctor_order, cli_order = order_of(n_ctor), order_of(len(cli or []))
    case = {"api": api, "nest": nest, "regs": regs, "kw_before_rl": [kw_before_rl] if kw_before_rl else [],
            "ctor_order": ctor_order, "cli_order": cli_order,
            "kw_before": [kw_before] if kw_before else [], "kw_after": [kw_after] if kw_after else [],
            "ctor_files": ctor, "ctor_form": (rng.choice(["str", "path", "list", "tuple"]) if len(ctor_order) == 1
                                           else rng.choice(["list_str", "list_path", "tuple", "mixed"])),
            "add_arg": add_arg, "cli_files": cli, "cli_pos": rng.choice(["front", "back", "mid"]), "cmd": cmd}
    if malformed:
        inject(rng, case, malformed, mk)
    return {"op": "layers.e2e", "case": case}


def remark(rng, tree, mk):
    """the same file rewritten: every leaf value replaced by a fresh one of its type, some keys dropped"""
    out = {}
    for k, v in tree.items():
        if isinstance(v, dict):
            out[k] = remark(rng, v, mk)
        elif rng.random() < 0.15:
            continue
        elif isinstance(v, bool):
            out[k] = not v
        elif isinstance(v, int):
            out[k] = mk("int")
        elif isinstance(v, float):
            out[k] = mk("float")
        elif isinstance(v, str):
            out[k] = mk("str")
        elif isinstance(v, list):
            out[k] = mk("list")
        else:
            out[k] = v
    return out


def history_case(rng, mk):
    """2-3 parses in one process, each with a fresh parser, the SAME file paths rewritten in between"""
    while True:
        first = e2e_case(rng, mk)["case"]
        if first["ctor_files"] or first["cli_files"]:
            break
    rounds = [first]
    for _ in range(rng.choice([1, 1, 2])):
        nxt = json.loads(json.dumps(rounds[-1]))
        for f in nxt["ctor_files"] + (nxt["cli_files"] or []):
            f["data"] = remark(rng, f["data"], mk)
        if rng.random() < 0.3:
            nxt["cmd"] = {}
        rounds.append(nxt)
    return {"op": "layers.history", "model": False, "case": {"rounds": rounds}}


FILE_TOKENS = ["zeta", "alpha", "mid", "base", "prod", "a1", "A2", "local", "x_over", "beta", "_last", "10", "9", "Main"]


def listed(case, key):
    """the files of a layer in the order they are LISTED to the parser: [(index into case[key], file)] — `<layer>_order`
    may repeat an index (the same file given twice); file names are random and unrelated to this order"""
    files = case.get(key) or []
    order = case.get(key.replace("_files", "_order"))
    if order is None:
        order = range(len(files))
    return [(i, files[i]) for i in order if i < len(files)]


def file_name(f, kind, i):
    return f"{f.get('name', kind + str(i))}.{f['fmt']}"


def sources_of(case):
    """every dict source in the order it is applied, with the way it is keyed: [(name, index, data, rootless)]"""
    rootless = case["nest"] == "WITHOUT_ROOT" and len(case["regs"]) == 1
    out = [("kw_before_rl", i, d, True) for i, d in enumerate(case.get("kw_before_rl", []))]
    out += [("kw_before", i, d, False) for i, d in enumerate(case["kw_before"])]
    out += [("kw_after", i, d, False) for i, d in enumerate(case["kw_after"])]
    out += [("ctor", i, f["data"], rootless) for i, f in listed(case, "ctor_files")]
    out += [("cli", i, f["data"], rootless) for i, f in listed(case, "cli_files")]
    return out


def inject(rng, case, kind, mk):
    srcs = sources_of(case)
    if kind == "cli_disabled":
        case["add_arg"] = False
        case["ctor_files"] = []
        case["cli_files"] = case["cli_files"] or [{"fmt": "json", "data": {}}]
        return
    srcs = [t for t in srcs if t[0] != "kw_before_rl"]
    if kind == "bad_root":
        # the value under a destination is not a dict: int / list -> ValueError, str -> taken as a path to read
        reg = rng.choice(case["regs"])
        keyed = [t for t in srcs if not t[3]]
        bad = rng.choice([mk("int"), mk("list"), mk("float"), "nofile.json"])
        if keyed:
            rng.choice(keyed)[2][reg["dest"]] = bad
        elif case["api"] == "parser":
            case["kw_after"] = case["kw_after"] + [{reg["dest"]: bad}]
        return
    if not srcs:
        return
    name, i, data, rootless = rng.choice(srcs)
    reg = rng.choice(case["regs"])
    # a class node of the tree: path of nested names
    nodes = [()]
    def walk(cls, pre):
        for f in cls:
            if f["k"] == "nested":
                nodes.append(pre + (f["name"],))
                walk(f["cls"], pre + (f["name"],))
    walk(reg["cls"], ())
    node = rng.choice(nodes)
    base = node if rootless else (reg["dest"],) + node
    if kind == "unknown":
        cls = class_at(reg["cls"], node)
        own = {f["name"] for f in cls}
        foreign = [n for n in LEAF_NAMES + NEST_NAMES if n not in own]
        real = rng.choice(sorted(own)) if own else "a"
        pool = [
            ("plain", rng.choice(["zz", "extra_key"])),
            ("foreign-field", rng.choice(foreign)),                       # a field of some OTHER class / a sibling section
            ("underscore", rng.choice(["_x", "__y", "_lr", "_" + real, "__" + real + "__"])),
            ("near-type", rng.choice(["_type", "type_", "_type_x", "__type__", "_TYPE_", " _type_"])),
            ("variant", rng.choice([real[:-1] or real + "x", real + "_", real + "s", real.upper() if real.upper() != real else real.lower(),
                                    real.capitalize() if real.capitalize() != real else real + real, " " + real, real + " "])),
            ("dotted", rng.choice([real + ".x", "a.b", "." + real, reg["dest"] + "." + real])),
            ("empty", ""),
            ("dest", reg["dest"]),
        ]
        pool = [(k, v) for k, v in pool if v not in own and v != "_type_"]
        kind_name, key = rng.choice(pool)
        # the only exempted name is exactly `_type_` (metadata written by save(..., save_dc_types=True))
        set_path(data, base + (key,), rng.choice([mk("int"), mk("str"), {"q": 1}]))
        case.setdefault("unknown_kinds", []).append(kind_name)
    elif kind == "type_key":
        set_path(data, base + ("_type_",), "some.module.Cls")
    elif kind == "stray_top":
        if not rootless:
            data[rng.choice(["other", "verbose", "zz"])] = mk("int")
    elif kind == "scalar_nested":
        if node:
            set_path(data, base, mk("int"))
    elif kind == "null":
        leaves = list(leaf_paths(reg["cls"]))
        path, f = rng.choice(leaves)
        full = path if rootless else (reg["dest"],) + path
        set_path(data, full, None)
        # make an earlier source mention it, so that the null has something to erase
        k = srcs.index((name, i, data, rootless))
        if k > 0 and rng.random() < 0.8:
            n2, i2, d2, r2 = srcs[rng.randrange(k)]
            set_path(d2, path if r2 else (reg["dest"],) + path, mk(f["ty"]))
    elif kind == "null_nested":
        if node:
            set_path(data, base, None)


SMALL_TREES = [
    [{"k": "leaf", "name": "a", "ty": "int"}],
    [{"k": "leaf", "name": "a", "ty": "str"}, {"k": "nested", "name": "sub", "cls": [{"k": "leaf", "name": "b", "ty": "int"}]}],
    [{"k": "leaf", "name": "x", "ty": "int"},
     {"k": "nested", "name": "m", "cls": [{"k": "leaf", "name": "y", "ty": "str"},
                                           {"k": "nested", "name": "g", "cls": [{"k": "leaf", "name": "k", "ty": "float"},
                                                                                 {"k": "leaf", "name": "tag", "ty": "str"}]}]}],
]
LAYERS5 = ["defn", "default", "ctor", "cli", "cmd"]


def small_tree(rng, mk, shape, target, with_defn):
    """instantiate a SMALL_TREES shape: the target leaf has a definition default iff with_defn; nested fields have none"""
    def go(spec, pre):
        out = []
        for f in spec:
            if f["k"] == "leaf":
                p = pre + (f["name"],)
                has = with_defn if p == target else rng.random() < 0.6
                out.append({"k": "leaf", "name": f["name"], "ty": f["ty"],
                            "dflt": mk(f["ty"], key=("defn", mk.n), p_falsy=0.2) if has else None})
            else:
                out.append({"k": "nested", "name": f["name"], "fac": None, "cls": go(f["cls"], pre + (f["name"],))})
        return out
    return go(shape, ())


def gen_union_dict(rng, depth, mk, keys):
    d = {}
    for k in rng.sample(keys, rng.randrange(0, len(keys) + 1)):
        r = rng.random()
        if depth > 0 and r < 0.45:
            d[k] = gen_union_dict(rng, depth - 1, mk, keys)
        elif r < 0.9:
            d[k] = mk(rng.choice(["int", "str"]))
        else:
            d[k] = None
    return d


_BASE = None
_SEQ = itertools.count()


def _base():
    """one scratch directory per check process, created before the worker pool forks (the workers inherit the
    path and only create/unlink files in it) and removed when the creating process exits"""
    global _BASE
    if _BASE is None or not os.path.isdir(_BASE):
        _BASE = tempfile.mkdtemp(prefix=f"spverif_c06.{os.getpid()}.", dir=os.environ.get("TMPDIR", "/tmp"))
        atexit.register(shutil.rmtree, _BASE, True)
    return _BASE


def gen(rng, tier):
    _base()
    mk = Mk(rng)
    # (c) dict_union
    n_u = 300 if tier == "quick" else 1000
    for _ in range(n_u):
        keys = rng.choice([["a", "b"], ["b", "a", "_type_"], ["k", "B", "a10", "a9", "z"], ["x", "y", "xy"]])
        n = rng.choice([0, 1, 2, 2, 2, 3, 4])
        yield {"op": "layers.dict_union", "case": {"dicts": [gen_union_dict(rng, rng.choice([0, 1, 2, 3]), mk, keys) for _ in range(n)]}}
    # (b) set_default sequences on a real wrapper
    n_s = 400 if tier == "quick" else 1500
    for _ in range(n_s):
        cls = gen_cls(rng, rng.choice([0, 1, 2, 2]), mk)
        inst = None
        if rng.random() < 0.4:
            inst = gen_kw(rng, cls, mk, 0.5)
            def complete(spec, kw):
                for f in spec:
                    if f["k"] == "nested" and (f["name"] in kw or f["fac"] is None):
                        complete(f["cls"], kw.setdefault(f["name"], {}))
                    elif f["k"] == "leaf" and f["dflt"] is None and f["name"] not in kw:
                        kw[f["name"]] = mk(f["ty"])
            complete(cls, inst)
        values = []
        for _ in range(rng.choice([1, 1, 2, 3])):
            v = {}
            for path, f in leaf_paths(cls):
                if rng.random() < 0.4:
                    set_path(v, path, mk(f["ty"], key=path) if rng.random() < 0.9 else None)
            r = rng.random()
            tmp = {"api": "parser", "nest": "WITHOUT_ROOT", "regs": [{"dest": "w", "cls": cls, "inst": None}], "kw_before": [],
                   "kw_after": [], "ctor_files": [{"fmt": "json", "data": v}], "cli_files": None}
            if r < 0.15:
                inject(rng, tmp, "unknown", mk)
            elif r < 0.2:
                inject(rng, tmp, "scalar_nested", mk)
            elif r < 0.25:
                inject(rng, tmp, "null_nested", mk)
            elif r < 0.3:
                inject(rng, tmp, "type_key", mk)
            values.append(tmp["ctor_files"][0]["data"] if rng.random() < 0.97 else None)
        yield {"op": "layers.set_default", "case": {"cls": cls, "inst": inst, "values": values}}
    # (a) enumerated slice: every subset of the five layers for a target leaf of a small tree
    shapes = SMALL_TREES
    apis = ["parse", "parser"] if tier == "thorough" else None
    for shape in shapes:
        for target, _f in list(leaf_paths(shape)):
            for bits in itertools.product([False, True], repeat=5):
                chosen = {l for l, b in zip(LAYERS5, bits) if b}
                for api in (apis or [rng.choice(["parse", "parser"])]):
                    cls = small_tree(rng, mk, shape, target, "defn" in chosen)
                    yield e2e_case(rng, mk, cls_list=[cls], api=api, force={(0, target): chosen - {"defn"}},
                                   fmt=rng.choice(FMTS))
    # (e) Optional members (oracle only)
    for _ in range(200 if tier == "quick" else 700):
        yield opt_case(rng, mk)
    for _ in range(30 if tier == "quick" else 100):
        yield deeper_only_case(rng, mk)
    # (f) the collapse decision for Optional members that only the command line can mention (modelled)
    for _ in range(200 if tier == "quick" else 600):
        yield collapse_case(rng, mk)
    # (d) histories: the same file paths rewritten between parses (oracle only)
    for _ in range(60 if tier == "quick" else 400):
        yield history_case(rng, mk)
    # (a) random scenarios, plus the malformed streams
    n_e = 1200 if tier == "quick" else 6000
    for _ in range(n_e):
        r = rng.random()
        malformed = None
        if r < 0.14:
            malformed = "unknown"
        elif r < 0.20:
            malformed = "null"
        elif r < 0.23:
            malformed = "type_key"
        elif r < 0.26:
            malformed = "stray_top"
        elif r < 0.29:
            malformed = "scalar_nested"
        elif r < 0.31:
            malformed = "null_nested"
        elif r < 0.33:
            malformed = "cli_disabled"
        elif r < 0.36:
            malformed = "bad_root"
        yield e2e_case(rng, mk, malformed=malformed)


# ------------------------------------------------------------------------------------------------
# real code


def _write(td, name, f, fixed=None):
    p = os.path.join(td, f"{fixed}_{name}.{f['fmt']}" if fixed else f"{os.getpid()}_{next(_SEQ)}_{name}.{f['fmt']}")
    with open(p, "w") as fh:
        if f["fmt"] == "json":
            json.dump(f["data"], fh)
        else:
            import yaml

            yaml.safe_dump(f["data"], fh)
    return p


def _walk_wrapper(spec, w, get):
    out = {}
    by_name = {f.name: f for f in w.fields}
    kids = {c.name: c for c in w._children}
    for f in spec:
        if f["k"] == "leaf":
            v = get(by_name[f["name"]])
            out[f["name"]] = v if (v is None or is_leaf_value(v) or isinstance(v, dict)) else {"raw": type(v).__name__}
        else:
            out[f["name"]] = _walk_wrapper(f["cls"], kids[f["name"]], get)
    return out


def impl(case):
    op, c = case["op"], case["case"]
    if op == "layers.dict_union":
        from simple_parsing.utils import dict_union

        r = sp.run_outcome(lambda: dict_union(*[json.loads(json.dumps(d)) for d in c["dicts"]]))
        if r["o"] != "ok":
            return {"o": "raise", "exc": r.get("exc")}
        return {"o": "ok", "v": r["value"]}
    if op == "layers.set_default":
        from simple_parsing.wrappers.dataclass_wrapper import DataclassWrapper

        sp.reset_globals()
        pycls = build_cls(c["cls"], "W")
        inst = build_inst(c["cls"], pycls, c["inst"]) if c["inst"] is not None else None

        def go():
            w = DataclassWrapper(pycls, "w", default=inst)
            for v in c["values"]:
                w.set_default(json.loads(json.dumps(v)))
            return w

        r = sp.run_outcome(go)
        if r["o"] != "ok":
            return {"o": "raise", "exc": r.get("exc")}
        w = r["value"]
        return {"o": "ok", "slots": _walk_wrapper(c["cls"], w, lambda f: f._default),
                "defaults": _walk_wrapper(c["cls"], w, lambda f: f.default)}
    if op in ("layers.e2e", "layers.collapse"):
        return impl_e2e(c)
    if op == "layers.history":
        stem = f"{os.getpid()}_{next(_SEQ)}_h"
        return {"o": "rounds", "rounds": [impl_e2e(r, fixed=stem) for r in c["rounds"]]}
    raise ValueError(op)


def impl_e2e(c, fixed=None):
    """fixed: file-name stem shared by the rounds of a history case (the same paths are rewritten between parses)"""
    import simple_parsing
    from simple_parsing import ArgumentParser

    sp.reset_globals()
    pyclss = [build_cls(r["cls"], f"R{i}") for i, r in enumerate(c["regs"])]
    insts = [build_inst(r["cls"], pc, r["inst"]) if r["inst"] is not None else None for r, pc in zip(c["regs"], pyclss)]
    nest = sp.NEST[c["nest"]]
    td = _base()
    written = []
    try:
        stem = fixed or f"{os.getpid()}_{next(_SEQ)}"       # one stem per case: the random names decide the sort order
        ctor_w = [_write(td, f.get("name", f"ctor{i}"), f, stem) for i, f in enumerate(c["ctor_files"])]
        cli_w = [_write(td, f.get("name", f"cli{i}"), f, stem) for i, f in enumerate(c["cli_files"] or [])]
        written += ctor_w + cli_w
        ctor_paths = [ctor_w[i] for i, _f in listed(c, "ctor_files")]
        cli_paths = None if c["cli_files"] is None else [cli_w[i] for i, _f in listed(c, "cli_files")]
        form = c["ctor_form"]
        if not ctor_paths:
            config_path = None
        elif form == "str":
            config_path = ctor_paths[0]
        elif form == "path":
            config_path = pathlib.Path(ctor_paths[0])
        elif form in ("list", "list_str"):
            config_path = list(ctor_paths)
        elif form == "list_path":
            config_path = [pathlib.Path(p) for p in ctor_paths]
        elif form == "mixed":
            config_path = [p if k % 2 else pathlib.Path(p) for k, p in enumerate(ctor_paths)]
        else:
            config_path = tuple(ctor_paths)
        # option strings of the leaves that get a command-line value, read off a separate parser
        argv_groups = []
        if c["cmd"]:
            def probe():
                p = ArgumentParser(nested_mode=nest)
                for r, pc, inst in zip(c["regs"], pyclss, insts):
                    p.add_arguments(pc, dest=r["dest"], default=inst)
                p._preprocessing(args=[])
                return {f.dest: sorted(f.option_strings, key=lambda s: (-len(s), s))[0] for w in p._wrappers for f in w.fields}
            pr = sp.run_outcome(probe)
            if pr["o"] != "ok":
                return {"o": "raise", "exc": pr.get("exc"), "stage": "probe"}
            opts = pr["value"]
            for r in c["regs"]:
                for path, f in leaf_paths(r["cls"]):
                    v, ok = get_path(c["cmd"], (r["dest"],) + path)
                    if ok:
                        toks = [str(x) for x in v] if isinstance(v, list) else [repr(v) if isinstance(v, float) else str(v)]
                        argv_groups.append([opts[".".join((r["dest"],) + path)]] + toks)
        name = c["add_arg"] if isinstance(c["add_arg"], str) else "config_path"
        cli_part = [] if cli_paths is None else [f"--{name}"] + cli_paths
        k = {"front": 0, "back": len(argv_groups)}.get(c["cli_pos"], len(argv_groups) // 2)
        argv = [t for g in argv_groups[:k] for t in g] + cli_part + [t for g in argv_groups[k:] for t in g]
        sp.reset_globals()

        def go():
            if c["api"] == "parse":
                r = c["regs"][0]
                return {r["dest"]: simple_parsing.parse(pyclss[0], config_path=config_path, args=argv, default=insts[0],
                                                         dest=r["dest"], nested_mode=nest, add_config_path_arg=c["add_arg"])}
            p = ArgumentParser(nested_mode=nest, config_path=config_path, add_config_path_arg=c["add_arg"])
            for kw in c.get("kw_before_rl", []) + c["kw_before"]:
                p.set_defaults(**json.loads(json.dumps(kw)))
            for r, pc, inst in zip(c["regs"], pyclss, insts):
                p.add_arguments(pc, dest=r["dest"], default=inst)
            for kw in c["kw_after"]:
                p.set_defaults(**json.loads(json.dumps(kw)))
            ns = p.parse_args(argv)
            return {r["dest"]: getattr(ns, r["dest"]) for r in c["regs"]}

        out = sp.run_outcome(go)
    finally:
        for p in written:
            try:
                os.unlink(p)
            except OSError:
                pass
    if out["o"] == "ok":
        return {"o": "ok", "v": {r["dest"]: inst_tree(r["cls"], out["value"][r["dest"]]) for r in c["regs"]}, "argv_len": len(argv)}
    if out["o"] == "exit":
        return {"o": "exit", "code": out["code"], "kind": out.get("kind")}
    return {"o": "raise", "exc": out.get("exc"), "msg": out.get("msg", "")[:200]}


# ------------------------------------------------------------------------------------------------
# model side encoding


def enc(v):
    if isinstance(v, dict):
        return {"d": [[k, enc(x)] for k, x in v.items()]}
    if isinstance(v, (bool, float, list)):
        return {"a": json.dumps(v)}   # opaque scalar for the model (it only distinguishes None / dict / other)
    return v


def enc_cls(cls):
    out = []
    for f in cls:
        if f["k"] == "leaf":
            out.append({"k": "leaf", "name": f["name"], "dflt": enc(f["dflt"])})
        else:
            out.append({"k": "nested", "name": f["name"], "fac": None if f["fac"] is None else enc(f["fac"]), "cls": enc_cls(f["cls"])})
    return out


def model_case(case, obs):
    op, c = case["op"], case["case"]
    if op == "layers.dict_union":
        return {"dicts": [enc(d) for d in c["dicts"]]}
    if op == "layers.set_default":
        return {"cls": enc_cls(c["cls"]), "inst": None if c["inst"] is None else enc(c["inst"]), "values": [enc(v) for v in c["values"]]}
    if op == "layers.collapse":
        reg = c["regs"][0]
        def ot(cls, pre):
            out = []
            for f in cls:
                if f["k"] == "leaf":
                    d = {"k": "leaf", "name": f["name"], "dflt": enc(defn_value(reg["cls"], pre + (f["name"],)))}
                    v, ok = get_path(c["cmd"], (reg["dest"],) + pre + (f["name"],))
                    if ok:
                        d["arg"] = enc(v)
                    out.append(d)
                else:
                    out.append({"k": "member", "name": f["name"], "opt": bool(f.get("opt")), "cls": ot(f["cls"], pre + (f["name"],))})
            return out
        return {"dest": reg["dest"], "cls": ot(reg["cls"], ())}
    return {
        "without_root": c["nest"] == "WITHOUT_ROOT",
        "kw_before": [enc(d) for d in c.get("kw_before_rl", [])] + [enc(d) for d in c["kw_before"]],
        "regs": [{"dest": r["dest"], "cls": enc_cls(r["cls"]), "inst": None if r["inst"] is None else enc(r["inst"])} for r in c["regs"]],
        "kw_after": [enc(d) for d in c["kw_after"]],
        "ctor_files": [enc(f["data"]) for _i, f in listed(c, "ctor_files")],
        "add_arg": bool(c["add_arg"]) if c["add_arg"] is not None else None,
        "cli_files": None if c["cli_files"] is None else [enc(f["data"]) for _i, f in listed(c, "cli_files")],
        "cmd": enc(c["cmd"]),
    }


def project(case, obs):
    op = case["op"]
    if op == "layers.history":
        return obs
    if obs["o"] == "raise":
        return {"o": "raise", "exc": obs.get("exc")}
    if obs["o"] == "exit":
        return {"o": "exit", "code": obs["code"]}
    if op == "layers.dict_union":
        return {"v": enc(obs["v"])}
    if op == "layers.set_default":
        return {"o": "ok", "slots": enc(obs["slots"]), "defaults": enc(obs["defaults"])}
    return {"o": "ok", "v": enc(obs["v"])}


def model_unmodelled(mo):
    return isinstance(mo, dict) and mo.get("o") == "unmodelled"


# ------------------------------------------------------------------------------------------------
# the property itself, on real observations (independent of the model)


def scan(tree, cls, pre=()):
    """facts about one dataclass section of a source: unknown keys, nulls, badly typed entries"""
    if not isinstance(tree, dict):
        return
    byname = {f["name"]: f for f in cls}
    for k, v in tree.items():
        if k == "_type_":
            yield ("type_key", pre + (k,))
        elif k not in byname:
            yield ("unknown", pre + (k,))
        elif byname[k]["k"] == "leaf":
            if v is None:
                yield ("null_leaf", pre + (k,))
            elif isinstance(v, dict):
                yield ("dict_leaf", pre + (k,))
        else:
            if v is None:
                yield ("null_nested", pre + (k,))
            elif not isinstance(v, dict):
                yield ("scalar_nested", pre + (k,))
            else:
                yield from scan(v, byname[k]["cls"], pre + (k,))


def section(data, rootless, dest):
    if rootless:
        return data, True
    if dest in data:
        return data[dest], True
    return None, False


def facts(c):
    out = []
    for name, i, data, rootless in sources_of(c):
        if name == "kw_before_rl":
            continue   # the code filters these keywords down to the class's field names; the generator puts no others
        for r in c["regs"]:
            sec, present = section(data, rootless, r["dest"])
            if present and not isinstance(sec, dict):
                out.append(("bad_root", name, i, (r["dest"],)))
            elif present:
                out += [(kind, name, i, (r["dest"],) + p) for kind, p in scan(sec, r["cls"])]
        if not rootless:
            out += [("stray_top", name, i, (k,)) for k in data if k not in {r["dest"] for r in c["regs"]}]
    return out


def defn_value(cls, path):
    """what the dataclass *definition* gives the leaf: the attribute of the instance produced by the outermost
    default_factory on the way down (stdlib construction), else the leaf's own default"""
    cur = cls
    for n, p in enumerate(path[:-1]):
        f = next(f for f in cur if f["name"] == p)
        if f["fac"] is not None:
            pyc = build_cls(f["cls"], "D")
            obj = build_inst(f["cls"], pyc, f["fac"])
            for q in path[n + 1:]:
                obj = getattr(obj, q)
                if obj is None:      # an Optional member below the factory's product: its leaves keep their class defaults
                    break
            else:
                return obj
        cur = f["cls"]
    return next(f for f in cur if f["name"] == path[-1])["dflt"]


def leaf_sources(c, reg, path, null_is_mention=False):
    """manual sources in the order they are applied: [(layer, value-or-None, present)]"""
    seq = []
    for name, i, data, rootless in sources_of(c):
        sec, present = section(data, rootless, reg["dest"])
        if not present or not isinstance(sec, dict):
            continue
        v, ok = get_path(sec, path)
        if ok and not isinstance(v, dict):
            seq.append((name, v))
    return seq


def expected_leaf(c, ri, path):
    """(acceptable values, layer) of the highest-priority source that mentions the leaf; (None, None) if nobody does"""
    reg = c["regs"][ri]
    v, ok = get_path(c["cmd"], (reg["dest"],) + path)
    if ok and v is not None:
        return [v], "cmd"
    seq = leaf_sources(c, reg, path)
    for layer in ("cli", "ctor"):
        vals = [v for (n, v) in seq if n == layer and v is not None]
        if vals:
            return [vals[-1]], layer
    vals = [v for (n, v) in seq if n in ("kw_after", "kw_before") and v is not None]
    # root-less keywords given before add_arguments: the property does not say whether they address the fields (the code
    # uses them only when every direct field of the class is named) -> their values are acceptable, never demanded
    opt = [v for (n, v) in seq if n == "kw_before_rl" and v is not None]
    if reg["inst"] is not None:
        iv, ok = get_path(reg["inst"], path)
        if ok and iv is not None and not isinstance(iv, dict):
            vals.append(iv)
    if vals:
        return vals + opt, "default"
    if opt:
        lower, layer = expected_leaf(dict(c, kw_before_rl=[]), ri, path)
        return opt + (lower or []), "default?" + (layer or "missing")
    if reg["inst"] is not None:
        # a default instance carries a value for every leaf: its attribute (stdlib construction)
        obj = build_inst(reg["cls"], build_cls(reg["cls"], "I"), reg["inst"])
        for q in path:
            obj = getattr(obj, q) if obj is not None else None
        if obj is not None:
            return [obj], "default-inst-attr"
    d = defn_value(reg["cls"], path)
    if d is not None:
        return [d], "defn"
    return None, None


def all_mention_layers(c, ri, path):
    """every layer that gives the leaf a non-None value (not only the highest)"""
    reg = c["regs"][ri]
    out = set()
    v, ok = get_path(c["cmd"], (reg["dest"],) + path)
    if ok and v is not None and not isinstance(v, dict):
        out.add("cmd")
    out |= {n for (n, v) in leaf_sources(c, reg, path) if v is not None}
    if reg["inst"] is not None:
        obj = build_inst(reg["cls"], build_cls(reg["cls"], "M"), reg["inst"])
        for q in path:
            obj = getattr(obj, q) if obj is not None else None
        if obj is not None:
            out.add("inst")
    return out


def group_mentions(c, ri, node):
    """{leaf path: layers} for the leaves below the Optional member at `node` that some layer mentions"""
    out = {}
    for path, _f in leaf_paths(c["regs"][ri]["cls"]):
        if path[:len(node)] == node:
            ls = all_mention_layers(c, ri, path)
            if ls:
                out[path] = ls
    return out


def _cmd_lost_shape(c, ri, node):
    """an Optional member mentioned ONLY by command-line options each of which repeats the definition default of the
    field it addresses (at any depth below the member): the shape of open finding C06-optional-cmd-repeats-default (the
    TODO in parsing.py `_create_dataclass_instance`: a repeated default cannot be told from "no argument passed")"""
    ms = group_mentions(c, ri, node)
    if not ms or any(ls != {"cmd"} for ls in ms.values()):
        return False
    reg = c["regs"][ri]
    for path in ms:
        v, _ = get_path(c["cmd"], (reg["dest"],) + path)
        if not same(v, defn_value(reg["cls"], path)):
            return False
    return True


def erased_value(c, ri, path):
    """the value under the code's actual slot semantics (a later explicit null resets the slot): used only by the
    signature predicate of the open finding"""
    reg = c["regs"][ri]
    v, ok = get_path(c["cmd"], (reg["dest"],) + path)
    if ok and v is not None:
        return v
    slot = None
    if reg["inst"] is not None:
        obj = build_inst(reg["cls"], build_cls(reg["cls"], "E"), reg["inst"])
        for q in path:
            obj = getattr(obj, q) if obj is not None else None
        slot = inst_attr = obj
    seq = leaf_sources(c, reg, path)
    order = {"kw_before_rl": 0, "kw_before": 0, "kw_after": 1, "ctor": 2, "cli": 3}
    for n, v in sorted(seq, key=lambda t: order[t[0]]):
        slot = v
    if slot is not None:
        return slot
    if reg["inst"] is not None:
        return inst_attr
    return defn_value(reg["cls"], path)


def oracle(case, obs):
    op, c = case["op"], case["case"]
    fails = []
    if op == "layers.dict_union":
        if obs["o"] != "ok":
            return [{"clause": "dict_union", "detail": f"raised {obs}"}]
        # right-biased at leaves, recursive on dicts, on inputs without dict/scalar clashes
        def paths(d, pre=()):
            for k, v in d.items():
                if isinstance(v, dict):
                    yield pre + (k,), "dict"
                    yield from paths(v, pre + (k,))
                else:
                    yield pre + (k,), "leaf"
        kinds = {}
        clash = False
        for d in c["dicts"]:
            for p, k in paths(d):
                if kinds.setdefault(p, k) != k:
                    clash = True
        if not clash:
            for p, k in kinds.items():
                got, ok = get_path(obs["v"], p)
                if not ok:
                    fails.append({"clause": "dict_union", "detail": f"path {p} lost"})
                elif k == "leaf":
                    exp = [get_path(d, p)[0] for d in c["dicts"] if get_path(d, p)[1]][-1]
                    if got != exp:
                        fails.append({"clause": "dict_union", "detail": f"path {p}: got {got!r}, the last dict that has it says {exp!r}"})
            got_paths = {p for p, _ in paths(obs["v"])}
            if got_paths - set(kinds):
                fails.append({"clause": "dict_union", "detail": f"invented paths {sorted(got_paths - set(kinds))[:3]}"})
        return fails
    if op == "layers.set_default":
        tmp = {"nest": "WITHOUT_ROOT", "regs": [{"dest": "w", "cls": c["cls"], "inst": c["inst"]}], "kw_before": [], "kw_after": [],
               "ctor_files": [{"data": v} for v in c["values"] if v is not None], "cli_files": None, "cmd": {}}
        fx = facts(tmp)
        if any(k == "unknown" for k, *_ in fx):
            if obs["o"] == "ok":
                fails.append({"clause": "unknown-key", "detail": f"set_default accepted unknown keys {[f for f in fx if f[0] == 'unknown'][:2]}"})
            return fails
        if any(k in ("scalar_nested", "dict_leaf", "null_leaf") for k, *_ in fx):
            return fails
        if obs["o"] != "ok":
            fails.append({"clause": "unexpected-error", "detail": f"set_default raised {obs}"})
            return fails
        for path, f in leaf_paths(c["cls"]):
            exp, layer = expected_leaf(tmp, 0, path)
            got, _ = get_path(obs["defaults"], path)
            if exp is not None and not any(same(got, e) for e in exp):
                fails.append({"clause": "priority", "detail": f"FieldWrapper.default of {'.'.join(path)} is {got!r}, the highest source ({layer}) says {exp!r}"})
        return fails
    if op == "layers.history":
        for i, (rc, ro) in enumerate(zip(c["rounds"], obs["rounds"])):
            for f in oracle({"op": "layers.e2e", "case": rc}, ro):
                fails.append({"clause": "history", "round": i, "inner": f.get("clause"),
                              "detail": f"parse #{i + 1} of {len(c['rounds'])} (same file paths, contents rewritten): " + f.get("detail", "")})
        return fails
    # ---- layers.e2e
    fx = facts(c)
    kinds = {k for k, *_ in fx}
    addarg_on = bool(c["add_arg"]) if c["add_arg"] is not None else bool(c["ctor_files"])
    usage_error = c["cli_files"] is not None and not addarg_on
    unknown = [f for f in fx if f[0] == "unknown" and not (f[1] == "cli" and usage_error)]
    if unknown:
        # sources are read before argparse runs, so an unknown key must surface as an exception: an `exit 2` for some
        # missing required option would mean the key itself was silently dropped
        if obs["o"] != "raise":
            u = unknown[0]
            fails.append({"clause": "unknown-key", "detail": f"key {'.'.join(u[3])} in source {u[1]}[{u[2]}] names no field of its dataclass but the parse ended with {obs['o']} instead of raising"})
        return fails
    free = kinds & {"scalar_nested", "dict_leaf", "bad_root", "type_key"} or usage_error
    missing = []
    # members declared `Optional[K] = None`: an instance iff some layer mentions one of its leaves, else None
    dead = set()
    for ri, r in enumerate(c["regs"]):
        for node in opt_nodes(r["cls"]):
            if obs["o"] != "ok" or any(node[:len(d)] == d for (i, d) in dead if i == ri):
                continue
            got_node, ok = get_path(obs["v"], (r["dest"],) + node)
            mentioned = bool(group_mentions(c, ri, node))
            if ok and got_node is None:
                dead.add((ri, node))
                if mentioned:
                    fails.append({"clause": "optional-collapsed", "node": [ri] + list(node),
                                  "detail": f"{r['dest']}.{'.'.join(node)} is None although {sorted(group_mentions(c, ri, node).items())[:3]} mention its fields: their values are lost"})
            elif ok and not mentioned:
                fails.append({"clause": "optional-materialised", "node": [ri] + list(node),
                              "detail": f"{r['dest']}.{'.'.join(node)} is an instance although no layer mentions any of its fields"})
    for ri, r in enumerate(c["regs"]):
        onodes = list(opt_nodes(r["cls"]))
        for path, f in leaf_paths(r["cls"]):
            under_opt = any(path[:len(n)] == n for n in onodes)
            if any(path[:len(d)] == d for (i, d) in dead if i == ri):
                continue
            exp, layer = expected_leaf(c, ri, path)
            if (exp is None or (layer or "").endswith("?missing")) and not under_opt:
                missing.append(path)
            if exp is None:
                continue
            if obs["o"] != "ok":
                continue
            got, ok = get_path(obs["v"], (r["dest"],) + path)
            if not ok or not any(same(got, e) for e in exp):
                fails.append({"clause": "priority", "leaf": [ri] + list(path), "got": got, "exp": exp, "layer": layer,
                              "detail": f"{r['dest']}.{'.'.join(path)} = {got!r}; the highest-priority source that mentions it ({layer}) says {exp!r}"})
    if obs["o"] != "ok" and not free:
        if obs["o"] == "exit" and obs.get("code") == 2 and missing:
            pass  # a leaf that no source mentions is a required option
        else:
            fails.append({"clause": "unexpected-error", "got": obs.get("exc") or f"exit{obs.get('code')}",
                          "detail": f"every leaf is mentioned by some source, yet the parse ended with {obs}" if not missing
                          else f"leaves {missing[:2]} have no value; expected status 2, got {obs}"})
    return fails


def _null_erases(case, obs, fail):
    c = case["case"]
    if case["op"] not in ("layers.e2e", "layers.collapse"):
        return False
    nulls = {(f[3]) for f in facts(c) if f[0] == "null_leaf"}
    if not nulls:
        return False
    dests = [r["dest"] for r in c["regs"]]
    if fail.get("clause") == "priority":
        ri, *path = fail["leaf"]
        if (dests[ri],) + tuple(path) not in nulls:
            return False
        return same(erased_value(c, ri, tuple(path)), fail["got"])
    if fail.get("clause") == "unexpected-error" and obs["o"] == "exit" and obs.get("code") == 2:
        return any(erased_value(c, dests.index(p[0]), tuple(p[1:])) is None for p in nulls)
    return False


def _opt_cmd_lost(case, obs, fail):
    if case["op"] not in ("layers.e2e", "layers.collapse") or fail.get("clause") != "optional-collapsed":
        return False
    ri, *node = fail["node"]
    return _cmd_lost_shape(case["case"], ri, tuple(node))


FINDINGS = {"C06-null-erases": _null_erases, "C06-optional-cmd-repeats-default": _opt_cmd_lost}


def nontrivial(case, obs):
    op, c = case["op"], case["case"]
    if op == "layers.history":
        return len(c["rounds"]) >= 2
    if op == "layers.dict_union":
        return len(c["dicts"]) >= 2
    if op == "layers.set_default":
        return len(c["values"]) >= 2 or c["inst"] is not None
    used = set()
    nested_file = False
    for ri, r in enumerate(c["regs"]):
        for path, f in leaf_paths(r["cls"]):
            _, layer = expected_leaf(c, ri, path)
            used.add(layer)
            if len(path) > 1 and any(n in ("ctor", "cli") for n, v in leaf_sources(c, r, path)):
                nested_file = True
    return len(used - {None}) >= 2 or nested_file


def tags(case, obs):
    op, c = case["op"], case["case"]
    if op == "layers.history":
        return [f"op:{op}", f"rounds:{len(c['rounds'])}"] + sorted({"round-out:" + r["o"] for r in obs["rounds"]})
    t = [f"op:{op}", "out:" + (obs["o"] if obs["o"] != "raise" else f"raise:{obs.get('exc')}")]
    if op not in ("layers.e2e", "layers.collapse"):
        return t
    t += [f"api:{c['api']}", f"nest:{c['nest']}", f"regs:{len(c['regs'])}", f"ctor:{len(c['ctor_files'])}",
          "cli:" + ("absent" if c["cli_files"] is None else str(len(c["cli_files"]))), f"addarg:{c['add_arg']}"]
    t += [f"fmt:{f['fmt']}" for f in c["ctor_files"] + (c["cli_files"] or [])]
    t += [f"unknown-name:{k}" for k in c.get("unknown_kinds", [])]
    for f in facts(c):
        if f[0] == "unknown":
            t.append(f"unknown-in:{f[1]}:depth{len(f[3]) - 2}")
    for key, kind in (("ctor_files", "ctor"), ("cli_files", "cli")):
        names = [file_name(f, kind, i) for i, f in listed(c, key)]
        if len(names) >= 2:
            t.append(f"{kind}-order:" + ("duplicate" if len(set(names)) < len(names) else
                                          "sorted" if names == sorted(names) else "unsorted"))
    t += sorted({f"fact:{k}" for k, *_ in facts(c)})
    depth = max((len(p) for r in c["regs"] for p, _ in leaf_paths(r["cls"])), default=0)
    t.append(f"depth:{depth}")
    t.append(f"leaves:{min(9, sum(1 for r in c['regs'] for _ in leaf_paths(r['cls'])))}")
    for ri, r in enumerate(c["regs"]):
        t.append("default:" + ("inst" if r["inst"] is not None else "noinst"))
        for path, f in leaf_paths(r["cls"]):
            t.append(f"winner:{expected_leaf(c, ri, path)[1]}")
    for ri, r in enumerate(c["regs"]):
        for node in opt_nodes(r["cls"]):
            ms = group_mentions(c, ri, node)
            layers = set().union(*ms.values()) if ms else set()
            how = ("unmentioned" if not ms else "cmd-only" if layers == {"cmd"} else
                   "no-cmd:" + "+".join(sorted({"file" if l in ("ctor", "cli") else "kw" if l.startswith("kw") else l for l in layers}))
                   if "cmd" not in layers else "cmd+other")
            got = get_path(obs["v"], (r["dest"],) + node) if obs["o"] == "ok" else (None, False)
            t.append(f"opt:d{len(node)}:{how}:" + ("none" if got[1] and got[0] is None else "inst" if got[1] else "n/a"))
    if c.get("kw_before_rl"):
        t.append("default:kw_before_rootless")
    if c["kw_before"]:
        t.append("default:kw_before")
    if c["kw_after"]:
        t.append("default:kw_after")
    return sorted(set(t))


def shrink(case):
    if case["op"] == "layers.history":
        rs = case["case"]["rounds"]
        if len(rs) > 2:
            for i in range(len(rs)):
                yield {"op": case["op"], "model": False, "case": {"rounds": rs[:i] + rs[i + 1:]}}
        for key in ("cmd", "kw_before", "kw_after"):
            if any(r[key] for r in rs):
                yield {"op": case["op"], "model": False, "case": {"rounds": [dict(r, **{key: ({} if key == "cmd" else [])}) for r in rs]}}
        return
    if case["op"] not in ("layers.e2e", "layers.collapse"):
        return
    c = case["case"]
    def mk(**kw):
        return {"op": case["op"], "case": dict(json.loads(json.dumps(c)), **kw)}
    for key in ("ctor_files", "cli_files"):
        fs = c[key] or []
        for i in range(len(fs)):
            yield mk(**{key: fs[:i] + fs[i + 1:], key.replace("_files", "_order"): None})
        if c.get(key.replace("_files", "_order")) not in (None, list(range(len(fs)))):
            yield mk(**{key.replace("_files", "_order"): None})
    if c["cli_files"] == []:
        yield mk(cli_files=None)
    if c["cmd"]:
        yield mk(cmd={})
    for key in ("kw_before", "kw_after", "kw_before_rl"):
        if c.get(key):
            yield mk(**{key: []})
    if len(c["regs"]) > 1:
        for i in range(len(c["regs"])):
            yield mk(regs=c["regs"][:i] + c["regs"][i + 1:])
    for i, r in enumerate(c["regs"]):
        if r["inst"] is not None and all(f["k"] == "nested" or f["dflt"] is not None for _p, f in leaf_paths(r["cls"])):
            regs = json.loads(json.dumps(c["regs"]))
            regs[i]["inst"] = None
            yield mk(regs=regs)
    for f in (c["ctor_files"] + (c["cli_files"] or [])):
        if f["fmt"] != "json":
            c2 = json.loads(json.dumps(c))
            for g in c2["ctor_files"] + (c2["cli_files"] or []):
                g["fmt"] = "json"
            yield {"op": case["op"], "case": c2}
            break


def neighbours(case, rng):
    if case["op"] not in ("layers.e2e", "layers.collapse"):
        return
    yield from shrink(case)


MANIFEST = {
    "text": ("Proof (partial: one named gap). Lean theorems over an executable model of dict_union, "
             "DataclassWrapper.set_default, FieldWrapper.default, ArgumentParser.set_defaults/_add_arguments and the "
             "parse_known_args ordering. Value: for every class tree, source list and leaf, the result holds the command-line "
             "value if given, else the value of the last source whose section contains the leaf, else the default "
             "instance's attribute, else the definition default (c06_priority_general); stated from the whole scenario for "
             "one registration with the sources spelled out as set_defaults keywords, then constructor files in order, then "
             "--config_path files in order, re-rooted for the root-less layout (c06_run_layers, c06_parse_priority, "
             "c06_cli_layer_wins, c06_ctor_layer_wins, slotAt_initInst); a source that does not contain a leaf has no "
             "influence on it (c06_leafwise). Totality: well-formed sources and a value for every leaf make the pipeline "
             "return a result (c06_total, c06_total_of_defaults). Unknown keys: a key naming no field of its section at any "
             "depth makes set_default fail and the whole parse cannot return a result (c06_unknown_key_*, "
             "c06_parse_unknown_key). Optional members: a command-line value different from its default anywhere below an "
             "Optional member makes the member an instance and is found at its path in the result "
             "(c06_member_instance_of_nondefault_arg, c06_cmd_value_reaches_result; false for the rule before 3f531df / "
             "f635f07: c06_collapse_old_witness), while values that only repeat defaults are lost (open finding "
             "C06-optional-cmd-repeats-default, c06_repeats_default_collapses). dict_union is right-biased at leaves and recursive on dicts. The full statement with "
             "'explicit null = not mentioned' is refuted by a witness (a later null erases earlier sources: open finding "
             "C06-null-erases) and proved under the named exclusion NoNullAt (a tuple config_path raising TypeError was found "
             "by this check and repaired in /repo, 82d0eed; its input stays in the corpus as a regression case). The model is "
             "tied to the code by four correspondence ops (dict_union, set_default on a real wrapper, end-to-end through "
             "parse()/ArgumentParser with real json/yaml files, 1-2 destinations, the collapse decision for Optional members), a history op (same paths rewritten between "
             "parses, oracle only), and the property's own statement is evaluated on every real observation."),
    "note": ("Trusted: Lean kernel + propext/Classical.choice/Quot.sound; argparse, json, PyYAML, dataclasses (stdlib "
             "behaviour assumed); the harness. Modelled not verified: parsing.py:300-343,385-438,460-521, "
             "dataclass_wrapper.py:255-315, field_wrapper.py:711-821, utils.py:841-885. The code raises for any key without a "
             "FieldWrapper (including cmd=False fields); generated classes have none."),
    "technique": "Lean 4 induction over the class tree and the source list + differential correspondence against the real parser",
    "design_ref": "DESIGN.md section 5, C06",
}
