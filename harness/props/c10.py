"""C10 — option spelling follows the generation mode, nested mode and dash variant."""
from __future__ import annotations

import dataclasses
import itertools

from harness.core import sp
from harness.core.trees import Universe, get_path

PID = "C10"
RULE = ("every case is one parser setup: a clash-free dataclass tree (depth <= 3, names with/without underscores, one-letter "
        "names, aliases with 0/1/2 leading dashes) x one of the 3x3x2 mode combinations x {ArgumentParser, parse()}. "
        "Observed: the set of option strings of every field's action, one real parse per accepted spelling (must change "
        "exactly that leaf) and per near-miss spelling (must be rejected). The 18 modes x 2 APIs x 17 fixed tree shapes "
        "are enumerated in both tiers; random trees on top. Non-trivial = tree has >= 2 fields and (depth >= 2 or an "
        "alias or a name with an underscore); distinct by canonical JSON.")
ASSUMPTIONS = ["argparse abbreviation matching (near-miss spellings that are prefixes of a valid option are skipped)"]
TRUSTED = ["stdlib argparse (exact-match lookup of option strings)"]
EXHAUSTIVE = {"quick": False, "thorough": False}
MANIFEST = {
    "text": ("Proof: Lean theorem c10_exact states, for all 18 mode combinations and every name/prefix/destination/alias "
             "list, that the option strings the model of FieldWrapper.option_strings generates are exactly those allowed "
             "by the documented rule (organised by source: flat name, nested path, aliases; dash spelling), with "
             "corollaries for each mode in the property's words (UNDERSCORE keeps, DASH leaves no underscore in generated "
             "names, UNDERSCORE_AND_DASH closed under dashing, WITHOUT_ROOT drops exactly the first component at any "
             "depth), and that the engine rejects every long spelling outside that set up to argparse's abbreviations "
             "(c10_no_other_spelling). The model is tied to the code by comparing option-string sets of every field of generated parser "
             "setups, and an independent transcription of the property sentence is evaluated on the real parser together "
             "with one real parse per accepted and per near-miss spelling."),
    "note": ("Trusted: Lean kernel + standard axioms; argparse's option lookup; harness. Modelled not verified: "
             "field_wrapper.py:565-655, wrapper.py:25-30. 'No other spelling is accepted' is the theorem "
             "c10_no_other_spelling over the engine model of argparse's lookup (any table, any surrounding tokens: a long "
             "spelling that is no prefix of any option string is never accepted; prefixes are argparse's abbreviations), and "
             "is probed on the real parser by near-miss spellings."),
    "technique": "Lean 4 set-characterisation theorem over all mode combinations + differential check on real parsers",
    "design_ref": "DESIGN.md section 5, C10",
}

LEAF_NAMES = ["alpha", "beta", "num", "size", "seed", "a_b", "lr_rate", "x_y_z", "n", "k", "q", "w", "max_len", "v2"]
MEMBER_NAMES = ["opt", "model", "sub_cfg", "m", "inner", "data_set", "model_config", "xc", "config", "cfg_a_cfg_a"]
ALIASES = ["--al_pha", "-z", "zz", "y_y", "--e-f", "-u", "g", "--long_alias_name", "mm-nn"]
DEST_NAMES = ["config", "cfg_a", "c"]


def mk_tree(rng, depth, names, members, aliases, n_leaf=(1, 3), p_alias=0.3):
    """returns class spec list (dependency order) and the root class name"""
    classes = []
    counter = itertools.count()

    def build(d):
        cname = f"K{next(counter)}"
        fields = []
        for _ in range(rng.randint(*n_leaf)):
            if not names:
                break
            nm = names.pop()
            al = []
            if aliases and rng.random() < p_alias:
                al.append(aliases.pop())
                if aliases and rng.random() < 0.3:
                    al.append(aliases.pop())
            fields.append({"name": nm, "ty": {"k": "int"}, "alias": al})
        if d < depth:
            for _ in range(rng.choice([1, 1, 2]) if d < depth else 0):
                if not members:
                    break
                mn = members.pop()
                sub = build(d + 1)
                fields.append({"name": mn, "ty": {"k": "dc", "cls": sub}, "default": {"kind": "factory", "v": None}})
        rng.shuffle(fields)
        classes.append({"name": cname, "fields": fields})
        return cname

    root = build(1)
    # distinct int defaults
    i = 0
    for c in classes:
        for f in c["fields"]:
            if f["ty"]["k"] == "int":
                f["default"] = {"kind": "value", "v": {"t": "int", "v": str(100 + i)}}
                i += 1
    return classes, root


def fixed_trees():
    """17 hand-picked shapes covering each feature of the quantifier."""
    def leaf(n, al=()):
        return {"name": n, "ty": {"k": "int"}, "alias": list(al)}

    def mem(n, c):
        return {"name": n, "ty": {"k": "dc", "cls": c}, "default": {"kind": "factory", "v": None}}

    shapes = [
        [("K0", [leaf("alpha")])],
        [("K0", [leaf("a_b")])],
        [("K0", [leaf("n")])],
        [("K0", [leaf("alpha", ["--al_pha"]), leaf("k", ["-z"])])],
        [("K0", [leaf("x_y_z", ["zz", "y_y"]), leaf("num")])],
        [("K1", [leaf("beta")]), ("K0", [leaf("alpha"), mem("opt", "K1")])],
        [("K1", [leaf("a_b")]), ("K0", [leaf("n"), mem("sub_cfg", "K1")])],
        [("K2", [leaf("lr_rate", ["--e-f"])]), ("K1", [leaf("beta"), mem("m", "K2")]), ("K0", [leaf("alpha"), mem("opt", "K1")])],
        [("K2", [leaf("q")]), ("K1", [mem("inner", "K2")]), ("K0", [mem("data_set", "K1"), leaf("size")])],
        [("K1", [leaf("w", ["g"])]), ("K0", [mem("model", "K1"), leaf("seed", ["-u"])])],
        [("K1", [leaf("max_len", ["--long_alias_name"])]), ("K0", [mem("m", "K1")])],
        [("K0", [leaf("v2", ["mm-nn"])])],
        [("K1", [leaf("k"), leaf("a_b")]), ("K2", [leaf("n"), leaf("x_y_z")]), ("K0", [mem("opt", "K1"), mem("sub_cfg", "K2"), leaf("alpha")])],
        [("K0", [leaf("alpha"), leaf("beta"), leaf("num"), leaf("a_b", ["y_y"])])],
        # names related to the destination name ("config") as suffix / equal / repeated component
        [("K1", [leaf("depth")]), ("K0", [mem("model_config", "K1"), leaf("size")])],
        [("K2", [leaf("lr_rate")]), ("K1", [mem("config", "K2"), leaf("num")]), ("K0", [mem("opt", "K1")])],
        [("K0", [leaf("config")])],
    ]
    out = []
    for sh in shapes:
        classes = [{"name": n, "fields": [dict(f) for f in fs]} for n, fs in sh]
        i = 0
        for c in classes:
            for f in c["fields"]:
                if f["ty"]["k"] == "int":
                    f["default"] = {"kind": "value", "v": {"t": "int", "v": str(100 + i)}}
                    i += 1
        out.append((classes, "K0"))
    return out


def gen(rng, tier):
    for classes, root in fixed_trees():
        for dash in sp.ALL_DASH:
            for g in sp.ALL_GEN:
                for nest in sp.ALL_NEST:
                    for api in ("parser", "parse"):
                        if api == "parse" and nest == "DEFAULT":
                            continue  # parse() is WITHOUT_ROOT by definition; counted once
                        yield {"op": "naming.many", "case": {"cfg": {"dash": dash, "gen": g, "nest": nest}, "api": api,
                                                             "dest": "config", "classes": classes, "root": root}}
    n = 160 if tier == "quick" else 5000
    for _ in range(n):
        names = rng.sample(LEAF_NAMES, len(LEAF_NAMES))
        members = rng.sample(MEMBER_NAMES, len(MEMBER_NAMES))
        aliases = rng.sample(ALIASES, len(ALIASES))
        classes, root = mk_tree(rng, rng.choice([1, 2, 2, 3]), names, members, aliases)
        yield {"op": "naming.many", "case": {
            "cfg": {"dash": rng.choice(sp.ALL_DASH), "gen": rng.choice(sp.ALL_GEN), "nest": rng.choice(sp.ALL_NEST)},
            "api": rng.choice(["parser", "parser", "parse"]), "dest": rng.choice(DEST_NAMES),
            "classes": classes, "root": root}}


# -----------------------------------------------------------------------------------------------


def leaves(case):
    """[(path components incl. dest, field spec)] for every int leaf, in declaration order (pure function of the case)."""
    cls = {c["name"]: c for c in case["classes"]}
    out = []

    def walk(cname, path):
        for f in cls[cname]["fields"]:
            if f["ty"]["k"] == "dc":
                walk(f["ty"]["cls"], path + [f["name"]])
            else:
                out.append((path + [f["name"]], f))

    walk(case["root"], [case["dest"]])
    return out


def eff_nest(case):
    return "WITHOUT_ROOT" if case["api"] == "parse" else case["cfg"]["nest"]


def expected_long(case, path, f):
    """Independent transcription of the property sentence: accepted long options of one field."""
    cfg = case["cfg"]
    names = []
    if cfg["gen"] in ("FLAT", "BOTH"):
        names.append(f["name"])
    if cfg["gen"] in ("NESTED", "BOTH"):
        comps = path[1:] if eff_nest(case) == "WITHOUT_ROOT" else path
        names.append(".".join(comps))
    out = set()
    for g in names:
        if cfg["dash"] == "UNDERSCORE":
            out.add(g)
        elif cfg["dash"] == "DASH":
            out.add(g.replace("_", "-"))
        else:
            out |= {g, g.replace("_", "-")}
    for a in f.get("alias", []):
        body = a.lstrip("-")
        is_long = a.startswith("--") or (not a.startswith("-") and len(a) > 1)
        if is_long:
            out.add(body)
        if cfg["dash"] == "UNDERSCORE_AND_DASH" and "_" in body:
            out.add(body.replace("_", "-"))
    return {"--" + x for x in out}


def _build(case):
    u = Universe().add_classes(case["classes"])
    root = u.classes[case["root"]]
    sp.reset_globals()
    cfg = dict(case["cfg"])
    cfg["nest"] = eff_nest(case)
    parser = sp.make_parser(cfg)
    parser.add_arguments(root, dest=case["dest"])
    sp.decoy(cfg)   # a later parser with other settings must not change this parser's spelling
    return parser, root


def _parse(case, argv):
    import simple_parsing

    if case["api"] == "parse":
        u = Universe().add_classes(case["classes"])
        root = u.classes[case["root"]]
        sp.reset_globals()
        sp.decoy({"dash": case["cfg"]["dash"], "gen": case["cfg"]["gen"], "nest": "WITHOUT_ROOT"})   # an earlier parser with other settings
        r = sp.run_outcome(lambda: simple_parsing.parse(
            root, args=argv, dest=case["dest"], add_option_string_dash_variants=sp.DASH[case["cfg"]["dash"]],
            argument_generation_mode=sp.GEN[case["cfg"]["gen"]]))
        if r["o"] == "ok":
            r["inst"] = r.pop("value")
        return r
    parser, _ = _build(case)
    r = sp.run_outcome(lambda: parser.parse_args(argv))
    if r["o"] == "ok":
        r["inst"] = getattr(r.pop("value"), case["dest"])
    return r


def near_misses(expected: set[str]) -> set[str]:
    out = set()
    for e in expected:
        b = e[2:]
        out |= {"--" + b.replace("_", "-"), "--" + b.replace("-", "_"), "--cfgx." + b, "--" + b + "x", "--" + b.upper(),
                "--" + b.replace(".", "_"), "--" + b.replace(".", "-")}
        if "." in b:
            out.add("--" + b.split(".", 1)[1])
            out.add("--" + b.rsplit(".", 1)[1])
    return out


def impl(case):
    c = case["case"]
    lv = leaves(c)

    def setup():
        parser, _ = _build(c)
        parser._preprocessing(args=[])
        return parser

    r = sp.run_outcome(setup)
    if r["o"] != "ok":
        return {"setup": {k: v for k, v in r.items() if k != "value"}}
    parser = r["value"]
    sets = []
    for path, f in lv:
        act = sp.action_for_dest(parser, ".".join(path))
        sets.append(sorted(set(act.option_strings)) if act is not None else None)
    all_real = sorted({o for a in parser._actions for o in a.option_strings})
    # probes: every real and every expected spelling, plus near misses
    probes = []
    defaults = {".".join(p[1:]): int(f["default"]["v"]["v"]) for p, f in lv}
    exp_all = set()
    per_field_exp = []
    for path, f in lv:
        e = expected_long(c, path, f)
        per_field_exp.append(e)
        exp_all |= e
    cand = set()
    for s, e in zip(sets, per_field_exp):
        cand |= set(s or []) | e
    # near-miss spellings: a deterministic, evenly spaced sample (each probe builds a fresh parser)
    nm = sorted(near_misses(exp_all) - cand)
    budget = 12
    cand |= set(nm if len(nm) <= budget else nm[:: max(1, len(nm) // budget)][:budget])
    for opt in sorted(cand):
        if any(o.startswith(opt) and o != opt for o in all_real):
            continue  # abbreviation of a valid option: out of scope ("abbreviations aside")
        res = _parse(c, [opt, "7"])
        if res["o"] == "ok":
            changed = {}
            for p, dflt in defaults.items():
                v = get_path(res["inst"], p)
                if v != dflt:
                    changed[p] = v if isinstance(v, int) else repr(v)
            probes.append({"opt": opt, "o": "ok", "changed": changed})
        else:
            probes.append({"opt": opt, "o": res["o"], "code": res.get("code"), "kind": res.get("kind"), "exc": res.get("exc")})
    return {"sets": sets, "probes": probes}


def model_case(case, obs):
    c = case["case"]
    fws = []
    for path, f in leaves(c):
        fws.append({"name": f["name"], "prefix": "", "dest": ".".join(path), "aliases": f.get("alias", []), "positional": False})
    cfg = dict(c["cfg"])
    cfg["nest"] = eff_nest(c)
    return {"cfg": cfg, "fws": fws}


def project(case, obs):
    if "setup" in obs:
        return {"setup": obs["setup"]["o"]}
    return {"sets": obs["sets"]}


def oracle(case, obs):
    c = case["case"]
    fails = []
    if "setup" in obs:
        return [{"clause": "setup", "detail": f"clash-free tree failed to set up: {obs['setup']}"}]
    lv = leaves(c)
    owner = {}
    for (path, f), s in zip(lv, obs["sets"]):
        key = ".".join(path[1:])
        if s is None:
            fails.append({"clause": "exact-set", "detail": f"no action for {key}"})
            continue
        real_long = {o for o in s if o.startswith("--")}
        exp = expected_long(c, path, f)
        if real_long != exp:
            fails.append({"clause": "exact-set", "field": key,
                          "detail": f"{key}: accepted long options {sorted(real_long)}, the rule says {sorted(exp)} (cfg {c['cfg']}, api {c['api']})"})
        for o in s:
            owner[o] = key
        for o in exp:
            owner.setdefault(o, key)
    for p in obs["probes"]:
        o = p["opt"]
        if o in owner:
            if p["o"] != "ok" or p["changed"] != {owner[o]: 7}:
                fails.append({"clause": "same-field", "detail": f"[{o} 7] should set exactly {owner[o]}: got {p}"})
        else:
            if not (p["o"] == "exit" and p["code"] == 2):
                fails.append({"clause": "nothing-else", "detail": f"spelling {o} is not allowed by the rule but was not rejected: {p}"})
    return fails


def nontrivial(case, obs):
    c = case["case"]
    lv = leaves(c)
    return len(lv) >= 2 and (any(len(p) > 2 for p, _ in lv) or any(f.get("alias") or "_" in f["name"] for _, f in lv))


def tags(case, obs):
    c = case["case"]
    lv = leaves(c)
    t = [f"dash:{c['cfg']['dash']}", f"gen:{c['cfg']['gen']}", f"nest:{eff_nest(c)}", f"api:{c['api']}",
         f"depth:{max(len(p) for p, _ in lv) - 1}", f"fields:{len(lv)}"]
    if "probes" in obs:
        t.append(f"probes:{len(obs['probes']) // 10 * 10}+")
    return t


def shrink(case):
    c = case["case"]
    # drop a field anywhere
    for ci, cl in enumerate(c["classes"]):
        for fi in range(len(cl["fields"])):
            if len(cl["fields"]) <= 1:
                continue
            nc = [dict(x, fields=list(x["fields"])) for x in c["classes"]]
            del nc[ci]["fields"][fi]
            used = {f["ty"]["cls"] for x in nc for f in x["fields"] if f["ty"]["k"] == "dc"} | {c["root"]}
            nc = [x for x in nc if x["name"] in used]
            yield {"op": case["op"], "case": dict(c, classes=nc)}
    for ci, cl in enumerate(c["classes"]):
        for fi, f in enumerate(cl["fields"]):
            if f.get("alias"):
                nc = [dict(x, fields=[dict(y) for y in x["fields"]]) for x in c["classes"]]
                nc[ci]["fields"][fi]["alias"] = []
                yield {"op": case["op"], "case": dict(c, classes=nc)}


FINDINGS = {}
