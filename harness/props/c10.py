"""C10 — option spelling follows the generation mode, nested mode and dash variant."""
from __future__ import annotations

import contextlib
import itertools

from harness.core import sp
from harness.core.trees import Universe, get_path

PID = "C10"
RULE = ("every case is one parser setup: a clash-free dataclass tree (depth <= 3, names with/without underscores, one-letter "
        "names, aliases with 0/1/2 leading dashes incl. one-dash multi-letter ones) x one of the 3x3 dash/generation modes x "
        "{ArgumentParser(nested_mode=DEFAULT|WITHOUT_ROOT|omitted), parse(nested_mode=DEFAULT|WITHOUT_ROOT|omitted)}; plus the "
        "legacy switch add_dest_to_option_strings (must act as BOTH) and an explicit add_arguments(prefix=) family (model "
        "comparison only). Observed: the set of option strings of every field's action - for parse() read from the very "
        "parser parse() constructs -, one real parse per accepted spelling (must change exactly that leaf; `--x v` and "
        "`--x=v` forms) and per near-miss spelling (must be rejected; both forms). Enumerated in both tiers: 20 fixed tree "
        "shapes x 9 modes x 3-5 API/nested-mode set-ups. EXHAUSTIVE part of the thorough tier (small scope): leaf in "
        "{alpha,a_b,n} x alias in {none,g,zz,y_y,-z,-v_w,--al_pha,--e-f} x depth 1..3 x member chain in {opt.m, "
        "sub_cfg.data_set} x 27 configurations (3 dash x 3 gen x {parser/DEFAULT, parser/WITHOUT_ROOT, parse()}) = 3240 "
        "set-ups, each with a sibling leaf; random trees on top (sampled). Non-trivial = tree has >= 2 fields and (depth >= "
        "2 or an alias or a name with an underscore); distinct by canonical JSON.")
ASSUMPTIONS = ["argparse abbreviation matching (near-miss spellings that are prefixes of a valid option are skipped)",
               "explicit add_arguments(prefix=...) is outside the property sentence: those leaves are compared with the model "
               "only (exact-set clause skipped), the same-field / nothing-else clauses still apply"]
TRUSTED = ["stdlib argparse (exact-match lookup of option strings)"]
EXHAUSTIVE = {"quick": False, "thorough": False}
MANIFEST = {
    "text": ("Proof: Lean theorem c10_exact states, for all 18 mode combinations and every name/prefix/destination/alias "
             "list, that the option strings the model of FieldWrapper.option_strings generates are exactly those allowed "
             "by the documented rule (organised by source: flat name, nested path, aliases; dash spelling); "
             "c10_optionStrings_iff carries it through the de-duplication and sort to the strings handed to add_argument. "
             "Corollaries in the property's words: explicit option lists for UNDERSCORE / DASH / UNDERSCORE_AND_DASH in "
             "FLAT / NESTED / BOTH, one-letter names, WITHOUT_ROOT drops exactly the first component at any depth, declared "
             "aliases with 0/1/2 dashes are kept as declared in every mode (DASH never rewrites them), both spellings of "
             "names, paths and aliases under UNDERSCORE_AND_DASH. 'Every accepted spelling sets the same field': "
             "c10_spelling_sets_field / c10_same_field (any table: each option string of an action that no earlier action "
             "shadows stores at that action's destination and nowhere else) and c10_flat_spelling_sets_field (for the table "
             "built from a dataclass: every spelling the rule allows). 'No other spelling': c10_no_other_spelling(_eq) and "
             "c10_flat_no_other_spelling(_eq) over the engine model of argparse's lookup, composed with the rule, for the "
             "`--x v` and `--x=v` forms, up to argparse's abbreviations. The model is tied to the code by comparing "
             "option-string sets of every field of generated parser set-ups (both APIs, the parser parse() itself builds), "
             "and an independent transcription of the property sentence is evaluated on the real parser together with one "
             "real parse per accepted and per near-miss spelling."),
    "note": ("Trusted: Lean kernel + standard axioms; argparse's option lookup; harness. Modelled not verified: "
             "field_wrapper.py:565-655, wrapper.py:25-30. Open findings (witness theorems in Props/C10.lean): a field named "
             "`_` registers the bare separator `--` as an option string under DASH / UNDERSCORE_AND_DASH "
             "(c10_separator_witness, c10_same_field_separator_witness; partial theorem under name != \"_\"); the dashed "
             "variant of a one-dash multi-letter alias `-v_w` is registered with two dashes, `--v-w` "
             "(c10_alias_variant_witness; partial theorem for 0- and 2-dash aliases)."),
    "technique": "Lean 4 set-characterisation theorem over all mode combinations + engine theorems + differential check on real parsers",
    "design_ref": "DESIGN.md section 5, C10",
}

LEAF_NAMES = ["alpha", "beta", "num", "size", "seed", "a_b", "lr_rate", "x_y_z", "n", "k", "q", "w", "max_len", "v2"]
MEMBER_NAMES = ["opt", "model", "sub_cfg", "m", "inner", "data_set", "model_config", "xc", "config", "cfg_a_cfg_a"]
ALIASES = ["--al_pha", "-z", "zz", "y_y", "--e-f", "-u", "g", "--long_alias_name", "mm-nn", "-v_w", "-zz"]
DEST_NAMES = ["config", "cfg_a", "c"]
PREFIXES = ["p_", "x-"]
NEST_ARGS = ["DEFAULT", "WITHOUT_ROOT", "OMIT"]     # OMIT = the nested_mode argument is not passed at all


def _number_defaults(classes):
    i = 0
    for c in classes:
        for f in c["fields"]:
            if f["ty"]["k"] == "int":
                f["default"] = {"kind": "value", "v": {"t": "int", "v": str(100 + i)}}
                i += 1
    return classes


def mk_tree(rng, depth, names, members, aliases, n_leaf=(1, 3), p_alias=0.3):
    """returns class spec list (dependency order) and the root class name"""
    classes = []
    counter = itertools.count()

    def build(d):
        cname = f"K{next(counter)}"
        fields = []
        for _ in range(rng.randint(*n_leaf)):
            if not names:
                break
            nm = names.pop()
            al = []
            if aliases and rng.random() < p_alias:
                al.append(aliases.pop())
                if aliases and rng.random() < 0.3:
                    al.append(aliases.pop())
            fields.append({"name": nm, "ty": {"k": "int"}, "alias": al})
        if d < depth:
            for _ in range(rng.choice([1, 1, 2]) if d < depth else 0):
                if not members:
                    break
                mn = members.pop()
                sub = build(d + 1)
                fields.append({"name": mn, "ty": {"k": "dc", "cls": sub}, "default": {"kind": "factory", "v": None}})
        rng.shuffle(fields)
        classes.append({"name": cname, "fields": fields})
        return cname

    root = build(1)
    return _number_defaults(classes), root


def _leaf(n, al=()):
    return {"name": n, "ty": {"k": "int"}, "alias": list(al)}


def _mem(n, c):
    return {"name": n, "ty": {"k": "dc", "cls": c}, "default": {"kind": "factory", "v": None}}


def fixed_trees():
    """20 hand-picked shapes covering each feature of the quantifier."""
    leaf, mem = _leaf, _mem
    shapes = [
        [("K0", [leaf("alpha")])],
        [("K0", [leaf("a_b")])],
        [("K0", [leaf("n")])],
        [("K0", [leaf("alpha", ["--al_pha"]), leaf("k", ["-z"])])],
        [("K0", [leaf("x_y_z", ["zz", "y_y"]), leaf("num")])],
        [("K1", [leaf("beta")]), ("K0", [leaf("alpha"), mem("opt", "K1")])],
        [("K1", [leaf("a_b")]), ("K0", [leaf("n"), mem("sub_cfg", "K1")])],
        [("K2", [leaf("lr_rate", ["--e-f"])]), ("K1", [leaf("beta"), mem("m", "K2")]), ("K0", [leaf("alpha"), mem("opt", "K1")])],
        [("K2", [leaf("q")]), ("K1", [mem("inner", "K2")]), ("K0", [mem("data_set", "K1"), leaf("size")])],
        [("K1", [leaf("w", ["g"])]), ("K0", [mem("model", "K1"), leaf("seed", ["-u"])])],
        [("K1", [leaf("max_len", ["--long_alias_name"])]), ("K0", [mem("m", "K1")])],
        [("K0", [leaf("v2", ["mm-nn"])])],
        [("K1", [leaf("k"), leaf("a_b")]), ("K2", [leaf("n"), leaf("x_y_z")]), ("K0", [mem("opt", "K1"), mem("sub_cfg", "K2"), leaf("alpha")])],
        [("K0", [leaf("alpha"), leaf("beta"), leaf("num"), leaf("a_b", ["y_y"])])],
        # names related to the destination name ("config") as suffix / equal / repeated component
        [("K1", [leaf("depth")]), ("K0", [mem("model_config", "K1"), leaf("size")])],
        [("K2", [leaf("lr_rate")]), ("K1", [mem("config", "K2"), leaf("num")]), ("K0", [mem("opt", "K1")])],
        [("K0", [leaf("config")])],
        # one-dash multi-letter aliases (with / without underscore), at the root and nested
        [("K0", [leaf("alpha", ["-v_w"]), leaf("beta", ["-zz"])])],
        [("K1", [leaf("seed", ["-v_w", "--al_pha"])]), ("K0", [mem("opt", "K1"), leaf("num")])],
        # the one-letter name that IS an underscore
        [("K0", [leaf("_"), leaf("alpha")])],
    ]
    out = []
    for sh in shapes:
        classes = [{"name": n, "fields": [dict(f) for f in fs]} for n, fs in sh]
        out.append((_number_defaults(classes), "K0"))
    return out


SMALL_LEAVES = ["alpha", "a_b", "n"]
SMALL_ALIASES = [None, "g", "zz", "y_y", "-z", "-v_w", "--al_pha", "--e-f"]
SMALL_CHAINS = [("opt", "m"), ("sub_cfg", "data_set")]
SMALL_APIS = [("parser", "DEFAULT"), ("parser", "WITHOUT_ROOT"), ("parse", "OMIT")]


def small_scope():
    """the exhaustively enumerated small scope of the thorough tier (see RULE)"""
    for ln in SMALL_LEAVES:
        for al in SMALL_ALIASES:
            for depth in (1, 2, 3):
                for chain in (SMALL_CHAINS if depth > 1 else [()]):
                    specs = []
                    inner = f"K{depth - 1}"
                    specs.append({"name": inner, "fields": [_leaf(ln, [al] if al else [])] + ([_leaf("size")] if depth == 1 else [])})
                    for lvl in range(depth - 2, -1, -1):
                        fields = [_mem(chain[lvl], f"K{lvl + 1}")]
                        if lvl == 0:
                            fields.append(_leaf("size"))
                        specs.append({"name": f"K{lvl}", "fields": fields})
                    classes = _number_defaults([{"name": s["name"], "fields": [dict(f) for f in s["fields"]]} for s in specs])
                    for dash in sp.ALL_DASH:
                        for g in sp.ALL_GEN:
                            for api, nest in SMALL_APIS:
                                yield {"op": "naming.many", "case": {"cfg": {"dash": dash, "gen": g, "nest": nest}, "api": api,
                                                                     "dest": "config", "classes": classes, "root": "K0"}}


def gen(rng, tier):
    for si, (classes, root) in enumerate(fixed_trees()):
        deep = any(f["ty"]["k"] == "dc" for c in classes for f in c["fields"])
        for dash in sp.ALL_DASH:
            for g in sp.ALL_GEN:
                combos = [("parser", "DEFAULT"), ("parser", "WITHOUT_ROOT"), ("parse", "OMIT")]
                if deep and g != "FLAT":
                    # the nested_mode argument given explicitly to parse(); the constructor's own default
                    combos += [("parse", "DEFAULT"), ("parser", "OMIT")]
                    if si % 2 == 0:
                        combos.append(("parse", "WITHOUT_ROOT"))
                for api, nest in combos:
                    yield {"op": "naming.many", "case": {"cfg": {"dash": dash, "gen": g, "nest": nest}, "api": api,
                                                         "dest": "config", "classes": classes, "root": root}}
        # the legacy switch add_dest_to_option_strings=True: whatever generation mode is passed, BOTH is used
        if si in (3, 6, 7, 12):
            for dash in sp.ALL_DASH:
                for g in ("FLAT", "NESTED"):
                    for api, nest in (("parser", "DEFAULT"), ("parse", "OMIT")):
                        yield {"op": "naming.many", "case": {"cfg": {"dash": dash, "gen": g, "nest": nest}, "api": api, "legacy": True,
                                                             "dest": "config", "classes": classes, "root": root}}
        # an explicit prefix on the root dataclass (pref != "" branches of the model)
        if si in (3, 6, 12):
            for dash in sp.ALL_DASH:
                for g in sp.ALL_GEN:
                    yield {"op": "naming.many", "case": {"cfg": {"dash": dash, "gen": g, "nest": "WITHOUT_ROOT"}, "api": "parser",
                                                         "prefix": PREFIXES[si % 2], "dest": "config", "classes": classes, "root": root}}
    if tier == "thorough":
        yield from small_scope()
    n = 120 if tier == "quick" else 3000
    for _ in range(n):
        names = rng.sample(LEAF_NAMES, len(LEAF_NAMES))
        members = rng.sample(MEMBER_NAMES, len(MEMBER_NAMES))
        aliases = rng.sample(ALIASES, len(ALIASES))
        classes, root = mk_tree(rng, rng.choice([1, 2, 2, 3]), names, members, aliases)
        case = {"cfg": {"dash": rng.choice(sp.ALL_DASH), "gen": rng.choice(sp.ALL_GEN), "nest": rng.choice(NEST_ARGS)},
                "api": rng.choice(["parser", "parser", "parse"]), "dest": rng.choice(DEST_NAMES),
                "classes": classes, "root": root}
        r = rng.random()
        if r < 0.08:
            case["legacy"] = True
        elif r < 0.16:
            case["prefix"] = rng.choice(PREFIXES)
            al = {a for c in classes for f in c["fields"] for a in f.get("alias", [])}
            if {"-zz", "zz"} <= al:
                # not clash-free: with a prefix containing `_` both aliases get the dashed variant `--p-zz` under
                # UNDERSCORE_AND_DASH (the one-dash alias through the defect C10-short-alias-variant)
                del case["prefix"]
        yield {"op": "naming.many", "case": case}


# -----------------------------------------------------------------------------------------------


def leaves(case):
    """[(path components incl. dest, field spec)] for every int leaf, in declaration order (pure function of the case)."""
    cls = {c["name"]: c for c in case["classes"]}
    out = []

    def walk(cname, path):
        for f in cls[cname]["fields"]:
            if f["ty"]["k"] == "dc":
                walk(f["ty"]["cls"], path + [f["name"]])
            else:
                out.append((path + [f["name"]], f))

    walk(case["root"], [case["dest"]])
    return out


def eff_nest(case):
    """the nested mode the property speaks of: the one given; when the argument is omitted, the documented default of the
    API (parsing.py:1003-1048: parse() -> WITHOUT_ROOT; ArgumentParser -> DEFAULT)"""
    n = case["cfg"]["nest"]
    if n != "OMIT":
        return n
    return "WITHOUT_ROOT" if case["api"] == "parse" else "DEFAULT"


def eff_gen(case):
    """add_dest_to_option_strings (legacy switch, parsing.py:141-142) means BOTH"""
    return "BOTH" if case.get("legacy") else case["cfg"]["gen"]


def eff_cfg(case):
    return {"dash": case["cfg"]["dash"], "gen": eff_gen(case), "nest": eff_nest(case)}


def field_prefix(case, path):
    """an explicit add_arguments(prefix=) reaches the fields of the root dataclass only"""
    return case.get("prefix", "") if len(path) == 2 else ""


def expected_long(case, path, f):
    """Independent transcription of the property sentence: accepted long options of one field (None = the sentence is
    silent: a user-given prefix)."""
    if field_prefix(case, path):
        return None
    dash = case["cfg"]["dash"]
    g = eff_gen(case)
    names = []
    if g in ("FLAT", "BOTH"):
        names.append(f["name"])
    if g in ("NESTED", "BOTH"):
        comps = path[1:] if eff_nest(case) == "WITHOUT_ROOT" else path
        names.append(".".join(comps))
    out = set()
    for nm in names:
        if dash == "UNDERSCORE":
            out.add("--" + nm)
        elif dash == "DASH":
            out.add("--" + nm.replace("_", "-"))
        else:
            out |= {"--" + nm, "--" + nm.replace("_", "-")}
    for a in f.get("alias", []):
        # "plus every declared alias", with the dashes it was declared with (a dash-less alias is a long option unless it
        # is one letter); UNDERSCORE_AND_DASH "accepts both spellings for names and aliases": the declared one and the
        # one with dashes for underscores — the leading dashes are part of the declared spelling and stay
        k = 2 if a.startswith("--") else 1 if a.startswith("-") else 0
        decl = a if k else ("-" if len(a) == 1 else "--") + a
        spellings = {decl}
        if dash == "UNDERSCORE_AND_DASH":
            spellings.add(decl.replace("_", "-"))
        out |= {s for s in spellings if s.startswith("--")}
    return out


def _kwargs(case):
    kw = {"add_option_string_dash_variants": sp.DASH[case["cfg"]["dash"]],
          "argument_generation_mode": sp.GEN[case["cfg"]["gen"]]}
    if case["cfg"]["nest"] != "OMIT":
        kw["nested_mode"] = sp.NEST[case["cfg"]["nest"]]
    if case.get("legacy"):
        kw["add_dest_to_option_strings"] = True
    return kw


def _build(case):
    import simple_parsing

    u = Universe().add_classes(case["classes"])
    root = u.classes[case["root"]]
    sp.reset_globals()
    parser = simple_parsing.ArgumentParser(**_kwargs(case))
    parser.add_arguments(root, dest=case["dest"], prefix=case.get("prefix", ""))
    sp.decoy(eff_cfg(case))   # a later parser with other settings must not change this parser's spelling
    return parser, root


@contextlib.contextmanager
def _spy():
    """records the ArgumentParser objects parse() constructs (parse() looks the class up in its module at call time)"""
    import simple_parsing.parsing as P

    orig = P.ArgumentParser
    made = []

    class Spy(orig):
        def __init__(self, *a, **k):
            super().__init__(*a, **k)
            made.append(self)

    P.ArgumentParser = Spy
    try:
        yield made
    finally:
        P.ArgumentParser = orig


def _parse(case, argv, want_parser=False):
    import simple_parsing

    if case["api"] == "parse":
        u = Universe().add_classes(case["classes"])
        root = u.classes[case["root"]]
        sp.reset_globals()
        sp.decoy(eff_cfg(case))   # an earlier parser with other settings
        kw = _kwargs(case)
        if case.get("prefix"):
            kw["prefix"] = case["prefix"]
        with _spy() as made:
            r = sp.run_outcome(lambda: simple_parsing.parse(root, args=argv, dest=case["dest"], **kw))
        if r["o"] == "ok":
            r["inst"] = r.pop("value")
        if want_parser:
            r["parser"] = made[0] if made else None
        return r
    parser, _ = _build(case)
    r = sp.run_outcome(lambda: parser.parse_args(argv))
    if r["o"] == "ok":
        r["inst"] = getattr(r.pop("value"), case["dest"])
    if want_parser:
        r["parser"] = parser
    return r


def near_misses(expected: set[str]) -> set[str]:
    out = set()
    for e in expected:
        b = e[2:]
        out |= {"--" + b.replace("_", "-"), "--" + b.replace("-", "_"), "--cfgx." + b, "--" + b + "x", "--" + b.upper(),
                "--" + b.replace(".", "_"), "--" + b.replace(".", "-"), "-" + e}
        if "." in b:
            out.add("--" + b.split(".", 1)[1])
            out.add("--" + b.rsplit(".", 1)[1])
    out.discard("--")
    return out


def impl(case):
    c = case["case"]
    lv = leaves(c)

    # the parser whose actions are read: for parse() the one parse() itself constructs (empty command line)
    if c["api"] == "parse":
        r = _parse(c, [], want_parser=True)
        if r["o"] == "ok" and r.get("parser") is None:
            r = {"o": "raise", "exc": "NoParserConstructed"}
    else:
        def setup():
            parser, _ = _build(c)
            parser._preprocessing(args=[])
            return parser

        r = sp.run_outcome(setup)
        if r["o"] == "ok":
            r["parser"] = r.pop("value")
    if r["o"] != "ok":
        return {"setup": {k: v for k, v in r.items() if k not in ("value", "parser", "inst")}}
    parser = r["parser"]
    sets = []
    for path, f in lv:
        act = sp.action_for_dest(parser, ".".join(path))
        sets.append(sorted(set(act.option_strings)) if act is not None else None)
    all_real = sorted({o for a in parser._actions for o in a.option_strings})
    # probes: every real and every expected spelling, plus near misses
    probes = []
    defaults = {".".join(p[1:]): int(f["default"]["v"]["v"]) for p, f in lv}
    exp_all = set()
    per_field_exp = []
    for path, f in lv:
        e = expected_long(c, path, f)
        per_field_exp.append(e)
        exp_all |= e or set()
    cand = set()
    for s, e in zip(sets, per_field_exp):
        cand |= set(s or []) | (e or set())
    plan = [(o, "sep") for o in sorted(cand)]
    # the `--opt=value` form of one long spelling per field (the longest: never an abbreviation of another one of the field)
    for s in sets:
        longs = sorted((o for o in (s or []) if o.startswith("--") and len(o) > 2), key=lambda o: (len(o), o))
        if longs:
            plan.append((longs[-1], "eq"))
    # near-miss spellings: a deterministic, evenly spaced sample (each probe builds a fresh parser), alternating forms
    field_longs = {o for s in sets for o in (s or []) if o.startswith("--") and len(o) > 2}
    nm = sorted(near_misses(exp_all | field_longs) - cand - set(all_real))
    budget = 12
    nm = nm if len(nm) <= budget else nm[:: max(1, len(nm) // budget)][:budget]
    plan += [(o, "sep" if i % 3 else "eq") for i, o in enumerate(nm)]
    for opt, form in plan:
        if opt != "--" and any(o.startswith(opt) and o != opt for o in all_real):
            continue  # abbreviation of a valid option: out of scope ("abbreviations aside")
        res = _parse(c, [opt, "7"] if form == "sep" else [opt + "=7"])
        if res["o"] == "ok":
            changed = {}
            for p, dflt in defaults.items():
                v = get_path(res["inst"], p)
                if v != dflt:
                    changed[p] = v if isinstance(v, int) else repr(v)
            probes.append({"opt": opt, "form": form, "o": "ok", "changed": changed})
        else:
            probes.append({"opt": opt, "form": form, "o": res["o"], "code": res.get("code"), "kind": res.get("kind"), "exc": res.get("exc")})
    return {"sets": sets, "probes": probes}


def model_case(case, obs):
    c = case["case"]
    fws = []
    for path, f in leaves(c):
        fws.append({"name": f["name"], "prefix": field_prefix(c, path), "dest": ".".join(path), "aliases": f.get("alias", []),
                    "positional": False})
    return {"cfg": eff_cfg(c), "fws": fws}


def project(case, obs):
    if "setup" in obs:
        return {"setup": obs["setup"]["o"]}
    return {"sets": obs["sets"]}


def oracle(case, obs):
    c = case["case"]
    fails = []
    if "setup" in obs:
        return [{"clause": "setup", "detail": f"clash-free tree failed to set up: {obs['setup']}"}]
    lv = leaves(c)
    owner = {}
    meta = {}
    for (path, f), s in zip(lv, obs["sets"]):
        key = ".".join(path[1:])
        if s is None:
            fails.append({"clause": "exact-set", "field": key, "leaf": f["name"], "detail": f"no action for {key}"})
            continue
        meta[key] = {"leaf": f["name"], "opts": list(s)}
        if "--" in s:
            # the bare `--` is argparse's separator; it is no spelling of anything
            fails.append({"clause": "separator-option", "field": key, "leaf": f["name"], "opts": list(s),
                          "detail": f"{key}: the bare separator '--' is registered as an option string: {s}"})
        real_long = {o for o in s if o.startswith("--") and o != "--"}
        exp = expected_long(c, path, f)
        if exp is not None and real_long != exp:
            fails.append({"clause": "exact-set", "field": key, "leaf": f["name"], "opts": list(s),
                          "extra": sorted(real_long - exp), "missing": sorted(exp - real_long), "aliases": list(f.get("alias", [])),
                          "detail": f"{key}: accepted long options {sorted(real_long)}, the rule says {sorted(exp)} "
                                    f"(cfg {c['cfg']}, api {c['api']}, legacy {bool(c.get('legacy'))})"})
        for o in s:
            owner[o] = key
        for o in exp or ():
            owner.setdefault(o, key)
    for p in obs["probes"]:
        o = p["opt"]
        if o in owner:
            if p["o"] != "ok" or p["changed"] != {owner[o]: 7}:
                fails.append({"clause": "same-field", "field": owner[o], "opt": o, **meta.get(owner[o], {}),
                              "detail": f"[{o} 7] ({p.get('form')}) should set exactly {owner[o]}: got {p}"})
        else:
            if not (p["o"] == "exit" and p["code"] == 2):
                fails.append({"clause": "nothing-else", "opt": o,
                              "detail": f"spelling {o} ({p.get('form')}) is not allowed by the rule but was not rejected: {p}"})
    return fails


def nontrivial(case, obs):
    c = case["case"]
    lv = leaves(c)
    return len(lv) >= 2 and (any(len(p) > 2 for p, _ in lv) or any(f.get("alias") or "_" in f["name"] for _, f in lv))


def _alias_kind(a):
    if a.startswith("--"):
        return "2dash"
    if a.startswith("-"):
        return "1dash" if len(a) == 2 else "1dash-multi"
    return "0dash" if len(a) > 1 else "0dash-oneletter"


def tags(case, obs):
    c = case["case"]
    lv = leaves(c)
    t = [f"dash:{c['cfg']['dash']}", f"gen:{c['cfg']['gen']}", f"nest:{eff_nest(c)}", f"nestarg:{c['cfg']['nest']}", f"api:{c['api']}",
         f"depth:{max(len(p) for p, _ in lv) - 1}", f"fields:{len(lv)}", f"dest:{c['dest']}"]
    if c.get("legacy"):
        t.append("legacy_add_dest")
    if c.get("prefix"):
        t.append(f"prefix:{c['prefix']}")
    kinds = {_alias_kind(a) for _, f in lv for a in f.get("alias", [])}
    t += [f"alias:{k}" for k in sorted(kinds)] or ["alias:none"]
    if any("_" in a for _, f in lv for a in f.get("alias", [])):
        t.append("underscore:alias")
    if any(len(f["name"]) == 1 for _, f in lv):
        t.append("oneletter")
    if any("_" in f["name"] for _, f in lv):
        t.append("underscore:name")
    if any("_" in m for p, _ in lv for m in p[1:-1]):
        t.append("underscore:member")
    if "_" in c["dest"]:
        t.append("underscore:dest")
    if "probes" in obs:
        t.append(f"probes:{len(obs['probes']) // 10 * 10}+")
        t.append(f"eqprobes:{sum(1 for p in obs['probes'] if p.get('form') == 'eq')}")
        t.append("rejected-nearmiss:%d" % sum(1 for p in obs["probes"] if p["o"] == "exit"))
    return t


def shrink(case):
    c = case["case"]
    for k in ("legacy", "prefix"):
        if c.get(k):
            yield {"op": case["op"], "case": {kk: v for kk, v in c.items() if kk != k}}
    # drop a field anywhere
    for ci, cl in enumerate(c["classes"]):
        for fi in range(len(cl["fields"])):
            if len(cl["fields"]) <= 1:
                continue
            nc = [dict(x, fields=list(x["fields"])) for x in c["classes"]]
            del nc[ci]["fields"][fi]
            used = {f["ty"]["cls"] for x in nc for f in x["fields"] if f["ty"]["k"] == "dc"} | {c["root"]}
            nc = [x for x in nc if x["name"] in used]
            yield {"op": case["op"], "case": dict(c, classes=nc)}
    for ci, cl in enumerate(c["classes"]):
        for fi, f in enumerate(cl["fields"]):
            if f.get("alias"):
                nc = [dict(x, fields=[dict(y) for y in x["fields"]]) for x in c["classes"]]
                nc[ci]["fields"][fi]["alias"] = []
                yield {"op": case["op"], "case": dict(c, classes=nc)}
                if len(f["alias"]) > 1:
                    for a in f["alias"]:
                        nc = [dict(x, fields=[dict(y) for y in x["fields"]]) for x in c["classes"]]
                        nc[ci]["fields"][fi]["alias"] = [a]
                        yield {"op": case["op"], "case": dict(c, classes=nc)}


def _short_alias_variants(fail):
    """the two-dash dashed variants the code derives from ONE-dash aliases that contain an underscore"""
    out = set()
    for a in fail.get("aliases", []):
        if a.startswith("-") and not a.startswith("--") and "_" in a[1:]:
            out.add("--" + a[1:].replace("_", "-"))
    return out


FINDINGS = {
    # a leaf literally named `_` whose real option strings contain the bare separator `--` (DASH: ['--','---'];
    # UNDERSCORE_AND_DASH: ['-_','--','--_']): the separator clause itself, the long-option set of that leaf, and the dead
    # spelling `--` (and, under UNDERSCORE_AND_DASH, the missing dashed long spelling `---`) not setting the field
    "C10-separator-option": lambda case, obs, fail: (
        fail.get("leaf") == "_" and "--" in fail.get("opts", [])
        and (fail.get("clause") == "separator-option"
             or (fail.get("clause") == "exact-set" and not fail.get("extra") and set(fail.get("missing", [])) <= {"---"})
             or (fail.get("clause") == "same-field" and fail.get("opt") in ("--", "---")))),
    # UNDERSCORE_AND_DASH, a one-dash alias with an underscore (`-v_w`): the ONLY deviation of the field's long options is
    # the extra two-dash variant `--v-w`
    "C10-short-alias-variant": lambda case, obs, fail: (
        fail.get("clause") == "exact-set" and case["case"]["cfg"]["dash"] == "UNDERSCORE_AND_DASH"
        and not fail.get("missing") and bool(fail.get("extra")) and set(fail["extra"]) <= _short_alias_variants(fail)),
}
