"""C14 — loading through a base class recovers the right subclass or exactly the base."""
from __future__ import annotations

import importlib.util
import itertools
import os
import shutil
import sys
import tempfile
import warnings

from harness.core import sp

PID = "C14"
RULE = ("a case = a class table in DEFINITION ORDER (1-3 hierarchies of depth <= 3 / branching <= 3 whose field-name sets are "
        "nested, overlapping or identical between siblings and parents, in 3 layers so that fields annotated C, Optional[C], "
        "List[C], Dict[str,C] reference lower layers; written as a real module into a per-case temp dir) + an instance tree + "
        "the class it is loaded through + drop_extra_fields in {None,True,False} + save_dc_types; the same table is replayed in "
        "several shuffled definition orders; a history stream defines a prefix of the table, performs real loads through the "
        "classes defined so far, then defines the remaining classes (late siblings / grandchildren) in the same module and loads "
        "an instance of a late class through the early base; a further stream loads edited dicts (missing/unknown keys, foreign or unresolvable "
        "_type_, non-ancestor load class). Non-trivial = loaded through a strict ancestor in a family of >= 3 classes, or an "
        "instance with a nested dataclass node; distinct by canonical JSON of the case.")
ASSUMPTIONS = [
    "not generated / not modelled: mixin (multiple) inheritance where the base's fields are not a prefix of the subclass's "
    "(class M1(M0, Mix) works in the real code; the theorems' `Derived.names` excludes it); function-local classes with "
    "save_dc_types (to_dict writes no _type_ for them, serializable.py:731, so they fall back to field-set matching)",
    "`dict-unchanged` (from_dict leaves the caller's dict alone) is demanded although the property text does not state it; it is "
    "what makes clause 4 hold for every later load of the same dict",
    "loading through `Serializable` itself: candidates outside the class table (simple_parsing's own subclasses) are assumed not "
    "to have every key of the dict; the adapter collects garbage first and reports any such class (tag foreign-candidate)",
    "iteration order of the set returned by all_subclasses() is read from the running interpreter and passed to the model as the "
    "permutation pi (the theorems quantify over every pi)",
    "dataclasses: field inheritance order, __init__ keyword handling, __eq__; importlib resolves a module registered in sys.modules",
    "field values of the modelled fragment are ints / None / instances / lists / str-keyed dicts",
]
TRUSTED = ["dataclasses and importlib (stdlib)", "Python set iteration order as an uninterpreted permutation"]
EXHAUSTIVE = {"quick": False, "thorough": False}
THOROUGH_ROUNDS = 5   # thorough tier: this many generator passes with derived PRNG states (vcheck)

FIELD_POOL = ["a", "b", "c", "x", "y", "z", "u", "w"]

# ------------------------------------------------------------------------------------------------
# spec helpers (the harness's own reading of a class table; never calls simple_parsing)


def by_name(classes):
    return {c["name"]: c for c in classes}


def ancestors(classes, name):
    m = by_name(classes)
    out = []
    cur = m[name]["parent"]
    while cur is not None:
        out.append(cur)
        cur = m[cur]["parent"]
    return out


def all_fields(classes, name):
    chain = [name] + ancestors(classes, name)
    m = by_name(classes)
    out = []
    for n in reversed(chain):       # dataclasses: an inherited field that is redeclared keeps its position, new ones are appended
        for f in m[n]["fields"]:
            idx = [i for i, g in enumerate(out) if g["name"] == f["name"]]
            if idx:
                out[idx[0]] = f
            else:
                out.append(f)
    return out


def field_names(classes, name):
    return [f["name"] for f in all_fields(classes, name)]


def strict_desc(classes, name):
    return [c["name"] for c in classes if name in ancestors(classes, c["name"])]


def family(classes, name):
    return [name] + strict_desc(classes, name)


def eff_dis(classes, name):
    m = by_name(classes)
    cur = name
    while cur is not None:
        if m[cur]["dis"] is not None:
            return bool(m[cur]["dis"])
        cur = m[cur]["parent"]
    return False


def default_val(classes, f):
    d = f["default"]
    k = d["kind"]
    if k == "missing":
        return None
    if k == "int":
        return {"t": "int", "v": str(d["v"])}
    if k == "none":
        return {"t": "none"}
    if k == "list":
        return {"t": "list", "v": []}
    if k == "dict":
        return {"t": "dict", "v": []}
    if k == "factory":
        return default_inst(classes, f["ty"]["cls"])
    raise ValueError(k)


def default_inst(classes, name):
    return {"t": "inst", "cls": name, "v": [[f["name"], default_val(classes, f)] for f in all_fields(classes, name)]}


def all_default(classes, name):
    return all(f["default"]["kind"] != "missing" for f in all_fields(classes, name))


# ------------------------------------------------------------------------------------------------
# generators


def gen_tree(rng, prefix, lower, allow_nested):
    """one hierarchy: list of class dicts in tree (BFS) order; `lower` = names of classes of lower layers"""
    classes = []
    depth = rng.choice([1, 2, 2, 3, 3])
    root_dis = rng.choice([True, True, True, None, False])
    pool = list(FIELD_POOL)
    rng.shuffle(pool)
    pool = pool[: rng.choice([3, 4, 5, 6])]

    def mk_field(name, required_ok):
        if name in TYPES:   # one annotation per field name in a table (siblings may share names, never with other types)
            f = dict(TYPES[name])
            if f["default"]["kind"] == "missing" and not required_ok:
                f["default"] = {"kind": "int", "v": rng.randrange(0, 9)}
            return f
        f = mk_field_new(name, required_ok)
        TYPES[name] = f
        return f

    def mk_field_new(name, required_ok):
        r = rng.random()
        if FORCE_NESTED[0]:
            r, FORCE_NESTED[0] = 0.0, False
        if allow_nested and lower and r < 0.35:
            c = rng.choice(lower)
            k = rng.choice(["dc", "dc", "opt", "list", "dict"])
            if k == "dc":
                dflt = {"kind": "factory"} if (all_default(ALL[0], c) and rng.random() < 0.7) else {"kind": "none"}
            else:
                dflt = {"kind": {"opt": "none", "list": "list", "dict": "dict"}[k]}
            return {"name": name, "init": True, "ty": {"k": k, "cls": c}, "default": dflt}
        if required_ok and r > 0.85:
            return {"name": name, "init": True, "ty": {"k": "int"}, "default": {"kind": "missing"}}
        init = rng.random() > 0.12
        return {"name": name, "init": init, "ty": {"k": "int"}, "default": {"kind": "int", "v": rng.randrange(0, 9)}}

    def own_fields(inherited, n, required_ok):
        out = []
        for _ in range(n):
            free = [p for p in pool if p not in inherited and p not in [o["name"] for o in out]]
            if not free:
                break
            f = mk_field(rng.choice(free), required_ok and not out)
            out.append(f)
        return out

    FORCE_NESTED[0] = bool(allow_nested and lower and rng.random() < 0.8)
    frozen = rng.random() < 0.12      # the whole hierarchy is @dataclass(frozen=True) on FrozenSerializable
    n_root = rng.choice([0, 1, 1, 1, 2, 2]) if not FORCE_NESTED[0] else rng.choice([1, 1, 2])   # 0: abstract base `pass`
    root = {"name": f"{prefix}0", "parent": None, "dis": root_dis, "fields": own_fields([], n_root, True)}
    if frozen:
        root["frozen"] = True
    classes.append(root)
    ALL[0] = ALL[0] + [root]
    level = [root]
    for _ in range(depth):
        nxt = []
        for p in level:
            nb = rng.choice([0, 1, 2, 2, 3]) if p is not root else rng.choice([1, 2, 3, 3])
            sibs = []
            for _ in range(nb):
                if len(classes) >= 9:
                    break
                inh = [f["name"] for f in all_fields(ALL[0], p["name"])]
                mode = rng.random()
                if sibs and mode < 0.25:   # identical to a sibling …
                    src = rng.choice(sibs)
                    own = [dict(f) for f in src["fields"]]
                    free = [q for q in pool if q not in inh and q not in [o["name"] for o in own] and q not in TYPES]
                    if free and rng.random() < 0.3:   # … plus one init=False field (same number of INIT fields, one more field)
                        nf = {"name": rng.choice(free), "init": False, "ty": {"k": "int"},
                              "default": {"kind": "int", "v": rng.randrange(0, 9)}}
                        TYPES[nf["name"]] = nf
                        own.append(nf)
                elif sibs and mode < 0.33:   # a sibling's fields, some taken as init=False instead of through __init__, plus
                    # extra init=False fields: FEWER __init__ arguments but MORE fields than that sibling (guards 8845ab5:
                    # candidates are ordered by their number of fields, not of init fields)
                    src = rng.choice(sibs)
                    own = [dict(f) for f in src["fields"]]
                    flip = [f for f in own if f["ty"]["k"] == "int" and f["init"]]
                    for f in (rng.sample(flip, rng.randrange(1, len(flip) + 1)) if flip else []):
                        f["init"] = False
                        if f["default"]["kind"] == "missing":
                            f["default"] = {"kind": "int", "v": rng.randrange(0, 9)}
                    free = [q for q in pool if q not in inh and q not in [o["name"] for o in own] and q not in TYPES]
                    for q in free[: rng.choice([1, 2, 2])]:
                        nf = {"name": q, "init": False, "ty": {"k": "int"}, "default": {"kind": "int", "v": rng.randrange(0, 9)}}
                        TYPES[q] = nf
                        own.append(nf)
                elif mode < 0.40:          # identical to the parent
                    own = []
                else:
                    own = own_fields(inh, rng.choice([1, 1, 2]), False)
                    inh_f = [f for f in all_fields(ALL[0], p["name"]) if f["ty"]["k"] == "int" and f["default"]["kind"] == "int"]
                    if inh_f and rng.random() < 0.12:   # REDECLARE an inherited field (new default), before or after the new ones
                        g = dict(rng.choice(inh_f), default={"kind": "int", "v": rng.randrange(10, 19)})
                        own.insert(rng.randrange(len(own) + 1), g)
                dis = None if rng.random() < 0.85 else rng.choice([True, False])
                c = {"name": f"{prefix}{len(classes)}", "parent": p["name"], "dis": dis, "fields": own}
                if frozen:
                    c["frozen"] = True
                classes.append(c)
                ALL[0] = ALL[0] + [c]
                sibs.append(c)
                nxt.append(c)
        level = nxt
    return classes


ALL = [[]]  # scratch accumulator used while generating one table
TYPES = {}
FORCE_NESTED = [False]


def gen_table(rng):
    ALL[0] = []
    TYPES.clear()
    layers = rng.choice([1, 1, 2, 2, 3])
    lower = []
    for li in range(layers):
        t = gen_tree(rng, "KLM"[li], lower, allow_nested=li > 0)
        lower = lower + [c["name"] for c in t]
    return ALL[0]


def shuffle_definition_order(rng, classes):
    """a random linear extension of: parent before child, referenced class before the class whose field names it"""
    m = by_name(classes)
    deps = {}
    for c in classes:
        d = set()
        if c["parent"]:
            d.add(c["parent"])
        for f in c["fields"]:
            if "cls" in f["ty"]:
                d.add(f["ty"]["cls"])
        deps[c["name"]] = d
    done, out = set(), []
    remaining = [c["name"] for c in classes]
    while remaining:
        ready = [n for n in remaining if deps[n] <= done]
        n = rng.choice(ready)
        out.append(m[n])
        done.add(n)
        remaining.remove(n)
    return out


def gen_value(rng, classes, f, depth):
    ty = f["ty"]
    k = ty["k"]
    if k == "int":
        return {"t": "int", "v": str(rng.randrange(-3, 40))}
    c = ty["cls"]
    if k == "dc":
        if rng.random() < 0.1:
            return {"t": "none"}
        return gen_inst(rng, classes, rng.choice(family(classes, c)), depth + 1)
    if k == "opt":
        if rng.random() < 0.3:
            return {"t": "none"}
        return gen_inst(rng, classes, rng.choice(family(classes, c)), depth + 1)
    if k == "list":
        return {"t": "list", "v": [gen_inst(rng, classes, rng.choice(family(classes, c)), depth + 1)
                                   for _ in range(rng.choice([0, 1, 1, 2]))]}
    if k == "dict":
        return {"t": "dict", "v": [[{"t": "str", "v": f"k{i}"}, gen_inst(rng, classes, rng.choice(family(classes, c)), depth + 1)]
                                   for i in range(rng.choice([0, 1, 1, 2]))]}
    raise ValueError(k)


def gen_inst(rng, classes, name, depth=0):
    return {"t": "inst", "cls": name, "v": [[f["name"], gen_value(rng, classes, f, depth)] for f in all_fields(classes, name)]}


def plain(v):
    """cv tree of an instance -> the serialized dict it should have without save_dc_types (for the edited-dict stream)"""
    t = v["t"]
    if t == "int":
        return {"j": "int", "v": int(v["v"])}
    if t == "none":
        return {"j": "null"}
    if t == "list":
        return {"j": "arr", "v": [plain(x) for x in v["v"]]}
    if t == "dict":
        return {"j": "obj", "v": [[k["v"], plain(x)] for k, x in v["v"]]}
    if t == "inst":
        return {"j": "obj", "v": [[k, plain(x)] for k, x in v["v"]]}
    raise ValueError(t)


def gen_history(rng, table):
    """process history: part of the table is defined, loads happen, the rest (containing the class of the instance under
    test: a late sibling or grandchild) is defined afterwards in the same module, then the load under test"""
    bases = [c["name"] for c in table if strict_desc(table, c["name"])]
    if not bases:
        return None
    base = rng.choice([b for b in bases if by_name(table)[b]["parent"] is None] * 2 + bases)
    dcls = rng.choice(strict_desc(table, base))
    order = shuffle_definition_order(rng, table)
    names = [c["name"] for c in order]
    lo, hi = names.index(base) + 1, names.index(dcls)
    split = hi if rng.random() < 0.5 else rng.randrange(lo, hi + 1)
    early = names[:split]
    warm = [{"through": base, "kind": "unknown-key"}]
    early_desc = [n for n in strict_desc(table, base) if n in early]
    if early_desc:
        warm.append({"through": base, "kind": "instance", "inst": gen_inst(rng, order[:split], rng.choice(early_desc))})
    for n in early:
        if n != base and rng.random() < 0.3:
            warm.append({"through": n, "kind": "unknown-key"})
    return {"op": "sub.history", "case": {"classes": order, "split": split, "warm": warm, "base": base,
                                          "inst": gen_inst(rng, table, dcls), "drop": rng.choice([None, None, False, False, True]),
                                          "save": rng.random() < 0.15}}


def gen(rng, tier):
    n_tables = 150 if tier == "quick" else 2000   # per generator pass (thorough: THOROUGH_ROUNDS passes)
    for _ in range(n_tables):
        table = gen_table(rng)
        yield {"op": "sub.resolve", "case": {"classes": shuffle_definition_order(rng, table)}}
        roots = [c["name"] for c in table]
        for _ in range(3):
            # the class we load through, and the (derived) class of the instance
            tops = [c["name"] for c in table if c["parent"] is None]
            nonleaf = [c["name"] for c in table if strict_desc(table, c["name"])]
            base = rng.choice([tops[-1]] * 4 + tops * 2 + nonleaf * 3 + roots)
            fam = family(table, base)
            dcls = rng.choice(fam[1:] * 3 + fam) if len(fam) > 1 else base
            inst = gen_inst(rng, table, dcls)
            drop = rng.choice([None, None, True, False, False])
            save = rng.random() < 0.35
            for _ in range(2):  # same content, two definition orders
                yield {"op": "sub.load", "case": {"classes": shuffle_definition_order(rng, table), "base": base, "inst": inst,
                                                  "drop": drop, "save": save}}
        # loading through `Serializable` itself ("find the right class from the keys"): the table lists it as the parent
        # of its non-frozen roots
        plain_classes = [c["name"] for c in table if not c.get("frozen")]
        if plain_classes and rng.random() < 0.6:
            mtable = [{"name": "Serializable", "parent": None, "dis": None, "fields": [], "mixin": True}] + [
                dict(c, parent="Serializable") if (c["parent"] is None and not c.get("frozen")) else c for c in table]
            for _ in range(2):
                yield {"op": "sub.load", "case": {"classes": shuffle_definition_order(rng, mtable), "base": "Serializable",
                                                  "inst": gen_inst(rng, mtable, rng.choice(plain_classes)),
                                                  "drop": rng.choice([None, None, False, True]), "save": rng.random() < 0.2}}
        # process history: classes defined after earlier loads
        for _ in range(2):
            h = gen_history(rng, table)
            if h is not None:
                yield h
        # edited dicts
        for _ in range(2):
            base = rng.choice(roots)
            dcls = rng.choice(roots) if rng.random() < 0.25 else rng.choice(family(table, base))
            d = plain(gen_inst(rng, table, dcls))
            e = rng.random()
            kv = d["v"]
            if e < 0.25 and kv:
                kv.pop(rng.randrange(len(kv)))
            elif e < 0.45:
                kv.insert(rng.randrange(len(kv) + 1), [rng.choice(["zz", "q"] + FIELD_POOL), {"j": "int", "v": 7}])
                seen = set()
                d["v"] = kv = [p for p in kv if not (p[0] in seen or seen.add(p[0]))]
            elif e < 0.6:
                kv.insert(0, ["_type_", {"j": "str", "v": rng.choice(roots)}])
            elif e < 0.7:
                kv.append(["_type_", {"j": "str", "v": "spverif_no_such_module.X"}])
            elif e < 0.8 and len(kv) > 1:
                keep = rng.randrange(1, len(kv))
                d["v"] = kv[:keep]
            yield {"op": "sub.loaddict", "case": {"classes": shuffle_definition_order(rng, table), "base": base, "dict": d,
                                                  "drop": rng.choice([None, True, False])}}


# ------------------------------------------------------------------------------------------------
# real code

_COUNTER = itertools.count()


def _source(classes, header=True):
    lines = ["from dataclasses import dataclass, field", "from typing import Dict, List, Optional",
             "from simple_parsing.helpers import FrozenSerializable, Serializable", "", ""] if header else []
    for c in classes:
        if c.get("mixin"):      # the entry stands for simple_parsing's own `Serializable`
            continue
        bases = c["parent"] or ("FrozenSerializable" if c.get("frozen") else "Serializable")
        kw = "" if c["dis"] is None else f", decode_into_subclasses={c['dis']}"
        lines.append("@dataclass(frozen=True)" if c.get("frozen") else "@dataclass")
        lines.append(f"class {c['name']}({bases}{kw}):")
        if not c["fields"]:
            lines.append("    pass")
        for f in c["fields"]:
            ty, d = f["ty"], f["default"]
            ann = {"int": "int", "dc": "{c}", "opt": "Optional[{c}]", "list": "List[{c}]", "dict": "Dict[str, {c}]"}[ty["k"]]
            ann = ann.format(c=ty.get("cls"))
            k = d["kind"]
            args = []
            if k == "int":
                args.append(f"default={d['v']}")
            elif k == "none":
                args.append("default=None")
            elif k == "list":
                args.append("default_factory=list")
            elif k == "dict":
                args.append("default_factory=dict")
            elif k == "factory":
                args.append(f"default_factory={ty['cls']}")
            if not f["init"]:
                args.append("init=False")
            lines.append(f"    {f['name']}: {ann}" + (f" = field({', '.join(args)})" if args else ""))
        lines.append("")
        lines.append("")
    return "\n".join(lines)


class _World:
    """the class table as REAL classes in a fresh uniquely-named module (so `_type_` paths resolve through import)"""

    def __init__(self, classes, first=None):
        """`first`: define only classes[:first] now; the rest later with define_rest() (same module, same process)"""
        self._later = [] if first is None else classes[first:]
        classes = classes if first is None else classes[:first]
        self.dir = tempfile.mkdtemp(prefix=f"spverif_c14.{os.getpid()}.", dir=os.environ.get("TMPDIR", "/tmp"))
        self.modname = f"spverif_c14_{os.getpid()}_{next(_COUNTER)}"
        path = os.path.join(self.dir, self.modname + ".py")
        with open(path, "w") as fh:
            fh.write(_source(classes))
        spec = importlib.util.spec_from_file_location(self.modname, path)
        mod = importlib.util.module_from_spec(spec)
        sys.modules[self.modname] = mod
        old = sys.dont_write_bytecode
        sys.dont_write_bytecode = True
        try:
            spec.loader.exec_module(mod)
        finally:
            sys.dont_write_bytecode = old
        self.mod = mod
        self.cls = {c["name"]: getattr(mod, "Serializable" if c.get("mixin") else c["name"]) for c in classes}
        self.mixin = next((c["name"] for c in classes if c.get("mixin")), None)

    def define_rest(self):
        """process history: further class statements executed in the SAME module after loads have already happened"""
        if not self._later:
            return
        path = os.path.join(self.dir, self.modname + "_later.py")
        src = _source(self._later, header=False)
        with open(path, "w") as fh:
            fh.write(src)
        exec(compile(src, path, "exec"), self.mod.__dict__)
        for c in self._later:
            self.cls[c["name"]] = getattr(self.mod, c["name"])
        self._later = []

    def _forget(self):
        """isolation between cases: take this case's classes out of the library's process-wide registries again
        (SerializableMixin.subclasses, the decoding table, the `encode` singledispatch registry). Without this every later
        class definition / first encode of a type scans all classes of all earlier cases (quadratic run time)."""
        mine = {k for n, k in self.cls.items() if n != self.mixin}
        try:
            from simple_parsing.helpers.serialization import decoding, encoding
            from simple_parsing.helpers.serialization.serializable import SerializableMixin

            SerializableMixin.subclasses[:] = [k for k in SerializableMixin.subclasses if k not in mine]
            for k in mine:
                decoding._decoding_fns.pop(k, None)
            for cell in encoding.encode.register.__closure__ or ():
                reg = cell.cell_contents
                if isinstance(reg, dict) and object in reg:
                    for k in mine:
                        reg.pop(k, None)
            encoding.encode._clear_cache()
        except Exception:  # registries shaped differently: nothing to restore
            pass

    def close(self):
        self._forget()
        sys.modules.pop(self.modname, None)
        shutil.rmtree(self.dir, ignore_errors=True)

    def build(self, v):
        t = v["t"]
        if t == "int":
            return int(v["v"])
        if t == "none":
            return None
        if t == "list":
            return [self.build(x) for x in v["v"]]
        if t == "dict":
            return {k["v"]: self.build(x) for k, x in v["v"]}
        if t == "inst":
            import dataclasses

            C = self.cls[v["cls"]]
            init = {f.name for f in dataclasses.fields(C) if f.init}
            vals = {k: self.build(x) for k, x in v["v"]}
            obj = C(**{k: x for k, x in vals.items() if k in init})
            for k, x in vals.items():
                if k not in init:
                    object.__setattr__(obj, k, x)   # (also for frozen dataclasses)
            return obj
        raise ValueError(t)

    def raw(self, j):
        t = j["j"]
        if t == "int":
            return j["v"]
        if t == "str":
            return j["v"]
        if t == "null":
            return None
        if t == "arr":
            return [self.raw(x) for x in j["v"]]
        if t == "obj":
            out = {}
            for k, x in j["v"]:
                val = self.raw(x)
                if k == "_type_" and isinstance(val, str) and val in self.cls:
                    val = f"{self.modname}.{val}"
                out[k] = val
            return out
        raise ValueError(t)

    def canon_dict(self, d):
        if isinstance(d, dict):
            out = {}
            for k, v in d.items():
                if k == "_type_" and isinstance(v, str) and v.startswith(self.modname + "."):
                    v = v[len(self.modname) + 1:]
                out[k] = self.canon_dict(v)
            return out
        if isinstance(d, (list, tuple)):
            return [self.canon_dict(x) for x in d]
        return d

    def resolve_rows(self, classes):
        import dataclasses

        from simple_parsing.helpers.serialization.serializable import get_init_fields
        from simple_parsing.utils import all_subclasses

        rows, pi = [], {}
        table = set(self.cls.values())
        for c in classes:
            C = self.cls[c["name"]]
            # (`Serializable` itself also has subclasses outside the table: simple_parsing's own; they are not candidates of
            # the model and are counted in `foreign`)
            order = [s.__name__ for s in all_subclasses(C) if s in table or c["name"] != self.mixin]
            pi[c["name"]] = order
            rows.append({"name": c["name"], "fields": [f.name for f in dataclasses.fields(C)],
                         "init": list(get_init_fields(C).keys()), "dis": C.decode_into_subclasses, "desc": sorted(order)})
        return rows, pi


def _strip_mod(v):
    """module-qualified `_type_` strings inside undecoded raw dicts -> bare class names (as in the case / the model)"""
    if isinstance(v, dict):
        if v.get("t") == "str" and isinstance(v.get("v"), str) and v["v"].startswith("spverif_c14_") and "." in v["v"]:
            return {"t": "str", "v": v["v"].split(".", 1)[1]}
        return {k: _strip_mod(x) for k, x in v.items()}
    if isinstance(v, list):
        return [_strip_mod(x) for x in v]
    return v


def _outcome(fn):
    with warnings.catch_warnings():
        warnings.simplefilter("ignore")
        r = sp.run_outcome(fn)
    if r["o"] == "ok":
        return {"o": "ok", "v": _strip_mod(sp.cv(r["value"]))}, r["value"]
    if r["o"] == "raise":
        return {"o": "raise", "exc": r["exc"]}, None
    return {"o": "exit", "code": r.get("code")}, None


def _reload_drops(c):
    """every load of one serialized form must obey the property: with save_dc_types the SAME dict object is loaded again
    with the two other values of drop_extra_fields, otherwise once more with the same value"""
    if c["save"]:
        return [v for v in (None, True, False) if v != c["drop"]]
    return [c["drop"]]


def _purge():
    """drop the classes of earlier cases for good (typing's caches, cyclic garbage) so that the live subclass set of
    `Serializable` — and with it the set's iteration order — is the same when it is observed and when it is used"""
    import gc
    import typing

    for clear in getattr(typing, "_cleanups", []):
        clear()
    gc.collect()


def _foreign_candidates(w, d):
    """loading through `Serializable` itself considers EVERY live Serializable subclass of the process. Classes of earlier
    cases are unreachable by now (registries restored, modules dropped) but may await garbage collection or sit in typing's
    caches; collect them, then name the live classes outside the table that have every key of the dict (none expected)"""
    import dataclasses

    from simple_parsing.utils import all_subclasses

    table = set(w.cls.values())
    keys = {k for k in d if k != "_type_"}
    if not keys:
        return []
    return sorted(k.__name__ for k in all_subclasses(w.cls[w.mixin]) if k not in table and dataclasses.is_dataclass(k)
                  and keys <= {f.name for f in dataclasses.fields(k)})


def _load_repeatedly(w, c, orig):
    """to_dict once; snapshot; load the same dict object 2-3 times; after each load compare the dict with the snapshot"""
    import copy

    Base = w.cls[c["base"]]
    d = orig.to_dict(save_dc_types=c["save"])
    snap = w.canon_dict(copy.deepcopy(d))
    foreign = _foreign_candidates(w, d) if c["base"] == w.mixin else []
    out, val = _outcome(lambda: Base.from_dict(d, drop_extra_fields=c["drop"]))
    obs = {"dict": snap, "out": out, "orig_ok": sp.cv(orig) == c["inst"], "dict_unchanged": w.canon_dict(d) == snap}
    if not obs["dict_unchanged"]:
        obs["dict_after"] = w.canon_dict(copy.deepcopy(d))
    if val is not None:
        obs["equal"] = bool(val == orig)
        obs["same_type"] = type(val) is type(orig)
    if foreign:
        obs["foreign"] = foreign
    obs["reloads"] = []
    for dr in _reload_drops(c):
        o2, v2 = _outcome(lambda: Base.from_dict(d, drop_extra_fields=dr))
        # (observations are kept small: a later load that gives what the first one gave is recorded as such)
        obs["reloads"].append({"drop": dr, "out": "same-as-first" if o2 == out else o2,
                               "dict_unchanged": w.canon_dict(d) == snap,
                               "equal": bool(v2 == orig) if v2 is not None else None})
    return obs


def impl(case):
    import logging

    logging.getLogger("simple_parsing").setLevel(logging.CRITICAL)
    op, c = case["op"], case["case"]
    if op == "sub.history":
        return _impl_history(c)
    if any(x.get("mixin") for x in c["classes"]):
        _purge()
    w = _World(c["classes"])
    try:
        rows, pi = w.resolve_rows(c["classes"])
        if op == "sub.resolve":
            return {"rows": rows}
        Base = w.cls[c["base"]]
        if op == "sub.load":
            obs = _load_repeatedly(w, c, w.build(c["inst"]))
            obs.update(pi={k: v for k, v in pi.items() if v})
            return obs
        if op == "sub.loaddict":
            d = w.raw(c["dict"])
            out, _ = _outcome(lambda: Base.from_dict(d, drop_extra_fields=c["drop"]))
            return {"pi": {k: v for k, v in pi.items() if v}, "out": out}
        raise ValueError(op)
    finally:
        w.close()


def _impl_history(c):
    """define classes[:split]; perform real loads through every class defined so far (the harness itself never calls
    all_subclasses before the final load); define the remaining classes in the same module; then the load under test"""
    w = _World(c["classes"], first=c["split"])
    try:
        early = c["classes"][: c["split"]]
        warm = []
        for cl in early:
            C = w.cls[cl["name"]]
            for wd in c["warm"]:
                if wd["through"] != cl["name"]:
                    continue
                if wd["kind"] == "unknown-key":
                    fn = lambda C=C: C.from_dict({"zz_warm": 0}, drop_extra_fields=False)  # noqa: E731
                else:
                    o = w.build(wd["inst"])
                    dd = o.to_dict()
                    fn = lambda C=C, dd=dd: C.from_dict(dd, drop_extra_fields=False)  # noqa: E731
                out, _ = _outcome(fn)
                warm.append(out["o"] if out["o"] != "raise" else "raise:" + str(out.get("exc")))
        w.define_rest()
        Base = w.cls[c["base"]]
        obs = _load_repeatedly(w, c, w.build(c["inst"]))
        rows, pi = w.resolve_rows(c["classes"])   # observed AFTER the loads under test
        obs.update(rows=rows, pi=pi, warm=warm)
        return obs
    finally:
        w.close()


def _with_defaults(classes):
    out = []
    for c in classes:
        out.append(dict(c, fields=[dict(f, default=default_val(classes, f)) for f in c["fields"]]))
    return out


def model_case(case, obs):
    c = case["case"]
    mc = {"classes": _with_defaults(c["classes"])}
    if case["op"] == "sub.resolve":
        return mc
    mc.update(base=c["base"], drop=c["drop"], pi=obs["pi"])
    if case["op"] in ("sub.load", "sub.history"):
        # history: the candidates of the load under test are all subclasses existing at that time = the whole table
        mc.update(inst=c["inst"], save=c["save"])
    else:
        mc.update(dict=c["dict"])
    return mc


def project(case, obs):
    if case["op"] == "sub.resolve":
        order = [c["name"] for c in case["case"]["classes"]]
        return [dict(r, desc=sorted(r["desc"], key=order.index)) for r in obs["rows"]]
    out = {"out": obs["out"]}
    if case["op"] in ("sub.load", "sub.history"):
        out["dict"] = obs["dict"]
    return out


def model_unmodelled(mo):
    return isinstance(mo, dict) and isinstance(mo.get("out"), dict) and mo["out"].get("o") == "unmodelled"


# ------------------------------------------------------------------------------------------------
# the property itself, on real observations


def identified(classes, d, b):
    """the field-name set of d is shared by no other class among b and its descendants"""
    s = set(field_names(classes, d))
    return all(set(field_names(classes, o)) != s for o in family(classes, b) if o != d)


def _at(d, path):
    cur = d
    for p in path:
        if isinstance(cur, dict):
            cur = cur.get(p)
        elif isinstance(cur, list) and isinstance(p, int) and p < len(cur):
            cur = cur[p]
        else:
            return None
    return cur


def _top_mode(classes, base, drop):
    """the mode of the call itself: the explicit drop_extra_fields, else the class flag; `Serializable` itself always
    decodes into subclasses when nothing is said (serializable.py:825-831)"""
    if drop is None and by_name(classes)[base].get("mixin"):
        return "keep"
    return _mode(drop, eff_dis(classes, base))


def _mode(passed, dis):
    """passed: drop_extra_fields explicitly handed to this load (None/True/False); dis: decode_into_subclasses of the class"""
    by_cls = "keep" if dis else "drop"
    if passed is None:
        return by_cls
    return "drop" if passed else "keep"


def _class_ok(classes, mode, D, R, declared):
    """does the class R that came back for a D loaded through `declared` obey the clause of `mode` (keep | drop)?
    returns (ok, clause name)"""
    if mode == "drop":
        return R == declared, "drop-base"
    keys = set(field_names(classes, D))
    if identified(classes, D, declared):
        return R == D, "identified"
    return (R in family(classes, declared) and keys <= set(field_names(classes, R))), "superset"


def check_node(classes, orig, res, declared, mode, code_mode, top_drop, save, in_container, path, sdict, fails, kind="top"):
    """orig: cv of the original node; res: cv of what came back at the same place; declared: the class this node is loaded
    through; mode: keep | drop — what the property demands here: the explicit drop_extra_fields of the call if one was given,
    else the decode_into_subclasses flag of `declared`; code_mode: what decode_field actually forwards to this node (the
    CONTAINER's resolved value for a dataclass-annotated field, the item class's own flag for Optional/List/Dict items — the
    open finding C14-nested-drop-forwarding where the two differ); in_container: the node is an element of a List/Dict
    field or lies below one (to_dict encodes such elements with their own to_dict(), i.e. without save_dc_types)"""
    if orig["t"] != "inst":
        return
    D = orig["cls"]
    sig = {"path": list(path), "orig": D, "through": declared, "mode": mode, "code_mode": code_mode, "kind": kind,
           "in_container": in_container,
           "type_key_written": isinstance(_at(sdict, path), dict) and "_type_" in _at(sdict, path)}

    def fail(clause, detail, **kw):
        fails.append(dict(sig, clause=clause, detail=detail, **kw))

    if res is None or res.get("t") != "inst":
        # nothing (or the undecoded raw dict that Optional's try_functions falls back to) came back: an exception was raised
        # somewhere in this subtree
        fail("recover", f"at {path}: no instance came back for a {D} loaded through {declared}: {str(res)[:120]}")
        return
    R = res["cls"]
    if R not in by_name(classes):
        fail("recover", f"at {path}: {D} loaded through {declared} came back as {R}, a class that is not in the hierarchy")
        return
    keys = set(field_names(classes, D))
    if save:
        if R != D:   # "regardless of field sets" — and of drop_extra_fields: `_type_` is looked at first
            fail("dc-types", f"at {path}: save_dc_types=True but {D} came back as {R}")
    else:
        ok, clause = _class_ok(classes, mode, D, R, declared)
        if not ok:
            forwarded = code_mode != mode and _class_ok(classes, code_mode, D, R, declared)[0]
            fail(clause, f"at {path}: {D} (fields {sorted(keys)}) loaded through {declared} "
                         f"({'dropping extra fields' if mode == 'drop' else 'decoding into subclasses'}) came back as {R} "
                         f"(fields {field_names(classes, R)})", forwarding=bool(forwarded))
    # descend on the fields both classes have with the same annotation
    rfields = {f["name"]: f for f in all_fields(classes, R)}
    rvals = dict((k, v) for k, v in res["v"])
    # every serialized value that the class that came back can hold must be kept (same field set ⇒ all of them)
    values_demanded = keys <= set(rfields) or R == declared
    for f in all_fields(classes, D):
        n = f["name"]
        if n not in rfields or rfields[n]["ty"] != f["ty"]:
            continue
        ov, rv = dict((k, v) for k, v in orig["v"])[n], rvals.get(n)
        k = f["ty"]["k"]
        if k == "int":
            if values_demanded and ov != rv:
                fail("value", f"at {path + [n]}: value {ov} came back as {rv}")
            continue
        c = f["ty"]["cls"]
        dis = eff_dis(classes, c)
        by_flag = _mode(None, dis)
        if save:
            want, does = by_flag, by_flag        # (matters only below containers, where no `_type_` is written: D16)
        else:
            want = _mode(top_drop, dis)
            does = code_mode if k == "dc" else by_flag
        if k in ("dc", "opt"):
            check_node(classes, ov, rv, c, want, does, top_drop, save, in_container, path + [n], sdict, fails, kind=k)
        elif k == "list":
            items = rv["v"] if isinstance(rv, dict) and rv.get("t") == "list" else []
            for i, x in enumerate(ov["v"]):
                check_node(classes, x, items[i] if i < len(items) else None, c, want, does, top_drop, save, True,
                           path + [n, i], sdict, fails, kind=k)
        elif k == "dict":
            items = {kk["v"]: x for kk, x in rv["v"]} if isinstance(rv, dict) and rv.get("t") == "dict" else {}
            for kk, x in ov["v"]:
                check_node(classes, x, items.get(kk["v"]), c, want, does, top_drop, save, True, path + [n, kk["v"]], sdict,
                           fails, kind=k)


def _walk(classes, v, declared, in_container):
    """(instance node, class it is loaded through, inside a List/Dict?) for every instance node of the tree"""
    if v["t"] != "inst":
        return
    yield v, declared, in_container
    vals = dict((k, x) for k, x in v["v"])
    for f in all_fields(classes, v["cls"]):
        k = f["ty"]["k"]
        if k == "int":
            continue
        x = vals[f["name"]]
        if k in ("dc", "opt"):
            yield from _walk(classes, x, f["ty"]["cls"], in_container)
        elif k == "list":
            for y in x["v"]:
                yield from _walk(classes, y, f["ty"]["cls"], True)
        elif k == "dict":
            for _, y in x["v"]:
                yield from _walk(classes, y, f["ty"]["cls"], True)


def _subnodes(v):
    if v["t"] == "inst":
        yield v
        for _, x in v["v"]:
            yield from _subnodes(x)
    elif v["t"] == "list":
        for x in v["v"]:
            yield from _subnodes(x)
    elif v["t"] == "dict":
        for _, x in v["v"]:
            yield from _subnodes(x)


def _oracle(case, obs):
    op, c = case["op"], case["case"]
    classes = c["classes"]
    fails = []
    if op == "sub.resolve":
        # registration: every class inherits decode_into_subclasses from its nearest ancestor unless it states its own,
        # and all_subclasses() is exactly the set of transitive subclasses
        for row in obs["rows"]:
            if row["dis"] != eff_dis(classes, row["name"]):
                fails.append({"clause": "inherit-flag", "detail": f"{row['name']}.decode_into_subclasses = {row['dis']}"})
            if row["desc"] != sorted(strict_desc(classes, row["name"])):
                fails.append({"clause": "all-subclasses", "detail": f"all_subclasses({row['name']}) = {row['desc']}"})
        return fails
    base = c["base"]
    out = obs["out"]
    if op in ("sub.load", "sub.history"):
        inst, save, drop = c["inst"], c["save"], c["drop"]
        if not obs["orig_ok"]:
            fails.append({"clause": "harness", "detail": "the real instance differs from the case's instance tree"})
            return fails
        # the property holds for EVERY load of the serialized form: the first one and each later load of the same dict object
        loads = [{"drop": drop, "out": out, "equal": obs.get("equal"), "nth": 1}] + [
            dict(r, nth=i + 2, out=out if r["out"] == "same-as-first" else r["out"])
            for i, r in enumerate(obs.get("reloads", []))]
        for ld in loads:
            lf = []
            mode = _top_mode(classes, base, ld["drop"])
            o = ld["out"]
            if o["o"] != "ok":
                lf.append({"clause": "raise", "detail": f"loading a {inst['cls']} through {base} raised {o.get('exc')}",
                           "path": [], "orig": inst["cls"], "through": base, "mode": mode, "in_container": False,
                           "exc": o.get("exc")})
            else:
                check_node(classes, inst, o["v"], base, mode, mode, ld["drop"], save, False, [], obs["dict"], lf)
                if not lf and o["v"] == inst and not ld.get("equal"):
                    lf.append({"clause": "equal", "detail": "same class and field values but the result is not == the original"})
            for f in lf:
                if ld["nth"] > 1:
                    f["detail"] = (f"load #{ld['nth']} of the same dict object (drop_extra_fields={ld['drop']}): " + f["detail"])
                f["load"] = ld["nth"]
                f["load_drop"] = ld["drop"]
            fails += lf
        if save:
            # from_dict works on a copy: the serialized form (with its `_type_` keys at every level) is still there afterwards
            unchanged = [obs.get("dict_unchanged", True)] + [r["dict_unchanged"] for r in obs.get("reloads", [])]
            if not all(unchanged):
                n = unchanged.index(False) + 1
                fails.append({"clause": "dict-unchanged", "load": n,
                              "detail": f"load #{n} changed the caller's dict: {str(obs.get('dict_after', ''))[:160]} "
                                        f"instead of {str(obs['dict'])[:160]}"})
        return fails
    if op == "sub.loaddict":
        d = c["dict"]
        if d["j"] != "obj":
            return fails
        keys = [k for k, _ in d["v"]]
        if "_type_" in keys:
            return fails
        mode = _top_mode(classes, base, c["drop"])
        if out["o"] == "ok" and out["v"].get("t") == "inst":
            R = out["v"]["cls"]
            if mode == "drop" and R != base:
                fails.append({"clause": "drop-base", "detail": f"dropping extra fields through {base} gave {R}"})
            if mode == "keep" and not (R in family(classes, base) and set(keys) <= set(field_names(classes, R))):
                fails.append({"clause": "superset", "detail": f"keys {keys} through {base} gave {R}",
                              "in_container": False, "path": []})
        return fails
    return fails


def oracle(case, obs):
    fails = _oracle(case, obs)
    op, c = case["op"], case["case"]
    classes = c["classes"]
    if op == "sub.history":
        # a class defined AFTER earlier loads is a subclass like any other: the registered subclass set seen after the load
        # under test must be the whole hierarchy, and the load must obey the same clauses as if everything had been defined
        # up front (checked by _oracle exactly like sub.load)
        late = [x["name"] for x in classes[c["split"]:]]
        for row in obs["rows"]:
            if row["desc"] != sorted(strict_desc(classes, row["name"])):
                missing = sorted(set(strict_desc(classes, row["name"])) - set(row["desc"]))
                fails.append({"clause": "history-subclass-set", "late": late,
                              "detail": f"after defining {late} late, all_subclasses({row['name']}) = {row['desc']} "
                                        f"(missing {missing})"})
                break
    return fails


def nontrivial(case, obs):
    op, c = case["op"], case["case"]
    if op == "sub.resolve":
        return len(c["classes"]) >= 3
    if op == "sub.history":
        return c["inst"]["cls"] in [x["name"] for x in c["classes"][c["split"]:]] and c["inst"]["cls"] != c["base"]
    if op == "sub.load":
        strict = c["inst"]["cls"] != c["base"] and len(family(c["classes"], c["base"])) >= 3
        nested = sum(1 for _ in _subnodes(c["inst"])) >= 2
        return strict or nested
    return len(c["dict"].get("v", [])) >= 1 if c["dict"]["j"] == "obj" else False


def tags(case, obs):
    op, c = case["op"], case["case"]
    t = [f"op:{op}", f"classes:{len(c['classes'])}"]
    if op == "sub.resolve":
        return t
    out = obs["out"]
    t.append("out:" + (out["o"] if out["o"] != "raise" else f"raise:{out.get('exc')}"))
    t.append(f"drop:{c['drop']}")
    t.append("base_dis:%s" % eff_dis(c["classes"], c["base"]))
    if op == "sub.history":
        late = [x["name"] for x in c["classes"][c["split"]:]]
        t.append("late-inst:%s" % (c["inst"]["cls"] in late))
        t.append("late-kind:" + ("grandchild" if by_name(c["classes"])[c["inst"]["cls"]]["parent"] not in (None, c["base"])
                                 else "child-or-self"))
        t += [f"warm:{x}" for x in sorted(set(obs.get("warm", [])))]
    if op in ("sub.load", "sub.history"):
        inst = c["inst"]
        t.append(f"save:{c['save']}")
        t.append("nodes:%d" % min(6, sum(1 for _ in _subnodes(inst))))
        t.append("through:" + ("self" if inst["cls"] == c["base"] else "ancestor"))
        t.append("identified:%s" % identified(c["classes"], inst["cls"], c["base"]))
        if out["o"] == "ok" and out["v"].get("t") == "inst":
            r = out["v"]["cls"]
            t.append("result:" + ("same" if r == inst["cls"] else ("base" if r == c["base"] else "other")))
        kinds = {f["ty"]["k"] for n in _subnodes(inst) for f in all_fields(c["classes"], n["cls"])}
        t += [f"fieldkind:{k}" for k in sorted(kinds)]
        if any(not f["init"] for cl in c["classes"] for f in cl["fields"]):
            t.append("has-noninit")
        cl, base, D = c["classes"], c["base"], inst["cls"]
        t.append("mode:" + _top_mode(cl, base, c["drop"]))
        t.append("dist:%d" % (ancestors(cl, D).index(base) + 1 if base in ancestors(cl, D) else 0))
        fam = family(cl, base)
        t.append("fam:" + ("1" if len(fam) == 1 else "2-3" if len(fam) <= 3 else "4+"))
        t.append("base:" + ("Serializable" if by_name(cl)[base].get("mixin") else
                            "root" if by_name(cl)[base]["parent"] in (None, "Serializable") else "mid"))
        if by_name(cl)[D].get("frozen"):
            t.append("frozen")
            if any(not f["init"] for f in all_fields(cl, D)):
                t.append("frozen-with-noninit-field")
        if any(len({f["name"] for f in x["fields"]} & set(field_names(cl, x["parent"]))) for x in cl if x["parent"]):
            t.append("redeclared-field")
        if not by_name(cl)[base]["fields"] and by_name(cl)[base]["parent"] is None:
            t.append("fieldless-root")
        if D != base and not c["save"] and _top_mode(cl, base, c["drop"]) == "keep":
            kd = set(field_names(cl, D))
            others = [set(field_names(cl, o)) for o in fam[1:] if o != D]
            t.append("lattice:" + ("parent-same" if kd == set(field_names(cl, base)) else
                                   "same" if any(o == kd for o in others) else
                                   "nested" if any(o > kd for o in others) else
                                   "overlap" if any(o & kd - set(field_names(cl, base)) for o in others) else "alone"))
        for f in oracle(case, obs):
            for fid, pred in FINDINGS.items():
                if pred(case, obs, f):
                    t.append("finding:" + fid)
        if obs.get("foreign"):
            t.append("foreign-candidate")
    return sorted(set(t))


# ------------------------------------------------------------------------------------------------
# shrinking


def _used_classes(c):
    used = {c["base"]}
    if "inst" in c:
        used |= {n["cls"] for n in _subnodes(c["inst"])}
    return used


def _prune_inst(v, pred_drop_field):
    if v["t"] == "inst":
        return {"t": "inst", "cls": v["cls"], "v": [[k, _prune_inst(x, pred_drop_field)] for k, x in v["v"]
                                                   if not pred_drop_field(v["cls"], k)]}
    if v["t"] == "list":
        return {"t": "list", "v": [_prune_inst(x, pred_drop_field) for x in v["v"]]}
    if v["t"] == "dict":
        return {"t": "dict", "v": [[k, _prune_inst(x, pred_drop_field)] for k, x in v["v"]]}
    return v


def shrink(case):
    op, c = case["op"], case["case"]
    if op == "sub.history":
        # fewer warm-up loads; an earlier / later split; drop unused late leaf classes
        for i in range(len(c["warm"])):
            yield {"op": op, "case": dict(c, warm=c["warm"][:i] + c["warm"][i + 1:])}
        names = [x["name"] for x in c["classes"]]
        used = _used_classes(c) | {wd["inst"]["cls"] for wd in c["warm"] if "inst" in wd} | {wd["through"] for wd in c["warm"]}
        referenced = {f["ty"]["cls"] for cl in c["classes"] for f in cl["fields"] if "cls" in f["ty"]}
        parents = {cl["parent"] for cl in c["classes"]}
        for i, n in enumerate(names):
            if n not in used and n not in parents and n not in referenced:
                yield {"op": op, "case": dict(c, classes=[x for x in c["classes"] if x["name"] != n],
                                              split=c["split"] - (1 if i < c["split"] else 0))}
        return
    if op != "sub.load":
        return
    classes = c["classes"]
    # 1. drop a leaf class nobody needs
    used = _used_classes(c)
    referenced = {f["ty"]["cls"] for cl in classes for f in cl["fields"] if "cls" in f["ty"]}
    parents = {cl["parent"] for cl in classes}
    for cl in classes:
        n = cl["name"]
        if n not in used and n not in parents and n not in referenced:
            yield {"op": op, "case": dict(c, classes=[x for x in classes if x["name"] != n])}
    # 2. drop one own field of a class everywhere
    for cl in classes:
        for f in cl["fields"]:
            owners = set(family(classes, cl["name"]))
            new_classes = [dict(x, fields=[g for g in x["fields"] if not (x["name"] == cl["name"] and g["name"] == f["name"])])
                           for x in classes]
            new_inst = _prune_inst(c["inst"], lambda k, fn: k in owners and fn == f["name"])
            yield {"op": op, "case": dict(c, classes=new_classes, inst=new_inst)}
    # 3. empty a container / null an optional
    def simpler(v):
        if v["t"] == "inst":
            for i, (k, x) in enumerate(v["v"]):
                if x["t"] in ("list", "dict") and x["v"]:
                    yield dict(v, v=v["v"][:i] + [[k, dict(x, v=x["v"][:-1])]] + v["v"][i + 1:])
                for y in simpler(x):
                    yield dict(v, v=v["v"][:i] + [[k, y]] + v["v"][i + 1:])
        elif v["t"] == "list":
            for i, x in enumerate(v["v"]):
                for y in simpler(x):
                    yield dict(v, v=v["v"][:i] + [y] + v["v"][i + 1:])
        elif v["t"] == "dict":
            for i, (k, x) in enumerate(v["v"]):
                for y in simpler(x):
                    yield dict(v, v=v["v"][:i] + [[k, y]] + v["v"][i + 1:])

    for y in simpler(c["inst"]):
        yield {"op": op, "case": dict(c, inst=y)}


def neighbours(case, rng):
    op, c = case["op"], case["case"]
    if op in ("sub.resolve", "sub.history"):
        return
    for _ in range(6):
        yield {"op": op, "case": dict(c, classes=shuffle_definition_order(rng, c["classes"]))}
    for drop in (None, True, False):
        yield {"op": op, "case": dict(c, drop=drop)}
    if op == "sub.load":
        yield {"op": op, "case": dict(c, save=not c["save"])}


# ------------------------------------------------------------------------------------------------
# open findings (narrow signatures over the failing case + the observed wrong outcome)


def _sig_d16(case, obs, fail):
    """save_dc_types=True, the node whose class was not restored is an element of a List[...] / Dict[str, ...] field (or lies
    below such an element) and its serialized dict carries no `_type_` key"""
    return (case["op"] in ("sub.load", "sub.history") and case["case"]["save"] and fail.get("clause") == "dc-types"
            and fail.get("in_container") is True and fail.get("type_key_written") is False)


def _sig_forwarding(case, obs, fail):
    """a NESTED node without `_type_` (save_dc_types off) whose class obeys what decode_field forwards — the container's
    resolved drop_extra_fields for a dataclass-annotated field, the item class's own flag for Optional/List/Dict items — and
    not what the property demands there (explicit argument of the call, else the field class's decode_into_subclasses)"""
    return (case["op"] in ("sub.load", "sub.history") and not case["case"]["save"] and fail.get("forwarding") is True
            and fail.get("clause") in ("drop-base", "identified", "superset") and bool(fail.get("path"))
            and fail.get("kind") in ("dc", "opt", "list", "dict") and fail.get("mode") != fail.get("code_mode"))


FINDINGS = {
    "C14-D16-no-type-key-in-containers": _sig_d16,
    "C14-nested-drop-forwarding": _sig_forwarding,
}

MANIFEST = {
    "text": ("Proof, partial with two named gaps. PROVED for all inputs over the model of from_dict/to_dict/__init_subclass__: the "
             "stable sort by field count + first-superset choice (all fields, init=False included) returns exactly the class whose "
             "field set identifies it, for EVERY iteration order of the subclass set, hence every definition order / history, any "
             "hierarchy size (cardinality argument); without identification the chosen class has EXACTLY the serialized field set and "
             "the load RETURNS an instance with every value kept (never RuntimeError); drop_extra_fields in effect gives exactly the "
             "base; a subclass adding no field / a load through the own class gives the class loaded through for any drop; these hold "
             "end to end for flat int instances and, as far as the CLASS is concerned, for arbitrary nested contents provided the "
             "fields decode; the hypotheses (children extend parents by names, all_subclasses = descendants, D among them) are derived "
             "from the class table `resolve h` for any list of class statements incl. redeclared fields; flag inheritance one step at "
             "a time; with save_dc_types the exact class at every depth through dataclass-typed and Optional fields, any load class, "
             "any drop. EXCLUDED and refuted by witnesses (open findings): every non-empty List/Dict field under save_dc_types (D16: no "
             "_type_ key is written inside containers — the exclusion is all non-empty containers, wider than the defect), and "
             "nested drop forwarding. Repaired and kept as theorems / regression cases: a subclass whose extra field is init=False, the "
             "init-count tie-break, frozen classes with an init=False field (c14_load_through_self holds for every class). SAMPLED only (correspondence + oracle on real "
             "classes in fresh modules, shuffled definition orders, staged histories, repeated loads of one dict): values of nested "
             "contents for clauses 1-3, containers, edited dicts, loading through Serializable itself, the closed form of flag "
             "inheritance over several levels."),
    "note": ("Trusted: Lean kernel + propext/Classical.choice/Quot.sound; dataclasses/importlib; the set iteration order is an "
             "uninterpreted permutation read from the interpreter. Modelled not verified: serializable.py:197-222,704-916, "
             "utils.all_subclasses, the nested-decoding dispatch of decoding.py/encoding.py (int leaves only)."),
    "technique": "Lean 4 cardinality/sortedness argument over all permutations + differential correspondence on real class hierarchies",
    "design_ref": "DESIGN.md section 5, C14",
}
