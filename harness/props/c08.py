"""C08 — a parser's result depends only on its own definition and the argv of that call.

A case is ONE HISTORY: a list of API calls (construct / add_arguments / parse_args / parse_known_args / print_help /
format_help) over a pool of up to three parsers, executed in order in one process.  Every parse of the history is
compared (a) with the Lean state machine `Model/History.lean` (op `hist.run`) and (b) — the oracle, the property
itself — with the answer of a FRESH INTERPRETER that builds only that parser and makes only that call
(`harness/fresh_parse.py`, cached per (parser definition, argv) within a run, precomputed in parallel).
"""
from __future__ import annotations

import atexit
import concurrent.futures
import dataclasses
import itertools
import json
import os
import shutil
import subprocess
import sys
import tempfile
from pathlib import Path
from typing import Union

from harness.core import gen_types as GT
from harness.core import sp
from harness.core.trees import Universe

PID = "C08"
RULE = ("a case is one history over {construct(i, dash/gen/nest, add_config_path_arg, config_path=files), add_arguments(i, class, dest), "
        "parse_args / parse_known_args(i, argv), print_help(i), format_help(i)} on a pool of <= 3 parsers; parser "
        "definitions come from 7 small classes (int/str/bool/List/Optional fields, heterogeneous Tuple fields incl. "
        "Tuple[str,bool] / Tuple[int,bool,str] whose bool item can be rejected mid-tuple, a "
        "subgroups field with two alternatives, a field with a custom type=, builtin-generic list / tuple / Optional-list fields "
        "over Unions whose members come in different orders in two classes) x 6 spelling configurations; the same "
        "dataclass object may be registered on several parsers; argv per parser: valid in its own spelling, "
        "valid in the other spelling, bad value, unknown option, -h, config files (present / missing). Exhaustive slice: "
        "every history over a 25-letter alphabet on three fixed parsers up to length 3 + 1/150 of length 4 (quick) / up to length 3 + 1/3 of length 4 + 1/150 of length 5 (thorough); random "
        "histories up to length 30. Non-trivial = >= 2 parse calls on one parser, or >= 2 parsers alive at a parse; "
        "distinct by canonical JSON.")
ASSUMPTIONS = ["the caller does not mutate the objects a parse returned: successive results of one parser may alias the same "
               "default container (FieldWrapper._default caches the default_factory result, field_wrapper.py:760-762), so "
               "`r = p.parse_args([]); r.l.items.append(99)` changes the next answer; the property speaks of what happened "
               "'in the process' through the library's API (parse / print_help / constructors), not of mutation of results",
               "a fresh `/venv/bin/python -I` process that imports the library, builds one parser and parses once is the "
               "reference answer", "float()/repr of CPython (table supplied to the model)",
               "threads are out of scope: histories are API-call-level interleavings"]
TRUSTED = ["stdlib argparse (optional-argument fragment modelled in Model/Engine.lean)",
           "harness/fresh_parse.py (reference answers come from it)"]
EXHAUSTIVE = {"quick": False, "thorough": False}
MANIFEST = {
    "text": ("Proof (partial): Lean state machine of a pool of parsers (FieldWrapper class attributes written by every "
             "constructor AND by _preprocessing, threaded through the set-up as write-then-read; per-parser latch / frozen "
             "action table / pushed file defaults / argparse parser-level defaults / config-path registration / frozen "
             "subgroup choices). Theorem c08_partial: for EVERY history, every parse call that is `safe` on a parser that "
             "only received state-keeping calls returns exactly the answer of a fresh parser, whatever the class attributes "
             "are at that moment (needs the D5 repair: hypothesis env.reassert, refuted without it by d5_old_witness). "
             "Exclusions = open findings D9 (other subgroup choice than the frozen one, incl. rejected choices), D10 (file "
             "defaults pushed earlier / files given after set-up), late add_arguments; a wrong "
             "answer (D9, late add) does not taint the parser. Each finding has a witness history; the repaired D5/D6/D8, "
             "print_help+config_path= and root-less-file-after-set-up (2abd945) histories are regression examples. Parsers with constructor config_path= files are covered beyond their first call under "
             "the decidable state check ctorReloadSafe (re-applying the files changes nothing; idempotence of the load "
             "itself is not proved). SAMPLED only (no theorem): the implied add_config_path_arg form of config_path= "
             "(outside the model), --config_path parsers set up by print_help / after a parse stopped in the subgroup choice, "
             "parsers with option conflicts (oracle-only stream), the reset of the parse_tuple closures between calls "
             "(alignment after accepted command lines is C04.c04_counters_aligned; the reset is observed on the real "
             "closures after every call), the trajectory of the class attributes (observable g). Every parse of every "
             "generated history is compared with the model and with a fresh interpreter."),
    "note": ("Trusted: Lean kernel + standard axioms; harness; fresh-process reference. Modelled not verified (/repo at "
             "2abd945): parsing.py:127-176,287-369,396-406,408-464,549-586,632-806, field_wrapper.py:97-103,599-604, "
             "field_parsing.py:208-258 on flat dataclasses with at most one flat subgroups field, no clashing options."),
    "technique": "Lean 4 step invariant lifted to all histories + differential check against fresh interpreters",
    "design_ref": "DESIGN.md section 5, C08",
}

VERIF = Path(__file__).resolve().parents[2]
REPO = Path(os.environ.get("VERIF_REPO", "/repo"))
D = "{D}"  # placeholder of the per-process scratch directory inside argv / observations

# ------------------------------------------------------------------------------------------------------------------
# vocabulary: classes, configurations, files


def _f(name, ty, default=None):
    d = {"kind": "missing"} if default is None else {"kind": "value", "v": default}
    return {"name": name, "ty": ty, "default": d}


def _i(n):
    return {"t": "int", "v": str(n)}


def _s(x):
    return {"t": "str", "v": x}


INT, STR, BOOL, FLOAT = {"k": "int"}, {"k": "str"}, {"k": "bool"}, {"k": "float"}
CLASSES = {
    "A": {"name": "A", "fields": [_f("a_b", INT, _i(1)), _f("name", STR, _s("x"))], "sub": None},
    "B": {"name": "B", "fields": [_f("lr_x", INT), _f("flag", BOOL, {"t": "bool", "v": False})], "sub": None},
    "T": {"name": "T", "fields": [_f("tup", {"k": "tuple", "items": [INT, STR, FLOAT]},
                                     {"t": "tuple", "v": [_i(1), _s("a"), {"t": "float", "v": "2.0"}]}),
                                  _f("n_items", INT, _i(3))], "sub": None},
    "S": {"name": "S", "fields": [_f("k_v", INT, _i(0))],
          "sub": {"name": "mod", "default": "x",
                  "alts": [{"key": "x", "cls": "X", "fields": [_f("xv", INT, _i(1)), _f("w_w", INT, _i(5))]},
                           {"key": "y", "cls": "Y", "fields": [_f("yv", INT, _i(2)), _f("w_w", INT, _i(6))]}]}},
    "L": {"name": "L", "fields": [_f("items", {"k": "list", "item": INT}, {"t": "list", "v": [_i(1), _i(2)]}),
                                  _f("opt_n", {"k": "opt", "inner": INT}, {"t": "none"})], "sub": None},
}
CLASSES["K"] = {"name": "K", "fields": [dict(_f("tag", STR, _s("0")), ctype="int"), _f("n_k", INT, _i(1))], "sub": None}
# heterogeneous tuples with a bool item: `str2bool` rejects a value with ArgumentTypeError (not ValueError)
CLASSES["F"] = {"name": "F", "fields": [
    _f("feature", {"k": "tuple", "items": [STR, BOOL]}, {"t": "tuple", "v": [_s("a"), {"t": "bool", "v": False}]}),
    _f("trio", {"k": "tuple", "items": [INT, BOOL, STR]}, {"t": "tuple", "v": [_i(1), {"t": "bool", "v": True}, _s("z")]})], "sub": None}
# builtin-generic containers over Unions with the SAME members in DIFFERENT orders (`list[Union[int, float]]` ==
# `list[Union[float, int]]`, equal hashes — but the item parser tries the members in declaration order): a cache keyed by
# the annotation anywhere in the library makes one parser answer with the other parser's member order
def _u(*alts):
    return {"k": "union", "alts": [{"k": a} for a in alts]}


def _bl(item):
    return {"k": "list", "item": item, "builtin": True}


def _bvt(item):
    return {"k": "vtuple", "item": item, "builtin": True}


_EMPTY_L, _EMPTY_T = {"t": "list", "v": []}, {"t": "tuple", "v": []}
CLASSES["UA"] = {"name": "UA", "sub": None, "fields": [
    _f("vals", _bl(_u("int", "float")), _EMPTY_L), _f("ids", _bl(_u("int", "str")), _EMPTY_L),
    _f("vt", _bvt(_u("int", "float")), _EMPTY_T), _f("ov", {"k": "opt", "inner": _bl(_u("int", "str")), "builtin": True}, {"t": "none"})]}
CLASSES["UB"] = {"name": "UB", "sub": None, "fields": [
    _f("lrs", _bl(_u("float", "int")), _EMPTY_L), _f("tags", _bl(_u("str", "int")), _EMPTY_L),
    _f("wt", _bvt(_u("float", "int")), _EMPTY_T), _f("ow", {"k": "opt", "inner": _bl(_u("str", "int")), "builtin": True}, {"t": "none"})]}
DEST = {"A": "a", "B": "b", "T": "t", "S": "s", "L": "l", "K": "k", "F": "f", "UA": "ua", "UB": "ub"}
CFGS = [
    {"dash": "UNDERSCORE", "gen": "FLAT", "nest": "DEFAULT"},
    {"dash": "DASH", "gen": "FLAT", "nest": "DEFAULT"},
    {"dash": "UNDERSCORE_AND_DASH", "gen": "FLAT", "nest": "DEFAULT"},
    {"dash": "UNDERSCORE", "gen": "NESTED", "nest": "DEFAULT"},
    {"dash": "DASH", "gen": "BOTH", "nest": "WITHOUT_ROOT"},
    {"dash": "UNDERSCORE", "gen": "NESTED", "nest": "WITHOUT_ROOT"},
]
FILES = [
    [D + "/f0.json", [["a", [["a_b", _i(7)]]]]],
    [D + "/f1.json", [["a", [["name", _s("gg")]]]]],
    [D + "/f2.json", [["b", [["lr_x", _i(9)]]]]],
    [D + "/f3.json", [["t", [["n_items", _i(8)]]], ["a", [["a_b", _i(11)]]]]],
    [D + "/nope.json", None],
    [D + "/r0.json", {"rootless": [["a_b", _i(13)], ["name", _s("rr")]]}],
    [D + "/rs.json", {"rootless": [["k_v", _i(5)]]}],
]
ROOTLESS_FOR = {"A": "/r0.json", "S": "/rs.json"}
# dataclasses nested 3 / 4 levels deep (ORACLE-ONLY: nested dataclass fields are outside the Lean model) and root-less files
FILES += [[D + "/rn3.json", {"raw": {"r": 40, "mid": {"m": 5}}}], [D + "/rn4.json", {"raw": {"t": 9, "root": {"r": 40, "mid": {"m": 5}}}}],
          [D + "/rnbad.json", {"raw": {"r": 41, "nokey": 1}}]]
CLASSES["N3"] = {"name": "N3", "nested": 3, "fields": [], "sub": None}
CLASSES["N4"] = {"name": "N4", "nested": 4, "fields": [], "sub": None}
DEST["N3"] = "n"
DEST["N4"] = "n"


def spelled(cfg, dest, name, prefix_dest=None):
    """the option a user of a parser configured with `cfg` would write for field `name` at `dest` (harness-side
    transcription of the documented spelling rules; only used to GENERATE argv)"""
    full = f"{dest}.{name}"
    if cfg["gen"] == "FLAT":
        opt = name
    else:
        opt = full if cfg["nest"] == "DEFAULT" else full.split(".", 1)[1]
    if cfg["dash"] == "DASH":
        opt = opt.replace("_", "-")
    return "--" + opt


def other_cfg(cfg):
    return {"dash": "UNDERSCORE" if cfg["dash"] == "DASH" else "DASH", "gen": "FLAT" if cfg["gen"] != "FLAT" else "NESTED",
            "nest": "DEFAULT"}


def segments(cfg, cname, dest):
    """named argv segments for one registered class"""
    o = lambda n, d=dest: spelled(cfg, d, n)  # noqa: E731
    if cname == "A":
        return {"ok1": [o("a_b"), "3"], "ok2": [o("name"), "zz", o("a_b") + "=5"], "bad": [o("a_b"), "notint"],
                "foreign": [spelled(other_cfg(cfg), dest, "a_b"), "4"]}
    if cname == "B":
        return {"ok1": [o("lr_x"), "2"], "ok2": [o("lr_x"), "6", o("flag")], "bad": [o("flag"), "maybe", o("lr_x"), "1"],
                "foreign": [spelled(other_cfg(cfg), dest, "lr_x"), "4"]}
    if cname == "T":
        return {"ok1": [o("tup"), "4", "b", "2.5"], "ok2": [o("n_items"), "9"], "twice": [o("tup"), "4", "b", "2.5", o("tup"), "5", "c", "0.5"],
                "bad": [o("tup"), "4", "b", "zz"], "bad0": [o("tup"), "x", "b", "1.5"]}
    if cname == "S":
        return {"ok1": [o("mod"), "y"], "ok2": [o("mod"), "x", spelled(cfg, dest + ".mod", "xv"), "3"],
                "ok3": [o("mod"), "y", spelled(cfg, dest + ".mod", "yv"), "7", o("k_v"), "4"],
                "ok4": [spelled(cfg, dest + ".mod", "w_w"), "9"], "bad": [o("mod"), "z"]}
    if cname == "F":
        return {"ok1": [o("feature"), "yes", "true"], "ok2": [o("trio"), "3", "no", "q", o("feature"), "w", "0"],
                "twice": [o("feature"), "yes", "true", o("feature"), "no", "false"],
                "twice3": [o("trio"), "3", "no", "q", o("trio"), "4", "yes", "r"],
                "bad_last": [o("feature"), "yes", "maybe"], "bad_mid": [o("trio"), "3", "maybe", "q"],
                "bad_first": [o("trio"), "x", "yes", "q"], "bad_then_ok": [o("trio"), "3", "maybe", "q", o("feature"), "yes", "true"]}
    if cname == "UA":
        return {"ok1": [o("vals"), "3", "2.5"], "ok2": [o("ids"), "7", "x"], "ok3": [o("vt"), "3", "2.5", o("ov"), "7", "x"],
                "ok4": [o("ov"), "7"], "bad": [o("vals"), "3", "zz"]}
    if cname == "UB":
        return {"ok1": [o("lrs"), "3", "2.5"], "ok2": [o("tags"), "7", "x"], "ok3": [o("wt"), "3", "2.5", o("ow"), "7", "x"],
                "ok4": [o("ow"), "7"], "bad": [o("lrs"), "3", "zz"]}
    if cname == "K":
        return {"ok1": [o("tag"), "12"], "ok2": [o("n_k"), "4", o("tag") + "=7"], "bad": [o("tag"), "abc"]}
    if cname == "L":
        return {"ok1": [o("items"), "4", "5", "6"], "ok2": [o("opt_n"), "3", o("items")], "bad": [o("opt_n"), "q"]}
    raise KeyError(cname)


# ------------------------------------------------------------------------------------------------------------------
# the real code


CTYPES = {"int": int, "float": float, "str": str}
_PY = {"int": int, "float": float, "str": str, "bool": bool}


def builtin_ty(t):
    """annotation in the BUILTIN generic spelling (`list[...]`, `tuple[..., ...]`, `X | None`): unlike `typing.List[...]`
    / `typing.Optional[...]` these are not interned by `typing`'s own order-insensitive caches, so the declaration order of
    the Union members survives when several orderings live in one process"""
    k = t["k"]
    if k == "union":
        return Union[tuple(_PY[a["k"]] for a in t["alts"])]
    if k == "list":
        return list[builtin_ty(t["item"])]
    if k == "vtuple":
        return tuple[builtin_ty(t["item"]), ...]
    if k == "opt":
        return builtin_ty(t["inner"]) | None
    return _PY[k]



def build_class(u: Universe, cs: dict):
    """the REAL dataclass of a class spec; one object per name and history (so two parsers can share it)"""
    if cs["name"] in u.classes:
        return u.classes[cs["name"]]
    if cs.get("nested"):
        leaf = dataclasses.make_dataclass("Leaf", [("z", int, dataclasses.field(default=1))])
        mid = dataclasses.make_dataclass("Mid", [("m", int, dataclasses.field(default=2)), ("leaf", leaf, dataclasses.field(default_factory=leaf))])
        root = dataclasses.make_dataclass("Root" if cs["nested"] == 4 else cs["name"],
                                          [("r", int, dataclasses.field(default=3)), ("mid", mid, dataclasses.field(default_factory=mid))])
        cls = root if cs["nested"] == 3 else dataclasses.make_dataclass(
            cs["name"], [("t", int, dataclasses.field(default=4)), ("root", root, dataclasses.field(default_factory=root))])
        u.classes[cs["name"]] = cls
        return cls
    from simple_parsing import subgroups
    from simple_parsing.helpers import field as sp_field

    tmp = Universe()
    tmp.classes, tmp.enums = u.classes, u.enums
    plain = tmp.add_class("_plain_" + cs["name"], {"fields": [{k: v for k, v in f.items() if k != "ctype"} for f in cs["fields"]]})
    del u.classes["_plain_" + cs["name"]]
    ctype = {f["name"]: f["ctype"] for f in cs["fields"] if f.get("ctype")}
    builtin = {f["name"]: f["ty"] for f in cs["fields"] if f["ty"].get("builtin")}
    fields = []
    for f in dataclasses.fields(plain):
        if f.name in builtin:
            fields.append((f.name, builtin_ty(builtin[f.name]), _copy_field(f)))
        elif f.name in ctype:
            kw = {"default": f.default} if f.default is not dataclasses.MISSING else {}
            fields.append((f.name, f.type, sp_field(type=CTYPES[ctype[f.name]], **kw)))
        else:
            fields.append((f.name, f.type, _copy_field(f)))
    sub = cs.get("sub")
    if sub:
        alts = {a["key"]: (u.classes.get(a["cls"]) or u.add_class(a["cls"], {"fields": a["fields"]})) for a in sub["alts"]}
        fields.append((sub["name"], Union[tuple(alts.values())], subgroups(dict(alts), default=sub["default"])))
    cls = dataclasses.make_dataclass(cs["name"], fields)
    u.classes[cs["name"]] = cls
    return cls


def _copy_field(f):
    kw = {}
    if f.default is not dataclasses.MISSING:
        kw["default"] = f.default
    if f.default_factory is not dataclasses.MISSING:
        kw["default_factory"] = f.default_factory
    return dataclasses.field(**kw, metadata=dict(f.metadata))


def construct(op: dict, d: str):
    kw = {}
    if op.get("cfg_path"):
        kw["add_config_path_arg"] = True
    if op.get("cfg_files"):
        kw["config_path"] = [f.replace(D, d) for f in op["cfg_files"]]
        if op.get("cfg_path"):
            kw.pop("add_config_path_arg")  # the commonest form: config_path= alone IMPLIES add_config_path_arg (parsing.py:172-175)
        else:
            kw["add_config_path_arg"] = False
    return sp.make_parser(op["cfg"], **kw)


_TMP = None


def tmpdir() -> str:
    global _TMP
    if _TMP is None or _TMP[0] != os.getpid():
        d = tempfile.mkdtemp(prefix=f"spverif.c08.{os.getpid()}.", dir=os.environ.get("TMPDIR") or None)
        _TMP = (os.getpid(), d)
        atexit.register(shutil.rmtree, d, True)
    return _TMP[1]


def py_value(v):
    t = v["t"]
    if t == "int":
        return int(v["v"])
    if t in ("str", "path"):
        return v["v"]
    if t == "bool":
        return v["v"]
    if t == "float":
        return float(v["v"])
    if t in ("list", "tuple"):
        return [py_value(x) for x in v["v"]]
    return None


def write_files(files) -> str:
    d = tmpdir()
    for name, content in files or []:
        p = Path(name.replace(D, d))
        if content is None:
            p.unlink(missing_ok=True)
        else:
            if isinstance(content, dict) and "raw" in content:
                p.write_text(json.dumps(content["raw"]))
            elif isinstance(content, dict):
                p.write_text(json.dumps({k: py_value(v) for k, v in content["rootless"]}))
            else:
                p.write_text(json.dumps({dest: {k: py_value(v) for k, v in kvs} for dest, kvs in content}))
    return d


def _unpath(x, d):
    if isinstance(x, dict):
        return {k: _unpath(v, d) for k, v in x.items()}
    if isinstance(x, list):
        return [_unpath(v, d) for v in x]
    if isinstance(x, str):
        return x.replace(d, D)
    return x


def inst_obs(dest, inst, class_specs):
    cs = class_specs.get(type(inst).__name__)
    subname = cs["sub"]["name"] if cs and cs.get("sub") else None
    out = {"dest": dest, "cls": type(inst).__name__, "fields": [], "sub": None}
    for f in dataclasses.fields(inst):
        v = getattr(inst, f.name, None)
        if f.name == subname:
            if dataclasses.is_dataclass(v):
                out["sub"] = {"name": f.name, "cls": type(v).__name__,
                              "fields": [[g.name, sp.cv(getattr(v, g.name, None))] for g in dataclasses.fields(v)]}
            else:
                out["sub"] = {"name": f.name, "cls": "<" + type(v).__name__ + ">", "fields": []}
        else:
            out["fields"].append([f.name, sp.cv(v)])
    return out


def parse_obs(parser, known, argv, d, class_specs):
    """one parse call on the real parser -> canonical outcome"""
    real_argv = [a.replace(D, d) for a in argv]
    r = sp.run_outcome((lambda: parser.parse_known_args(real_argv)) if known else (lambda: parser.parse_args(real_argv)))
    if r["o"] == "exit":
        return {"o": "exit", "code": r["code"], "kind": r["kind"]}
    if r["o"] == "raise":
        return {"o": "raise", "exc": r["exc"]}
    ns, extras = r["value"] if known else (r["value"], [])
    out = {"o": "ok", "insts": [], "subgroups": [], "cfg": None, "extras": list(extras), "other": []}
    for k, v in vars(ns).items():
        if k == "subgroups" and isinstance(v, dict):
            out["subgroups"] = sorted([kk, sp.cv(vv)] for kk, vv in v.items())
        elif k == "config_path":
            out["cfg"] = sp.cv(v)
        elif dataclasses.is_dataclass(v) and not isinstance(v, type):
            out["insts"].append(inst_obs(k, v, class_specs))
        else:
            out["other"].append([k, sp.cv(v)])
    out["insts"].sort(key=lambda i: i["dest"])
    return _unpath(out, d)


def help_obs(fn):
    r = sp.run_outcome(fn)
    if r["o"] == "ok":
        return {"o": "unit"}
    if r["o"] == "exit":
        return {"o": "exit", "code": r["code"], "kind": r["kind"]}
    return {"o": "raise", "exc": r["exc"]}


def globals_now():
    from simple_parsing.wrappers.field_wrapper import FieldWrapper

    inv = lambda table, v: next((k for k, x in table.items() if x is v and k != "AUTO"), str(v))  # noqa: E731
    dash = FieldWrapper.add_dash_variants
    dname = "UNDERSCORE_AND_DASH" if dash is sp.DASH["UNDERSCORE_AND_DASH"] else ("DASH" if dash is sp.DASH["DASH"] else "UNDERSCORE")
    return {"dash": dname, "gen": inv(sp.GEN, FieldWrapper.argument_generation_mode), "nest": inv(sp.NEST, FieldWrapper.nested_mode)}


def peek(parser):
    """read-only look at the hidden state of the REAL parser: used to attribute failures to known findings, and
    (`tuple_dirty`) to check the one thing the model assumes about the parse_tuple closures instead of tracking it —
    between two calls every closure stands at the start of a tuple (calls_count is a multiple of the arity)"""
    dirty = False
    for a in parser._actions:
        fn = getattr(a, "type", None)
        clo = getattr(fn, "__closure__", None)
        if clo:
            cells = {}
            for name, cell in zip(fn.__code__.co_freevars, clo):
                try:
                    cells[name] = cell.cell_contents
                except ValueError:
                    pass
            if isinstance(cells.get("calls_count"), int):
                types = cells.get("tuple_item_types")
                if isinstance(types, tuple) and Ellipsis in types:
                    continue  # Tuple[T, ...]: one item type, the counter's value never matters
                arity = len(types) if isinstance(types, tuple) and types else 0
                dirty = dirty or (cells["calls_count"] % arity != 0 if arity else cells["calls_count"] != 0)
    frozen = {w.dest: w.dataclass.__name__ for w in parser._wrappers if getattr(w, "parent", None) is not None}
    return {"pre": bool(parser._preprocessing_done), "cfg_reg": any(a.dest == "config_path" for a in parser._actions),
            "tuple_dirty": dirty, "frozen_sub": frozen}


def class_specs_of(ops):
    out = {}
    for op in ops:
        if op["op"] == "add":
            out[op["cls"]["name"]] = op["cls"]
    return out


def run_history(c):
    """the whole history on the real code, in this process"""
    sp.reset_globals()
    d = write_files(c.get("files"))
    u = Universe()
    specs = class_specs_of(c["ops"])
    pool = {}
    outs, trace = [], []
    for op in c["ops"]:
        i = op["i"]
        kind = op["op"]
        g = globals_now()
        before = peek(pool[i]) if i in pool and kind != "construct" else None
        if kind == "construct":
            pool[i] = construct(op, d)
            outs.append({"o": "unit"})
        elif kind == "add":
            cls = build_class(u, op["cls"])
            outs.append(help_obs(lambda: pool[i].add_arguments(cls, dest=op["dest"])))
        elif kind == "parse":
            outs.append(parse_obs(pool[i], op.get("known", False), op["argv"], d, specs))
        elif kind == "print_help":
            outs.append(help_obs(lambda: pool[i].print_help()))
        elif kind == "format_help":
            outs.append(help_obs(lambda: pool[i].format_help()))
        else:
            raise ValueError(kind)
        trace.append({"G": g, "G_after": globals_now(), "before": before, "after": peek(pool[i])})
    sp.reset_globals()
    return outs, trace


def run_history_isolated(c):
    """run the history in a forked child of this (library imported, no parser ever built) process, so that a case can
    not be influenced by the cases a pool worker ran before it and a replay sees what the run saw"""
    r, w = os.pipe()
    pid = os.fork()
    if pid == 0:
        code = 0
        try:
            os.close(r)
            global _TMP
            _TMP = None
            try:
                payload = {"ok": run_history(c)}
            except BaseException as e:  # noqa: BLE001  (reported to the parent, which raises it as a harness error)
                import traceback

                payload = {"err": f"{type(e).__name__}: {e}\n{traceback.format_exc()[-1200:]}"}
            with os.fdopen(w, "w") as f:
                f.write(json.dumps(payload))
            if _TMP is not None:
                shutil.rmtree(_TMP[1], True)
        except BaseException:  # noqa: BLE001
            code = 3
        finally:
            os._exit(code)
    os.close(w)
    with os.fdopen(r) as f:
        data = f.read()
    os.waitpid(pid, 0)
    if not data:
        raise RuntimeError("history child process died without an answer")
    j = json.loads(data)
    if "err" in j:
        raise RuntimeError(j["err"])
    return j["ok"]


def fresh_in_this_process(spec, known, argv, files):
    """called by harness/fresh_parse.py inside a fresh interpreter"""
    sp.reset_globals()
    d = write_files(files)
    u = Universe()
    parser = construct(spec, d)
    specs = {}
    for r in spec["regs"]:
        specs[r["cls"]["name"]] = r["cls"]
        parser.add_arguments(build_class(u, r["cls"]), dest=r["dest"])
    return parse_obs(parser, known, argv, d, specs)


# ------------------------------------------------------------------------------------------------------------------
# fresh-interpreter reference answers (cached within a run; precomputed in parallel by gen)

_FRESH: dict[str, dict] = {}


def canon(x) -> str:
    return json.dumps(x, sort_keys=True, ensure_ascii=False, separators=(",", ":"))


def spec_at(ops, k):
    """the definition of the parser addressed by ops[k], as it stands when ops[k] runs"""
    i = ops[k]["i"]
    spec = None
    for op in ops[:k]:
        if op["i"] != i:
            continue
        if op["op"] == "construct":
            spec = {"cfg": op["cfg"], "cfg_path": bool(op.get("cfg_path")), "cfg_files": list(op.get("cfg_files") or []), "regs": []}
        elif op["op"] == "add" and spec is not None:
            spec["regs"].append({"dest": op["dest"], "cls": op["cls"]})
    return spec


def used_files(files, argv, spec):
    names = {a for a in argv} | {a.split("=", 1)[1] for a in argv if "=" in a} | set(spec.get("cfg_files") or [])
    return [f for f in (files or []) if f[0] in names]


def fresh_key(spec, known, argv, files):
    return canon([spec, bool(known), argv, used_files(files, argv, spec)])


def _fresh_subprocess(key: str) -> dict:
    spec, known, argv, files = json.loads(key)
    req = {"repo": str(REPO), "verif": str(VERIF), "spec": spec, "known": known, "argv": argv, "files": files}
    p = subprocess.run([sys.executable, "-I", str(VERIF / "harness" / "fresh_parse.py")], input=json.dumps(req),
                       capture_output=True, text=True, timeout=120)
    line = p.stdout.strip().splitlines()[-1] if p.stdout.strip() else ""
    try:
        j = json.loads(line)
    except json.JSONDecodeError:
        raise RuntimeError(f"fresh interpreter failed (exit {p.returncode}): {p.stderr[-800:]}") from None
    assert str(Path(j["sp_file"]).resolve()).startswith(str(REPO.resolve())), j["sp_file"]
    return j["obs"]


def fresh_answer(spec, known, argv, files) -> dict:
    key = fresh_key(spec, known, argv, files)
    if key not in _FRESH:
        _FRESH[key] = _fresh_subprocess(key)
    return _FRESH[key]


def precompute(cases):
    keys = set()
    for c in cases:
        if c.get("op") == "hist.fresh":
            keys.add(fresh_key(c["case"]["spec"], c["case"]["known"], c["case"]["argv"], c["case"]["files"]))
            continue
        ops = c["case"]["ops"]
        for k, op in enumerate(ops):
            if op["op"] == "parse":
                spec = spec_at(ops, k)
                if spec is not None:
                    keys.add(fresh_key(spec, op.get("known", False), op["argv"], c["case"].get("files")))
    todo = sorted(k for k in keys if k not in _FRESH)
    jobs = int(os.environ.get("VERIF_JOBS", str(os.cpu_count() or 4)))
    with concurrent.futures.ThreadPoolExecutor(max_workers=max(1, jobs)) as ex:
        for key, obs in zip(todo, ex.map(_fresh_subprocess, todo)):
            _FRESH[key] = obs


# ------------------------------------------------------------------------------------------------------------------
# generator


def mk(i, cfg, cfg_path=False, cfg_files=()):
    return {"op": "construct", "i": i, "cfg": cfg, "cfg_path": cfg_path, "cfg_files": list(cfg_files)}


def add(i, cname, dest=None):
    return {"op": "add", "i": i, "dest": dest or DEST[cname], "cls": CLASSES[cname]}


def parse(i, argv, known=False):
    return {"op": "parse", "i": i, "known": known, "argv": list(argv)}


def hist(ops, note=None):
    c = {"ops": ops, "files": FILES}
    if note:
        c["note"] = note
    return {"op": "hist.run", "case": c}


def alphabet():
    """25 letters over three slots (a letter may be a short macro: constructor + its add_arguments)"""
    c0, c1, c2 = CFGS[1], CFGS[3], CFGS[0]
    s0, s2 = segments(c0, "A", "a"), segments(c2, "S", "s")
    k = segments(c2, "K", "k")
    f = segments(c1, "F", "f")
    return [
        # slot 0: A under DASH; K (custom type=) shared with slot 2
        ("mk0", [mk(0, c0), add(0, "A")]), ("mk0k", [mk(0, c2), add(0, "K")]),
        ("p0ok", [parse(0, s0["ok1"])]), ("p0foreign", [parse(0, s0["foreign"])]), ("p0h", [parse(0, ["-h"])]),
        ("p0k", [parse(0, k["ok1"])]), ("h0", [{"op": "print_help", "i": 0}]), ("add0", [add(0, "B")]),
        # slot 1: F under NESTED (heterogeneous tuples with a bool item: rejected mid-tuple / at the last item, then
        # valid); or A with a constructor config file in the root-less layout (WITHOUT_ROOT, one dataclass)
        ("mk1f", [mk(1, c1), add(1, "F")]), ("mk1c", [mk(1, CFGS[5], cfg_files=[D + "/r0.json"]), add(1, "A")]),
        ("p1fok", [parse(1, f["ok1"])]), ("p1fbadlast", [parse(1, f["bad_last"])]), ("p1fbadmid", [parse(1, f["bad_mid"])]),
        ("p1ftwice", [parse(1, f["twice"])]), ("p1empty", [parse(1, [])]), ("h1", [{"op": "print_help", "i": 1}]),
        # slot 2: S (subgroups) — plain, or WITHOUT_ROOT with a root-less constructor file; or K
        ("mk2", [mk(2, c2), add(2, "S")]), ("mk2c", [mk(2, CFGS[5], cfg_files=[D + "/rs.json"]), add(2, "S")]),
        ("mk2k", [mk(2, c2), add(2, "K")]),
        ("p2y", [parse(2, s2["ok1"])]), ("p2x", [parse(2, s2["ok2"])]), ("p2empty", [parse(2, [], known=True)]),
        ("p2bad", [parse(2, s2["bad"])]), ("p2k", [parse(2, k["ok1"])]), ("h2", [{"op": "print_help", "i": 2}]),
    ]


def exhaustive_words(maxlen):
    """every word over the alphabet, up to `maxlen` letters, in which each call addresses a constructed parser, the
    late add happens at most once and the last call is a parse (by extension of valid prefixes, length by length)"""
    letters = alphabet()
    level = [((), frozenset(), False)]
    for _n in range(1, maxlen + 1):
        nxt = []
        for word, alive, added in level:
            for letter in letters:
                name, ops = letter
                i = ops[0]["i"]
                if name.startswith("mk"):
                    nxt.append((word + (letter,), alive | {i}, added))
                elif i in alive and not (name == "add0" and added):
                    nxt.append((word + (letter,), alive, added or name == "add0"))
        level = nxt
        for word, _alive, _added in level:
            if word[-1][1][0]["op"] == "parse":
                yield word


def word_case(word):
    return hist([op for _, ops in word for op in ops], note="exh:" + "+".join(w[0] for w in word))


def exhaustive(maxlen):
    for word in exhaustive_words(maxlen):
        yield word_case(word)


def make_definition(rng):
    """a parser definition + a small fixed menu of argv for it (keeps the number of distinct fresh-interpreter runs small)"""
    cfg = rng.choice(CFGS)
    names = rng.sample(["A", "B", "T", "S", "L", "K", "F", "UA", "UB"], rng.choice([1, 1, 2, 2, 3]))
    r = rng.random()
    cp = r < 0.25
    cf = []
    if 0.25 <= r < 0.45:
        # constructor config_path=: dataclass A (or S: its child wrapper changes len(_wrappers) after the set-up), file in
        # the layout its nested mode expects; one in four in the commonest form (add_config_path_arg implied True)
        first = rng.choice(["A", "A", "S"])
        names = [first] + [nm for nm in names if nm not in ("A", "S")][: rng.choice([0, 0, 1])]
        rootless = cfg["nest"] == "WITHOUT_ROOT" and len(names) == 1
        if rootless:
            cf = [D + ROOTLESS_FOR[first]]
        elif first == "A":
            cf = [D + rng.choice(["/f0.json", "/f1.json"])]
        else:
            cf = []
        cp = bool(cf) and rng.random() < 0.25
    free = [nm for nm in ["A", "B", "T", "L"] if nm not in names]
    d = {"cfg": cfg, "cp": cp, "cf": cf, "names": names, "late": rng.choice(free) if free and rng.random() < 0.7 else None}

    def menu(ns):
        out = [[], ["-h"], ["--zzz"]]
        for _ in range(7):
            argv = []
            for nm in rng.sample(ns, rng.randint(1, min(2, len(ns)))):
                segs = segments(cfg, nm, DEST[nm])
                argv += segs[rng.choice(sorted(segs))]
            if "B" in ns and not any(a.split("=")[0].endswith(("lr_x", "lr-x")) for a in argv) and rng.random() < 0.8:
                argv += segments(cfg, "B", "b")["ok1"]
            if cp and rng.random() < 0.6:
                rootless = cfg["nest"] == "WITHOUT_ROOT" and len(ns) == 1
                if rootless:
                    fs = [D + ROOTLESS_FOR[ns[0]], D + "/nope.json"] if ns[0] in ROOTLESS_FOR else [D + "/nope.json"]
                else:
                    fs = [f[0] for f in FILES if f[1] is None or (not isinstance(f[1], dict) and all(DEST_INV[dk[0]] in ns for dk in f[1]))]
                if fs:
                    argv += ["--config_path"] + rng.sample(fs, rng.randint(1, min(2, len(fs))))
            out.append(argv)
        return out

    d["menu"] = menu(names)
    d["menu_late"] = menu(names + [d["late"]]) if d["late"] else d["menu"]
    return d


def conflict_definitions():
    """ORACLE-ONLY stream (the model answers `unmodelled`: option conflicts are outside its fragment): the same class at
    two destinations, so that AUTO conflict resolution renames the options during the one-time set-up"""
    U = CFGS[0]
    return [
        {"cfg": U, "cp": False, "cf": [], "regs": [("A", "a1"), ("A", "a2")], "late": None,
         "menu": [[], ["-h"], ["--a1.a_b", "3"], ["--a2.name", "q", "--a1.a_b", "4"], ["--a_b", "3"], ["--a1.a_b", "notint"]]},
        {"cfg": U, "cp": False, "cf": [], "regs": [("S", "s1"), ("S", "s2")], "late": None,
         "menu": [[], ["--s1.mod", "z"], ["--s1.mod", "y", "--s2.mod", "x"], ["--s1.mod", "y"], ["--s2.k_v", "3"]]},
        {"cfg": CFGS[1], "cp": False, "cf": [], "regs": [("A", "a1"), ("A", "a2")], "late": None,
         "menu": [[], ["--a1.a-b", "3"], ["--a2.a-b", "5", "--a1.name", "w"], ["--a1.a_b", "3"]]},
    ]


def union_order_stream():
    """two (three) parsers whose dataclasses hold builtin-generic containers over Unions with the same members in different
    orders; set up and parsed in both orders, interleaved, also through print_help"""
    U, D_ = CFGS[0], CFGS[1]
    a, b = segments(U, "UA", "ua"), segments(U, "UB", "ub")
    H = lambda i: {"op": "print_help", "i": i}  # noqa: E731
    out = []
    for first, second, sa, sb in (("UA", "UB", a, b), ("UB", "UA", b, a)):
        for k in ("ok1", "ok2", "ok3", "ok4"):
            out.append(hist([mk(0, U), add(0, first), parse(0, sa[k]), mk(1, U), add(1, second), parse(1, sb[k]), parse(0, sa[k])],
                            note=f"union-order:{first}>{second}:{k}"))
        out.append(hist([mk(0, U), add(0, first), H(0), mk(1, D_), add(1, second), parse(1, sb["ok1"]), parse(1, sb["ok2"]), parse(1, sb["ok3"]),
                         parse(0, sa["ok1"]), parse(0, sa["ok3"])], note=f"union-order:{first}>{second}:help"))
        out.append(hist([mk(0, U), add(0, first), mk(1, U), add(1, second), mk(2, U), add(2, first), parse(1, sb["bad"]), parse(0, sa["ok1"]),
                         parse(1, sb["ok1"]), parse(2, sa["ok2"]), parse(1, sb["ok2"])], note=f"union-order:{first}>{second}:three"))
    return out


def nested_rootless_stream():
    """ORACLE-ONLY (`model: False`): WITHOUT_ROOT parser over a dataclass nested 3 / 4 levels deep, root-less config file
    through the constructor and through --config_path, 2-3 parses on the same parser, also print_help first"""
    W = CFGS[5]
    H = lambda i: {"op": "print_help", "i": i}  # noqa: E731
    out = []
    for cname, f in (("N3", D + "/rn3.json"), ("N4", D + "/rn4.json")):
        for pre in ([], [H(0)]):
            out.append(hist([mk(0, W, cfg_files=[f]), add(0, cname)] + pre + [parse(0, []), parse(0, []), parse(0, ["--zzz"], known=True)],
                            note=f"nested-rootless:{cname}:ctor:{len(pre)}"))
            out.append(hist([mk(0, W, True), add(0, cname)] + pre + [parse(0, ["--config_path", f]), parse(0, ["--config_path", f]), parse(0, [])],
                            note=f"nested-rootless:{cname}:argv:{len(pre)}"))
    out.append(hist([mk(0, W, True), add(0, "N3"), parse(0, ["--config_path", D + "/rnbad.json"]), parse(0, ["--config_path", D + "/rnbad.json"])],
                    note="nested-rootless:N3:unknown-key"))
    for c in out:
        c["model"] = False
    return out


def random_history(rng, maxlen, defs):
    n_parsers = rng.choice([1, 2, 2, 3, 3])
    ops, alive = [], {}
    target = rng.randint(3, maxlen)

    def new_parser(i):
        d = rng.choice(defs)
        ops.append(mk(i, d["cfg"], d["cp"], d["cf"]))
        for nm, dest in d.get("regs") or [(nm, None) for nm in d["names"]]:
            ops.append(add(i, nm, dest))
        alive[i] = {"d": d, "late": False}

    for i in range(n_parsers):
        if i == 0 or rng.random() < 0.6:
            new_parser(i)
    while len(ops) < target:
        r = rng.random()
        if r < 0.10:
            new_parser(rng.randrange(n_parsers))
            continue
        i = rng.choice(sorted(alive))
        p = alive[i]
        if r < 0.74:
            ops.append(parse(i, rng.choice(p["d"].get("menu_late", p["d"]["menu"]) if p["late"] else p["d"]["menu"]), known=rng.random() < 0.12))
        elif r < 0.86:
            ops.append({"op": "print_help", "i": i})
        elif r < 0.92:
            ops.append({"op": "format_help", "i": i})
        elif p["d"]["late"] and not p["late"]:
            ops.append(add(i, p["d"]["late"]))
            p["late"] = True
    return hist(ops)


DEST_INV = {v: k for k, v in DEST.items()}


def gen_list(rng, tier):
    # quick: every word up to length 3, every 150th of length 4; thorough: up to length 3 + every 4th of length 4 + every
    # 150th of length 5 (which ones depends on the seed)
    strides = {4: 150} if tier == "quick" else {4: 3, 5: 150}
    offs = {n: rng.randrange(st) for n, st in sorted(strides.items())}
    seen = {n: 0 for n in strides}
    cases = []
    for word in exhaustive_words(max(strides)):
        n = len(word)
        if n in strides:
            seen[n] += 1
            if (seen[n] - 1) % strides[n] != offs[n]:
                continue
        cases.append(word_case(word))
    cases += union_order_stream() + nested_rootless_stream()
    defs = [make_definition(rng) for _ in range(12 if tier == "quick" else 70)]
    defs += conflict_definitions() * (1 if tier == "quick" else 2)
    n_rand = 100 if tier == "quick" else 2000
    for k in range(n_rand):
        cases.append(random_history(rng, 12 if k % 3 else 30, defs))
    return cases


def gen(rng, tier):
    cases = gen_list(rng, tier)
    precompute(cases + corpus_cases())
    yield from cases
    # unit-level op: the model's `fresh` (right-hand side of the theorems) against the fresh interpreter itself
    keys = set()
    for c in cases:
        if c.get("model") is False:
            continue  # oracle-only streams have no model side
        ops = c["case"]["ops"]
        for k, op in enumerate(ops):
            if op["op"] == "parse":
                keys.add(fresh_key(spec_at(ops, k), op.get("known", False), op["argv"], c["case"].get("files")))
    keys = sorted(keys)
    rng.shuffle(keys)
    for key in keys[: 80 if tier == "quick" else 1000]:
        spec, known, argv, files = json.loads(key)
        yield {"op": "hist.fresh", "case": {"spec": spec, "known": known, "argv": argv, "files": files}}


def corpus_cases():
    out = []
    d = VERIF / "harness" / "corpus" / PID
    if d.is_dir():
        for f in sorted(d.glob("*.json")):
            j = json.loads(f.read_text())
            out += j if isinstance(j, list) else [j]
    return out


# ------------------------------------------------------------------------------------------------------------------
# plugin API


def impl(case):
    c = case["case"]
    if case["op"] == "hist.fresh":
        return {"fresh1": fresh_answer(c["spec"], c["known"], c["argv"], c["files"])}
    outs, trace = run_history_isolated(case["case"])
    fresh = []
    for k, op in enumerate(c["ops"]):
        if op["op"] == "parse" and spec_at(c["ops"], k) is not None:
            fresh.append(fresh_answer(spec_at(c["ops"], k), op.get("known", False), op["argv"], c.get("files")))
        else:
            fresh.append(None)
    return {"outs": outs, "trace": trace, "fresh": fresh}


def same(a, b):
    return canon(a) == canon(b)


def diff_parts(g, f):
    """the components in which two outcomes of one call differ (each is attributed — or not — on its own):
    outcome (one of them is not a returned namespace), other (stray namespace attributes), sub (subgroup choice /
    instance), leaves (plain field values: set of (dest, field)), shape (anything else)"""
    if g["o"] != "ok" or f["o"] != "ok":
        return {"outcome": True}
    parts = {}
    if sorted(g.get("other") or []) != sorted(f.get("other") or []):
        parts["other"] = True
    gi, fi = {i["dest"]: i for i in g["insts"]}, {i["dest"]: i for i in f["insts"]}
    if sorted(gi) != sorted(fi) or g["extras"] != f["extras"] or g["cfg"] != f["cfg"]:
        parts["shape"] = True
    if g["subgroups"] != f["subgroups"]:
        parts["sub"] = True
    leaves = set()
    for d in set(gi) & set(fi):
        a, b = gi[d], fi[d]
        if a["cls"] != b["cls"] or [n for n, _ in a["fields"]] != [n for n, _ in b["fields"]]:
            parts["shape"] = True
            continue
        if a.get("sub") != b.get("sub"):
            parts["sub"] = True
        leaves |= {(d, n) for (n, v), (_, w) in zip(a["fields"], b["fields"]) if v != w}
    if leaves:
        parts["leaves"] = sorted(leaves)
    return parts


def oracle(case, obs):
    fails = []
    if case["op"] == "hist.fresh":
        return fails
    ops = case["case"]["ops"]
    for k, op in enumerate(ops):
        if op["op"] != "parse" or obs["fresh"][k] is None:
            continue
        if not same(obs["outs"][k], obs["fresh"][k]):
            parts = diff_parts(obs["outs"][k], obs["fresh"][k])
            # one failure per differing component, and per differing leaf: each must be explained on its own
            units = [(part, None) for part in sorted(parts) if part != "leaves"] + [("leaves", leaf) for leaf in parts.get("leaves", [])]
            for part, leaf in units or [("shape", None)]:
                probe = {"clause": "history-independence", "k": k, "part": part, "leaf": leaf}
                known = [fid for fid, pred in FINDINGS.items() if pred(case, obs, probe)]
                # the clause names the signature it matches, so that shrinking a NEW failure cannot drift into a known one
                what = part if leaf is None else f"leaf {leaf[0]}.{leaf[1]}"
                fails.append({"clause": "history-independence" + (":like:" + known[0] if known else ""), "k": k, "part": part, "leaf": leaf,
                              "detail": f"call #{k} parse(parser {op['i']}, {op['argv']}) [{what}] returned {canon(obs['outs'][k])[:400]} "
                                        f"but a fresh identically configured parser returns {canon(obs['fresh'][k])[:400]}"})
    return fails


def _proj_out(o):
    if o["o"] == "ok":
        return {"o": "ok", "insts": sorted(o["insts"], key=lambda i: i["dest"]), "subgroups": sorted(o["subgroups"]),
                "cfg": o["cfg"], "extras": o["extras"], "other": sorted(o.get("other") or [])}
    if o["o"] == "exit":
        return {"o": "exit", "code": o["code"]}
    if o["o"] == "raise":
        return {"o": "raise", "exc": o["exc"]}
    return o


def project(case, obs):
    if case["op"] == "hist.fresh":
        return _proj_out(obs["fresh1"])
    return {"outs": [_proj_out(o) for o in obs["outs"]], "g": [t["G_after"] for t in obs["trace"]],
            "closures_at_tuple_start": [not t["after"]["tuple_dirty"] for t in obs["trace"]]}


def project_model(case, mo):
    if case["op"] == "hist.fresh":
        return _proj_out(mo)
    # Model/History.lean starts every call with all parse_tuple counters at 0: that is this (constant) observable
    return {"outs": [_proj_out(o) for o in mo.get("outs", [])], "g": mo.get("g"),
            "closures_at_tuple_start": [True] * len(mo.get("outs", []))}


def model_unmodelled(mo):
    return mo.get("o") == "unmodelled" or any(o.get("o") == "unmodelled" for o in mo.get("outs", []))


def model_case(case, obs):
    c = case["case"]
    toks = []
    if case["op"] == "hist.fresh":
        ops = [{"op": "parse", "argv": c["argv"]}] + [{"op": "add", "cls": r["cls"]} for r in c["spec"]["regs"]]
        return dict(c, floats=_floats(ops), files=[f for f in (c.get("files") or []) if not (isinstance(f[1], dict) and "raw" in f[1])])
    files = [f for f in (c.get("files") or []) if not (isinstance(f[1], dict) and "raw" in f[1])]  # raw files: oracle-only stream
    return {"ops": c["ops"], "files": files, "floats": _floats(c["ops"])}


def _floats(ops):
    toks = []
    for op in ops:
        if op["op"] == "parse":
            for a in op["argv"]:
                toks.append(a)
                if "=" in a:
                    toks.append(a.split("=", 1)[1])
        if op["op"] == "add":
            cs = op["cls"]
            fl = list(cs["fields"]) + [f for a in (cs.get("sub") or {}).get("alts", []) for f in a["fields"]]
            for f in fl:
                d = f["default"]
                if d["kind"] != "missing" and d["v"]["t"] == "str":
                    toks.append(d["v"]["v"])
    return GT.floats_table(toks)


def nontrivial(case, obs):
    if case["op"] == "hist.fresh":
        return len(case["case"]["argv"]) > 0
    ops = case["case"]["ops"]
    per = {}
    alive = set()
    multi = False
    for op in ops:
        if op["op"] == "construct":
            alive.add(op["i"])
            per[op["i"]] = 0
        if op["op"] == "parse":
            per[op["i"]] = per.get(op["i"], 0) + 1
            multi = multi or len(alive) >= 2
    return multi or any(v >= 2 for v in per.values())


def tags(case, obs):
    if case["op"] == "hist.fresh":
        return ["op:hist.fresh", "fresh:" + obs["fresh1"]["o"]]
    ops = case["case"]["ops"]
    note = str(case["case"].get("note", ""))
    t = [f"len:{min(len(ops), 30) // 5 * 5}+", "src:" + (f"exh{note.count('+') + 1}" if note.startswith("exh") else "other")]
    alive, start, helped, failed, ctor_between, setup = {}, {}, {}, {}, {}, {}
    for k, op in enumerate(ops):
        i = op["i"]
        t.append("op:" + op["op"])
        tr = obs["trace"][k]
        if op["op"] == "construct":
            c = op["cfg"]
            kind = "ctor-file+implied-arg" if op.get("cfg_files") and op.get("cfg_path") else "ctor-file" if op.get("cfg_files") \
                else "config-path-arg" if op.get("cfg_path") else "plain"
            t += [f"cfg:{c['dash']}/{c['gen']}/{c['nest']}", "parser:" + kind]
            for j in alive:
                if not setup.get(j):
                    ctor_between[j] = ctor_between.get(j, False) or alive[j] != c
            alive[i], start[i], helped[i], failed[i], ctor_between[i], setup[i] = c, k, False, False, False, False
        elif op["op"] == "add":
            t.append("class:" + op["cls"]["name"])
        elif op["op"] == "print_help":
            helped[i] = True
        if op["op"] == "parse" and obs["fresh"][k] is not None:
            agree = same(obs["outs"][k], obs["fresh"][k])
            b = tr["before"] or {}
            t.append(f"parse:{'agree' if agree else 'DIFFER'}:{'re' if b.get('pre') else 'first'}:{obs['outs'][k]['o']}")
            t.append(f"alive:{len(alive)}")
            t.append("api:" + ("parse_known_args" if op.get("known") else "parse_args"))
            if not b.get("pre") and ctor_between.get(i):
                t.append("shape:other-ctor-before-first-setup")
            if helped.get(i):
                t.append("shape:after-print_help")
            if failed.get(i):
                t.append("shape:after-failed-parse")
            spec = spec_at(ops, k)
            if spec["cfg_path"] and not spec["cfg_files"] and bool(b.get("pre")) != bool(b.get("cfg_reg")):
                t.append("gap:cfgsetup")  # the theorem's stated proof gap: covered by sampling only
            if spec["cfg_files"] and b.get("pre") is not None and (b.get("pre") or any(ops[j]["op"] == "parse" and ops[j]["i"] == i for j in range(start[i], k))):
                t.append("gap:ctor-file-implied-arg" if spec["cfg_path"] else "thm:ctor-file-reparse(if ctorReloadSafe)")
            if obs["outs"][k]["o"] != "ok":
                failed[i] = True
        if tr["after"].get("pre"):
            setup[i] = True
    return t


# ------------------------------------------------------------------------------------------------------------------
# open findings: narrow signatures over (history, real hidden state before the failing call, both answers)


def _ctx(case, obs, fail):
    ops = case["case"]["ops"]
    k = fail.get("k")
    if k is None or not str(fail.get("clause", "")).startswith("history-independence"):
        return None
    op = ops[k]
    i = op["i"]
    start = max(j for j in range(k) if ops[j]["i"] == i and ops[j]["op"] == "construct")
    mine = [j for j in range(start, k) if ops[j]["i"] == i]
    return {"ops": ops, "k": k, "op": op, "spec": spec_at(ops, k), "start": start, "mine": mine, "part": fail.get("part"),
            "leaf": tuple(fail["leaf"]) if fail.get("leaf") else None,
            "parts": diff_parts(obs["outs"][k], obs["fresh"][k]),
            "before": obs["trace"][k]["before"] or {}, "got": obs["outs"][k], "fresh": obs["fresh"][k], "trace": obs["trace"]}


def _norm(tok):
    return tok.split("=", 1)[0].lstrip("-").replace("-", "_")


def _mentions(argv, names):
    """some option token of argv ends with one of the (underscore-normalised) field names"""
    return any(a.startswith("-") and any(_norm(a) == n or _norm(a).endswith("." + n) for n in names) for a in argv)


def _subs_of(spec):
    return {r["dest"] + "." + r["cls"]["sub"]["name"]: r["cls"]["sub"] for r in spec["regs"] if r["cls"].get("sub")}


def sig_d9(case, obs, fail):
    x = _ctx(case, obs, fail)
    if not x or not x["before"].get("pre") or x["part"] not in ("sub", "outcome", "shape"):
        return False
    subs = _subs_of(x["spec"])
    if not subs:
        return False
    frozen = x["before"].get("frozen_sub", {})
    g, f = x["got"], x["fresh"]
    if x["part"] == "shape":
        # parse_known_args: the options of the alternative that is not the frozen one are handed back as leftovers
        if not x["parts"].get("sub") or g["cfg"] != f["cfg"] or [(i["dest"], i["cls"]) for i in g["insts"]] != [(i["dest"], i["cls"]) for i in f["insts"]]:
            return False
        alt_fields = {fl["name"] for s_ in subs.values() for a in s_["alts"] for fl in a["fields"]}
        odd = [tok for tok in g["extras"] if tok not in f["extras"]] + [tok for tok in f["extras"] if tok not in g["extras"]]
        return bool(odd) and _mentions(odd, alt_fields)
    want = {}
    if f["o"] == "ok":
        want = {i["dest"] + "." + i["sub"]["name"]: i["sub"]["cls"] for i in f["insts"] if i.get("sub")}
    elif g["o"] == "ok":
        for dest, v in g["subgroups"]:
            alt = next((a for a in subs.get(dest, {"alts": []})["alts"] if a["key"] == v.get("v")), None)
            if alt:
                want[dest] = alt["cls"]
    else:
        # both calls failed, differently (e.g. `--k_v notint --mod z`: the frozen parser stops at the bad int, a fresh one
        # at the choice): only when this argv addresses the subgroup flag or a field of one of its alternatives
        names = {s_["name"] for s_ in subs.values()} | {fl["name"] for s_ in subs.values() for a in s_["alts"] for fl in a["fields"]}
        return any(frozen.get(d) for d in subs) and _mentions(x["op"]["argv"], names)
    return any(frozen.get(d) is not None and want.get(d) is not None and frozen[d] != want[d] for d in subs)


def _file_fields(x):
    """(dest, field) pairs the config files named on the command lines of this parser (since its construction, this
    call included) can push; None if no file was named"""
    names = set()
    for j in x["mine"] + [x["k"]]:
        if x["ops"][j]["op"] == "parse":
            for a in x["ops"][j]["argv"]:
                names |= {t for t in (a, a.split("=", 1)[-1]) if t.endswith(".json")}
    if not names:
        return None
    out = set()
    single = x["spec"]["regs"][0]["dest"] if len(x["spec"]["regs"]) >= 1 else None
    for name, content in case_files(x):
        if name in names and content is not None:
            if isinstance(content, dict):
                out |= {(single, k) for k, _ in (content.get("rootless") or [[k, None] for k in content.get("raw", {})])}
            else:
                out |= {(dest, k) for dest, kvs in content for k, _ in kvs}
    return out


def case_files(x):
    return x.get("files") or FILES


def sig_d10(case, obs, fail):
    x = _ctx(case, obs, fail)
    if not x or not x["spec"]["cfg_path"] or x["part"] not in ("leaves", "outcome"):
        return False  # (constructor files alone are re-applied by every call, print_help included: nothing known there)
    fields = _file_fields(x)
    if not fields:
        return False  # no config file was ever named on a command line of this parser
    g, f = x["got"], x["fresh"]
    if x["part"] == "outcome":
        req = {"o": "exit", "code": 2, "kind": "required"}
        if (g == req) != (f == req) and "raise" not in (g["o"], f["o"]):
            # a pushed default makes a required field optional (or the ignored file leaves it required)
            required = {(r["dest"], fl["name"]) for r in x["spec"]["regs"] for fl in r["cls"]["fields"] if fl["default"]["kind"] == "missing"}
            return bool(required & fields)
        return False
    # only a leaf that a named file can push
    return x["leaf"] in fields


def sig_late_add(case, obs, fail):
    x = _ctx(case, obs, fail)
    if not x or x["part"] not in ("leaves", "outcome", "shape"):
        return False
    late = [x["ops"][j] for j in x["mine"] if x["ops"][j]["op"] == "add" and (x["trace"][j]["before"] or {}).get("pre")]
    if not late:
        return False
    late_dests = {op["dest"] for op in late}
    late_fields = {fl["name"] for op in late for fl in op["cls"]["fields"]}
    late_required = any(fl["default"]["kind"] == "missing" for op in late for fl in op["cls"]["fields"])
    if x["part"] == "leaves":
        if x["leaf"] is None:
            return False
        if x["leaf"][0] in late_dests:
            return True
        # the late registration changed len(_wrappers): a root-less file that was applied while the parser had ONE
        # dataclass is not root-less for a fresh parser that has two from the start (its keys never reach the fields)
        if x["spec"]["cfg"]["nest"] == "WITHOUT_ROOT" and x["spec"]["regs"]:
            keys = _rootless_keys(x)
            return x["leaf"] in {(x["spec"]["regs"][0]["dest"], k) for k in keys}
        return False
    if x["part"] == "shape":
        # parse_known_args: the late class's options (and their values) are handed back as leftovers
        g, f = x["got"], x["fresh"]
        same_rest = g["cfg"] == f["cfg"] and [(i["dest"], i["cls"]) for i in g["insts"]] == [(i["dest"], i["cls"]) for i in f["insts"]]
        surplus = [tok for tok in g["extras"] if tok not in f["extras"]]
        return same_rest and bool(surplus) and _mentions(surplus, late_fields) and all(tok in g["extras"] for tok in f["extras"])
    # one side rejected the command line: it must be about the late class (its options are unknown to the old parser /
    # its required field is only demanded by a fresh one)
    return _mentions(x["op"]["argv"], late_fields) or late_required


def _rootless_keys(x):
    names = set(x["spec"]["cfg_files"])
    for j in x["mine"] + [x["k"]]:
        if x["ops"][j]["op"] == "parse":
            names |= {a for a in x["ops"][j]["argv"] if a.endswith(".json")}
    return {k for name, content in FILES if name in names and isinstance(content, dict) for k, _ in (content.get("rootless") or [[k, None] for k in content.get("raw", {})])}


FINDINGS = {
    "C08-D9-subgroup-choice-frozen": sig_d9,
    "C08-D10-file-defaults-persist": sig_d10,
    "C08-late-add-ignored": sig_late_add,
}


# ------------------------------------------------------------------------------------------------------------------
# shrinking / neighbourhood


def _valid(ops):
    """every call addresses a constructed parser, no destination is registered twice on one parser, some parse exists"""
    dests = {}
    for op in ops:
        if op["op"] == "construct":
            dests[op["i"]] = set()
        elif op["i"] not in dests:
            return False
        elif op["op"] == "add":
            if op["dest"] in dests[op["i"]]:
                return False
            dests[op["i"]].add(op["dest"])
    return any(op["op"] == "parse" for op in ops)


def shrink(case):
    c = case["case"]
    if case["op"] == "hist.fresh":
        return
    ops = c["ops"]
    for j in range(len(ops)):
        cand = ops[:j] + ops[j + 1:]
        if _valid(cand):
            yield {"op": case["op"], "case": dict(c, ops=cand)}
    for j, op in enumerate(ops):
        if op["op"] == "parse" and len(op["argv"]) > 0:
            for cut in range(len(op["argv"])):
                cand = list(ops)
                cand[j] = dict(op, argv=op["argv"][:cut] + op["argv"][cut + 1:])
                yield {"op": case["op"], "case": dict(c, ops=cand)}


def neighbours(case, rng):
    c = case["case"]
    if case["op"] == "hist.fresh":
        return
    ops = c["ops"]
    for _ in range(40):
        cand = list(ops)
        r = rng.random()
        if r < 0.4 and len(cand) > 1:
            del cand[rng.randrange(len(cand))]
        elif r < 0.7:
            j = rng.randrange(len(cand))
            cand.insert(j, cand[rng.randrange(len(cand))])
        else:
            a, b = rng.randrange(len(cand)), rng.randrange(len(cand))
            cand[a], cand[b] = cand[b], cand[a]
        if _valid(cand):
            cs = [{"op": case["op"], "case": dict(c, ops=cand)}]
            precompute(cs)
            yield cs[0]
