"""C12 — boolean flags: bare means True, negative means False, values parse, last wins."""
from __future__ import annotations

import argparse
import dataclasses
import itertools

from harness.core import sp

PID = "C12"
RULE = ("cases: (a) str2bool over every casing of the 10 vocabulary words, padded and non-words; (b) the negative-option "
        "string surgery of the real BooleanOptionalAction on parser-produced and synthetic option lists; (c) end-to-end "
        "parses of occurrence sequences (bare / negative / valued / value-on-negative) in 8 prefix situations (incl. two-dot paths) x dash "
        "variants x custom negative prefix/option; exhaustive for sequences of length <= 2 (quick) / <= 3 (thorough) in "
        "the plain situation. Non-trivial = an end-to-end case with >= 2 occurrences or a prefixed situation, or a "
        "unit case with a dotted / multi-spelling option list; distinct by canonical JSON of the case.")
ASSUMPTIONS = [
    "argparse's nargs='?' consumption of the next non-option token (stdlib)",
    "str.lower()/str.strip() are modelled on ASCII; generated tokens are ASCII",
]
TRUSTED = ["stdlib argparse option lexing"]
EXHAUSTIVE = {"quick": False, "thorough": False}
THOROUGH_ROUNDS = 3   # thorough tier: this many generator passes with derived PRNG states (vcheck)

TRUE_W = ["yes", "true", "t", "y", "1"]
FALSE_W = ["no", "false", "f", "n", "0"]
NONWORDS = ["maybe", "2", "tru", "", "yess", "on", "off", "none"]


def spec_word(w: str):
    v = w.strip().lower()
    if v in TRUE_W:
        return True
    if v in FALSE_W:
        return False
    return None


# ------------------------------------------------------------------------------------------------
# generators


def casings(w: str):
    return sorted({w, w.upper(), w.capitalize(), w[:1] + w[1:].upper()})


def all_casings(w: str):
    letters = [(c.lower(), c.upper()) if c.isalpha() else (c,) for c in w]
    return sorted({"".join(p) for p in itertools.product(*letters)})


OCC_ALPHABET_SMALL = (
    [{"k": "bare"}, {"k": "neg"}]
    + [{"k": "valued", "w": w} for w in ["true", "False", "Y", "0", "maybe"]]
    + [{"k": "negvalued", "w": w} for w in ["true", "maybe"]]
)


def occ_alphabet_full():
    a = [{"k": "bare"}, {"k": "neg"}]
    for w in TRUE_W + FALSE_W:
        for c in casings(w):
            a.append({"k": "valued", "w": c})
    for w in NONWORDS:
        a.append({"k": "valued", "w": w})
    a.append({"k": "negvalued", "w": "true"})
    a.append({"k": "negvalued", "w": "0"})
    a.append({"k": "negvalued", "w": "maybe"})
    return a


SITUATIONS = ["plain", "auto2", "explicit2", "nested_gen", "member_auto", "both_gen", "nested_member", "explicit_member"]
NEGS = [
    {"neg_prefix": None, "neg_option": None},
    {"neg_prefix": "--no-", "neg_option": None},
    {"neg_prefix": "--disable_", "neg_option": None},
    {"neg_prefix": None, "neg_option": "silent"},
    {"neg_prefix": None, "neg_option": "-s"},
    {"neg_prefix": None, "neg_option": "--quiet"},
]
NAMES = ["flag", "v", "my_flag"]


def e2e_case(rng, occs, situation="plain", default=False, name="flag", dash="UNDERSCORE", neg=None):
    neg = neg or NEGS[0]
    occs = [dict(o, si=rng.randrange(4), eq=rng.random() < 0.5) for o in occs]
    return {"op": "bool.run", "case": {"situation": situation, "default": default, "name": name, "dash": dash,
                                       "neg_prefix": neg["neg_prefix"], "neg_option": neg["neg_option"], "occs": occs}}


def gen(rng, tier):
    # (a) vocabulary
    for w in TRUE_W + FALSE_W:
        for c in all_casings(w):
            yield {"op": "str2bool", "case": {"s": c}}
        yield {"op": "str2bool", "case": {"s": "  " + w + "\t"}}
        yield {"op": "str2bool", "case": {"s": w + "x"}}
        yield {"op": "str2bool", "case": {"s": w[:-1]}}
    for w in NONWORDS + ["ye s", "t rue", "TRUE ", "\nno", "10", "01", "-1", "Ｙ"]:
        yield {"op": "str2bool", "case": {"s": w}}
    # (b) negative option surgery on synthetic option lists
    parts = ["a", "b", "flag", "my_flag", "x-y", "v"]
    n_unit = 250 if tier == "quick" else 4000
    for _ in range(n_unit):
        opts = []
        for _ in range(rng.randrange(1, 4)):
            depth = rng.choice([0, 0, 1, 2, 3])
            body = ".".join(rng.choice(parts) for _ in range(depth + 1))
            opts.append(rng.choice(["-", "--", "--", "---"]) + body)
        neg = rng.choice(NEGS + [{"neg_prefix": "-n", "neg_option": None}, {"neg_prefix": "no", "neg_option": None},
                                  {"neg_prefix": None, "neg_option": "q"}])
        cp = rng.choice(["", "", "a.", "a.b.", "x_y."])
        yield {"op": "bool.neg", "case": {"opts": opts, "neg_prefix": neg["neg_prefix"] or "--no",
                                           "neg_option": neg["neg_option"], "conflict_prefix": cp, "synthetic": True}}
    # (c) end-to-end
    maxlen = 2 if tier == "quick" else 3
    alpha = OCC_ALPHABET_SMALL
    for default in (True, False, None):
        for n in range(0, maxlen + 1):
            for seq in itertools.product(alpha, repeat=n):
                yield e2e_case(rng, list(seq), default=default)
    full = occ_alphabet_full()
    for default in (True, False, None):
        for o in full:
            yield e2e_case(rng, [o], default=default)
    n_rand = 400 if tier == "quick" else 20000
    for _ in range(n_rand):
        sit = rng.choice(SITUATIONS)
        default = rng.choice([True, False, None]) if sit in ("plain", "nested_gen", "both_gen") else rng.choice([True, False])
        occs = [rng.choice(full) for _ in range(rng.choice([0, 1, 1, 2, 2, 3, 4]))]
        # an explicit negative option declared on a class used twice collides with itself unless a conflict prefix
        # exists; in NESTED mode there is none, and the property does not promise anything there.
        negs = NEGS[:3] if sit == "nested_member" else NEGS
        yield e2e_case(rng, occs, situation=sit, default=default, name=rng.choice(NAMES),
                       dash=rng.choice(sp.ALL_DASH), neg=rng.choice(negs))


# ------------------------------------------------------------------------------------------------
# real code


def _build(case):
    from simple_parsing.helpers import flag

    c = case
    default = c["default"]
    if c["neg_prefix"] is not None or c["neg_option"] is not None:
        kw = {}
        if c["neg_prefix"] is not None:
            kw["negative_prefix"] = c["neg_prefix"]
        if c["neg_option"] is not None:
            kw["negative_option"] = c["neg_option"]
        fld = flag(**({} if default is None else {"default": default}), **kw)
    else:
        fld = dataclasses.field() if default is None else dataclasses.field(default=default)
    C = dataclasses.make_dataclass("C", [(c["name"], bool, fld)])
    sit = c["situation"]
    cfg = {"dash": c["dash"]}
    if sit == "explicit2":
        cfg["cr"] = "EXPLICIT"
    if sit == "explicit_member":
        cfg["cr"] = "EXPLICIT"
    if sit in ("nested_gen", "nested_member"):
        cfg["gen"] = "NESTED"
    if sit == "both_gen":
        cfg["gen"] = "BOTH"
    sp.reset_globals()
    parser = sp.make_parser(cfg)
    if sit in ("plain", "nested_gen", "both_gen"):
        parser.add_arguments(C, dest="c")
        target, other = f"c.{c['name']}", None
    elif sit in ("auto2", "explicit2"):
        parser.add_arguments(C, dest="a")
        parser.add_arguments(C, dest="b")
        target, other = f"a.{c['name']}", f"b.{c['name']}"
    elif sit in ("member_auto", "nested_member", "explicit_member"):
        P = dataclasses.make_dataclass("P", [("m", C, dataclasses.field(default_factory=C)),
                                             ("k", C, dataclasses.field(default_factory=C))])
        parser.add_arguments(P, dest="p")
        target, other = f"p.m.{c['name']}", f"p.k.{c['name']}"
    else:
        raise ValueError(sit)
    sp.decoy(cfg)   # a parser constructed later with other settings must not change this one's flags
    return parser, target, other


def _get(ns, dotted):
    cur = ns
    for part in dotted.split("."):
        cur = getattr(cur, part)
    return cur


def impl(case):
    op, c = case["op"], case["case"]
    if op == "str2bool":
        from simple_parsing.utils import str2bool

        try:
            return {"o": "ok", "v": str2bool(c["s"])}
        except argparse.ArgumentTypeError:
            return {"o": "err"}
    if op == "bool.neg":
        from simple_parsing.helpers.custom_actions import BooleanOptionalAction

        try:
            kw = {}
            if c["neg_option"] is not None:
                kw["negative_option"] = c["neg_option"]
            a = BooleanOptionalAction(option_strings=c["opts"], dest="x", negative_prefix=c["neg_prefix"],
                                      _conflict_prefix=c["conflict_prefix"], **kw)
            return {"neg": list(a.negative_option_strings)}
        except (NotImplementedError, AssertionError):
            return {"err": "raise"}
    if op == "bool.run":
        # parser #1: read the real option strings; parser #2 (fresh): parse
        def setup():
            parser, target, other = _build(c)
            parser._preprocessing(args=[])
            return parser, target, other

        r = sp.run_outcome(setup)
        if r["o"] != "ok":
            return {"setup": r}
        parser, target, other = r["value"]
        act = sp.action_for_dest(parser, target)
        negs = list(getattr(act, "negative_option_strings", []))
        pos = [o for o in act.option_strings if o not in negs]
        fw_prefix = None
        for w in parser._wrappers:
            for f in w.fields:
                if f.dest == target:
                    fw_prefix = f.prefix
        all_opts = [o for a in parser._actions for o in sorted(set(a.option_strings))]
        argv = []
        for o in c["occs"]:
            k = o["k"]
            if k == "bare":
                argv.append(pos[o["si"] % len(pos)])
            elif k == "neg":
                argv.append(negs[o["si"] % len(negs)])
            else:
                base = pos[o["si"] % len(pos)] if k == "valued" else negs[o["si"] % len(negs)]
                if o["eq"]:
                    argv.append(f"{base}={o['w']}")
                else:
                    argv += [base, o["w"]]
        parser2, _, _ = _build(c)
        out = sp.run_outcome(lambda: parser2.parse_args(argv))
        res = {"pos": pos, "neg": negs, "prefix": fw_prefix, "argv": argv, "n_opts": len(all_opts),
               "n_distinct_opts": len(set(all_opts))}
        if out["o"] == "ok":
            ns = out["value"]
            res["out"] = {"o": "ok", "v": _get(ns, target)}
            if other is not None:
                res["other"] = _get(ns, other)
        else:
            res["out"] = {k: v for k, v in out.items() if k != "value"}
        return res
    raise ValueError(op)


def model_case(case, obs):
    c = case["case"]
    if case["op"] == "bool.run":
        return {"default": c["default"], "occs": [{"k": o["k"], "w": o.get("w", "")} for o in c["occs"]], "exit_neg": 2}
    return c


def project(case, obs):
    if case["op"] == "bool.run":
        if "setup" in obs:
            return {"setup": obs["setup"]["o"]}
        o = obs["out"]
        if o["o"] == "ok":
            return {"o": "ok", "v": o["v"]}
        if o["o"] == "exit":
            return {"o": "exit", "code": o["code"]}
        return {"o": "raise", "exc": o.get("exc")}
    return obs


# ------------------------------------------------------------------------------------------------
# the property itself, on real observations


def expected_outcome(default, occs):
    cur = None
    for o in occs:
        k = o["k"]
        if k == "bare":
            cur = True
        elif k == "neg":
            cur = False
        elif k == "valued":
            b = spec_word(o["w"])
            if b is None:
                return ("exit", 2)
            cur = b
        else:  # value on a negative flag: rejected (status 2)
            return ("exit", 2)
    if cur is None:
        return ("exit", 2) if default is None else ("ok", default)
    return ("ok", cur)


def spec_negative(pos: str, neg_prefix: str) -> str:
    """negative counterpart of one long positive spelling, with the same path prefix"""
    body = pos.lstrip("-")
    path, dot, leaf = body.rpartition(".")
    npw = neg_prefix.lstrip("-")
    nd = len(neg_prefix) - len(npw)
    return "-" * nd + path + dot + npw + leaf


def oracle(case, obs):
    op, c = case["op"], case["case"]
    fails = []
    if op == "str2bool":
        exp = spec_word(c["s"])
        got = obs.get("v") if obs["o"] == "ok" else None
        if exp != got or (obs["o"] == "ok") != (exp is not None):
            fails.append({"clause": "vocabulary", "detail": f"str2bool({c['s']!r}) -> {obs}, property says {exp}"})
    elif op == "bool.run":
        if "setup" in obs:
            fails.append({"clause": "setup", "detail": f"parser setup failed: {obs['setup']}"})
            return fails
        exp = expected_outcome(c["default"], c["occs"])
        o = obs["out"]
        got = ("ok", o["v"]) if o["o"] == "ok" else (("exit", o["code"]) if o["o"] == "exit" else ("raise", o.get("exc")))
        if exp != got:
            fails.append({"clause": "last-wins", "detail": f"argv {obs['argv']} default {c['default']}: got {got}, property says {exp}",
                          "got": list(got), "exp": list(exp)})
        if o["o"] == "exit" and o["code"] == 2 and not o.get("stderr_nonempty"):
            fails.append({"clause": "stderr", "detail": "rejected without a message on stderr"})
        if o["o"] == "ok" and "other" in obs and obs["other"] != c["default"]:
            fails.append({"clause": "other-dest", "detail": f"other destination changed to {obs['other']}"})
        if obs["n_opts"] != obs["n_distinct_opts"]:
            fails.append({"clause": "collision", "detail": "two different actions share an option string"})
        if c["neg_option"] is None:
            npfx = c["neg_prefix"] or "--no"
            for p in obs["pos"]:
                if p.startswith("--"):
                    e = spec_negative(p, npfx)
                    if e not in obs["neg"]:
                        fails.append({"clause": "neg-counterpart", "detail": f"{p} has no negative {e} (negatives: {obs['neg']})"})
        else:
            if len(obs["neg"]) != 1:
                fails.append({"clause": "neg-counterpart", "detail": f"explicit negative option gives {obs['neg']}"})
            elif (obs.get("prefix") or "") not in obs["neg"][0]:
                fails.append({"clause": "neg-counterpart", "detail": f"negative {obs['neg']} lacks the conflict prefix {obs.get('prefix')!r}"})
    return fails


def nontrivial(case, obs):
    op, c = case["op"], case["case"]
    if op == "bool.run":
        return len(c["occs"]) >= 2 or c["situation"] != "plain"
    if op == "bool.neg":
        return len(c["opts"]) >= 2 or any("." in o for o in c["opts"])
    return spec_word(c["s"]) is not None and c["s"] not in TRUE_W + FALSE_W


def tags(case, obs):
    op, c = case["op"], case["case"]
    t = [f"op:{op}"]
    if op == "bool.run":
        t.append(f"sit:{c['situation']}")
        t.append(f"len:{len(c['occs'])}")
        if "out" in obs:
            o = obs["out"]
            t.append("out:" + (o["o"] if o["o"] != "exit" else f"exit{o['code']}"))
        t.append("neg:" + ("option" if c["neg_option"] is not None else ("prefix" if c["neg_prefix"] else "default")))
    return t


def shrink(case):
    if case["op"] != "bool.run":
        return
    c = case["case"]
    for i in range(len(c["occs"])):
        yield {"op": case["op"], "case": dict(c, occs=c["occs"][:i] + c["occs"][i + 1:])}
    if c["situation"] != "plain":
        yield {"op": case["op"], "case": dict(c, situation="plain")}
    if c["dash"] != "UNDERSCORE":
        yield {"op": case["op"], "case": dict(c, dash="UNDERSCORE")}
    if c["neg_prefix"] or c["neg_option"]:
        yield {"op": case["op"], "case": dict(c, neg_prefix=None, neg_option=None)}


FINDINGS = {}

MANIFEST = {
    "text": ("Proof (full for the occurrence algebra and vocabulary; the negative-option string surgery is covered by "
             "correspondence + direct oracle, its injectivity theorem is stated over the model). Lean theorems: last "
             "occurrence wins for sequences of any length, a value on a negative flag or a non-word anywhere in the "
             "command line is rejected with status 2 and no other status is ever produced, absent flag gives the default "
             "or a rejection when required, str2bool accepts exactly the ten words after strip+lower. The model is tied "
             "to the code by three correspondence ops (str2bool, negative-option strings of the real "
             "BooleanOptionalAction, end-to-end parses in six prefix situations) and the property's own statement is "
             "evaluated on every real observation."),
    "note": ("Trusted: Lean kernel + propext/Classical.choice/Quot.sound; argparse's lexing and nargs='?' consumption "
             "(stdlib, exercised end-to-end); the harness. Modelled not verified: custom_actions.py:22-172, "
             "utils.py:115-132 (ASCII case folding only)."),
    "technique": "Lean 4 induction over the occurrence list + differential correspondence against BooleanOptionalAction",
    "design_ref": "DESIGN.md section 5, C12",
}
