"""C12 — boolean flags: bare means True, negative means False, values parse, last wins."""
from __future__ import annotations

import argparse
import dataclasses
import itertools
import random
from pathlib import Path

from harness.core import sp

PID = "C12"
RULE = ("cases: (a) str2bool over every casing of the 10 vocabulary words, padded (incl. the separators \\x1c-\\x1f that "
        "str.strip() removes) and non-words; (b) the negative-option string surgery of the real BooleanOptionalAction on "
        "synthetic option lists (conflict prefixes with and without a final dot, dotted negative prefixes, positional "
        "spellings) AND on the option lists the real parser produces for every (situation x name x dash variant x "
        "negative prefix/option x nested mode) combination (enumerated, seed-independent); (c) end-to-end parses of "
        "occurrence sequences (bare / negative / valued / value-on-negative; `=` or space; any spelling) in 11 prefix "
        "situations (plain, AUTO, AUTO with an underscore in the destinations, EXPLICIT, NESTED, BOTH, nested members with two-dot paths, user prefix with and "
        "without a final dot) x dash variants x nested modes x custom negative prefix/option: enumerated for all "
        "sequences of length <= 2 (quick) / <= 4 (thorough) over a 9-symbol alphabet in the plain situation and of "
        "length <= 1 (quick) / <= 2 (thorough) for EVERY (situation, negative spec) pair, plus random sequences of "
        "length <= 4 over the full alphabet (every word in 4 casings, padded words, non-words). Non-trivial = an "
        "end-to-end case with >= 2 occurrences or a prefixed situation, or a unit case with a dotted / multi-spelling "
        "option list; distinct by canonical JSON of the case.")
ASSUMPTIONS = [
    "argparse's nargs='?' consumption of the next non-option token and `--opt=value` splitting (stdlib): the model receives "
    "the (option string, value) pairs the harness wrote on the command line",
    "str.lower()/str.strip() are modelled on ASCII (strip: the 10 ASCII characters str.isspace() accepts); non-ASCII blanks "
    "(\\x85, \\xa0, ...) are checked by the oracle only",
]
TRUSTED = ["stdlib argparse option lexing"]
EXHAUSTIVE = {"quick": False, "thorough": False}
THOROUGH_ROUNDS = 3   # thorough tier: this many generator passes with derived PRNG states (vcheck)

TRUE_W = ["yes", "true", "t", "y", "1"]
FALSE_W = ["no", "false", "f", "n", "0"]
NONWORDS = ["maybe", "2", "tru", "", "yess", "on", "off", "none"]
PADDED = [" TRUE ", "\tno", "Yes\n", "\x1ctrue", "0\x1f", " f\x1d\x1e"]

# the end-to-end model op (Drive/BoolFlagE2E.lean) exists once the integrator has added it to lean/Driver.lean; until
# then the end-to-end cases are compared through the older op `bool.run` (occurrence algebra only)
_DRIVER = Path(__file__).resolve().parents[2] / "lean" / "Driver.lean"
try:
    HAS_E2E_OP = "boolE2EOps" in _DRIVER.read_text()
except OSError:
    HAS_E2E_OP = False
E2E_OP = "bool.e2e" if HAS_E2E_OP else "bool.run"


def spec_word(w: str):
    v = w.strip().lower()
    if v in TRUE_W:
        return True
    if v in FALSE_W:
        return False
    return None


# ------------------------------------------------------------------------------------------------
# generators


def casings(w: str):
    return sorted({w, w.upper(), w.capitalize(), w[:1] + w[1:].upper()})


def all_casings(w: str):
    letters = [(c.lower(), c.upper()) if c.isalpha() else (c,) for c in w]
    return sorted({"".join(p) for p in itertools.product(*letters)})


OCC_ALPHABET_SMALL = (
    [{"k": "bare"}, {"k": "neg"}]
    + [{"k": "valued", "w": w} for w in ["true", "False", "Y", "0", "maybe"]]
    + [{"k": "negvalued", "w": w} for w in ["true", "maybe"]]
)


def occ_alphabet_full():
    a = [{"k": "bare"}, {"k": "neg"}]
    for w in TRUE_W + FALSE_W:
        for c in casings(w):
            a.append({"k": "valued", "w": c})
    for w in NONWORDS + PADDED:
        a.append({"k": "valued", "w": w})
    a.append({"k": "negvalued", "w": "true"})
    a.append({"k": "negvalued", "w": "0"})
    a.append({"k": "negvalued", "w": "maybe"})
    return a


# situation -> (what is registered, conflict resolution, generation mode); user_* pass `prefix=` to add_arguments
SITUATIONS = ["plain", "auto2", "explicit2", "nested_gen", "member_auto", "both_gen", "nested_member", "explicit_member",
              "user_us", "user_dot", "auto2_us"]
TWO_DESTS = {"auto2": ("a", "b"), "explicit2": ("a", "b"), "auto2_us": ("my_a", "my_b")}   # auto2_us: '_' in the conflict prefix
USER_PREFIX = {"user_us": "x_", "user_dot": "x."}
NESTED_SITS = ("nested_gen", "both_gen", "nested_member")      # the nested mode matters only for these
NEGS = [
    {"neg_prefix": None, "neg_option": None},
    {"neg_prefix": "--no-", "neg_option": None},
    {"neg_prefix": "--disable_", "neg_option": None},
    {"neg_prefix": None, "neg_option": "silent"},
    {"neg_prefix": None, "neg_option": "-s"},
    {"neg_prefix": None, "neg_option": "--quiet"},
    {"neg_prefix": None, "neg_option": "q"},
]
NAMES = ["flag", "v", "my_flag"]


def negs_for(sit):
    # an explicit negative option declared on a class that is used twice collides with itself unless a conflict prefix
    # exists; in NESTED mode there is none, and the property does not promise anything there.
    return NEGS[:3] if sit == "nested_member" else NEGS


def defaults_for(sit):
    # the member situations build the members with default_factory=C, which needs a default
    return [True, False, None] if sit in ("plain", "nested_gen", "both_gen", "user_us", "user_dot") else [True, False]


def cfg_case(situation="plain", default=False, name="flag", dash="UNDERSCORE", neg=None, nest="DEFAULT"):
    neg = neg or NEGS[0]
    return {"situation": situation, "default": default, "name": name, "dash": dash, "nest": nest,
            "neg_prefix": neg["neg_prefix"], "neg_option": neg["neg_option"]}


def e2e_case(rng, occs, **kw):
    occs = [dict(o, si=rng.randrange(4), eq=rng.random() < 0.5) for o in occs]
    return {"op": E2E_OP, "case": dict(cfg_case(**kw), occs=occs)}


def gen(rng, tier):
    # (a) vocabulary
    for w in TRUE_W + FALSE_W:
        for c in all_casings(w):
            yield {"op": "str2bool", "case": {"s": c}}
        yield {"op": "str2bool", "case": {"s": "  " + w + "\t"}}
        yield {"op": "str2bool", "case": {"s": "\x1c" + w.upper() + "\x1f\x1d"}}
        yield {"op": "str2bool", "case": {"s": w + "x"}}
        yield {"op": "str2bool", "case": {"s": w[:-1]}}
        yield {"op": "str2bool", "case": {"s": w[:1] + " " + w[1:]}}
    for w in NONWORDS + PADDED + ["ye s", "t rue", "TRUE ", "\nno", "10", "01", "-1", "Ｙ", "\x1ctrue", "no\x1f", "\x1e",
                                  "\x1bno", "no\x00", "\x7fyes"]:
        yield {"op": "str2bool", "case": {"s": w}}
    # non-ASCII blanks are stripped by str.strip() but lie outside the modelled (ASCII) fragment: oracle only
    for w in ["\xa0no", "yes\x85", " TRUE　", "İ", "ｔｒｕｅ"]:
        yield {"op": "str2bool", "case": {"s": w}, "model": False}
    # (b1) negative option surgery on synthetic option lists
    parts = ["a", "b", "flag", "my_flag", "x-y", "v", ""]
    n_unit = 250 if tier == "quick" else 4000
    for _ in range(n_unit):
        opts = []
        for _ in range(rng.randrange(1, 4)):
            depth = rng.choice([0, 0, 1, 2, 3])
            body = ".".join(rng.choice(parts) for _ in range(depth + 1))
            opts.append(rng.choice(["-", "--", "--", "---", "--", ""]) + body)
        neg = rng.choice(NEGS + [{"neg_prefix": "-n", "neg_option": None}, {"neg_prefix": "no", "neg_option": None},
                                  {"neg_prefix": "--no.", "neg_option": None}, {"neg_prefix": "--a.no-", "neg_option": None},
                                  {"neg_prefix": None, "neg_option": ""}, {"neg_prefix": None, "neg_option": "---z"}])
        cp = rng.choice(["", "", "a.", "a.b.", "x_y.", "x_", "x", ".", "a.x_"])
        yield {"op": "bool.neg", "case": {"opts": opts, "neg_prefix": neg["neg_prefix"] or "--no",
                                           "neg_option": neg["neg_option"], "conflict_prefix": cp, "synthetic": True}}
    # (b2) ... and on the option lists the REAL parser produces: every configuration (enumerated)
    for sit in SITUATIONS:
        for name in NAMES:
            for dash in sp.ALL_DASH:
                for neg in negs_for(sit):
                    for nest in (sp.ALL_NEST if sit in NESTED_SITS else ["DEFAULT"]):
                        yield {"op": "bool.neg", "case": dict(cfg_case(sit, False, name, dash, neg, nest), synthetic=False)}
    # (c) end-to-end.  The enumerated blocks choose spelling index / `=` from a fixed PRNG so that they are the same in
    # every generator pass (vcheck drops the duplicates in passes 2, 3); the random stream varies them.
    erng = random.Random(12)
    maxlen = 2 if tier == "quick" else 4
    alpha = OCC_ALPHABET_SMALL
    for default in (True, False, None):
        for n in range(0, maxlen + 1):
            if n == 4 and default is not False:
                continue  # length 4 (6561 sequences): one default is affordable; the random stream covers the others
            for seq in itertools.product(alpha, repeat=n):
                yield e2e_case(erng, list(seq), default=default)
    full = occ_alphabet_full()
    for default in (True, False, None):
        for o in full:
            yield e2e_case(erng, [o], default=default)
    # every (situation, negative spec) pair: all short sequences; the other dimensions rotate deterministically
    pair_len = 1 if tier == "quick" else 2
    i = 0
    for sit in SITUATIONS:
        for neg in negs_for(sit):
            for n in range(0, pair_len + 1):
                for seq in itertools.product(alpha, repeat=n):
                    i += 1
                    dfl = defaults_for(sit)
                    nests = sp.ALL_NEST if sit in NESTED_SITS else ["DEFAULT"]
                    yield e2e_case(erng, list(seq), situation=sit, default=dfl[i % len(dfl)], name=NAMES[(i // 3) % 3],
                                   dash=sp.ALL_DASH[(i // 9) % 3], neg=neg, nest=nests[(i // 27) % len(nests)])
    n_rand = 400 if tier == "quick" else 9000
    for _ in range(n_rand):
        sit = rng.choice(SITUATIONS)
        occs = [rng.choice(full) for _ in range(rng.choice([0, 1, 1, 2, 2, 3, 4]))]
        yield e2e_case(rng, occs, situation=sit, default=rng.choice(defaults_for(sit)), name=rng.choice(NAMES),
                       dash=rng.choice(sp.ALL_DASH), neg=rng.choice(negs_for(sit)),
                       nest=rng.choice(sp.ALL_NEST) if sit in NESTED_SITS else "DEFAULT")


# ------------------------------------------------------------------------------------------------
# real code


def _gen_mode(sit):
    if sit in ("nested_gen", "nested_member"):
        return "NESTED"
    if sit == "both_gen":
        return "BOTH"
    return "FLAT"


def _build(case):
    from simple_parsing.helpers import flag

    c = case
    default = c["default"]
    if c["neg_prefix"] is not None or c["neg_option"] is not None:
        kw = {}
        if c["neg_prefix"] is not None:
            kw["negative_prefix"] = c["neg_prefix"]
        if c["neg_option"] is not None:
            kw["negative_option"] = c["neg_option"]
        fld = flag(**({} if default is None else {"default": default}), **kw)
    else:
        fld = dataclasses.field() if default is None else dataclasses.field(default=default)
    C = dataclasses.make_dataclass("C", [(c["name"], bool, fld)])
    sit = c["situation"]
    cfg = {"dash": c["dash"], "gen": _gen_mode(sit), "nest": c.get("nest", "DEFAULT")}
    if sit in ("explicit2", "explicit_member"):
        cfg["cr"] = "EXPLICIT"
    sp.reset_globals()
    parser = sp.make_parser(cfg)
    if sit in ("plain", "nested_gen", "both_gen"):
        parser.add_arguments(C, dest="c")
        target, other = f"c.{c['name']}", None
    elif sit in USER_PREFIX:
        parser.add_arguments(C, dest="a", prefix=USER_PREFIX[sit])
        target, other = f"a.{c['name']}", None
    elif sit in TWO_DESTS:
        d1, d2 = TWO_DESTS[sit]
        parser.add_arguments(C, dest=d1)
        parser.add_arguments(C, dest=d2)
        target, other = f"{d1}.{c['name']}", f"{d2}.{c['name']}"
    elif sit in ("member_auto", "nested_member", "explicit_member"):
        P = dataclasses.make_dataclass("P", [("m", C, dataclasses.field(default_factory=C)),
                                             ("k", C, dataclasses.field(default_factory=C))])
        parser.add_arguments(P, dest="p")
        target, other = f"p.m.{c['name']}", f"p.k.{c['name']}"
    else:
        raise ValueError(sit)
    sp.decoy(cfg)   # a parser constructed later with other settings must not change this one's flags
    return parser, target, other


def _get(ns, dotted):
    cur = ns
    for part in dotted.split("."):
        cur = getattr(cur, part)
    return cur


def _observe_setup(c):
    """build parser #1 and read what the real code registered for the target field"""

    def setup():
        parser, target, other = _build(c)
        parser._preprocessing(args=[])
        return parser, target, other

    r = sp.run_outcome(setup)
    if r["o"] != "ok":
        return None, {"setup": {k: v for k, v in r.items() if k != "value"}}
    parser, target, other = r["value"]
    act = sp.action_for_dest(parser, target)
    negs = list(getattr(act, "negative_option_strings", []))
    n_pos = len(act.option_strings) - len(negs)
    pos_list = list(act.option_strings[:n_pos])          # exactly what FieldWrapper handed to the action, in order
    fw = None
    for w in parser._wrappers:
        for f in w.fields:
            if f.dest == target:
                fw = {"name": f.name, "prefix": f.prefix, "dest": f.dest, "aliases": list(f.aliases), "positional": False}
    all_opts = [o for a in parser._actions for o in sorted(set(a.option_strings))]
    res = {"pos": [o for o in pos_list if o not in negs] or pos_list, "pos_list": pos_list, "neg": negs,
           "prefix": fw["prefix"] if fw else None, "fw": fw, "n_opts": len(all_opts), "n_distinct_opts": len(set(all_opts))}
    return (target, other), res


def impl(case):
    op, c = case["op"], case["case"]
    if op == "str2bool":
        from simple_parsing.utils import str2bool

        try:
            return {"o": "ok", "v": str2bool(c["s"])}
        except argparse.ArgumentTypeError:
            return {"o": "err"}
    if op == "bool.neg" and c.get("synthetic", True):
        from simple_parsing.helpers.custom_actions import BooleanOptionalAction

        try:
            kw = {}
            if c["neg_option"] is not None:
                kw["negative_option"] = c["neg_option"]
            a = BooleanOptionalAction(option_strings=c["opts"], dest="x", negative_prefix=c["neg_prefix"],
                                      _conflict_prefix=c["conflict_prefix"], **kw)
            return {"neg": list(a.negative_option_strings)}
        except (NotImplementedError, AssertionError):
            return {"err": "raise"}
    if op == "bool.neg":
        _, res = _observe_setup(c)
        return res
    if op in ("bool.run", "bool.e2e"):
        # parser #1: read the real option strings; parser #2 (fresh): parse
        tgt, res = _observe_setup(c)
        if tgt is None:
            return res
        target, other = tgt
        pos, negs = res["pos"], res["neg"]
        argv, toks = [], []
        for o in c["occs"]:
            k = o["k"]
            if k == "bare":
                argv.append(pos[o["si"] % len(pos)])
                toks.append({"opt": argv[-1], "val": None})
            elif k == "neg":
                argv.append(negs[o["si"] % len(negs)])
                toks.append({"opt": argv[-1], "val": None})
            else:
                base = pos[o["si"] % len(pos)] if k == "valued" else negs[o["si"] % len(negs)]
                toks.append({"opt": base, "val": o["w"]})
                if o["eq"]:
                    argv.append(f"{base}={o['w']}")
                else:
                    argv += [base, o["w"]]
        parser2, _, _ = _build(c)
        out = sp.run_outcome(lambda: parser2.parse_args(argv))
        res["argv"], res["toks"] = argv, toks
        if out["o"] == "ok":
            ns = out["value"]
            res["out"] = {"o": "ok", "v": _get(ns, target)}
            if other is not None:
                res["other"] = _get(ns, other)
        else:
            res["out"] = {k: v for k, v in out.items() if k != "value"}
        return res
    raise ValueError(op)


def _indep_fw(c):
    """the FieldWrapper facts of the target when set-up failed before they could be read (independent of the code)"""
    sit = c["situation"]
    if sit in USER_PREFIX:
        return {"name": c["name"], "prefix": USER_PREFIX[sit], "dest": f"a.{c['name']}", "aliases": [], "positional": False}
    if sit in ("plain", "nested_gen", "both_gen"):
        return {"name": c["name"], "prefix": "", "dest": f"c.{c['name']}", "aliases": [], "positional": False}
    return None


def _from_parser(case):
    """the case builds a real parser (end-to-end, or the negative-option unit op on a parser-produced list)"""
    return "situation" in case["case"]


def skip_model(case, obs):
    if case["op"] == "bool.run" and "setup" in obs:
        return True     # the older op models the occurrence algebra only, not set-up
    if case["op"] in ("bool.e2e", "bool.neg") and _from_parser(case) and "setup" in obs:
        return _indep_fw(case["case"]) is None
    return False


def model_case(case, obs):
    c = case["case"]
    op = case["op"]
    if op == "bool.run":
        return {"default": c["default"], "occs": [{"k": o["k"], "w": o.get("w", "")} for o in c["occs"]], "exit_neg": 2}
    if op == "bool.neg" and not c.get("synthetic", True):
        fw = obs.get("fw") or _indep_fw(c)
        opts = obs.get("pos_list")
        if opts is None:   # set-up failed: the positive spellings of the two situations where the prefix is known
            opts = ["--" + (fw["prefix"] + c["name"]).replace("_", "-" if c["dash"] == "DASH" else "_")]
        # what FieldWrapper hands over as _conflict_prefix (field_wrapper.py:388-393): its prefix, dashed under DASH
        cp = fw["prefix"].replace("_", "-") if c["dash"] == "DASH" else fw["prefix"]
        return {"opts": opts, "neg_prefix": c["neg_prefix"] or "--no", "neg_option": c["neg_option"], "conflict_prefix": cp}
    if op == "bool.e2e":
        fw = obs.get("fw") or _indep_fw(c)
        return {"cfg": {"dash": c["dash"], "gen": _gen_mode(c["situation"]), "nest": c.get("nest", "DEFAULT")}, "fw": fw,
                "neg_prefix": c["neg_prefix"] or "--no", "neg_option": c["neg_option"], "default": c["default"],
                "exit_neg": 2, "toks": obs.get("toks", [])}
    return c


def _proj_out(o):
    if o["o"] == "ok":
        return {"o": "ok", "v": o["v"]}
    if o["o"] == "exit":
        return {"o": "exit", "code": o["code"]}
    return {"o": "raise", "exc": o.get("exc")}


def project(case, obs):
    op = case["op"]
    if op == "bool.run":
        if "setup" in obs:
            return {"setup": obs["setup"]["o"]}
        return _proj_out(obs["out"])
    if op == "bool.e2e":
        if "setup" in obs:
            return {"setup": obs["setup"]["o"]}
        return {"pos": obs["pos_list"], "neg": obs["neg"], "out": _proj_out(obs["out"])}
    if op == "bool.neg" and not case["case"].get("synthetic", True):
        if "setup" in obs:
            return {"err": obs["setup"]["o"]}
        return {"neg": obs["neg"]}
    return obs


# ------------------------------------------------------------------------------------------------
# the property itself, on real observations


def expected_outcome(default, occs):
    cur = None
    for o in occs:
        k = o["k"]
        if k == "bare":
            cur = True
        elif k == "neg":
            cur = False
        elif k == "valued":
            b = spec_word(o["w"])
            if b is None:
                return ("exit", 2)
            cur = b
        else:  # value on a negative flag: rejected (status 2)
            return ("exit", 2)
    if cur is None:
        return ("exit", 2) if default is None else ("ok", default)
    return ("ok", cur)


def spec_negative(pos: str, neg_prefix: str) -> str:
    """negative counterpart of one long positive spelling, with the same path prefix"""
    body = pos.lstrip("-")
    path, dot, leaf = body.rpartition(".")
    npw = neg_prefix.lstrip("-")
    nd = len(neg_prefix) - len(npw)
    return "-" * nd + path + dot + npw + leaf


def spec_conflict_prefix(c, pos) -> str:
    """The conflict prefix carried by the POSITIVE option, read off its spelling (not from FieldWrapper.prefix): what stands
    between the dashes and the field name in the flat long spelling. In NESTED-only generation mode no flat spelling
    exists and the dotted path is the destination, not a conflict prefix (the property promises a path-prefixed
    counterpart only "unless a single explicit negative option is declared"): there the prefix is what the user passed."""
    if _gen_mode(c["situation"]) == "NESTED":
        return ""
    cands = []
    for p in pos:
        if not p.startswith("--"):
            continue
        body = p[2:]
        for n in {c["name"], c["name"].replace("_", "-")}:
            if body.endswith(n):
                cands.append(body[: len(body) - len(n)])
    return min(cands, key=len) if cands else ""


def oracle_strings(c, obs):
    """the clauses about the option STRINGS (set-up succeeded)"""
    fails = []
    if obs["n_opts"] != obs["n_distinct_opts"]:
        fails.append({"clause": "collision", "detail": "two different actions share an option string"})
    if c["neg_option"] is None:
        npfx = c["neg_prefix"] or "--no"
        for p in obs["pos"]:
            if p.startswith("--"):
                e = spec_negative(p, npfx)
                if e not in obs["neg"]:
                    fails.append({"clause": "neg-counterpart", "detail": f"{p} has no negative {e} (negatives: {obs['neg']})"})
    else:
        declared = c["neg_option"]
        if len(obs["neg"]) != 1:
            fails.append({"clause": "neg-counterpart", "detail": f"explicit negative option gives {obs['neg']}"})
        else:
            got = obs["neg"][0]
            want_body = spec_conflict_prefix(c, obs["pos"]) + declared.lstrip("-")
            nd = len(got) - len(got.lstrip("-"))
            if got.lstrip("-") != want_body:
                fails.append({"clause": "neg-counterpart",
                              "detail": f"negative {got!r} is not <dashes>{want_body!r} (conflict prefix of the positive option + the declared option)"})
            elif declared.startswith("-") and nd != len(declared) - len(declared.lstrip("-")):
                fails.append({"clause": "neg-counterpart", "detail": f"negative {got!r} does not keep the dashes of the declared {declared!r}"})
            elif not declared.startswith("-") and nd not in (1, 2):
                fails.append({"clause": "neg-counterpart", "detail": f"negative {got!r}: {nd} leading dashes"})
    return fails


def oracle(case, obs):
    op, c = case["op"], case["case"]
    fails = []
    if op == "str2bool":
        exp = spec_word(c["s"])
        got = obs.get("v") if obs["o"] == "ok" else None
        if exp != got or (obs["o"] == "ok") != (exp is not None):
            fails.append({"clause": "vocabulary", "detail": f"str2bool({c['s']!r}) -> {obs}, property says {exp}"})
    elif op == "bool.neg" and not c.get("synthetic", True):
        if "setup" in obs:
            return [{"clause": "setup", "detail": f"parser setup failed: {obs['setup']}"}]
        fails += oracle_strings(c, obs)
    elif op in ("bool.run", "bool.e2e"):
        if "setup" in obs:
            fails.append({"clause": "setup", "detail": f"parser setup failed: {obs['setup']}"})
            return fails
        exp = expected_outcome(c["default"], c["occs"])
        o = obs["out"]
        got = ("ok", o["v"]) if o["o"] == "ok" else (("exit", o["code"]) if o["o"] == "exit" else ("raise", o.get("exc")))
        if exp != got:
            fails.append({"clause": "last-wins", "detail": f"argv {obs['argv']} default {c['default']}: got {got}, property says {exp}",
                          "got": list(got), "exp": list(exp)})
        # (a rejection without a message on stderr is not part of the property text: reported as a tag only)
        if o["o"] == "ok" and "other" in obs and obs["other"] != c["default"]:
            fails.append({"clause": "other-dest", "detail": f"other destination changed to {obs['other']}"})
        fails += oracle_strings(c, obs)
    return fails


def nontrivial(case, obs):
    op, c = case["op"], case["case"]
    if op in ("bool.run", "bool.e2e"):
        return len(c["occs"]) >= 2 or c["situation"] != "plain"
    if op == "bool.neg":
        if not c.get("synthetic", True):
            return c["situation"] != "plain"
        return len(c["opts"]) >= 2 or any("." in o for o in c["opts"])
    return spec_word(c["s"]) is not None and c["s"] not in TRUE_W + FALSE_W


def _cfg_tags(c):
    t = [f"sit:{c['situation']}", f"dash:{c['dash']}", f"name:{c['name']}", f"nest:{c.get('nest', 'DEFAULT')}",
         "default:" + ("required" if c["default"] is None else str(c["default"])),
         "neg:" + ("option" if c["neg_option"] is not None else ("prefix" if c["neg_prefix"] else "default"))]
    if c["neg_option"] is not None:
        no = c["neg_option"]
        t.append("negopt:" + ("dashed" if no.startswith("-") else ("char" if len(no) == 1 else "word")))
    return t


def tags(case, obs):
    op, c = case["op"], case["case"]
    t = [f"op:{op}"]
    if op in ("bool.run", "bool.e2e"):
        t += _cfg_tags(c)
        t.append(f"len:{len(c['occs'])}")
        for k in sorted({o["k"] for o in c["occs"]}):
            t.append(f"occ:{k}")
        for o in c["occs"]:
            if "w" in o:
                t.append("sep:" + ("=" if o["eq"] else "space"))
                w = o["w"]
                t.append("word:" + ("nonword" if spec_word(w) is None else ("padded" if w != w.strip() else
                                                                             ("lower" if w == w.lower() else "cased"))))
        if "pos" in obs:
            t.append(f"spellings:{len(obs['pos'])}")
            for o in c["occs"]:
                t.append(f"spelling_index:{o['si'] % len(obs['pos'] if o['k'] in ('bare', 'valued') else obs['neg'])}")
            t.append("dots:" + str(max(p.count(".") for p in obs["pos"])))
        if "out" in obs:
            o = obs["out"]
            t.append("out:" + (o["o"] if o["o"] != "exit" else f"exit{o['code']}"))
            if o["o"] == "exit" and not o.get("stderr_nonempty"):
                t.append("exit-without-message")
        if "setup" in obs:
            t.append("setup:" + str(obs["setup"].get("exc") or obs["setup"]["o"]))
    elif op == "bool.neg":
        if c.get("synthetic", True):
            t.append("neg-unit:synthetic")
            t.append("neg-unit:" + ("raise" if "err" in obs else "ok"))
            t.append("cp:" + ("empty" if not c["conflict_prefix"] else ("dotted" if c["conflict_prefix"].endswith(".") else "undotted")))
        else:
            t.append("neg-unit:real")
            t += _cfg_tags(c)
            if "setup" in obs:
                t.append("setup:" + str(obs["setup"].get("exc") or obs["setup"]["o"]))
    elif op == "str2bool":
        s = c["s"]
        t.append("word:" + ("nonword" if spec_word(s) is None else ("padded" if s != s.strip() else "bare")))
        if not s.isascii():
            t.append("word:non-ascii")
    return t


def shrink(case):
    if case["op"] not in ("bool.run", "bool.e2e"):
        return
    c = case["case"]
    for i in range(len(c["occs"])):
        yield {"op": case["op"], "case": dict(c, occs=c["occs"][:i] + c["occs"][i + 1:])}
    if c["situation"] != "plain":
        yield {"op": case["op"], "case": dict(c, situation="plain", nest="DEFAULT")}
    if c["dash"] != "UNDERSCORE":
        yield {"op": case["op"], "case": dict(c, dash="UNDERSCORE")}
    if c["neg_prefix"] or c["neg_option"]:
        yield {"op": case["op"], "case": dict(c, neg_prefix=None, neg_option=None)}
    if c["name"] != "flag":
        yield {"op": case["op"], "case": dict(c, name="flag")}


def neighbours(case, rng):
    """cases near a disagreeing case: the same configuration end to end with short occurrence sequences"""
    c = case["case"]
    if "situation" not in c:
        return
    base = {k: c[k] for k in ("situation", "default", "name", "dash", "neg_prefix", "neg_option")}
    base["nest"] = c.get("nest", "DEFAULT")
    for n in (0, 1, 2):
        for seq in itertools.product(OCC_ALPHABET_SMALL[:4], repeat=n):
            occs = [dict(o, si=rng.randrange(4), eq=rng.random() < 0.5) for o in seq]
            yield {"op": E2E_OP, "case": dict(base, occs=occs)}


FINDINGS = {}   # C12-explicit-neg-user-prefix and C12-explicit-neg-dash-variant are fixed (repo 7335e5b, c681aea)

MANIFEST = {
    "text": ("Proof, for the occurrence algebra, the vocabulary AND the negative option strings. Lean theorems over the "
             "executable model: last occurrence wins for sequences of any length; a value on a negative flag or a non-word "
             "anywhere in the command line is rejected with status 2 and no other status is ever produced; absent flag gives "
             "the default or a rejection when required; str2bool accepts exactly the ten words after strip+lower and two "
             "tokens equal up to ASCII letter case name the same boolean (via strip/lower commuting, not by definition). "
             "Negative option strings: closed form of the surgery for dotted and undotted spellings (negative prefix after "
             "the last dot, path kept), set-up raises exactly for a positional-looking spelling, every spelling starting with "
             "a dash has its counterpart and nothing else is generated (negLoop, any list), the counterpart map is injective "
             "on spellings with equal dash count for every negative prefix (so the negatives of different long spellings — "
             "same-named fields at different destinations — never collide; the version without the dash-count hypothesis is "
             "refuted by -a/--a, which the code merges on purpose), the explicit negative option carries the conflict prefix "
             "for every prefix, with or without a final dot (full statement, never raises; the former witness of the fixed "
             "finding is a regression example), is injective in the prefix, and end to end it carries exactly the prefix the "
             "positive option shows in every configuration incl. DASH (ExplicitMatchesPositive, full). End to end: for EVERY dash variant, generation mode, "
             "nested mode, name, prefix, destination and alias list the option strings of the field (Model/Naming) all get "
             "counterparts, a token is a negative occurrence iff it is a negative option string (tested first, as in the "
             "code), and a command line ending in a negative / positive / valued spelling yields False / True / the named "
             "boolean. The model is tied to the code by correspondence ops: str2bool; the negative option strings of the real "
             "BooleanOptionalAction on synthetic lists and on the lists the real parser builds in every configuration "
             "(11 prefix situations x names x dash variants x negative specs x nested modes, enumerated); end-to-end parses "
             "(op bool.e2e when integrated in the driver: real positive list, real negative list and real outcome against "
             "the composed model; else op bool.run: outcome only). The property's own statement is evaluated on every real "
             "observation."),
    "note": ("Trusted: Lean kernel + propext/Classical.choice/Quot.sound; argparse's lexing, `--opt=value` splitting and "
             "nargs='?' consumption (stdlib, exercised end-to-end: the model receives (option string, value) pairs); the "
             "harness. Modelled not verified: custom_actions.py:22-172, utils.py:115-132 (ASCII case folding and ASCII "
             "blanks only; non-ASCII blanks oracle-only), field_wrapper.py:377-393 (the conflict prefix handed to the action "
             "is FieldWrapper.prefix, dashed under DASH; the prefix is read from the real wrapper). The oracle's explicit-negative clause reads the conflict "
             "prefix off the positive flat spelling; in NESTED-only mode it expects the bare declared option (no promise in "
             "the text). A rejection without a stderr message is tagged, not demanded."),
    "technique": "Lean 4 induction over the occurrence list and list/string lemmas for the option surgery + differential correspondence against BooleanOptionalAction and the real parser",
    "design_ref": "DESIGN.md section 5, C12",
}
