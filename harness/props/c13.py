"""C13 — serialization is pure, emits only primitives and honours per-field hooks.

Shares the type grammar / builders / canonical trees and the Lean model (`SpVerif.Model.Serial`, ops `ser.*`) with C05.
"""
from __future__ import annotations

import copy
import dataclasses
import json
import warnings

from harness.props import c05 as B
from harness.props.c05 import HOOKS, Built, Ctx, cv, gen_class, gen_value, has_kind, skey, type_depth, type_kinds

PID = "C13"
RULE = ("cases: (a) ser.todict — a generated dataclass tree over the C05 grammar with a random subset of fields marked to_dict=False "
        "or given encoding_fn/decoding_fn (hooks on primitive-typed fields), a generated instance and an equal instance built in "
        "the opposite insertion order; observed: the real to_dict output (every node's type), id()-based alias pairs between input "
        "and output, json.dumps / yaml.safe_dump acceptance, mutation probes on every mutable node of output and input; "
        "(b) ser.decode — from_dict on the expected plain dict of the same instance (+ extra keys): argument unchanged, no aliasing, "
        "decoding hooks applied, hidden fields from defaults; (c) ser.typed — classes from a generated real source module, the dict "
        "written by to_dict(save_dc_types=True) (`_type_` entries at top level and in nested instances) given to from_dict twice: "
        "argument deep-equal to its copy after each call, both results equal, no aliasing (real code + oracle only). Fields may carry "
        "to_dict=False and an encoding_fn at the same time, and hooks sit on fields of every type of the grammar (dataclass, "
        "Optional/List/Dict of dataclasses, containers: a constant hook and a value-dependent one written without simple_parsing), not "
        "only on primitive-typed fields; an encoding_fn that returns None, decoder-only hooks on Optional fields (a raw None reaches "
        "them), every hook wrapped in a per-field call recorder (exactly one call per written / present field). Enums include "
        "str-/int-mixed ones: the primitives clause tests exact types (type(node) in {dict, list, str, int, float, bool, NoneType}). "
        "Non-trivial = class with >= 2 fields or nested/container field and at "
        "least one marked field or container; distinct by canonical JSON.")
ASSUMPTIONS = [
    "json.dumps / yaml.safe_dump are the acceptance tests named by the property",
    "hooks are the ten fixed functions of HOOKS (10-14 encoders, 20-22, 24, 25 decoders; model: hookEnv in Drive/Serial.lean); "
    "theorems quantify over every hook environment",
]
TRUSTED = ["stdlib json, copy; PyYAML"]
EXHAUSTIVE = {"quick": False, "thorough": False}
THOROUGH_ROUNDS = 8   # thorough tier: this many generator passes with derived PRNG states (vcheck)
PRIMS = (dict, list, str, int, float, bool, type(None))

# ------------------------------------------------------------------------------------------------
# hooks for fields that hold dataclass instances / containers (model: hookEnv 13 / 24 in Drive/Serial.lean)


def hook_plain(v):
    """A user-side encoder written without simple_parsing: every field of every nested instance, containers as lists,
    Enum -> name, Path -> str (fresh, primitives only)."""
    import enum
    import pathlib

    if isinstance(v, enum.Enum):      # first: members of a mixed-in Enum are str / int instances too
        return v.name
    if v is None or isinstance(v, (bool, int, float, str)):
        return v
    if isinstance(v, pathlib.PurePath):
        return str(v)
    if isinstance(v, (list, tuple, set, frozenset)):
        return [hook_plain(x) for x in v]
    if isinstance(v, dict):
        return {hook_plain(k): hook_plain(x) for k, x in v.items()}
    if dataclasses.is_dataclass(v):
        return {f.name: hook_plain(getattr(v, f.name)) for f in dataclasses.fields(v)}
    raise TypeError(type(v))


HOOKS[13] = lambda v: {"w": hook_plain(v)}
HOOKS[24] = lambda r: copy.deepcopy(r["w"])
B.DEC_FOR_ENC[13] = 24
NODE_ENC_HOOKS = [12, 13, 14]


class RecBuilt(Built):
    """Every field gets its own recording wrapper around the hook, so calls can be counted per (class, field, kind)."""

    def __init__(self):
        super().__init__()
        self.calls: dict[str, int] = {}

    def hook(self, cls_name, field_name, kind, hid):
        fn = HOOKS[hid]
        key = f"{cls_name}.{field_name}.{kind}"

        def recording(v, _fn=fn, _key=key):
            self.calls[_key] = self.calls.get(_key, 0) + 1
            return _fn(v)

        recording.hook_id = hid
        return recording


def expected_calls(T, V, kind, acc=None):
    """How often each field's hook must run for ONE to_dict (kind='enc') / from_dict (kind='dec') of instance V: once per
    field that is written (not to_dict=False) and carries the hook — and nothing below a hooked field is visited."""
    acc = acc if acc is not None else {}
    k, t = T["k"], V["t"]
    if k == "opt":
        if t != "none":
            expected_calls(T["inner"], V, kind, acc)
    elif k in ("list", "vtuple", "set") and t in ("list", "tuple", "set"):
        for x in V["v"]:
            expected_calls(T["item"], x, kind, acc)
    elif k == "tuple" and t == "tuple":
        for ti, x in zip(T["items"], V["v"]):
            expected_calls(ti, x, kind, acc)
    elif k == "dict" and t == "dict":
        for _, x in V["v"]:
            expected_calls(T["val"], x, kind, acc)
    elif k == "dc" and t == "inst":
        fm = {f["name"]: f for f in T["fields"]}
        for name, x in V["v"]:
            f = fm[name]
            if not f.get("to_dict", True):
                continue
            if f.get(kind) is not None:
                key = f"{T['cls']}.{name}.{kind}"
                acc[key] = acc.get(key, 0) + 1
            elif kind == "dec" and f.get("enc") is not None:
                continue        # what the encoder wrote is decoded by the annotation: not this instance's subtree
            else:
                expected_calls(f["ty"], x, kind, acc)
    return acc


def add_node_hooks(rng, T, p=0.3):
    """encoding_fn / decoding_fn on fields of ANY type of the grammar (dataclass, Optional[dataclass], List[dataclass],
    containers ...), not only on primitive-typed ones. Done in place on a copy; children first."""
    T = dict(T)
    for sub in ("item", "inner", "key", "val"):
        if sub in T:
            T[sub] = add_node_hooks(rng, T[sub], p)
    if "items" in T:
        T["items"] = [add_node_hooks(rng, t, p) for t in T["items"]]
    if "fields" in T:
        fs = []
        for f in T["fields"]:
            f = dict(f, ty=add_node_hooks(rng, f["ty"], p))
            prim = f["ty"]["k"] in ("int", "str", "bool", "float")
            holds_dc = has_kind(f["ty"], lambda t: t["k"] == "dc")
            if not prim and f.get("enc") is None and f.get("dec") is None and rng.random() < (0.5 if holds_dc else p):
                has_set = has_kind(f["ty"], lambda t: t["k"] == "set")
                f["enc"] = rng.choice([12, 14]) if has_set else rng.choice(NODE_ENC_HOOKS)
                f["dec"] = B.DEC_FOR_ENC.get(f["enc"], 22) if rng.random() < 0.8 else None
            elif f.get("enc") is None and f.get("dec") is None and f["ty"]["k"] in ("opt", "union") and rng.random() < 0.4:
                f["dec"] = rng.choice([22, 25])   # decoder only: an Optional field holding None hands a raw None to it
            fs.append(f)
        T["fields"] = fs
    return T


# ------------------------------------------------------------------------------------------------
# the property's own expectation of to_dict (written from the property text, independent of the model)


def spec_encode(T, V, b=None):
    """What to_dict must store for value V of declared type T: primitives only; containers as lists / dicts; marked fields
    omitted; a field's encoding_fn applied to that field (and only that field)."""
    k, t = T["k"], V["t"]
    if t in ("none", "bool", "int", "float", "str"):
        return V
    if t in ("path", "enum"):
        return {"t": "str", "v": V["v"]}
    if k == "opt":
        return spec_encode(T["inner"], V, b)
    if k == "union":
        return B.plain_encoding(V)
    if t in ("list", "tuple", "set"):
        items = T["items"] if k == "tuple" else [T["item"]] * len(V["v"])
        return {"t": "list", "v": [spec_encode(ti, x, b) for ti, x in zip(items, V["v"])]}
    if t == "dict":
        return {"t": "dict", "odict": False, "v": [[spec_encode(T["key"], kk, b), spec_encode(T["val"], x, b)] for kk, x in V["v"]]}
    if t == "inst":
        fm = {f["name"]: f for f in T["fields"]}
        out = []
        for name, x in V["v"]:
            f = fm[name]
            if not f.get("to_dict", True):
                continue
            if f.get("enc") is not None:
                out.append([{"t": "str", "v": name}, cv(HOOKS[f["enc"]]((b or Built()).val(x)))])
            else:
                out.append([{"t": "str", "v": name}, spec_encode(f["ty"], x, b)])
        return {"t": "dict", "odict": False, "v": out}
    raise ValueError(t)


def sort_set_lists(T, V, J):
    """Lists that come from sets have no prescribed order: sort them (in the expectation and in the observation alike)."""
    k, t = T["k"], V["t"]
    if not isinstance(J, dict) or "v" not in J or not isinstance(J["v"], list):
        return J
    if k == "opt":
        return J if t == "none" else sort_set_lists(T["inner"], V, J)
    if t == "set" and J.get("t") == "list":
        return dict(J, v=sorted(J["v"], key=skey))
    if t in ("list", "tuple") and J.get("t") == "list" and len(J["v"]) == len(V["v"]):
        items = T["items"] if k == "tuple" else [T["item"]] * len(V["v"])
        return dict(J, v=[sort_set_lists(ti, x, j) for ti, x, j in zip(items, V["v"], J["v"])])
    if t == "dict" and J.get("t") == "dict" and len(J["v"]) == len(V["v"]) and k == "dict":
        return dict(J, v=[[jk, sort_set_lists(T["val"], x, jv)] for (_, x), (jk, jv) in zip(V["v"], J["v"])])
    if t == "inst" and J.get("t") == "dict" and k == "dc":
        fm = {f["name"]: f for f in T["fields"]}
        vals = dict((n, x) for n, x in V["v"])
        out = []
        for jk, jv in J["v"]:
            n = jk.get("v")
            f = fm.get(n)
            out.append([jk, sort_set_lists(f["ty"], vals[n], jv) if f is not None and f.get("enc") is None and n in vals else jv])
        return dict(J, v=out)
    return J


# ------------------------------------------------------------------------------------------------


def pair_hooks(T):
    """Give every field that has an encoding_fn a decoding_fn that can read what the encoder wrote (so that the plain
    dict handed to from_dict is one from_dict can decode)."""
    T = dict(T)
    for sub in ("item", "inner", "key", "val"):
        if sub in T:
            T[sub] = pair_hooks(T[sub])
    if "items" in T:
        T["items"] = [pair_hooks(t) for t in T["items"]]
    if "alts" in T:
        T["alts"] = [pair_hooks(t) for t in T["alts"]]
    if "fields" in T:
        fs = []
        for f in T["fields"]:
            f = dict(f, ty=pair_hooks(f["ty"]))
            if f.get("enc") is not None:
                f["dec"] = B.DEC_FOR_ENC.get(f["enc"], 22)
            fs.append(f)
        T["fields"] = fs
    return T


def gen(rng, tier):
    quick = tier == "quick"
    n = 330 if quick else 12000
    for i in range(n):
        ctx = Ctx(rng, allow_tuple_keys=(rng.random() < 0.15), allow_hooks=True, allow_hidden=True)
        depth = rng.choice([0, 1, 1, 2, 2, 3 if not quick else 2])
        T = gen_class(ctx, depth, base=rng.choice(["Serializable", "Serializable", "Frozen", "plain"]))
        if not B._has_tuple_key(T):
            T = add_node_hooks(rng, T)
        x = gen_value(rng, T)
        yield {"op": "ser.todict", "case": {"ty": T, "x": x}}
        if i % 2 == 0 and not B._has_tuple_key(T):
            extra = rng.random() < 0.3
            yield {"op": "ser.decode", "case": {"kind": "purity", "ty": pair_hooks(T), "x": x, "extra": extra,
                                                "drop": rng.random() < 0.3, "method": rng.random() < 0.7}}
    # dicts that carry `_type_` entries (to_dict(save_dc_types=True)), classes living in a real generated module
    for _ in range(90 if quick else 2000):
        T, x, src = B.gen_src_case(rng, rng.choice([0, 1, 1, 2, 2]))
        if B._has_tuple_key(T):
            continue
        yield {"op": "ser.typed", "model": False, "case": {"ty": T, "x": x, "src": src}}
    # sets whose iteration order depends on insertion order (hash collisions modulo the table size)
    for elems in ([0, 8], [8, 16, 0], [1, 9], [0, 8, 16, 24, 32]) if not quick else ([0, 8], [8, 16, 0]):
        T = B.T_("dc", cls="K1", base="Serializable", reg=True, fields=[
            {"name": "st", "ty": B.T_("set", item=B.T_("int")), "to_dict": True, "enc": None, "dec": None, "default": None}])
        yield {"op": "ser.todict", "case": {"ty": T, "x": {"t": "inst", "cls": "K1", "v": [["st", {"t": "set", "v": [B.V_int(e) for e in elems]}]]}}}


# ------------------------------------------------------------------------------------------------
# real code


def mutable_nodes(v, acc=None, path="x"):
    """(path, object) for every mutable node reachable from v: lists, dicts, sets, dataclass instances."""
    acc = acc if acc is not None else []
    if isinstance(v, (list, tuple)):
        if isinstance(v, list):
            acc.append((path, v))
        for i, x in enumerate(v):
            mutable_nodes(x, acc, f"{path}[{i}]")
    elif isinstance(v, (set, frozenset)):
        if isinstance(v, set):
            acc.append((path, v))
        for x in v:
            mutable_nodes(x, acc, path + "{}")
    elif isinstance(v, dict):
        acc.append((path, v))
        for k, x in v.items():
            mutable_nodes(k, acc, path + ".key")
            mutable_nodes(x, acc, f"{path}[{k!r}]")
    elif dataclasses.is_dataclass(v) and not isinstance(v, type):
        acc.append((path, v))
        for f in dataclasses.fields(v):
            mutable_nodes(getattr(v, f.name), acc, f"{path}.{f.name}")
    return acc


def nonprim_nodes(d, acc=None, path="d"):
    """Every node of the output that is not exactly dict / list / str / int / float / bool / None."""
    acc = acc if acc is not None else []
    if type(d) not in PRIMS:
        acc.append({"path": path, "py": type(d).__name__})
    if isinstance(d, dict):
        for k, x in d.items():
            if type(k) not in (str, int, float, bool, type(None)):
                acc.append({"path": path + ".key", "py": type(k).__name__})
            nonprim_nodes(x, acc, f"{path}[{k!r}]")
    elif isinstance(d, (list, tuple, set, frozenset)):
        for i, x in enumerate(d):
            nonprim_nodes(x, acc, f"{path}[{i}]")
    return acc


def poke(node):
    """An in-place change of a mutable node."""
    if isinstance(node, list):
        node.append("__poke__")
    elif isinstance(node, set):
        node.add("__poke__")
    elif isinstance(node, dict):
        node["__poke__"] = 1
    elif dataclasses.is_dataclass(node):
        for f in dataclasses.fields(node):
            try:
                object.__setattr__(node, f.name, "__poke__")
            except Exception:  # noqa: BLE001
                pass
            break


def build_reversed(b: Built, V):
    """The same instance built with sets / dicts filled in the opposite order (equal, differently built)."""
    t = V["t"]
    if t == "set":
        s = set()
        for x in reversed(V["v"]):
            s.add(build_reversed(b, x))
        return s
    if t == "dict":
        d = {}
        for k, x in reversed(V["v"]):
            d[build_reversed(b, k)] = build_reversed(b, x)
        return d
    if t == "list":
        return [build_reversed(b, x) for x in V["v"]]
    if t == "tuple":
        return tuple(build_reversed(b, x) for x in V["v"])
    if t == "inst":
        return b.classes[V["cls"]](**{f[0]: build_reversed(b, f[1]) for f in V["v"]})
    return b.val(V)


def _run(fn):
    try:
        with warnings.catch_warnings():
            warnings.simplefilter("ignore")
            return {"o": "ok"}, fn()
    except Exception as e:  # noqa: BLE001
        return {"o": "raise", "exc": type(e).__name__}, None


def add_extra_keys(T, V, J):
    """An unknown key at the top level and in every directly nested instance dict (not below hooked fields)."""
    if T["k"] == "opt":
        return J if V["t"] == "none" else add_extra_keys(T["inner"], V, J)
    if T["k"] != "dc" or V["t"] != "inst" or J.get("t") != "dict":
        return J
    fm = {f["name"]: f for f in T["fields"]}
    vals = dict((n, x) for n, x in V["v"])
    out = []
    for jk, jv in J["v"]:
        f = fm.get(jk.get("v"))
        if f is not None and f.get("enc") is None and f.get("dec") is None:
            jv = add_extra_keys(f["ty"], vals[f["name"]], jv)
        out.append([jk, jv])
    out.append([{"t": "str", "v": "zz_extra"}, {"t": "list", "v": [B.V_int(1)]}])
    return dict(J, v=out)


def count_type_keys(d):
    if isinstance(d, dict):
        return int("_type_" in d) + sum(count_type_keys(v) for v in d.values())
    if isinstance(d, (list, tuple)):
        return sum(count_type_keys(v) for v in d)
    return 0


def _impl_typed(c, b):
    """from_dict on a dict written with save_dc_types=True: argument untouched, loading twice gives the same."""
    from simple_parsing.helpers.serialization import serializable as S

    cls = b.ty(c["ty"])
    x = b.val(c["x"])
    o0, d = _run(lambda: S.to_dict(x, save_dc_types=True))
    if o0["o"] != "ok":
        return {"out": o0, "stage": "to_dict"}
    snap = copy.deepcopy(d)
    obs = {"n_type_keys": count_type_keys(d), "stage": "from_dict"}
    o1, r1 = _run(lambda: S.from_dict(cls, d))
    obs["unchanged_1"] = d == snap and count_type_keys(d) == obs["n_type_keys"]
    o2, r2 = _run(lambda: S.from_dict(cls, d))
    obs["unchanged_2"] = d == snap and count_type_keys(d) == obs["n_type_keys"]
    obs["out"] = dict(o1, v=cv(r1, norm=True)) if o1["o"] == "ok" else o1
    obs["out2"] = dict(o2, v=cv(r2, norm=True)) if o2["o"] == "ok" else o2
    obs["same_twice"] = bool(o1 == o2 and (o1["o"] != "ok" or (r1 == r2 and type(r1) is type(r2))))
    if o1["o"] == "ok":
        ids = {id(n): p for p, n in mutable_nodes(d)}
        obs["alias"] = [{"out": p, "in": ids[id(n)]} for p, n in mutable_nodes(r1) if id(n) in ids][:20]
        for _, node in mutable_nodes(r1):
            poke(node)
        obs["probe_out"] = d == snap
    return obs


def impl(case):
    if case["op"] == "ser.typed":
        import tempfile
        import os

        c = case["case"]
        with tempfile.TemporaryDirectory(prefix=f"spverif.{os.getpid()}.src.") as tmp:
            b = B.SrcBuilt(c["ty"], c["src"], tmp)
            try:
                return json.loads(json.dumps(_impl_typed(c, b)))
            finally:
                b.close()
    b = RecBuilt()
    obs = _impl(case, b)
    return json.loads(json.dumps(obs).replace(b.suffix, ""))


def _impl(case, b):
    import yaml
    from simple_parsing.helpers.serialization import serializable as S

    op, c = case["op"], case["case"]
    cls = b.ty(c["ty"])
    x = b.val(c["x"])
    if op == "ser.todict":
        before = cv(x, norm=True)
        b.calls.clear()
        o, d = _run(lambda: S.to_dict(x))
        obs = {"out": dict(o, v=cv(d)) if o["o"] == "ok" else o, "v_iter": cv(x, set_iter=True, meta=True),
               "enc_calls": dict(b.calls)}
        if o["o"] != "ok":
            return obs
        obs["nonprim"] = nonprim_nodes(d)[:20]
        in_ids = {id(n): p for p, n in mutable_nodes(x)}
        obs["alias"] = [{"out": p, "in": in_ids[id(n)]} for p, n in mutable_nodes(d) if id(n) in in_ids][:20]
        obs["json_ok"] = _run(lambda: json.dumps(d))[0]["o"] == "ok"
        obs["yaml_ok"] = _run(lambda: yaml.safe_dump(d))[0]["o"] == "ok"
        obs["x_unchanged"] = cv(x, norm=True) == before
        # equal instances serialize to equal output: same instance again, a deep copy, and an equal instance built in the
        # opposite insertion order
        d_again = S.to_dict(x)
        obs["same_again"] = d_again == d
        d_ids = {id(n): p for p, n in mutable_nodes(d)}
        obs["alias_again"] = [{"again": p, "first": d_ids[id(n)]} for p, n in mutable_nodes(d_again) if id(n) in d_ids][:20]
        o_cp, x_copy = _run(lambda: copy.deepcopy(x))
        obs["copy_same"] = True if o_cp["o"] != "ok" else bool(x_copy == x and S.to_dict(x_copy) == d)
        obs["n_mutable"] = {"out": len(d_ids), "in": len(in_ids)}
        x_rev = build_reversed(b, c["x"])
        obs["rev_equal"] = bool(x_rev == x)
        d_rev = S.to_dict(x_rev)
        obs["rev_same"] = d_rev == d
        obs["rev_out"] = cv(d_rev)
        # mutation probes: change every mutable node of the output -> the instance must not change
        for _, node in mutable_nodes(d):
            poke(node)
        obs["probe_out"] = cv(x, norm=True) == before
        # and the other way round, on a fresh pair
        x2 = b.val(c["x"])
        d2 = S.to_dict(x2)
        snap = cv(d2)
        for _, node in mutable_nodes(x2):
            poke(node)
        obs["probe_in"] = cv(d2) == snap
        return obs
    if op == "ser.decode":
        raw_spec = spec_encode(c["ty"], c["x"], b)
        if c.get("extra"):
            raw_spec = add_extra_keys(c["ty"], c["x"], raw_spec)
        raw = b.val(raw_spec)
        snap = cv(raw)
        b.calls.clear()
        kw = {"drop_extra_fields": True} if c.get("drop") else {}
        if isinstance(x, S.SerializableMixin) and c.get("method", True):
            o, r = _run(lambda: cls.from_dict(raw, **kw))      # the classmethod form
        else:
            o, r = _run(lambda: S.from_dict(cls, raw, **kw))
        obs = {"out": dict(o, v=cv(r)) if o["o"] == "ok" else o, "raw_iter": cv(raw, set_iter=True), "raw_spec": raw_spec,
               "dec_calls": {k: v for k, v in b.calls.items() if k.endswith(".dec")}}
        obs["raw_unchanged"] = cv(raw) == snap
        if o["o"] == "ok":
            raw_ids = {id(n): p for p, n in mutable_nodes(raw)}
            obs["alias"] = [{"out": p, "in": raw_ids[id(n)]} for p, n in mutable_nodes(r) if id(n) in raw_ids][:20]
            hooks = []
            for f in c["ty"]["fields"]:
                if f.get("dec") is not None and f.get("to_dict", True) and isinstance(raw, dict) and f["name"] in raw:
                    eo, ev = _run(lambda f=f: HOOKS[f["dec"]](copy.deepcopy(raw[f["name"]])))
                    if eo["o"] == "ok":
                        hooks.append({"name": f["name"], "exp": cv(ev), "got": cv(getattr(r, f["name"], None))})
            obs["hooks"] = hooks
            obs["hidden"] = [{"name": f["name"], "exp": f["default"], "got": cv(getattr(r, f["name"], None))}
                             for f in c["ty"]["fields"] if not f.get("to_dict", True) and f.get("default") is not None]
            for _, node in mutable_nodes(r):
                poke(node)
            obs["probe_out"] = cv(raw) == snap
        return obs
    raise ValueError(op)


def model_case(case, obs):
    op, c = case["op"], case["case"]
    if op == "ser.todict":
        return B._line_safe({"x": obs["v_iter"]})
    return B._line_safe({"ty": c["ty"], "raw": obs["raw_iter"]})


def project(case, obs):
    return B._line_safe(obs["out"])      # see c05._LINE_SAFE: the driver's line protocol and U+0085 / U+2028 / U+2029


def model_unmodelled(mo):
    return isinstance(mo, dict) and mo.get("o") == "unmodelled"


# ------------------------------------------------------------------------------------------------
# the property itself


def oracle(case, obs):
    op, c = case["op"], case["case"]
    fails = []
    T = c["ty"]
    if op == "ser.typed":
        if obs.get("stage") == "to_dict":
            return [{"clause": "to_dict-raises", "detail": f"to_dict(save_dc_types=True) raised {obs['out'].get('exc')}"}]
        if not obs["unchanged_1"] or not obs["unchanged_2"] or not obs.get("probe_out", True):
            fails.append({"clause": "from_dict-pure", "detail": f"from_dict changed its argument (a dict with {obs['n_type_keys']} _type_ "
                          f"entries): equal to its deep copy after 1st call={obs['unchanged_1']}, after 2nd={obs['unchanged_2']}, "
                          f"after mutating the result={obs.get('probe_out')}"})
        if not obs["same_twice"]:
            fails.append({"clause": "from_dict-repeatable", "detail": f"loading the same dict twice gave {B.canon_short(obs['out'])} then "
                                                                       f"{B.canon_short(obs['out2'])}"})
        if obs.get("alias"):
            fails.append({"clause": "from_dict-no-aliasing", "detail": f"result shares {obs['alias'][:3]} with the argument"})
        return fails
    if op == "ser.todict":
        if obs["out"]["o"] != "ok":
            return [{"clause": "to_dict-raises", "detail": f"to_dict raised {obs['out'].get('exc')}"}]
        if obs["nonprim"]:
            fails.append({"clause": "primitives-only", "nodes": obs["nonprim"],
                          "detail": f"non-primitive node(s) in the output: {obs['nonprim'][:3]}"})
        if not obs["json_ok"] or not obs["yaml_ok"]:
            fails.append({"clause": "writers-accept", "detail": f"json.dumps ok={obs['json_ok']} yaml.safe_dump ok={obs['yaml_ok']}",
                          "nodes": obs["nonprim"]})
        if obs.get("alias_again"):
            fails.append({"clause": "no-aliasing", "detail": f"two calls of to_dict share mutable nodes {obs['alias_again'][:3]} (the "
                                                             f"structure is not fresh)"})
        if not obs.get("copy_same", True):
            fails.append({"clause": "functional", "detail": "a deep copy of the instance (equal to it) serializes differently",
                          "out": obs["out"]["v"], "rev_out": obs["out"]["v"], "copy": True})
        if obs["alias"] or not obs["probe_out"] or not obs["probe_in"]:
            fails.append({"clause": "no-aliasing", "detail": f"alias pairs {obs['alias'][:3]} probe_out={obs['probe_out']} probe_in={obs['probe_in']}"})
        if not obs["x_unchanged"]:
            fails.append({"clause": "pure", "detail": "to_dict modified the instance"})
        eb = Built()
        eb.declare(T)
        exp = sort_set_lists(T, c["x"], spec_encode(T, c["x"], eb))
        got = sort_set_lists(T, c["x"], obs["out"]["v"])
        if B.strip_odict(exp) != B.strip_odict(got):
            fails.append({"clause": "content", "detail": f"to_dict output differs from: fields marked to_dict=False omitted, encoding_fn on its "
                                                         f"field only, primitives elsewhere; expected {B.canon_short(exp)} got {B.canon_short(got)}",
                          "exp": exp, "got": got})
        exp_calls = expected_calls(T, c["x"], "enc")
        if obs.get("enc_calls") != exp_calls:
            fails.append({"clause": "hook-called-once", "detail": f"encoding_fn calls during one to_dict: {obs.get('enc_calls')}, expected "
                                                                  f"{exp_calls} (once per written field that carries one)"})
        if not obs["same_again"] or (obs["rev_equal"] and not obs["rev_same"]):
            fails.append({"clause": "functional", "detail": f"equal instances gave different output: again={obs['same_again']} "
                                                            f"reversed-build equal={obs['rev_equal']} same output={obs['rev_same']}",
                          "out": obs["out"]["v"], "rev_out": obs["rev_out"]})
    else:
        if not obs["raw_unchanged"] or not obs.get("probe_out", True):
            fails.append({"clause": "from_dict-pure", "detail": f"from_dict changed its argument (unchanged={obs['raw_unchanged']}, "
                                                                f"after mutating the result={obs.get('probe_out')}, outcome "
                                                                f"{obs['out']['o']})"})
        if obs["out"]["o"] != "ok":
            return fails   # decoding failures of lossy annotations are C05's subject; purity was looked at above
        if obs.get("alias"):
            fails.append({"clause": "from_dict-no-aliasing", "detail": f"result shares {obs['alias'][:3]} with the argument"})
        exp_calls = expected_calls(T, c["x"], "dec")
        if obs.get("dec_calls") != exp_calls:
            fails.append({"clause": "decoding-hook", "detail": f"decoding_fn calls during one from_dict: {obs.get('dec_calls')}, expected "
                                                               f"{exp_calls} (once per present field that carries one, whatever the raw value)"})
        for h in obs.get("hooks", []):
            if h["exp"] != h["got"]:
                fails.append({"clause": "decoding-hook", "detail": f"field {h['name']}: decoding_fn result {h['exp']} but got {h['got']}"})
        for h in obs.get("hidden", []):
            if B.norm_v(h["exp"]) != B.norm_v(h["got"]) and B.strip_odict(B.norm_v(h["exp"])) != B.strip_odict(B.norm_v(h["got"])):
                fails.append({"clause": "hidden-default", "detail": f"field {h['name']} (to_dict=False) is {h['got']}, default {h['exp']}"})
    return fails


def n_marked(T):
    n = 0
    for f in T.get("fields", []):
        n += (not f.get("to_dict", True)) + (f.get("enc") is not None) + (f.get("dec") is not None)
        if f["ty"]["k"] == "dc":
            n += n_marked(f["ty"])
    return n


def nontrivial(case, obs):
    T = case["case"]["ty"]
    if case["op"] == "ser.typed":
        return obs.get("n_type_keys", 0) >= 1 and obs["out"]["o"] == "ok"
    return (len(T["fields"]) >= 2 or type_depth(T) >= 2) and (n_marked(T) >= 1 or type_depth(T) >= 2)


def tags(case, obs):
    T = case["case"]["ty"]
    t = [f"op:{case['op']}", f"marked:{min(n_marked(T), 4)}", f"depth:{type_depth(T)}"]
    if has_kind(T, lambda u: u["k"] == "dc" and any((f.get("enc") is not None) and has_kind(f["ty"], lambda w: w["k"] == "dc")
                                                    for f in u["fields"])):
        t.append("hook-on-dataclass-field")
    if has_kind(T, lambda u: u["k"] == "dc" and any((not f.get("to_dict", True)) and has_kind(f["ty"], lambda w: w["k"] == "dc")
                                                    for f in u["fields"])):
        t.append("hidden-dataclass-field")
    t += [f"kind:{k}" for k in sorted(type_kinds(T))]
    t.append("out:" + (obs["out"]["o"] if obs["out"]["o"] == "ok" else "raise:" + str(obs["out"].get("exc"))))
    if case["op"] == "ser.typed":
        t.append(f"type-keys:{min(obs.get('n_type_keys', 0), 3)}")
    if case["op"] == "ser.todict" and obs["out"]["o"] == "ok":
        nm = obs.get("n_mutable", {"out": 0, "in": 0})
        t.append("mutable-nodes-out:" + ("0" if nm["out"] == 0 else ("1-3" if nm["out"] <= 3 else "4+")))
        t.append("mutable-nodes-in:" + ("0" if nm["in"] == 0 else ("1-3" if nm["in"] <= 3 else "4+")))
        t.append("rev-equal" if obs["rev_equal"] else "rev-differs")
        if _has_set_value(case["case"]["x"]) or _has_multi_dict(case["case"]["x"]):
            t.append("rev-differs-build")
        if has_kind(T, lambda u: u["k"] == "dc" and any(f.get("enc") == 14 for f in u["fields"])):
            t.append("enc-returns-none")
        if B.has_odict(case["case"]["x"]):
            t.append("ordereddict")
        if '"mapping"' in json.dumps(case["case"]["x"]):
            t.append("mapping-subclass")
    if case["op"] == "ser.decode":
        if case["case"].get("extra"):
            t.append("extra-key")
        if case["case"].get("drop"):
            t.append("drop_extra_fields=True")
        if any(f.get("dec") is not None and f.get("to_dict", True) and x[1]["t"] == "none"
               for f, x in zip(T["fields"], case["case"]["x"]["v"]) if f.get("enc") is None):
            t.append("dec-on-none")
    return t


def shrink(case):
    c = case["case"]
    T, x = c["ty"], c["x"]
    for i in range(len(T["fields"])):
        if len(T["fields"]) <= 1:
            break
        yield {"op": case["op"], "case": dict(c, ty=dict(T, fields=T["fields"][:i] + T["fields"][i + 1:]),
                                              x=dict(x, v=x["v"][:i] + x["v"][i + 1:]))}
    for i, f in enumerate(x["v"]):
        v = f[1]
        if v["t"] in ("list", "set", "dict") and len(v["v"]) > 1:
            for j in range(len(v["v"])):
                v2 = dict(v, v=v["v"][:j] + v["v"][j + 1:])
                yield {"op": case["op"], "case": dict(c, x=dict(x, v=x["v"][:i] + [[f[0], v2]] + x["v"][i + 1:]))}


# ------------------------------------------------------------------------------------------------
# open findings


def _has_set_value(V):
    t = V["t"]
    if t == "set":
        return len(V["v"]) >= 2 or any(_has_set_value(x) for x in V["v"])
    if t in ("list", "tuple"):
        return any(_has_set_value(x) for x in V["v"])
    if t == "dict":
        return any(_has_set_value(k) or _has_set_value(x) for k, x in V["v"])
    if t == "inst":
        return any(_has_set_value(f[1]) for f in V["v"])
    return False


def _ms(j):
    """canonical tree with lists compared as multisets and dicts order-insensitively"""
    if isinstance(j, dict) and j.get("t") in ("list", "tuple"):
        return dict(j, v=sorted((_ms(x) for x in j["v"]), key=lambda y: json.dumps(y, sort_keys=True)))
    if isinstance(j, dict) and j.get("t") == "dict":
        return dict(j, v=sorted(([_ms(k), _ms(x)] for k, x in j["v"]), key=lambda y: json.dumps(y, sort_keys=True)))
    return j


def _has_multi_dict(V):
    t = V["t"]
    if t == "dict":
        return len(V["v"]) >= 2 or any(_has_multi_dict(x) for _, x in V["v"])
    if t in ("list", "tuple", "set"):
        return any(_has_multi_dict(x) for x in V["v"])
    if t == "inst":
        return any(_has_multi_dict(f[1]) for f in V["v"])
    return False


def f_set_order(case, obs, fail):
    """Only the 'equal instances, equal output' clause fails, the instance holds a set with >= 2 elements, the same
    instance serialized twice agrees, and the two outputs are equal once lists are compared as multisets."""
    if fail.get("clause") != "functional" or not obs.get("same_again") or not _has_set_value(case["case"]["x"]):
        return False

    def ms(j):
        if isinstance(j, dict) and j.get("t") == "list":
            return dict(j, v=sorted((ms(x) for x in j["v"]), key=lambda y: json.dumps(y, sort_keys=True)))
        if isinstance(j, dict) and j.get("t") == "dict":
            return dict(j, v=sorted(([ms(k), ms(x)] for k, x in j["v"]), key=lambda y: json.dumps(y, sort_keys=True)))
        return j
    return ms(B.strip_odict(fail["out"])) == ms(B.strip_odict(fail["rev_out"]))


def f_tuple_key(case, obs, fail):
    """Non-primitive nodes are exactly tuples, and the class has a Dict annotated with tuple keys (encode_dict's
    list-of-pairs fallback for unhashable encoded keys)."""
    if fail.get("clause") == "functional":
        # the list of (key, value) pairs follows the dict's insertion order, which dict equality ignores
        return (bool(obs.get("same_again")) and B._nonempty_tuple_key_dict(case["case"]["ty"], case["case"]["x"])
                and _ms(B.strip_odict(fail["out"])) == _ms(B.strip_odict(fail["rev_out"])))
    nodes = fail.get("nodes") or []
    if fail.get("clause") == "content":
        nodes = obs.get("nonprim") or []
    return (fail.get("clause") in ("primitives-only", "content") and bool(nodes) and all(n["py"] == "tuple" for n in nodes)
            and B._has_tuple_key(case["case"]["ty"]) and B._nonempty_tuple_key_dict(case["case"]["ty"], case["case"]["x"]))


FINDINGS = {
    "C13-set-iteration-order": f_set_order,
    "C13-tuple-key-dict-emits-tuples": f_tuple_key,
}

MANIFEST = {
    "text": ("Proof, partial. Lean theorems over the shared Serial model: to_dict of every value of the grammar - any nesting depth, any "
             "subset of fields hidden, any subset of written fields given an encoding_fn that answers primitives - succeeds and is made "
             "only of dict/list/str/int/float/bool/None (c13_prim_hooks; c13_prim hook-free), and json.dumps / yaml.safe_dump take it "
             "(c13_writers_accept); its keys are exactly the fields not marked to_dict=False in field order (c13_omit, c13_omit_total); "
             "a field's encoding_fn / decoding_fn is what produces that field's entry (c13_encoding_hook, c13_decoding_hook, also for "
             "instance-valued fields and a raw None) and ONLY that entry: the entries of the other fields are the same under any two "
             "hook environments (c13_hook_only_its_field, c13_decoding_env_independent); encode of an instance is to_dict of it "
             "(c13_encode_is_to_dict). Named gaps with witnesses and open findings: set iteration order (D15), tuple-keyed dicts emit "
             "tuples (an OrderedDict is written as a plain dict since 36b622d: inside c13_prim_hooks' grammar). SAMPLED only (real code + oracle, no theorem): equal instances serialize to equal output "
             "(same instance twice, deep copy, reversed build), freshness / no-aliasing and purity of from_dict are checked on the real code by id()-based "
             "alias detection and mutation probes on every mutable node (not modelled in Lean)."),
    "note": ("Trusted: Lean kernel + propext/Classical.choice/Quot.sound; json, PyYAML, copy; the harness. Modelled not verified: "
             "encoding.py:61-141, serializable.py:707-908, fields.py:111-120. Object identity is not part of the Lean model: the aliasing "
             "clauses rest on the structure walk of real outputs. Outside the grammar and not generated: a frozenset held by a Set field survives "
             "(deepcopy fallback) and Any-typed fields alias from_dict's argument."),
    "technique": "Lean 4 induction over values / field lists + differential correspondence + id()-based alias walk and mutation probes",
    "design_ref": "DESIGN.md section 5, C13",
}
